-- Root of the `Nq` library: models and property theorems.
import Nq.Basic
import Nq.SmtpOut
import Nq.SmtpIn
