/- Driver for C06: compares the real qmail-remote blast() with `rblast` and evaluates the
   property oracle on the implementation's output. Input lines: `<chunk> <in> <O|P|T> <out>` -/
import Drv.Util
import Nq.SmtpOut
import Nq.SmtpIn
import Nq.Spec.Wire

open Nq Nq.SmtpOut Nq.SmtpIn Nq.Wire Drv

/-- the property, evaluated on what the implementation transmitted for message `m` -/
def oracleC06 (m out : Bytes) : Bool :=
  termOnce out && noBareLF out && linesStuffed out &&
  dblast out == .accepted (canon m) [] && rfcDecode out == .accepted (canon m) []

/-- does some line (LF-separated) start with a dot? `prev` is the previous byte -/
def dotAtLineStart : Byte → Bytes → Bool
  | _, [] => false
  | prev, c :: rest => (prev == LF && c == DOT) || dotAtLineStart c rest

def handle (st : Stats) (line : String) : IO Stats := do
  match fields line with
  | [chunk, inh, status, outh] =>
    match unhex inh, unhex outh with
    | some m, some out =>
      let h := hashBytes m
      let fresh := !st.seen.contains h
      let nontriv := m.contains CR || dotAtLineStart LF m
      let mut st := { st with cases := st.cases + 1, seen := st.seen.insert h,
                              nontrivial := st.nontrivial + (if fresh && nontriv then 1 else 0) }
      st := st.bump ("chunk" ++ chunk)
      st := st.bump ("status" ++ status)
      let model := rblast m
      let agree := match status, model with
        | "O", some e => e == out
        | "P", none => true
        | _, _ => false
      if !agree then
        let ms := match model with | some e => "O " ++ hex e | none => "P -"
        IO.println s!"DISAGREE in={inh} chunk={chunk} impl={status} {outh} model={ms}"
        st := { st with disagree := st.disagree + 1 }
      if status == "O" && !oracleC06 m out then
        IO.println s!"ORACLE in={inh} chunk={chunk} out={outh} decoded_differs_or_terminator_or_bare_lf"
        st := { st with oracle := st.oracle + 1 }
      if status == "T" then
        IO.println s!"ORACLE in={inh} chunk={chunk} out={outh} unexpected_exit"
        st := { st with oracle := st.oracle + 1 }
      if fresh && nontriv && st.samples < 3 && m.length ≥ 4 then
        IO.println s!"SAMPLE in={inh} chunk={chunk} status={status} out={outh}"
        st := { st with samples := st.samples + 1 }
      return st
    | _, _ => IO.println s!"DISAGREE unparsable line {line}"; return { st with disagree := st.disagree + 1 }
  | _ => IO.println s!"DISAGREE unparsable line {line}"; return { st with disagree := st.disagree + 1 }

def main : IO Unit := runDriver handle
