/- Driver for C06: compares the real qmail-remote blast() with `rblast` (pure encoder) and with `SmtpIO.oblast`
   (the same loop over the substdio model, run with the harness's read / write plans as scripts), and evaluates the
   property oracles on the implementation's output.
   Input lines: `<plan> <in> <O|P|R|D|T> <wire> <nwrites> <smtpto.p> <buffered>`   (plan = <rplan>[/<wplan>[/<ibuf>,<obuf>]], see Drv/SmtpPlan.lean) -/
import Drv.Util
import Drv.SmtpPlan
import Nq.SmtpOut
import Nq.SmtpIn
import Nq.SmtpIO
import Nq.Spec.Wire

open Nq Nq.SmtpOut Nq.SmtpIn Nq.Wire Drv Drv.SmtpPlan

/-- the property, evaluated on what the implementation transmitted for message `m` -/
def oracleC06 (m out : Bytes) : Bool :=
  termOnce out && noBareLF out && linesStuffed out &&
  dblast out == .accepted (canon m) [] && rfcDecode out == .accepted (canon m) []

/-- theorems C06_prefix_no_terminator / C06_chunking_no_early_end / C06_chunking_prefix, evaluated on what the socket had
taken (`wire`) and what was still buffered when `blast()` did NOT complete (refused message, failing read, dropped
connection): nothing but a prefix of the encoder's output has left the program, no bare LF, and no lone-dot line
(the peer must not see end-of-data) -/
def oracleIncomplete (m wire buffered : Bytes) : Bool :=
  (wire ++ buffered).isPrefixOf (rfull .top m) && noBareLF wire && !((splitCRLF wire).1.contains [DOT] && rblast m != some wire)

/-- does some line (LF-separated) start with a dot? `prev` is the previous byte -/
def dotAtLineStart : Byte → Bytes → Bool
  | _, [] => false
  | prev, c :: rest => (prev == LF && c == DOT) || dotAtLineStart c rest

/-- `<rplan>[/<wplan>[/<ibuf>,<obuf>]]` → read plan, write plan, sizes given to the two substdio -/
def splitPlan (tok : String) : Option (Plan × Plan × Nat × Nat) :=
  let full : Plan := { caps := #[some 0] }
  match tok.splitOn "/" with
  | [r] => (parsePlan r).map (fun p => (p, full, 1024, 1024))
  | [r, w] => match parsePlan r, parsePlan w with
      | some a, some b => some (a, b, 1024, 1024)
      | _, _ => none
  | [r, w, sz] => match parsePlan r, parsePlan w, sz.splitOn "," with
      | some a, some b, [x, y] => match x.toNat?, y.toNat? with
          | some i, some o => if 1 ≤ i && i ≤ 1024 && 1 ≤ o && o ≤ 1024 then some (a, b, i, o) else none
          | _, _ => none
      | _, _, _ => none
  | _ => none

def handle (sigs : SigRef) (st : Stats) (line : String) : IO Stats := do
  match fields line with
  | [chunk, inh, status, outh, nwS, pS, bufh] =>
    match unhex inh, unhex outh, unhex bufh, splitPlan chunk with
    | some m, some out, some buffered, some (rplan, wplan, ibuf, obuf) =>
      let h := hashBytes m
      let fresh := !st.seen.contains h
      let nontriv := m.contains CR || dotAtLineStart LF m
      let mut st := { st with cases := st.cases + 1, seen := st.seen.insert h,
                              nontrivial := st.nontrivial + (if fresh && nontriv then 1 else 0) }
      st := st.bump ("chunk" ++ rplan.cls ++ "/" ++ wplan.cls ++ (if ibuf == 1024 && obuf == 1024 then "" else "/smallbuf"))
      st := st.bump ("status" ++ status)
      let anyFail := rplan.hasFail || wplan.hasFail
      -- (1) the pure encoder
      let model := rblast m
      let agree := match status, model with
        | "O", some e => e == out
        | "P", none => out ++ buffered == rpart .top m          -- C06_chunking_anyscript, partialLine clause
        | "R", _ => rplan.hasFail
        | "D", _ => wplan.hasFail
        | _, _ => false
      if !agree then
        let ms := match model with | some e => "O " ++ hex e | none => "P " ++ hex (rpart .top m)
        IO.println s!"DISAGREE in={inh} chunk={chunk} impl={status} {outh} buffered={bufh} model={ms}"
        st := { st with disagree := st.disagree + 1 }
      -- (2) the loop over substdio with the plans as read / write scripts: same outcome, same bytes taken by the socket,
      --     same bytes left in smtptobuf, same number of write() calls
      -- (cost: `copyIn` appends to the buffered list and `flush` to the ghost wire list; expensive cases are sampled 1 in 4)
      let olen := out.length + buffered.length
      let wcost := olen * (obuf / 2 + 8) + olen * olen / obuf      -- buffer append per put + ghost `out` append per flush
      if rplan.cost m.length ibuf > costBudget || wcost > costBudget || (wcost > 3000000 && h % 4 != 0) then
        st := st.bump "chunked-model-skipped(cost)"
      else
        let rs := rplan.script (m.length + 4)
        let ws := wplan.script (out.length + buffered.length + 16)
        let res := Nq.SmtpIO.oblast (Nq.SmtpIO.istart ibuf m rs) (Nq.SmtpIO.ostart obuf ws)
        let o' := res.ost
        let cls := match res with | .sent _ => "O" | .partialLine _ => "P" | .tempRead _ => "R" | .dropped _ => "D"
        let cagree := cls == status && o'.out == out && o'.buf == buffered && pS.toNat? == some o'.p &&
                      nwS.toNat? == some (ws.length - o'.ws.length)
        if !cagree then
          IO.println s!"DISAGREE in={inh} chunk={chunk} chunked-model impl={status} {outh} buffered={bufh} nwrites={nwS} model={cls} {hex o'.out} buffered={hex o'.buf} nwrites={ws.length - o'.ws.length}"
          st := { st with disagree := st.disagree + 1 }
      -- (3) property oracles on the implementation's behaviour
      if status == "O" && !oracleC06 m out then
        IO.println s!"ORACLE in={inh} chunk={chunk} out={outh} decoded_differs_or_terminator_or_bare_lf"
        st := { st with oracle := st.oracle + 1 }
      if status == "O" && buffered != [] then
        IO.println s!"ORACLE in={inh} chunk={chunk} out={outh} buffered={bufh} blast_returned_with_unflushed_bytes"
        st := { st with oracle := st.oracle + 1 }
      if (status == "P" || status == "R" || status == "D") && !oracleIncomplete m out buffered then
        IO.println s!"ORACLE in={inh} chunk={chunk} impl={status} out={outh} buffered={bufh} incomplete_transmission_not_a_prefix_or_shows_end_of_data"
        st := { st with oracle := st.oracle + 1 }
      if status == "P" && (m.isEmpty || m.getLast? == some LF) then
        IO.println s!"ORACLE in={inh} chunk={chunk} impl={status} out={outh} complete_last_line_refused"
        st := { st with oracle := st.oracle + 1 }
      if status == "T" || (status == "R" && !rplan.hasFail) || (status == "D" && !wplan.hasFail) then
        IO.println s!"ORACLE in={inh} chunk={chunk} impl={status} out={outh} unexpected_exit"
        st := { st with oracle := st.oracle + 1 }
      -- chunk independence (C06_chunking_indep) on the implementation: same message, any non-failing plans => same outcome and wire
      if !anyFail then
        let sig := if status == "O" then s!"O {hashBytes out} {out.length}" else status
        match ← checkSig sigs h chunk sig with
        | some first =>
          IO.println s!"ORACLE in={inh} chunk={chunk} impl={status} out={outh} chunking-dependent: differs from the run under plan {first}"
          st := { st with oracle := st.oracle + 1 }
        | none => pure ()
      if fresh && nontriv && st.samples < 3 && m.length ≥ 4 then
        IO.println s!"SAMPLE in={inh} chunk={chunk} status={status} out={outh}"
        st := { st with samples := st.samples + 1 }
      return st
    | _, _, _, _ => IO.println s!"DISAGREE unparsable line {line}"; return { st with disagree := st.disagree + 1 }
  | _ => IO.println s!"DISAGREE unparsable line {line}"; return { st with disagree := st.disagree + 1 }

def main : IO Unit := do
  let sigs : SigRef ← IO.mkRef {}
  runDriver (handle sigs)
