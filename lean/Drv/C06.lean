/- Driver for C06: compares the real qmail-remote blast() with `rblast` (pure encoder) and with `SmtpIO.oblast`
   (the same loop over the substdio model, run with the harness's read / write plans as scripts), and evaluates the
   property oracles on the implementation's output.
   Input lines: `<plan> <in> <O|P|R|D|T> <wire> <nwrites> <smtpto.p> <buffered>`   (plan = <rplan>[/<wplan>[/<ibuf>,<obuf>]], see Drv/SmtpPlan.lean) -/
import Drv.Util
import Drv.SmtpPlan
import Nq.SmtpOut
import Nq.SmtpIn
import Nq.SmtpIO
import Nq.Spec.Wire
import Nq.SmtpEnv

open Nq Nq.SmtpOut Nq.SmtpIn Nq.Wire Drv Drv.SmtpPlan
open Nq.SmtpEnv (mangle cmdLine mailPre rcptPre dataCmd quitCmd heloCmd isOneLine cleanAddr quoteNeed lastAt hasCRLF crlfSpec)

/-- the property, evaluated on what the implementation transmitted for message `m` -/
def oracleC06 (m out : Bytes) : Bool :=
  termOnce out && noBareLF out && linesStuffed out &&
  dblast out == .accepted (canon m) [] && rfcDecode out == .accepted (canon m) []

/-- theorems C06_prefix_no_terminator / C06_chunking_no_early_end / C06_chunking_prefix, evaluated on what the socket had
taken (`wire`) and what was still buffered when `blast()` did NOT complete (refused message, failing read, dropped
connection): nothing but a prefix of the encoder's output has left the program, no bare LF, and no lone-dot line
(the peer must not see end-of-data) -/
def oracleIncomplete (m wire buffered : Bytes) : Bool :=
  (wire ++ buffered).isPrefixOf (rfull .top m) && noBareLF wire && !((splitCRLF wire).1.contains [DOT] && rblast m != some wire)

/-- does some line (LF-separated) start with a dot? `prev` is the previous byte -/
def dotAtLineStart : Byte → Bytes → Bool
  | _, [] => false
  | prev, c :: rest => (prev == LF && c == DOT) || dotAtLineStart c rest

/-- `<rplan>[/<wplan>[/<ibuf>,<obuf>]]` → read plan, write plan, sizes given to the two substdio -/
def splitPlan (tok : String) : Option (Plan × Plan × Nat × Nat) :=
  let full : Plan := { caps := #[some 0] }
  match tok.splitOn "/" with
  | [r] => (parsePlan r).map (fun p => (p, full, 1024, 1024))
  | [r, w] => match parsePlan r, parsePlan w with
      | some a, some b => some (a, b, 1024, 1024)
      | _, _ => none
  | [r, w, sz] => match parsePlan r, parsePlan w, sz.splitOn "," with
      | some a, some b, [x, y] => match x.toNat?, y.toNat? with
          | some i, some o => if 1 ≤ i && i ≤ 1024 && 1 ≤ o && o ≤ 1024 then some (a, b, i, o) else none
          | _, _ => none
      | _, _, _ => none
  | _ => none

/-- theorem C06_refused_canon as a predicate: the message is to be refused iff `canon m` is non-empty and does not end in LF -/
def refusedSpec (m : Bytes) : Bool := !(canon m).isEmpty && (canon m).getLast? != some LF

/-- envelope case `E <sender> <rcpt> <msg> <K|P|T> <seg,seg,…>`: the program's addrmangle() + smtp() against the scripted
server; seg = the bytes of one write() on the socket.  DISAGREE: the write()s are HELO, `cmdLine mailPre sender`,
`cmdLine rcptPre rcpt`, DATA, `rblast msg`, QUIT (nothing after DATA for a refused message).  ORACLE (theorem
C06_envelope_one_line on the implementation's output): the MAIL / RCPT write is exactly one line iff the address is
free of CR and LF; HELO and DATA are one line each. -/
def handleEnv (st : Stats) (line sh rh mh status segh : String) : IO Stats := do
  let segs? : Option (List Bytes) := if segh == "-" then some [] else (segh.splitOn ",").mapM unhex
  match unhex sh, unhex rh, unhex mh, segs? with
  | some s, some r, some m, some segs =>
    let mut st := { st with cases := st.cases + 1 }
    st := st.bump "env-cases"
    st := st.bump ("env-status" ++ status)
    if !cleanAddr s || !cleanAddr r then st := st.bump "env-address-with-CR-or-LF"
    if (match lastAt s with | some (b, _) => quoteNeed b | none => false) ||
       (match lastAt r with | some (b, _) => quoteNeed b | none => false) then st := st.bump "env-box-quoted"
    if lastAt s == none || lastAt r == none then st := st.bump "env-address-without-at"
    let pre := [heloCmd [104], cmdLine mailPre s, cmdLine rcptPre r, dataCmd]
    let (expSt, expSegs) := match rblast m with
      | some e => ("K", pre ++ [e, quitCmd])
      | none => ("P", pre)
    if expSt != status || expSegs != segs then
      IO.println s!"DISAGREE envelope sender={sh} rcpt={rh} msg={mh} impl={status} {segh} model={expSt} {",".intercalate (expSegs.map hex)}"
      st := { st with disagree := st.disagree + 1 }
    let seg (i : Nat) : Bytes := segs.getD i []
    let okLines := segs.length ≥ 4 && isOneLine (seg 0) && (isOneLine (seg 1) == cleanAddr s) &&
                   (isOneLine (seg 2) == cleanAddr r) && seg 3 == dataCmd
    if !okLines then
      IO.println s!"ORACLE envelope sender={sh} rcpt={rh} msg={mh} impl={status} segs={segh} envelope_command_not_one_line_for_a_clean_address_or_commands_missing"
      st := { st with oracle := st.oracle + 1 }
    -- theorem C06_envelope_crlf on the implementation's output: the address as it stands between "<" and ">CRLF" has a CR LF pair iff crlfSpec
    let mang (i : Nat) (pre : Bytes) : Bytes := (((seg i).drop pre.length).reverse.drop 3).reverse
    if segs.length ≥ 3 && (hasCRLF (mang 1 mailPre) != crlfSpec s || hasCRLF (mang 2 rcptPre) != crlfSpec r) then
      IO.println s!"ORACLE envelope sender={sh} rcpt={rh} msg={mh} impl={status} segs={segh} CRLF_pair_in_address_differs_from_spec"
      st := { st with oracle := st.oracle + 1 }
    if crlfSpec s || crlfSpec r then st := st.bump "env-CRLF-pair-copied-verbatim"
    if (hasCRLF s && !crlfSpec s) || (hasCRLF r && !crlfSpec r) then st := st.bump "env-CRLF-pair-escaped-in-box"
    if (status == "P") != refusedSpec m || status == "T" then
      IO.println s!"ORACLE envelope sender={sh} rcpt={rh} msg={mh} impl={status} refusal_differs_from_criterion"
      st := { st with oracle := st.oracle + 1 }
    if status == "K" && !(oracleC06 m (seg 4)) then
      IO.println s!"ORACLE envelope sender={sh} rcpt={rh} msg={mh} payload={hex (seg 4)} decoded_differs_or_terminator_or_bare_lf"
      st := { st with oracle := st.oracle + 1 }
    if st.samples < 5 && !cleanAddr s && s.length ≥ 4 && s.contains 64 then
      IO.println s!"SAMPLE envelope sender={sh} MAIL={hex (seg 1)}"
      st := { st with samples := st.samples + 1 }
    return st
  | _, _, _, _ => IO.println s!"DISAGREE unparsable line {line}"; return { st with disagree := st.disagree + 1 }

def handle (sigs : SigRef) (st : Stats) (line : String) : IO Stats := do
  match fields line with
  | ["E", sh, rh, mh, status, segh] => handleEnv st line sh rh mh status segh
  | [chunk, inh, status, outh, nwS, pS, bufh] =>
    match unhex inh, unhex outh, unhex bufh, splitPlan chunk with
    | some m, some out, some buffered, some (rplan, wplan, ibuf, obuf) =>
      let h := hashBytes m
      let fresh := !st.seen.contains h
      let nontriv := m.contains CR || dotAtLineStart LF m
      let mut st := { st with cases := st.cases + 1, seen := st.seen.insert h,
                              nontrivial := st.nontrivial + (if fresh && nontriv then 1 else 0) }
      st := st.bump ("chunk" ++ rplan.cls ++ "/" ++ wplan.cls ++ (if ibuf == 1024 && obuf == 1024 then "" else "/smallbuf"))
      st := st.bump ("status" ++ status)
      let anyFail := rplan.hasFail || wplan.hasFail
      -- (1) the pure encoder
      let model := rblast m
      let agree := match status, model with
        | "O", some e => e == out
        | "P", none => out ++ buffered == rpart .top m          -- C06_chunking_anyscript, partialLine clause
        | "R", _ => rplan.hasFail
        | "D", _ => wplan.hasFail
        | _, _ => false
      if !agree then
        let ms := match model with | some e => "O " ++ hex e | none => "P " ++ hex (rpart .top m)
        IO.println s!"DISAGREE in={inh} chunk={chunk} impl={status} {outh} buffered={bufh} model={ms}"
        st := { st with disagree := st.disagree + 1 }
      -- (2) the loop over substdio with the plans as read / write scripts: same outcome, same bytes taken by the socket,
      --     same bytes left in smtptobuf, same number of write() calls
      -- (cost: `copyIn` appends to the buffered list and `flush` to the ghost wire list; expensive cases are sampled 1 in 4)
      let olen := out.length + buffered.length
      let wcost := olen * (obuf / 2 + 8) + olen * olen / obuf      -- buffer append per put + ghost `out` append per flush
      if rplan.cost m.length ibuf > costBudget || wcost > costBudget || (wcost > 3000000 && h % 4 != 0) then
        st := st.bump "chunked-model-skipped(cost)"
      else
        let rs := rplan.script (m.length + 4)
        let ws := wplan.script (out.length + buffered.length + 16)
        let res := Nq.SmtpIO.oblast (Nq.SmtpIO.istart ibuf m rs) (Nq.SmtpIO.ostart obuf ws)
        let o' := res.ost
        let cls := match res with | .sent _ => "O" | .partialLine _ => "P" | .tempRead _ => "R" | .dropped _ => "D"
        let cagree := cls == status && o'.out == out && o'.buf == buffered && pS.toNat? == some o'.p &&
                      nwS.toNat? == some (ws.length - o'.ws.length)
        if !cagree then
          IO.println s!"DISAGREE in={inh} chunk={chunk} chunked-model impl={status} {outh} buffered={bufh} nwrites={nwS} model={cls} {hex o'.out} buffered={hex o'.buf} nwrites={ws.length - o'.ws.length}"
          st := { st with disagree := st.disagree + 1 }
      -- (3) property oracles on the implementation's behaviour
      if status == "O" && !oracleC06 m out then
        IO.println s!"ORACLE in={inh} chunk={chunk} out={outh} decoded_differs_or_terminator_or_bare_lf"
        st := { st with oracle := st.oracle + 1 }
      if status == "O" && buffered != [] then
        IO.println s!"ORACLE in={inh} chunk={chunk} out={outh} buffered={bufh} blast_returned_with_unflushed_bytes"
        st := { st with oracle := st.oracle + 1 }
      if (status == "P" || status == "R" || status == "D") && !oracleIncomplete m out buffered then
        IO.println s!"ORACLE in={inh} chunk={chunk} impl={status} out={outh} buffered={bufh} incomplete_transmission_not_a_prefix_or_shows_end_of_data"
        st := { st with oracle := st.oracle + 1 }
      if status == "P" && (m.isEmpty || m.getLast? == some LF) then
        IO.println s!"ORACLE in={inh} chunk={chunk} impl={status} out={outh} complete_last_line_refused"
        st := { st with oracle := st.oracle + 1 }
      -- theorem C06_refused_canon on the implementation: without a failing call, refused iff canon m is non-empty and does not end in LF
      if !anyFail && (status == "P") != refusedSpec m then
        IO.println s!"ORACLE in={inh} chunk={chunk} impl={status} out={outh} refusal_differs_from_criterion(canon_nonempty_and_not_ending_in_LF)"
        st := { st with oracle := st.oracle + 1 }
      if refusedSpec m then st := st.bump "refused-by-criterion" 
      if refusedSpec m && m.getLast? == some CR then st := st.bump "refused-ending-in-CR(even-run)"
      if status == "T" || (status == "R" && !rplan.hasFail) || (status == "D" && !wplan.hasFail) then
        IO.println s!"ORACLE in={inh} chunk={chunk} impl={status} out={outh} unexpected_exit"
        st := { st with oracle := st.oracle + 1 }
      -- chunk independence (C06_chunking_indep) on the implementation: same message, any non-failing plans => same outcome and wire
      if !anyFail then
        let sig := if status == "O" then s!"O {hashBytes out} {out.length}" else status
        match ← checkSig sigs h chunk sig with
        | some first =>
          IO.println s!"ORACLE in={inh} chunk={chunk} impl={status} out={outh} chunking-dependent: differs from the run under plan {first}"
          st := { st with oracle := st.oracle + 1 }
        | none => pure ()
      if fresh && nontriv && st.samples < 3 && m.length ≥ 4 then
        IO.println s!"SAMPLE in={inh} chunk={chunk} status={status} out={outh}"
        st := { st with samples := st.samples + 1 }
      return st
    | _, _, _, _ => IO.println s!"DISAGREE unparsable line {line}"; return { st with disagree := st.disagree + 1 }
  | _ => IO.println s!"DISAGREE unparsable line {line}"; return { st with disagree := st.disagree + 1 }

def main : IO Unit := do
  let sigs : SigRef ← IO.mkRef {}
  runDriver (handle sigs)
