/- Shared by the C05 and C06 drivers: the read / write plan token printed by harness/c05_blast.c and
   harness/c06_blast.c, turned into the read / write *script* of `Nq.Substdio` (the model of what the
   kernel answers to successive read() / write() calls).  Core Lean only.

   token := caps [ "@" skip ]        caps := cap { "," cap }        cap := <nat> | "e"
   The caps are used cyclically, one per call: 0 = no cap, e = the call fails (C05 also a, n, p: it fails with EAGAIN, EINTR,
   ECONNRESET instead of EIO - qmail-smtpd's saferead() ends the session on every error, so they mean the same to the model).
   (C06 read plans only) i = the call is interrupted (-1/EINTR, nothing transferred): substdio's `oneread` repeats the call,
   so for the model of what the kernel *delivers* the entry does not exist - it is dropped from the script. -/
import Drv.Util
import Nq.Substdio
import Std.Data.HashMap

namespace Drv.SmtpPlan
open Nq Nq.Substdio

structure Plan where
  caps : Array (Option Nat)     -- none = failing call
  skip : Nat := 0
  deriving Repr

def parseCaps (s : String) : Option (Array (Option Nat)) :=
  let toks := (s.splitOn ",").filter (· ≠ "")
  if toks.isEmpty || toks.all (· == "i") then none else
  toks.foldl (fun acc t => match acc with
    | none => none
    | some a => if t == "e" || t == "a" || t == "n" || t == "p" then some (a.push none) else if t == "i" then some a else match t.toNat? with
        | some n => some (a.push (some n))
        | none => none) (some #[])

def parsePlan (tok : String) : Option Plan :=
  match tok.splitOn "@" with
  | [c] => (parseCaps c).map (fun a => { caps := a })
  | [c, k] => match parseCaps c, k.toNat? with
      | some a, some n => some { caps := a, skip := n }
      | _, _ => none
  | _ => none

def Plan.hasFail (p : Plan) : Bool := p.caps.any (· == none)

/-- 0-based index of the first failing call of the plan (the caps are used cyclically from call 0) -/
def Plan.firstFail (p : Plan) : Option Nat := p.caps.findIdx? (· == none)

/-- "no cap": larger than any request -/
def BIG : Nat := 1073741824

/-- the first `count` answers of the plan as a `Nq.Substdio` script (`0` = the call fails,
`k+1` = transfer at most `k+1` bytes) -/
def Plan.script (p : Plan) (count : Nat) : List Nat :=
  (List.range count).map (fun k => match p.caps[k % p.caps.size]! with
    | none => 0
    | some 0 => BIG
    | some c => c)

/-- rough cost (list steps) of running the `Nq.Substdio` model over a stream of `len` bytes under this plan with a
`bufsize`-byte buffer: `oneread` computes `src.length` at every read(), so small caps on long streams are quadratic.
The drivers skip the composed-model comparison (not the oracles, not the pure-model comparison) above a budget. -/
def Plan.cost (p : Plan) (len bufsize : Nat) : Nat :=
  let minCap := p.caps.foldl (fun m c => match c with
    | some 0 => m | none => m | some c => min m c) bufsize
  len * len / (max 1 minCap)

def costBudget : Nat := 30000000

/-- a coarse class of the plan, for the input-distribution counters -/
def Plan.cls (p : Plan) : String :=
  let base := if p.hasFail then "fail" else
    if p.caps.size == 1 then (match p.caps[0]! with
      | some 0 => "full" | some 1 => "1" | some 2 => "2" | some 3 => "3" | some 7 => "7"
      | some 1023 => "1023" | some 1024 => "1024" | some 1025 => "1025" | some _ => "other" | none => "fail")
    else "mixed"
  if p.skip > 0 then base ++ "+prebuffered" else base

/-- the harness's `while (left > 0) substdio_get(&ssin, skipbuf, min(left,4096))` before `blast()`:
`none` = saferead made the process exit -/
def skipLoop : Nat → ISt → Nat → Option ISt
  | _, s, 0 => some s
  | 0, _, _ => none
  | fuel + 1, s, left + 1 =>
      match Substdio.get s (min (left + 1) 4096) with
      | (s', .got b) => skipLoop fuel s' (left + 1 - b.length)
      | _ => none

/-- per-stream signature of the first run seen, to compare the other chunkings of the same stream with.
(Created in `main` with `IO.mkRef`: a global `initialize`d ref would make every stored object shared, and
the map would be copied on each insertion.) -/
abbrev SigRef := IO.Ref (Std.HashMap UInt64 (String × String))

/-- `none` = first time or same signature; `some first` = differs from the run under plan `first` -/
def checkSig (r : SigRef) (key : UInt64) (plan sig : String) : IO (Option String) :=
  r.modifyGet fun m => match m[key]? with
    | none => (none, m.insert key (plan, sig))
    | some (p0, s0) => (if s0 == sig then none else some p0, m)

end Drv.SmtpPlan
