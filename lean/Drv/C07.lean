/- Driver for C07: the real qmail-qmtpd / qmail-qmqpd / qmail-smtpd (with the real qmail.c and a stand-in queue
   program) against the models of Nq/Netstring.lean, Nq/QmailC.lean, Nq/Received.lean.
   Input lines (harness/c07_common.h):
     <P> <databytes|-1> <time> <host> <ip> <info> <lhost> <lip> <relay> <qqscript> <wfault> <chunk> <payload…>
        = <exit> <out> <pids> <nrec> (<fd0> <fd1>)*
   DISAGREE: model ≠ implementation.  ORACLE: the property predicate (Nq/Spec/C07.lean) fails on what the
   implementation did.
   Protocol letter T: a raw SMTP connection (payload = the client's bytes); letters S and T are both compared with the COMPOSED model
   Nq.SmtpC07.run (C08's command loop + C07's smtp_data / qmail.c / qmail_close verdict), T is judged by the session oracle `sessOracle`.
   Real-queue leg (protocol letter in lower case): the queue program was the real qmail-queue.c; the line goes on with
        + <nruns> (<exit|-1> <committed> <mess file> <todo file>)* <stray todo entries>
   and is judged twice: as above on the two pipes (with the exit statuses qmail-queue produced), and once more with the
   QUEUE DIRECTORY in the place of the pipes ("view=queue-directory"): a message counts as queued iff todo/<inode> exists,
   its content is the mess file behind qmail-queue's own trace line, its envelope the todo file.  -/
import Drv.Util
import Nq.Netstring
import Nq.Spec.C07
import Nq.SmtpC07
import Nq.Spec.SmtpPolicy
import Nq.Spec.SmtpPolicyDoc
import Nq.Spec.CmdLine

open Nq Nq.QmailC Nq.Received Nq.Netstring Drv
open Nq.Spec.C07 (Req Cls qqClass Queued NotQueued receivedSpec)

def optHex (s : String) : Option (Option Bytes) :=
  if s == "~" then some none else (unhex s).map some

def rcpthostsFile : List Bytes := [str "ok.example", str ".sub.example", str "localhost"]

structure Case where
  proto : String
  databytes : Nat
  now : Nat
  peer : Peer
  relay : Option Bytes
  ends : List QEnd
  wleft : Option Nat
  chunk : Nat
  pay : List String
  -- observed
  exit : Int
  out : Bytes
  pids : List Nat
  recs : List (Bytes × Bytes)
  key : String
  queueView : Bool := false        -- `recs` / `ends` describe the queue directory (real-queue leg), not the pipes
  real : List (Int × Bool × Bytes × Bytes) := []   -- real-queue leg: per run (exit status, committed, mess file, todo file)
  strays : Nat := 0

def parseEnds (s : String) : Option (List QEnd) :=
  (s.splitOn ";").mapM (fun e =>
    match e.splitOn "," with
    | [c, sg, hx] => do
      let t ← unhex hx
      some { exit := c.toNat?.getD 0, crashed := sg.toNat?.getD 0 != 0, text := t }
    | _ => none)

def normDatabytes (d : Int) : Nat :=
  if d < 0 then 0 else
  let u := d.toNat % 4294967296
  if u = 4294967295 then u - 1 else u

def pairUp : List String → Option (List (Bytes × Bytes))
  | [] => some []
  | a :: b :: r => do
    let x ← unhex a; let y ← unhex b; let t ← pairUp r
    some ((x, y) :: t)
  | _ => none

def parseCase (line : String) : Option Case := do
  let fs := fields line
  let i ← fs.idxOf? "="
  let pre := fs.take i
  let post0 := fs.drop (i + 1)
  let (post, realPart) := match post0.idxOf? "+" with
    | some j => (post0.take j, post0.drop (j + 1))
    | none => (post0, [])
  guard (pre.length ≥ 13 ∧ post.length ≥ 4)
  let g := fun k => pre.getD k ""
  let host ← optHex (g 3); let ip ← optHex (g 4); let info ← optHex (g 5)
  let lhost ← optHex (g 6); let lip ← optHex (g 7); let relay ← optHex (g 8)
  let ends ← parseEnds (g 9)
  let wf := (g 10).toInt?.getD (-1)
  let out ← unhex (post.getD 1 "")
  let pids := if post.getD 2 "-" == "-" then [] else ((post.getD 2 "").splitOn ",").map (fun p => p.toNat?.getD 0)
  let nrec := (post.getD 3 "0").toNat?.getD 0
  let recs ← pairUp (post.drop 4)
  guard (recs.length = nrec)
  let nruns := (realPart.getD 0 "0").toNat?.getD 0
  let rec quad : Nat → List String → Option (List (Int × Bool × Bytes × Bytes))
    | 0, _ => some []
    | n + 1, a :: b :: m :: t :: r => do
      let mm ← unhex m; let tt ← unhex t; let rest ← quad n r
      some ((a.toInt?.getD (-1), b == "1", mm, tt) :: rest)
    | _, _ => none
  let real ← quad nruns (realPart.drop 1)
  let strays := (realPart.getD (1 + 4 * nruns) "0").toNat?.getD 0
  some { proto := g 0, databytes := normDatabytes ((g 1).toInt?.getD (-1)), now := (g 2).toNat?.getD 0,
         peer := ⟨host, ip, info, lhost, lip⟩, relay := relay, ends := ends,
         wleft := if wf < 0 then none else some wf.toNat, chunk := (g 11).toNat?.getD 0, pay := pre.drop 12,
         exit := (post.getD 0 "").toInt?.getD (-99), out := out, pids := pids, recs := recs,
         key := " ".intercalate pre, real := real, strays := strays }

/-! ### helpers of the oracle -/

def isKok (now : Nat) (r : Bytes) : Bool :=
  -- "Kok <now> qp <digits>"
  let pre := str "Kok " ++ Nq.Spec.C07.dec now ++ str " qp "
  r.take pre.length == pre && (r.drop pre.length).length > 0 && (r.drop pre.length).all isDigit

def endAt (ends : List QEnd) (k : Nat) : QEnd :=
  match ends.getLast? with
  | none => {}
  | some l => ends.getD k l

/-- required class of the status for a recipient that policy accepts, given how the queue run ended -/
def statusOk (c : Cls) (faulted : Bool) (r : Bytes) (now : Nat) : Bool :=
  match c with
  | .ok => isKok now r || (faulted && r.head? == some 90)
  | .perm => r.head? == some 68
  | .temp => r.head? == some 90
  | .any => !(r.head? == some 75)

structure Rep where
  st : Stats
  msgs : List String := []      -- DISAGREE / ORACLE lines

def Rep.dis (r : Rep) (c : Case) (what : String) : Rep :=
  { r with st := { r.st with disagree := r.st.disagree + 1 }, msgs := r.msgs ++ [s!"DISAGREE what={what} case={c.key.replace " " "|"}"] }
/-- a custom text outside the interface of qmail-queue.8 (exit 82, more than two bytes, not starting with D or Z) -/
def outOfContract (e : QEnd) : Bool :=
  e.exit == 82 && !e.crashed && e.text.length > 2 && !(e.text.head? == some 68 || e.text.head? == some 90)

def Rep.ora (r : Rep) (c : Case) (kind what : String) : Rep :=
  let tag := if (kind == "ack-not-exact" || kind == "class") && c.ends.any outOfContract then " known=qq-custom-text-unvalidated" else ""
  let view := if c.queueView then " view=queue-directory" else ""
  { r with st := { r.st with oracle := r.st.oracle + 1 }, msgs := r.msgs ++ [s!"ORACLE kind={kind}{view} what={what}{tag} case={c.key.replace " " "|"}"] }

/-- the trace field at the head of what was handed to the queue, judged on its own (whatever the peer strings were):
    a well-formed header field in the sense of `Spec.C07.wf822` -/
def recvCheck (r : Rep) (c : Case) (f0 : Bytes) : Rep :=
  let fld := Nq.Spec.C07.takeLines 2 f0
  if Nq.Spec.C07.wf822 fld then r
  else r.ora c "received-malformed" s!"the Received field of an acknowledged message is not a well-formed header field (printable ASCII, comments balanced, no backslash or quote, one folded line break): {hex fld}"

def lhostOf (p : Peer) : Bytes := p.loc

/-! ### QMTP -/

def badAddr (a : Bytes) (extra : Nat) : Bool := a.length + extra ≥ 1000 || a.contains 0

def qmtpCheck (c : Case) (r0 : Rep) : Rep := Id.run do
  let mut r := r0
  let some inp := unhex (c.pay.getD 0 "-") | return r.dis c "unparsable-input"
  let cfg : Qmtp.Cfg := { databytes := c.databytes, relay := c.relay, rcpthosts := some rcpthostsFile, peer := c.peer, now := c.now, chunk := c.chunk }
  -- (1) model vs implementation
  if !c.queueView then
    let s := Qmtp.run cfg c.wleft c.ends c.pids inp
    if s.out != c.out then r := r.dis c s!"output model={hex s.out} impl={hex c.out}"
    if Int.ofNat s.exit.code != c.exit then r := r.dis c s!"exit model={s.exit.code} impl={c.exit}"
    let opened := s.msgs.filter (·.m.opened)
    if opened.length != c.recs.length then r := r.dis c s!"queue-runs model={opened.length} impl={c.recs.length}"
    else
      for (d, (f0, f1)) in opened.zip c.recs do
        if d.q.msgPipe != f0 then r := r.dis c s!"message-pipe model={hex d.q.msgPipe} impl={hex f0}"
        if d.q.envPipe != f1 then r := r.dis c s!"envelope-pipe model={hex d.q.envPipe} impl={hex f1}"
  -- (2) property oracle on the implementation's behaviour
  let (reqs, _) := Nq.Spec.C07.qmtpAll (inp.length + 1) inp
  let some reps := Nq.Spec.C07.nsList c.out | return r.ora c "garbled-output" "output is not a sequence of netstrings"
  let relayLen := (c.relay.getD []).length
  let mut left := reps
  let mut k := 0
  for q in reqs do
    let n := q.rcpts.length
    let mine := left.take n
    let visible := mine.length == n
    left := left.drop n
    let e := endAt c.ends k
    let rec? := c.recs[k]?
    let acked := (q.rcpts.zip mine).filter (fun (_, rp) => rp.head? == some 75)
    let ackedAddrs := acked.map (fun (a, _) => a ++ c.relay.getD [])
    -- Replies of ONE message can be cut in the middle: ssout (256 bytes) flushes itself when it fills up, and what is still
    -- buffered is lost when the daemon exits on a later protocol violation (notes/C07.md §4).  Then `mine` is a proper,
    -- non-empty prefix of the message's replies.  The recipients whose reply was never sent are not "acknowledged" by any
    -- byte the client saw; for them the envelope must hold exactly those that policy accepts (the independent predicate used
    -- for the class check below) - the visible part is still required to match the visible acknowledgements exactly.
    let unseen := q.rcpts.drop mine.length
    let unseenOk := unseen.filter (fun a => !(badAddr a relayLen || (c.relay.isNone && !rcpthostsOk (some rcpthostsFile) a)))
    let expectRcpts := ackedAddrs ++ unseenOk.map (fun a => a ++ c.relay.getD [])
    let stored := q.body
    let tooBig := c.databytes ≠ 0 && stored.length > c.databytes
    let senderBad := badAddr q.sender 0
    let content := receivedSpec "QMTP" c.peer.remotehost c.peer.remoteip (lhostOf c.peer) c.peer.info none c.now ++ stored
    -- ack ⇒ exactly that message queued
    if !acked.isEmpty then
      match rec? with
      | none => r := r.ora c "ack-without-queue" s!"message {k} acknowledged but no queue run"
      | some (f0, f1) =>
        r := recvCheck r c f0
        if !Queued f0 f1 e.exit e.crashed content q.sender expectRcpts then
          r := r.ora c "ack-not-exact" s!"message {k} acknowledged but queue got fd0={hex f0} fd1={hex f1} exit={e.exit} crashed={e.crashed} expected-content={hex content} expected-rcpts={expectRcpts.map hex} replies-seen={mine.length}/{n}"
      if tooBig then r := r.ora c "ack-oversize" s!"message {k} of {stored.length} bytes acknowledged with databytes={c.databytes}"
      if senderBad then r := r.ora c "ack-bad-sender" s!"message {k} acknowledged with an unacceptable sender"
    -- queued ⇒ acknowledged (when the replies were sent at all)
    if visible && acked.isEmpty then
      match rec? with
      | some (_, f1) =>
        if !NotQueued f1 e.exit e.crashed then r := r.ora c "queued-without-ack" s!"message {k} was queued (complete envelope, exit 0) but no recipient was acknowledged"
      | none => pure ()
    -- every reply has the right class
    for (a, rp) in q.rcpts.zip mine do
      let refused := badAddr a relayLen || (c.relay.isNone && !rcpthostsOk (some rcpthostsFile) a)
      if refused then
        if rp.head? != some 68 then r := r.ora c "class" s!"message {k}: recipient {hex a} must be refused permanently, got {hex rp}"
      else if senderBad || tooBig then
        if rp.head? != some 68 then r := r.ora c "class" s!"message {k}: sender/size refusal must be permanent, got {hex rp}"
      else
        let cl := qqClass e.exit e.crashed e.text
        if !statusOk cl c.wleft.isSome rp c.now then
          r := r.ora c "class" s!"message {k}: queue ended exit={e.exit} crashed={e.crashed}; status {hex rp} has the wrong class"
    k := k + 1
  -- anything after the well-framed messages: no acknowledgement, nothing queued
  for rp in left do
    if rp.head? == some 75 then r := r.ora c "ack-malformed" s!"acknowledgement {hex rp} for input that is not a well-framed message"
  for (_, f1) in c.recs.drop reqs.length do
    if envComplete f1 then r := r.ora c "queued-malformed" s!"a complete envelope {hex f1} reached the queue for input that is not a well-framed message"
  return r

/-! ### QMQP -/

def qmqpCheck (c : Case) (r0 : Rep) : Rep := Id.run do
  let mut r := r0
  let some inp := unhex (c.pay.getD 0 "-") | return r.dis c "unparsable-input"
  let cfg : Qmqp.Cfg := { peer := c.peer, now := c.now }
  let e := endAt c.ends 0
  if !c.queueView then
    let o := Qmqp.run cfg c.wleft e (c.pids.headD 0) inp
    if o.out != c.out then r := r.dis c s!"output model={hex o.out} impl={hex c.out}"
    if Int.ofNat o.exit.code != c.exit then r := r.dis c s!"exit model={o.exit.code} impl={c.exit}"
    match o.r.opened, c.recs with
    | false, [] => pure ()
    | true, [(f0, f1)] =>
      if o.q.msgPipe != f0 then r := r.dis c s!"message-pipe model={hex o.q.msgPipe} impl={hex f0}"
      if o.q.envPipe != f1 then r := r.dis c s!"envelope-pipe model={hex o.q.envPipe} impl={hex f1}"
    | _, _ => r := r.dis c s!"queue-runs model={o.r.opened} impl={c.recs.length}"
  -- oracle
  let parsed : Option (Option Bytes) := if c.out.isEmpty then some none else
    match Nq.Spec.C07.ns? c.out with
    | some (rp, []) => some (some rp)
    | _ => none
  let some reply := parsed | return r.ora c "garbled-output" "output is not one netstring"
  let acked := (reply.bind (·.head?)) == some 75
  match Nq.Spec.C07.qmqpReq inp with
  | none =>
    if acked then r := r.ora c "ack-malformed" s!"acknowledgement for a request that is not well framed"
    for (_, f1) in c.recs do
      if envComplete f1 then r := r.ora c "queued-malformed" s!"a complete envelope {hex f1} reached the queue for a request that is not well framed"
  | some q =>
    let bad := badAddr q.sender 0 || q.rcpts.any (badAddr · 0)
    let content := receivedSpec "QMQP" c.peer.remotehost c.peer.remoteip (lhostOf c.peer) c.peer.info none c.now ++ q.body
    if acked then
      match c.recs with
      | [(f0, f1)] =>
        r := recvCheck r c f0
        if !Queued f0 f1 e.exit e.crashed content q.sender q.rcpts then
          r := r.ora c "ack-not-exact" s!"acknowledged but queue got fd0={hex f0} fd1={hex f1} exit={e.exit} crashed={e.crashed} expected-content={hex content}"
      | _ => r := r.ora c "ack-without-queue" "acknowledged but no (single) queue run"
      if bad then r := r.ora c "ack-bad-address" "acknowledged although an address is over-long or contains NUL"
    else
      for (_, f1) in c.recs do
        if !NotQueued f1 e.exit e.crashed then r := r.ora c "queued-without-ack" "queued (complete envelope, exit 0) but not acknowledged"
    match reply with
    | none => r := r.ora c "no-reply" "a well-framed request got no reply"
    | some rp =>
      if bad then
        if rp.head? != some 68 then r := r.ora c "class" s!"over-long / NUL address must be refused permanently, got {hex rp}"
      else if !statusOk (qqClass e.exit e.crashed e.text) c.wleft.isSome rp c.now then
        r := r.ora c "class" s!"queue ended exit={e.exit} crashed={e.crashed}; status {hex rp} has the wrong class"
  return r

/-! ### SMTP -/

def crlfB : Bytes := [13, 10]

def splitCRLF : Bytes → Bytes → List Bytes      -- complete lines only
  | _, [] => []
  | cur, [_] => []
  | cur, a :: b :: r => if a = 13 ∧ b = 10 then cur.reverse :: splitCRLF [] r else splitCRLF (a :: cur) (b :: r)

def isAckLine (now : Nat) (l : Bytes) : Bool :=
  let pre := str "250 ok " ++ Nq.Spec.C07.dec now ++ str " qp "
  l.take pre.length == pre && (l.drop pre.length).length > 0 && (l.drop pre.length).all isDigit


/-! ### the composed SMTP connection (Nq.SmtpC07): DISAGREE channel for the letters S and T -/

def smtpPol (c : Case) : Nq.SmtpSession.Cfg :=
  { rh := some (Nq.SmtpSession.readfile (str "ok.example\n.sub.example\nLocalHost\n")), more := none, bmf := none,
    liphost := some (str "me.example"), ipme := [], relay := c.relay, greeting := str "me.example", now := c.now, qp := 0 }

def smtpCfg (c : Case) : Nq.SmtpC07.Cfg := { pol := smtpPol c, databytes := c.databytes, peer := c.peer }

/-- model = implementation for the whole connection: every reply byte, the exit status, the number of queue runs and every byte
    each of them received on descriptors 0 and 1 -/
def sessionDis (c : Case) (r0 : Rep) (raw : Bytes) : Rep := Id.run do
  let mut r := r0
  let cfg := smtpCfg c
  let steps := Nq.SmtpC07.run cfg c.wleft c.ends c.pids raw
  let ts := Nq.SmtpC07.txns steps
  let nack := (ts.filter (·.acked cfg)).length
  let ncut := (ts.filter (fun t => (t.d cfg).stop.isSome)).length
  let mut st := r.st
  st := st.bump s!"smtp-queue-runs-{min ts.length 4}"
  st := st.bump s!"smtp-acked-{min nack 3}"
  if ncut > 0 then st := st.bump "smtp-exit-inside-data"
  if ts.length ≥ 2 then st := st.bump "smtp-multi-transaction"
  if ts.length ≥ 2 && nack ≥ 1 && nack < ts.length - ncut then st := st.bump "smtp-mixed-outcomes"
  if steps.any (fun x => match x.ev.1 with | .rset => true | _ => false) then st := st.bump "smtp-rset"
  if (steps.filter (fun x => match x.ev.1 with | .mail _ => x.ev.2.replies == [.mailok] | _ => false)).length > ts.length then st := st.bump "smtp-mail-repeated-or-abandoned"
  if steps.any (fun x => match x.ev.1 with | .rcpt _ => x.ev.2.replies != [.rcptok] | _ => false) then st := st.bump "smtp-rcpt-refused"
  if steps.any (fun x => match x.ev.1 with | .data _ => x.txn.isNone | _ => false) then st := st.bump "smtp-data-refused"
  r := { r with st := st }
  let mout := Nq.SmtpC07.out cfg steps
  if mout != c.out then r := r.dis c s!"output model={hex mout} impl={hex c.out}"
  let mexit := Nq.SmtpC07.exitCode steps
  if Int.ofNat mexit != c.exit then r := r.dis c s!"exit model={mexit} impl={c.exit}"
  if ts.length != c.recs.length then r := r.dis c s!"queue-runs model={ts.length} impl={c.recs.length}"
  else
    for (t, (f0, f1)) in ts.zip c.recs do
      if (t.q cfg).msgPipe != f0 then r := r.dis c s!"message-pipe model={hex (t.q cfg).msgPipe} impl={hex f0}"
      if (t.q cfg).envPipe != f1 then r := r.dis c s!"envelope-pipe model={hex (t.q cfg).envPipe} impl={hex f1}"
  return r

def smtpCheck (c : Case) (r0 : Rep) : Rep := Id.run do
  let mut r := r0
  let g := fun k => c.pay.getD k "-"
  -- "!" in front: EHLO.  What dohelo() receives: commands.c skips the blanks behind the verb, and a C string ends at a NUL
  let ehlo := (g 0).startsWith "!"
  let some heloRaw := optHex (if ehlo then ((g 0).drop 1).toString else g 0) | return r.dis c "unparsable-helo"
  let heloO := heloRaw.map (fun h => cstr (h.dropWhile (· == 32)))
  let some sender := unhex (g 1) | return r.dis c "unparsable-sender"
  let some rcpts := (if g 2 == "-" then some [] else ((g 2).splitOn ",").mapM unhex) | return r.dis c "unparsable-rcpts"
  let some stream0 := unhex (g 3) | return r.dis c "unparsable-stream"
  let cut := (g 4).toInt?.getD (-1)
  let cmdlen := (g 5).toNat?.getD 0
  let inCommands := cut ≥ 0 && cut < Int.ofNat cmdlen
  let stream := if cut ≥ 0 then stream0.take (cut.toNat - cmdlen) else stream0
  -- (1) the composed model on the very bytes the harness sent
  let raw0 : Bytes :=
    (match heloRaw with | some h => (if ehlo then str "EHLO " else str "HELO ") ++ h ++ crlfB | none => []) ++
    str "MAIL FROM:<" ++ sender ++ str ">\r\n" ++ (rcpts.map (fun a => str "RCPT TO:<" ++ a ++ str ">\r\n")).flatten ++ str "DATA\r\n" ++ stream0
  let raw := if cut ≥ 0 then raw0.take cut.toNat else raw0
  if !c.queueView then r := sessionDis c r raw
  let maxA := Nq.Gen.C07.smtpAddrMax - 1
  let mailOk := sender.length ≤ maxA
  let relayB := c.relay.getD []
  -- reply to every RCPT, and the accepted addresses
  let rcptRes : List (Bytes × Option Bytes) := rcpts.map (fun a =>
    if !mailOk then (str "503 MAIL first (#5.5.1)", none)
    else if a.length > maxA then (str "555 syntax error (#5.5.4)", none)
    else if c.relay.isSome then (str "250 ok", some (a ++ relayB))
    else if rcpthostsOk (some rcpthostsFile) a then (str "250 ok", some a)
    else (str "553 sorry, that domain isn't in my list of allowed rcpthosts (#5.7.1)", none))
  let accepted := rcptRes.filterMap (·.2)
  let ackLines := (splitCRLF [] c.out).filter (isAckLine c.now)
  let e := endAt c.ends 0
  if inCommands then
    -- client gone before DATA was complete: nothing may be acknowledged or queued
    if !ackLines.isEmpty then r := r.ora c "ack-cut" "acknowledgement although the client disconnected before DATA"
    for (_, f1) in c.recs do
      if envComplete f1 then r := r.ora c "queued-cut" "complete envelope although the client disconnected before DATA"
    return r
  let dataOk := mailOk && !accepted.isEmpty
  if !dataOk then
    if !ackLines.isEmpty then r := r.ora c "ack-refused-data" "acknowledgement although DATA was refused"
    return r
  -- (2) oracle: reference decoder, independent hop count, acknowledged addresses read off the replies
  let lines := splitCRLF [] c.out
  let base := 1 + (if heloO.isSome then (if ehlo then 3 else 1) else 0)
  let mailAck := lines.getD base [] == str "250 ok"
  let rcptAcks := (rcpts.zip (lines.drop (base + 1))).filter (fun (_, l) => l == str "250 ok")
  let ackedAddrs := rcptAcks.map (fun (a, _) => a ++ relayB)
  let dataLine := lines.getD (base + 1 + rcpts.length) []
  let finalLine := lines.getD (base + 2 + rcpts.length) []
  let spec := Nq.SmtpIn.rfcDecode stream
  let shownHelo := match heloO with
    | some h => if lower (cstr h) == lower (cstr c.peer.remotehost) then none else some h
    | none => none
  match spec with
  | .accepted body rest =>
    let wire := stream.take (stream.length - rest.length)
    let hops := Nq.Spec.C07.hopsSpec wire
    let tooBig := c.databytes ≠ 0 && body.length > c.databytes
    let content := receivedSpec "SMTP" c.peer.remotehost c.peer.remoteip (lhostOf c.peer) c.peer.info shownHelo c.now ++ body
    let acked := isAckLine c.now finalLine
    if ackLines.length > (if acked then 1 else 0) then r := r.ora c "stray-ack" "an acknowledgement line other than the reply to the end of DATA"
    if acked then
      match c.recs with
      | [(f0, f1)] =>
        r := recvCheck r c f0
        if !(mailAck && dataLine == str "354 go ahead" && Queued f0 f1 e.exit e.crashed content sender ackedAddrs) then
          r := r.ora c "ack-not-exact" s!"acknowledged but queue got fd0={hex f0} fd1={hex f1} exit={e.exit} crashed={e.crashed} expected-content={hex content} expected-rcpts={ackedAddrs.map hex}"
      | _ => r := r.ora c "ack-without-queue" "acknowledged but no (single) queue run"
      if tooBig then r := r.ora c "ack-oversize" s!"{body.length} bytes acknowledged with databytes={c.databytes}"
      if hops ≥ 100 then r := r.ora c "ack-hops" s!"acknowledged with {hops} hops"
    else
      for (_, f1) in c.recs do
        if !NotQueued f1 e.exit e.crashed then r := r.ora c "queued-without-ack" "queued (complete envelope, exit 0) but not acknowledged"
      -- class of the refusal
      let code := finalLine.take 4
      let want : List Bytes :=
        if hops ≥ 100 then [str "554 "]
        else if tooBig then [str "552 "]
        else match qqClass e.exit e.crashed e.text with
          | .ok => if c.wleft.isSome then [str "451 "] else []
          | .perm => [str "554 "]
          | .temp => [str "451 "]
          | .any => [str "554 ", str "451 "]
      if !want.contains code then r := r.ora c "class" s!"hops={hops} size={body.length}/{c.databytes} exit={e.exit} crashed={e.crashed}: reply {hex finalLine} has the wrong class"
  | _ =>
    -- bare LF or no terminator before the client went away: no acknowledgement, nothing queued
    if !ackLines.isEmpty then r := r.ora c "ack-unterminated" "acknowledgement although DATA was never terminated properly"
    for (_, f1) in c.recs do
      if envComplete f1 then r := r.ora c "queued-unterminated" "complete envelope although DATA was never terminated properly"
    if spec == .stray && finalLine.take 4 != str "451 " then r := r.ora c "class" s!"bare LF must be refused with 451, got {hex finalLine}"
  return r


/-! ### raw SMTP connections (letter T): the session oracle

   The statement of `C07_smtp_session`, evaluated on what the IMPLEMENTATION did.  The client's bytes are cut into lines, verbs and
   arguments by the independent specification `Nq.CmdLineSpec` and the DATA streams by the reference decoder `rfcDecode`; which MAIL /
   RCPT / DATA were accepted is READ OFF THE IMPLEMENTATION'S REPLIES (giving a trace in C08's vocabulary); then
     * RCPT answered 250  ⇔  `SmtpPolicyDoc.gateDocB` (open transaction, sender not barred, RELAYCLIENT or rcpthosts);
     * DATA answered 354 only with an open transaction that has a recipient (`SmtpPolicy.openTxnB`);
     * the reply to the end of the k-th accepted DATA is `250 ok <time> qp <pid>`  ⇒  the k-th queue run exited 0, did not crash, got
       Received ++ decoded body on descriptor 0 and on descriptor 1 the envelope whose sender is the parsed address of the LAST MAIL
       answered 250 and whose recipients are the stored forms of exactly the RCPTs answered 250 since, in order; size and hop limits hold;
     * no acknowledgement ⇒ that run is not (complete envelope ∧ exit 0), and the refusal has the documented class;
     * an acknowledgement-shaped line anywhere else, a complete envelope in a run that no terminated DATA accounts for, an
       acknowledgement or complete envelope for a DATA the client never terminated: failures. -/

def takeReply (pol : Nq.SmtpSession.Cfg) (cands : List Nq.SmtpSession.Reply) (o : Bytes) : Option (Nq.SmtpSession.Reply × Bytes) :=
  cands.findSome? (fun x => let t := Nq.SmtpSession.render pol x; if !t.isEmpty && o.take t.length == t then some (x, o.drop t.length) else none)

structure Walk where
  pre : List Nq.SmtpPolicy.Ev := []
  helo : Option Bytes := none
  k : Nat := 0          -- accepted DATA commands (= queue runs) so far
  acks : Nat := 0
  r : Rep

open Nq.SmtpSession in
def sessWalk (c : Case) (pol : Nq.SmtpSession.Cfg) : Nat → Bytes → Bytes → Walk → Walk
  | 0, _, _, w => w
  | fuel + 1, inp, o, w =>
    match Nq.CmdLineSpec.specFirstLine inp with
    | none => w
    | some (l, rest) =>
      if o.isEmpty then w else
      let v := (Nq.CmdLineSpec.specParse l).1
      let arg := (Nq.CmdLineSpec.specParse l).2
      let plain := fun (cmd : Cmd) (cands : List Reply) (w : Walk) =>
        match takeReply pol cands o with
        | none => { w with r := w.r.ora c "garbled-reply" s!"the reply to command line {hex l} is none of the replies of that command: {hex (o.take 80)}" }
        | some (x, o') => sessWalk c pol fuel rest o' { w with pre := w.pre ++ [(cmd, { replies := [x] })] }
      match v with
      | .helo => plain .helo [.helo] { w with helo := some arg }
      | .ehlo => plain .ehlo [.ehlo] { w with helo := some arg }
      | .rset => plain .rset [.flushed] w
      | .help => plain .help [.help] w
      | .noop => plain .noop [.noop] w
      | .vrfy => plain .vrfy [.vrfy] w
      | .unimpl => plain .unimpl [.unimpl] w
      | .quit =>
        match takeReply pol [.quit] o with
        | none => { w with r := w.r.ora c "garbled-reply" s!"the reply to QUIT is {hex (o.take 80)}" }
        | some (_, o') => if o'.isEmpty then w else { w with r := w.r.ora c "garbled-reply" s!"output after the reply to QUIT: {hex (o'.take 80)}" }
      | .mail => plain (.mail arg) [.mailok, .syntax] w
      | .rcpt =>
        match takeReply pol [.rcptok, .syntax, .bmf, .nogateway, .wantmail] o with
        | none => { w with r := w.r.ora c "garbled-reply" s!"the reply to command line {hex l} is none of the replies of RCPT: {hex (o.take 80)}" }
        | some (x, o') =>
          let want := Nq.SmtpPolicyDoc.gateDocB pol w.pre arg
          let r1 := if (x == .rcptok) != want then
              w.r.ora c "rcpt-policy" s!"RCPT {hex arg} answered {hex (render pol x)}; by the documented rules (open transaction, badmailfrom, RELAYCLIENT or rcpthosts, 900-byte limit) accepted={want}"
            else w.r
          sessWalk c pol fuel rest o' { w with pre := w.pre ++ [(.rcpt arg, { replies := [x] })], r := r1 }
      | .data =>
        match takeReply pol [.wantmail, .wantrcpt, .go, .qqt] o with
        | none => { w with r := w.r.ora c "garbled-reply" s!"the reply to DATA is {hex (o.take 80)}" }
        | some (.go, o') => Id.run do
          let mut r := w.r
          let e := endAt c.ends w.k
          let rec? := c.recs[w.k]?
          let txn := Nq.SmtpPolicy.openTxnB pol w.pre
          let (snd, rcs) := match txn with
            | some (s, mid) => (s, mid.filterMap (Nq.SmtpPolicy.acceptedRcpt pol))
            | none => ([], [])
          if txn.isNone || rcs.isEmpty then
            r := r.ora c "data-without-transaction" s!"DATA number {w.k} was answered 354 although no transaction with an accepted recipient is open"
          match Nq.SmtpIn.rfcDecode rest with
          | .accepted body rest' =>
            let fin := (o'.takeWhile (· != 10))
            let finalLine := if fin.getLast? == some 13 then fin.dropLast else fin
            let o'' := (o'.dropWhile (· != 10)).drop 1
            let acked := isAckLine c.now finalLine
            let wire := rest.take (rest.length - rest'.length)
            let hops := Nq.Spec.C07.hopsSpec wire
            let tooBig := c.databytes ≠ 0 && body.length > c.databytes
            let shown := match w.helo with
              | some h => if lower (cstr h) == lower (cstr c.peer.remotehost) then none else some h
              | none => none
            let content := receivedSpec "SMTP" c.peer.remotehost c.peer.remoteip (lhostOf c.peer) c.peer.info shown c.now ++ body
            if acked then
              match rec? with
              | none => r := r.ora c "ack-without-queue" s!"transaction {w.k} acknowledged but there was no queue run number {w.k}"
              | some (f0, f1) =>
                r := recvCheck r c f0
                if !(txn.isSome && Queued f0 f1 e.exit e.crashed content snd rcs) then
                  r := r.ora c "ack-not-exact" s!"transaction {w.k} acknowledged but queue run {w.k} got fd0={hex f0} fd1={hex f1} exit={e.exit} crashed={e.crashed} expected-content={hex content} expected-sender={hex snd} expected-rcpts={rcs.map hex}"
              if tooBig then r := r.ora c "ack-oversize" s!"transaction {w.k}: {body.length} bytes acknowledged with databytes={c.databytes}"
              if hops ≥ 100 then r := r.ora c "ack-hops" s!"transaction {w.k} acknowledged with {hops} hops"
            else
              match rec? with
              | some (_, f1) =>
                if !NotQueued f1 e.exit e.crashed then r := r.ora c "queued-without-ack" s!"transaction {w.k} was queued (complete envelope, exit 0) but not acknowledged: {hex finalLine}"
              | none => pure ()
              let code := finalLine.take 4
              let want : List Bytes :=
                if hops ≥ 100 then [str "554 "]
                else if tooBig then [str "552 "]
                else match qqClass e.exit e.crashed e.text with
                  | .ok => if c.wleft.isSome then [str "451 "] else []
                  | .perm => [str "554 "]
                  | .temp => [str "451 "]
                  | .any => [str "554 ", str "451 "]
              if !want.contains code then r := r.ora c "class" s!"transaction {w.k}: hops={hops} size={body.length}/{c.databytes} exit={e.exit} crashed={e.crashed}: reply {hex finalLine} has the wrong class"
            return sessWalk c pol fuel rest' o''
              { w with pre := w.pre ++ [(.data {}, { replies := [.go, if acked then .accepted else .qqfail []] })], k := w.k + 1,
                       acks := w.acks + (if acked then 1 else 0), r := r }
          | dres =>
            -- bare LF or no terminator before the client went away: this transaction is neither acknowledged nor queued
            match rec? with
            | some (_, f1) =>
              if envComplete f1 then r := r.ora c "queued-unterminated" s!"complete envelope in queue run {w.k} although its DATA was never terminated properly"
            | none => pure ()
            if dres == .stray && o'.take 4 != str "451 " then r := r.ora c "class" s!"bare LF must be refused with 451, got {hex (o'.take 80)}"
            return { w with k := w.k + 1, r := r }
        | some (x, o') => sessWalk c pol fuel rest o' { w with pre := w.pre ++ [(.data {}, { replies := [x] })] }

def tCheck (c : Case) (r0 : Rep) : Rep := Id.run do
  let mut r := r0
  let some raw := unhex (c.pay.getD 0 "-") | return r.dis c "unparsable-input"
  if !c.queueView then r := sessionDis c r raw
  let pol := smtpPol c
  let ban := Nq.SmtpSession.banner pol
  if c.out.take ban.length != ban then return r.ora c "garbled-reply" s!"no greeting: {hex (c.out.take 80)}"
  let w := sessWalk c pol (raw.length + 1) raw (c.out.drop ban.length) { r := r }
  r := w.r
  let ackLines := (splitCRLF [] c.out).filter (isAckLine c.now)
  if ackLines.length != w.acks then
    r := r.ora c "stray-ack" s!"{ackLines.length} acknowledgement lines in the output, {w.acks} of them are replies to the end of an accepted DATA"
  if c.recs.length > w.k then
    for (_, f1) in c.recs.drop w.k do
      if envComplete f1 then r := r.ora c "queue-run-unaccounted" "a queue run with a complete envelope that no DATA answered 354 accounts for"
  return r

/-! ### datetime_tai / date822fmt on their own (harness/c07_date.c)

   `DT <t> <hour> <min> <sec> <wday> <mday> <yday> <mon> <year> <date822 hex>` and `UB <t> <0|1>`.
   DISAGREE: `Nq.Datetime.tai t` (all eight fields) / `Received.date822` / `Datetime.supported` differ from what the real code did.
   ORACLE: the predicate of theorem `C07_datetime_civil` (`Datetime.civilOk`: valid Gregorian date whose independently computed
   day number is ⌊t/86400⌋, base-60 time of day, weekday) fails on the implementation's `struct datetime`; for t ≥ 0 the
   string differs from the independent `Spec.C07.dateSpec`. -/

def dateLine (st0 : Stats) (fs : List String) : IO Stats := do
  let key := "|".intercalate (fs.take 2)
  let mut st := { st0 with cases := st0.cases + 1 }
  let bad := fun (st : Stats) (what : String) => do
    IO.println s!"DISAGREE what={what} case={key}"
    return { st with disagree := st.disagree + 1 }
  match fs with
  | ["UB", ts, ab] =>
    st := st.bump "date-range"
    let some t := ts.toInt? | bad st "unparsable-line"
    let modelUB := !Nq.Datetime.supported t
    if modelUB != (ab == "1") then
      return (← bad st s!"range model-overflow={modelUB} sanitizer-abort={ab}")
    return st
  | ["DT", ts, h, mi, se, wd, md, yd, mo, yr, dh] =>
    st := st.bump "datetime"
    let some t := ts.toInt? | bad st "unparsable-line"
    let some dstr := unhex dh | bad st "unparsable-line"
    let ints := [h, mi, se, wd, md, yd, mo, yr].map (·.toInt?)
    match ints with
    | [some hour, some min, some sec, some wday, some mday, some yday, some mon, some year] =>
      let impl : Nq.Datetime.DT := { hour, min, sec, wday, mday, yday, mon, year }
      let model := Nq.Datetime.tai t
      if !Nq.Datetime.supported t then st ← bad st "harness ran an instant outside the supported range"
      if impl != model then
        let sh := fun (d : Nq.Datetime.DT) => s!"{d.year}-{d.mon}-{d.mday},{d.hour}:{d.min}:{d.sec},wday={d.wday},yday={d.yday}"
        st ← bad st s!"datetime_tai model={sh model} impl={sh impl}"
      -- date822fmt: the model of the formatter on the fields the implementation produced (years ≥ 0: no unsigned wrap)
      if year ≥ 0 && mday ≥ 0 && mon ≥ 0 && hour ≥ 0 && min ≥ 0 && sec ≥ 0 then
        let m := date822 { hour := hour.toNat, min := min.toNat, sec := sec.toNat, mday := mday.toNat, mon := mon.toNat, year := year.toNat }
        if m != dstr then st ← bad st s!"date822fmt model={hex m} impl={dh}"
      if t ≥ 0 then
        let m := date822 (datetimeTai t.toNat)
        if m != dstr then st ← bad st s!"date822fmt-of-datetime_tai model={hex m} impl={dh}"
      -- oracle
      if !Nq.Datetime.civilOk t impl then
        IO.println s!"ORACLE kind=date-calendar what=datetime_tai({t}) = {year}-{mon + 1}-{mday} {hour}:{min}:{sec} wday {wday} is not the Gregorian date of day {t / 86400} second {t % 86400} (day number of that date: {Nq.Datetime.daysFromCivil year mon mday}) case={key}"
        st := { st with oracle := st.oracle + 1 }
      if t ≥ 0 && Nq.Spec.C07.dateSpec t.toNat != dstr then
        IO.println s!"ORACLE kind=date-format what=date822fmt gives {dh}, expected {hex (Nq.Spec.C07.dateSpec t.toNat)} case={key}"
        st := { st with oracle := st.oracle + 1 }
      if st.samples < 5 && t > 1000000000 && t % 7919 == 0 then
        IO.println s!"SAMPLE DT {t} -> {String.fromUTF8! ⟨dstr.toArray⟩}".trimAscii.toString
        st := { st with samples := st.samples + 1 }
      return st
    | _ => bad st "unparsable-line"
  | _ => bad st "unparsable-line"

/-! ### real-queue leg: the queue directory in the place of the pipes -/

/-- the mess file behind qmail-queue's own trace line "Received: (qmail <pid> invoked …); <date>\n" -/
def stripQqLine (mess : Bytes) : Bytes :=
  let pre := str "Received: (qmail "
  if mess.take pre.length == pre then (mess.dropWhile (· != 10)).drop 1 else mess

/-- the todo file is "u<uid>\0p<pid>\0" followed by the envelope without its final NUL: give back the envelope as
    the pipe carried it (anything else: as it is, it will not parse) -/
def todoEnvelope (todo : Bytes) : Bytes :=
  let field := fun (tag : Byte) (b : Bytes) =>
    match b with
    | t :: r => if t == tag && (r.takeWhile (· != 0)).all isDigit && (r.dropWhile (· != 0)).length > 0
                then some ((r.dropWhile (· != 0)).drop 1) else none
    | [] => none
  match field 117 todo with
  | some r1 => match field 112 r1 with
    | some r2 => r2 ++ [0]
    | none => todo
  | none => todo

def realCheck (c : Case) (r0 : Rep) (check : Case → Rep → Rep) : Rep := Id.run do
  let mut r := r0
  if c.real.length != c.recs.length then return r.dis c s!"real-queue leg: {c.real.length} run reports for {c.recs.length} queue runs"
  -- the interface on which the pipe-level reasoning rests (qmail-queue.8; C07's mechanism "failure => envelope never
  -- completed => qmail-queue aborts"): nothing is committed unless the envelope was complete, and then the status is 0
  for ((code, committed, _, _), (_, f1)) in c.real.zip c.recs do
    if code < 0 then r := r.dis c "real-queue leg: a queue run left no report (killed?)"
    if committed && !envComplete f1 then
      r := r.ora c "commit-on-incomplete-envelope" s!"qmail-queue committed a message although the envelope it was given is not complete (no terminating NUL before end of file): fd1={hex f1}"
    if committed && code != 0 then
      r := r.ora c "commit-with-failure-status" s!"qmail-queue committed a message and exited {code}"
  if c.strays != 0 then r := r.ora c "stray-queue-entry" s!"{c.strays} entries in todo/ that belong to no queue run of this session"
  -- the property itself, with the queue directory as the witness of "was committed to the queue"
  let recs := c.real.map (fun (_, committed, mess, todo) => if committed then (stripQqLine mess, todoEnvelope todo) else ([], []))
  let ends : List QEnd := c.real.map (fun (code, committed, _, _) => { exit := if committed then 0 else code.toNat, crashed := false, text := [] })
  r := check { c with queueView := true, recs := recs, ends := ends } r
  return r

/-! ### line handler -/

def handle (st : Stats) (line : String) : IO Stats := do
  let fs := fields line
  if fs.head? == some "DT" || fs.head? == some "UB" then return (← dateLine st fs)
  match parseCase line with
  | none =>
    IO.println s!"DISAGREE what=unparsable-line case={(line.take 300).toString.replace " " "|"}"
    return { st with disagree := st.disagree + 1, cases := st.cases + 1 }
  | some c =>
    let h := hashBytes (c.key.toUTF8.toList)
    let fresh := !st.seen.contains h
    let nontriv := !c.recs.isEmpty
    let mut st := { st with cases := st.cases + 1, seen := st.seen.insert h,
                            nontrivial := st.nontrivial + (if fresh && nontriv then 1 else 0) }
    st := st.bump ("proto" ++ c.proto.toUpper)
    st := st.bump (s!"exit{c.exit}")
    if c.wleft.isSome then st := st.bump "writefault"
    let check := fun (c : Case) (r : Rep) => match c.proto.toUpper with
      | "M" => qmtpCheck c r
      | "Q" => qmqpCheck c r
      | "S" => smtpCheck c r
      | "T" => tCheck c r
      | _ => r.dis c "unknown-protocol"
    let mut r := check c { st := st }
    if c.proto != c.proto.toUpper then
      st := r.st.bump "real-queue"
      r := { r with st := st }
      r := realCheck c r check
    for m in r.msgs do IO.println m
    st := r.st
    if fresh && nontriv && st.samples < 4 && c.out.length > 0 then
      IO.println s!"SAMPLE {(line.take 1500).toString}"
      st := { st with samples := st.samples + 1 }
    return st

def main : IO Unit := runDriver handle
