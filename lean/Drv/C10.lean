/- Driver for C10: the real control.c / constmap.c / qmail-send.c getcontrols, rewrite, senderadd, comm_write,
   todo_do and main-loop HUP handling (harness/c10_route.c) against `Nq.Rewrite`; the oracle is the documented
   rule set `Nq.Route` (routeSpec, verpSpec, specCfg, specHup, specTodo, specTrace) evaluated on the implementation's
   outputs. Real-daemon scenarios (kind=S) are replayed event by event through the monitor `accept`/`acceptAll`
   (DISAGREE) and judged by `specJudge`/`specStep`/`specTrace` (ORACLE) - the two sides of theorem C10_trace.
   Line formats: see harness/c10_route.c. -/
import Drv.Util
import Nq.Rewrite
import Nq.Spec.Route
import Nq.RewriteIO
import Nq.Spec.RouteIO
import Nq.Gen.Consts

open Nq Nq.Rewrite Nq.Route Drv

structure Cur where
  ghex : String := ""
  raw : Option RawCfg := none
  L : Lookups := ⟨fun _ => false, fun _ => false, fun _ => none⟩
  spec : Option Cfg := none
  nodup : Bool := false
  h : UInt64 := 0

/-- "~" = absent file -/
def unfile (s : String) : Option (Option Bytes) :=
  if s == "~" then some none else (unhex s).map some

def filesOf (l : List String) : Option Files :=
  match l.map unfile with
  | [some a, some b, some c, some d, some e] => some ⟨a, b, c, d, e⟩
  | _ => none

def nulFree (f : Files) : Bool := nulFreeB f

def entsEq (a b : List Ent) : Bool := a == b

def retOf (r : Routed) : String := if r.chan == .loc then "1" else "2"

def disagree (st : Stats) (msg : String) : IO Stats := do
  IO.println s!"DISAGREE {msg}"
  return { st with disagree := st.disagree + 1 }

def oracleFail (st : Stats) (msg : String) : IO Stats := do
  IO.println s!"ORACLE {msg}"
  return { st with oracle := st.oracle + 1 }

/-- the stated domain of `C10_spec`: no key listed twice in virtualdomains (repeated keys in locals and
percenthack are harmless: `listed` does not care) -/
def cfgOk (c : Cfg) : Bool := noDupKeys c.vdoms

/-- spec-level view of the C buffers: the entries they contain -/
def bufCfgEq (raw : RawCfg) (c : Cfg) : Bool :=
  raw.env == c.env && entsEq (parseEntries raw.ph false) c.ph &&
  entsEq (parseEntries raw.locals false) c.locals && entsEq (parseEntries raw.vdoms true) c.vdoms

def fileField (s : String) : Option Bytes :=
  if s == "~" then some [] else unhex s

/-- state of one real-daemon scenario: the monitor `accept` (Nq.Rewrite) and the documented state
`SpecD` (Nq.Route) are stepped over the same observed events -/
structure Scen where
  inh : String
  f0 : Files
  d : Daemon
  sp : Option SpecD
  evs : List EvF := []         -- observed trace, reversed (EvF: failing re-reads included)
  modelOk : Bool := true
  specOk : Bool := true
  hups : Nat := 0
  stale : Bool := false        -- the files on disk were edited after the last reread

def showOut : Option TodoOut → String
  | some o => s!"{hex o.info}:{hex o.loc}:{hex o.rem}"
  | none => "fail"

/-- feed one observed event to the monitor (DISAGREE) and to the documented predicate (ORACLE) -/
def feedF (st : Stats) (sc : Scen) (e : EvF) : IO (Stats × Scen) := do
  let mut st := st
  let insts := sc.f0 :: servedAt sc.f0 false sc.evs.reverse      -- the directories looked at so far (C10_one_instant_spec)
  let mut sc := { sc with evs := e :: sc.evs }
  match acceptF sc.d e with
  | some d' => sc := { sc with d := d' }
  | none =>
    sc := { sc with modelOk := false }
    match e with
    | .ev (.msg todo out) =>
      st ← disagree st s!"kind=S in={sc.inh} todo={hex todo} impl={showOut out} model={showOut (todoDo sc.d.cfg.htLookups sc.d.cfg.env todo)} stdin={sc.inh}"
    | _ => st ← disagree st s!"kind=S in={sc.inh} event rejected by the monitor"
  match sc.sp with
  | some s =>
    if !specJudgeF s e then
      sc := { sc with specOk := false }
      match e with
      | .ev (.msg todo out) =>
        st ← oracleFail st s!"kind=S in={sc.inh} todo={hex todo} impl={showOut out} spec={showOut (specTodo s.cfg todo)} stdin={sc.inh}"
      | _ => st ← oracleFail st s!"kind=S in={sc.inh} event judged false"
    else
      match e with
      | .ev (.msg todo out) =>
        if !cfgOk s.cfg then st := st.bump "S_oracle_skipped_dup"
        else
          -- C10_one_instant_spec: the outputs are the documented ones under locals AND virtualdomains of ONE directory
          match specStart sc.f0 with
          | some s0 =>
            if !judgeOneInstant s0.cfg sc.f0.me insts todo out then
              st ← oracleFail st s!"kind=S in={sc.inh} todo={hex todo} impl={showOut out} no-single-instant stdin={sc.inh}"
            else st := st.bump "S_msg_one_instant_judged"
          | none => pure ()
          match out with
          | some o =>
            if !o.loc.isEmpty && !o.rem.isEmpty then st := st.bump "S_msg_both_channels"
            -- todo_do's channel buffers are 1024 bytes: messages that made a channel flush while the other had data pending
            if !o.loc.isEmpty && !o.rem.isEmpty && (o.loc.length > 1024 || o.rem.length > 1024) then
              st := st.bump "S_msg_both_channels_one_over_1k"
            if o.loc.length > 1024 && o.rem.length > 1024 then st := st.bump "S_msg_both_channels_both_over_1k"
            if o.loc.length % 1024 == 0 && !o.loc.isEmpty || o.rem.length % 1024 == 0 && !o.rem.isEmpty then
              st := st.bump "S_msg_channel_exact_multiple_of_1k"
          | none => st := st.bump "S_msg_failed_judged"
      | _ => pure ()
    sc := { sc with sp := specStepF sc.f0 s e }
  | none => pure ()
  return (st, sc)

def feed (st : Stats) (sc : Scen) (e : Ev) : IO (Stats × Scen) := feedF st sc (.ev e)

/-- the call the harness reports as failed: name, control file, read index -/
def obsCall (name file idx : String) : Option Call :=
  let ctl : Option Ctl := match file with
    | "me" => some .me | "envnoathost" => some .env | "locals" => some .locals | "percenthack" => some .ph
    | "virtualdomains" => some .vdoms | "other" => some .other | _ => none
  match name, ctl, idx.toNat? with
  | "none", _, _ => some .past
  | "chdir", _, _ => some .chdirHome
  | "chdir_queue", _, _ => some .chdirQueue
  | "open_read", some c, _ => some (.openf c)
  | "read", some c, some k => some (.readf c k)
  | "close", some c, _ => some (.closef c)
  | _, _, _ => none

/-- one scenario: fold over the step tokens. `H` = files written, SIGHUP delivered while the daemon was
blocked in select(), daemon seen idle in select() again: events edit, hup, top. `E` = files written, no
signal. `M` = one message preprocessed (`! ! !` = left in todo/, no clean request: `goto fail`). `I` = a second SIGHUP
delivered while the re-read for the first one was under way (see there). -/
partial def scenario (st : Stats) (d0 : Daemon) (sc : Scen) : List String → IO Stats
  | [] => do
    -- the whole observed trace through the two predicates of theorem C10_trace, literally
    let evs := sc.evs.reverse
    let mut st := st
    if (acceptFAll d0 evs).isSome != sc.modelOk then
      st ← disagree st s!"kind=S in={sc.inh} acceptFAll and the step-wise monitor differ"
    if specTraceF sc.f0 (specStart sc.f0) evs != sc.specOk then
      st ← oracleFail st s!"kind=S in={sc.inh} specTraceF={specTraceF sc.f0 (specStart sc.f0) evs} stdin={sc.inh}"
    return st
  | "M" :: todoh :: infoh :: loch :: remh :: rest => do
    let out : Option (Option TodoOut) :=
      if infoh == "!" && loch == "!" && remh == "!" then some none
      else match fileField infoh, fileField loch, fileField remh with
        | some info, some loc, some rem => some (some ⟨info, loc, rem⟩)
        | _, _, _ => none
    match unhex todoh, out with
    | some todo, some o =>
      let mut st := st.bump "S_msg"
      if o.isNone then st := st.bump "S_msg_failed"
      if sc.stale then st := st.bump (if sc.hups > 0 then "S_msg_files_edited_after_hup" else "S_msg_files_edited_no_hup")
      let (st', sc') ← feed st sc (.msg todo o)
      scenario st' d0 sc' rest
    | _, _ => disagree st s!"kind=S in={sc.inh} daemon-timeout-or-unparsable todo={todoh} {infoh} {loch} {remh}"
  | "J" :: ks :: a1 :: b1 :: c1 :: e1 :: g1 :: name :: file :: idx :: rest => do
    -- a failing re-read: f1 written, SIGHUP delivered in select(), the k-th call of reread() failed (`name file idx` = what the
    -- harness's gate failed; "none" = reread() made fewer calls), daemon idle again.  Events: edit f1, hup, topIO io.
    match filesOf [a1, b1, c1, e1, g1], ks.toNat?, obsCall name file idx with
    | some f1, some k, some oc =>
      let mut st := st
      -- the model's call sequence of reread() against the call the gate really failed
      let mc := rereadCall sc.d.me f1 k
      if mc != oc then
        st ← disagree st s!"kind=S in={sc.inh} re-read call {k}: impl={name},{file},{idx} model={repr mc} stdin={sc.inh}"
      let io := oc.io
      let (st1, sc1) ← feed st sc (.edit f1)
      let (st2, sc2) ← feed st1 sc1 .hup
      let (st3, sc3) ← feedF st2 sc2 (.topIO io)
      let struck := strikesReread io f1
      let st4 := (st3.bump "S_hup").bump (if struck then "S_reread_failed" else "S_reread_fault_harmless")
      let st5 := st4.bump ("S_reread_fault_at_" ++ name ++ (if file == "-" then "" else "_" ++ file))
      -- did the failed re-read matter?  (the tables on disk differ from those in force)
      let st6 := if struck && tablesAt sc.d.me f1 != some (sc.d.cfg.locals, sc.d.cfg.vdoms) then st5.bump "S_reread_failed_tables_differ" else st5
      let st7 := if struck && name != "chdir" && file == "virtualdomains" &&
          (tablesAt sc.d.me f1).map (·.1) != some sc.d.cfg.locals then st6.bump "S_reread_failed_at_vdoms_after_new_locals_read" else st6
      scenario st7 d0 { sc3 with hups := sc3.hups + 1, stale := struck } rest
    | _, _, _ => disagree st s!"kind=S in={sc.inh} unparsable J step"
  | "I" :: ks :: a1 :: b1 :: c1 :: e1 :: g1 :: a2 :: b2 :: c2 :: e2 :: g2 :: masks :: call :: rest => do
    -- SIGHUP (B) during the re-read that serves SIGHUP (A): f1 written, (A) delivered in select(), the daemon held before
    -- its k-th call inside reread(); f2 written (atomic renames), (B) delivered, daemon released, idle, trigger pulled
    -- (loop top), idle.  Re-read (A) saw, per file, the version on disk when it opened that file: f1 for the files the
    -- mask names as already opened, f2 for the others (`g`).  Observed events: edit g, hup, top, edit f2, hup, top.
    match filesOf [a1, b1, c1, e1, g1], filesOf [a2, b2, c2, e2, g2], masks.toNat?, ks.toNat? with
    | some f1, some f2, some mask, some _ =>
      let g : Files := { f1 with locals := if mask % 2 == 1 then f1.locals else f2.locals,
                                 vdoms := if mask / 2 % 2 == 1 then f1.vdoms else f2.vdoms }
      let (st1, sc1) ← feed st sc (.edit g)
      let (st2, sc2) ← feed st1 sc1 .hup
      let (st3, sc3) ← feed st2 sc2 .top
      let (st4, sc4) ← feed st3 sc3 (.edit f2)
      let (st5, sc5) ← feed st4 sc4 .hup
      let (st6, sc6) ← feed st5 sc5 .top
      let st7 := (st6.bump "S_hup").bump "S_hup"
      let st8 := if call == "none" then st7.bump "S_hup_back_to_back" else
        (st7.bump "S_hup_during_reread").bump ("S_hup_during_reread_at_" ++ call ++ "_opened" ++ masks)
      scenario st8 d0 { sc6 with hups := sc6.hups + 2, stale := false } rest
    | _, _, _, _ => disagree st s!"kind=S in={sc.inh} unparsable I step"
  | k :: a :: b :: c :: e :: f :: rest => do
    if k != "H" && k != "E" then return (← disagree st s!"kind=S in={sc.inh} bad-step {k}")
    match filesOf [a, b, c, e, f] with
    | some nf =>
      let (st1, sc1) ← feed st sc (.edit nf)
      if k == "H" then
        let (st2, sc2) ← feed st1 sc1 .hup
        let (st3, sc3) ← feed st2 sc2 .top
        scenario (st3.bump "S_hup") d0 { sc3 with hups := sc3.hups + 1, stale := false } rest
      else scenario (st1.bump "S_edit_nohup") d0 { sc1 with stale := true } rest
    | none => disagree st s!"kind=S in={sc.inh} unparsable files"
  | _ => disagree st s!"kind=S in={sc.inh} truncated (daemon died or timed out)"

/-- the `C <chan> <delnum> <fn> <sender> <recip>` groups of a D line: per channel, in order of appearance -/
def parseDeliveries : List String → Option (List (Nat × Bytes × Bytes × Bytes))
  | [] => some []
  | "C" :: ch :: slot :: fnh :: sh :: rh :: rest =>
    if slot != "ok" then none else      -- delivery slot number out of range
    match ch.toNat?, unhex fnh, unhex sh, unhex rh, parseDeliveries rest with
    | some c, some fnm, some s, some r, some l => some ((c, fnm, s, r) :: l)
    | _, _, _, _, _ => none
  | _ => none

/-- the deliveries a preprocessed message must cause on one channel: one per record of the channel file, in
order, each with the sender `f sender recip` -/
def wantDeliveries (f : Bytes → Bytes → Bytes) (fnm sender : Bytes) (chanfile : Bytes) : List (Bytes × Bytes × Bytes) :=
  (chunks chanfile).map (fun r => (fnm, f sender (r.drop 1), r.drop 1))

def senderOf (todo : Bytes) : Bytes :=
  match (chunks todo).find? (fun r => r.head? == some 70) with
  | some r => r.drop 1
  | none => []

def handle (ref : IO.Ref Cur) (st : Stats) (line : String) : IO Stats := do
  let fs := fields line
  let st := { st with cases := st.cases + 1 }
  match fs with
  | ["G", a, b, c, d, e, ok, envh, phh, lch, vdh] =>
    match filesOf [a, b, c, d, e], unhex envh, unhex phh, unhex lch, unhex vdh with
    | some f, some envb, some phb, some lcb, some vdb =>
      let ghex := ",".intercalate [a, b, c, d, e]
      let model := getcontrols f
      let implRaw : RawCfg := ⟨envb, phb, lcb, vdb⟩
      let mut st := st.bump "G"
      let agree := match model with
        | some r => ok == "1" && r == implRaw
        | none => ok == "0"
      if !agree then
        let ms := match model with
          | some r => s!"1:{hex r.env}:{hex r.ph}:{hex r.locals}:{hex r.vdoms}"
          | none => "0"
        st ← disagree st s!"kind=G g={ghex} in={ghex} impl={ok}:{envh}:{phh}:{lch}:{vdh} model={ms} stdin=G,{ghex}"
      let spec := if nulFree f then specCfg f else none
      -- oracle: the buffers the implementation built contain exactly the documented entries
      if nulFree f then
        let good := match spec with
          | some c => ok == "1" && bufCfgEq implRaw c
          | none => ok == "0"
        if !good then
          st ← oracleFail st s!"kind=G g={ghex} in={ghex} impl={ok}:{envh}:{phh}:{lch}:{vdh} stdin=G,{ghex}"
      let nodup := match spec with | some c => cfgOk c | none => false
      if !nodup && spec.isSome then st := st.bump "G_dup_keys"
      ref.set { ghex := ghex, raw := model, L := match model with | some r => r.htLookups | none => ({} : Cur).L,
                spec := spec, nodup := nodup, h := hashBytes (ghex.toUTF8.toList) }
      return st
    | _, _, _, _, _ => disagree st s!"unparsable line {line}"
  | ["R", rh, ret, lineh] =>
    match unhex rh, unhex lineh with
    | some recip, some il =>
      let cur ← ref.get
      match cur.raw with
      | none => disagree st s!"kind=R g={cur.ghex} in={rh} rewrite ran although the model refuses this configuration"
      | some raw =>
        let m := rewriteWith cur.L raw.env recip
        let mut st := st
        if retOf m != ret || m.line != il then
          st ← disagree st s!"kind=R g={cur.ghex} in={rh} impl={ret}:{lineh} model={retOf m}:{hex m.line} stdin=G,{cur.ghex};R,{rh}"
        let ma := rewrite raw.cfg recip
        if ma != m then
          st ← disagree st s!"kind=R g={cur.ghex} in={rh} hash-table model and finite-map model differ"
        st := st.bump (if m.chan == .loc then (if m.tag.isEmpty then "R_local" else "R_virtual") else "R_remote")
        let pct := m.addr != (if recip.contains AT then recip else recip ++ AT :: raw.env)
        if pct then st := st.bump "R_percenthack_applied"
        let key := hashBytes recip ^^^ cur.h
        let fresh := !st.seen.contains key
        if fresh && (m.chan == .loc || pct) then
          st := { st with seen := st.seen.insert key, nontrivial := st.nontrivial + 1 }
        match cur.spec with
        | some c =>
          if cur.nodup then
            let s := routeSpec c recip
            if retOf s != ret || s.line != il then
              st ← oracleFail st s!"kind=R g={cur.ghex} in={rh} impl={ret}:{lineh} spec={retOf s}:{hex s.line} stdin=G,{cur.ghex};R,{rh}"
            -- statistics: how often the two readings of "repeatedly" differ (fqdn containing '@')
            let a0 := if recip.contains AT then recip else recip ++ AT :: c.env
            if pctString c.ph (a0.length + 1) a0 != s.addr then st := st.bump "R_pct_readings_differ"
            if fresh && st.samples < 3 && m.chan == .loc && !m.tag.isEmpty && pct then
              IO.println s!"SAMPLE kind=R g={cur.ghex} in={rh} ret={ret} rwline={lineh}"
              st := { st with samples := st.samples + 1 }
          else st := st.bump "R_oracle_skipped_dup"
        | none => st := st.bump "R_oracle_skipped_nul"
        return st
    | _, _ => disagree st s!"unparsable line {line}"
  | ["V", sh, rh, dn, ids, bufh] =>
    match unhex sh, unhex rh, unhex bufh, dn.toNat?, ids.toNat? with
    | some sender, some recip, some buf, some delnum, some id =>
      let fnm := fmtNat (id % Nq.Gen.auto_split) ++ 47 :: fmtNat id
      let m := commWrite delnum.toUInt8 fnm sender recip
      let mut st := st.bump "V"
      if m != buf then
        st ← disagree st s!"kind=V in={sh} recip={rh} delnum={dn} id={ids} impl={bufh} model={hex m} stdin=V,{sh},{rh},{dn},{ids}"
      let want := verpSpec sender recip
      let good := match buf with
        | _ :: rest => chunks rest == [fnm, want, recip]
        | [] => false
      if !good then
        st ← oracleFail st s!"kind=V in={sh} recip={rh} delnum={dn} id={ids} impl={bufh} spec_sender={hex want} stdin=V,{sh},{rh},{dn},{ids}"
      if want != sender then
        st := st.bump "V_verp_expanded"
        let key := hashBytes (sender ++ 0 :: recip)
        if !st.seen.contains key then st := { st with seen := st.seen.insert key, nontrivial := st.nontrivial + 1 }
      return st
    | _, _, _, _, _ => disagree st s!"unparsable line {line}"
  | ["K", bh, fcs, kh, found, vh] =>
    match unhex bh, unhex kh, unhex vh with
    | some buf, some key, some v =>
      let fc := fcs == "1"
      let m := (cmInit buf fc).lookup key
      let mut st := st.bump "K"
      let agree := match m with
        | some x => found == "1" && (!fc || x == v)
        | none => found == "0"
      if !agree then
        let ms := match m with | some x => "1:" ++ hex x | none => "0"
        st ← disagree st s!"kind=K in={kh} buf={bh} fc={fcs} impl={found}:{vh} model={ms} stdin=K,{bh},{fcs},{kh}"
      let es := parseEntries buf fc
      -- membership ("is listed", all that locals/percenthack use) needs no hypothesis: C10_constmap_listed
      if (found == "1") != listed es key then
        st ← oracleFail st s!"kind=K in={kh} buf={bh} fc={fcs} impl={found}:{vh} listed={listed es key} stdin=K,{bh},{fcs},{kh}"
      if noDupKeys es then
        let good := match entryFor es key with
          | some x => found == "1" && (!fc || x == v)
          | none => found == "0"
        if !good then st ← oracleFail st s!"kind=K in={kh} buf={bh} fc={fcs} impl={found}:{vh} stdin=K,{bh},{fcs},{kh}"
        if found == "1" then st := st.bump "K_found"
      else st := st.bump (if fc then "K_value_oracle_skipped_dup" else "K_dup_listed_only")
      return st
    | _, _, _ => disagree st s!"unparsable line {line}"
  | ["X", kh, hs] =>
    match unhex kh, hs.toNat? with
    | some key, some h =>
      if (cmHash key).toNat != h then disagree st s!"kind=X in={kh} impl={hs} model={(cmHash key).toNat} stdin=X,{kh}"
      else return st.bump "X"
    | _, _ => disagree st s!"unparsable line {line}"
  | ["B", cs, sh, rs, cd] =>
    match cs.toNat?, unhex sh, rs.toNat? with
    | some c, some s, some r =>
      let mut st := st.bump "B"
      if rchr c.toUInt8 s != r then
        st ← disagree st s!"kind=B in={sh} c={cs} impl={rs} model={rchr c.toUInt8 s} stdin=B,{cs},{sh}"
      if rchrC c.toUInt8 s != r then
        st ← disagree st s!"kind=B in={sh} c={cs} impl={rs} model-loop={rchrC c.toUInt8 s} stdin=B,{cs},{sh}"
      let good := match splitLast c.toUInt8 s with
        | some p => r == p.1.length
        | none => r == s.length
      if !good || cd != "1" then st ← oracleFail st s!"kind=B in={sh} c={cs} impl={rs} casefold_equal={cd} stdin=B,{cs},{sh}"
      return st
    | _, _, _ => disagree st s!"unparsable line {line}"
  | "D" :: a :: b :: c :: d :: e :: started :: todoh :: ids :: dels =>
    match filesOf [a, b, c, d, e], unhex todoh, ids.toNat?, parseDeliveries dels with
    | some f, some todo, some id, some obs =>
      let inh := ",".intercalate ["D", a, b, c, d, e, "1", todoh]
      let mut st := st.bump "D"
      let fnm := fmtNat (id % Nq.Gen.auto_split) ++ 47 :: fmtNat id
      let sender := senderOf todo
      let obsOn (c : Nat) := (obs.filter (fun x => x.1 == c)).map (fun x => x.2)
      match start f with
      | some dm =>
        if started != "1" then return (← disagree st s!"kind=D in={inh} the daemon did not start (model: starts)")
        -- model: todo_do under the start-up configuration, then one comm_write per record of each channel file
        match todoDo dm.cfg.htLookups dm.cfg.env todo with
        | some o =>
          if obsOn 0 != wantDeliveries senderadd fnm sender o.loc || obsOn 1 != wantDeliveries senderadd fnm sender o.rem then
            st ← disagree st s!"kind=D in={inh} deliveries differ from the model: local {(obsOn 0).length}/{(chunks o.loc).length} remote {(obsOn 1).length}/{(chunks o.rem).length} stdin={inh}"
        | none => if !obs.isEmpty then st ← disagree st s!"kind=D in={inh} deliveries for a message the model refuses stdin={inh}"
        -- oracle: the documented routing (specTodo) and the documented VERP rule (verpSpec) on what the daemon sent
        match specStart f with
        | some sp =>
          if cfgOk sp.cfg then
            match specTodo sp.cfg todo with
            | some o =>
              if obsOn 0 != wantDeliveries verpSpec fnm sender o.loc || obsOn 1 != wantDeliveries verpSpec fnm sender o.rem then
                st ← oracleFail st s!"kind=D in={inh} local={(obsOn 0).map (fun x => hex x.2.1 ++ ">" ++ hex x.2.2)} remote={(obsOn 1).map (fun x => hex x.2.1 ++ ">" ++ hex x.2.2)} stdin={inh}"
              else
                st := (List.range obs.length).foldl (fun s _ => s.bump "D_deliveries") st
                if obs.any (fun x => x.2.2.1 != sender) then st := st.bump "D_verp_expanded"
            | none => if !obs.isEmpty then st ← oracleFail st s!"kind=D in={inh} deliveries for a message that must be refused stdin={inh}"
          else st := st.bump "D_oracle_skipped_dup"
        | none => pure ()
        return st
      | none =>
        if started != "0" then disagree st s!"kind=D in={inh} the daemon started (model: refuses)"
        else return st.bump "D_refused"
    | _, _, _, _ => disagree st s!"unparsable line {line}"
  | ["Z", ks, a, b, c, d, e, started, name, file, idx] =>
    match filesOf [a, b, c, d, e], ks.toNat?, obsCall name file idx with
    | some f, some k, some oc =>
      let inh := ",".intercalate ["Z", ks, a, b, c, d, e]
      let mut st := st.bump "Z"
      let io := oc.io
      -- the model's call sequence of start-up against the call the gate really failed (only while the daemon gets that far)
      let mc := startCall f k
      if (start f).isSome && mc != oc then
        st ← disagree st s!"kind=Z in={inh} start-up call {k}: impl={name},{file},{idx} model={repr mc} stdin={inh}"
      if (startIO io f).isSome != (started == "1") then
        st ← disagree st s!"kind=Z in={inh} started={started} model={(startIO io f).isSome} fault={name},{file},{idx} stdin={inh}"
      -- oracle (C10_start_io_spec): it starts iff no error strikes a call start-up needs and the documents let it start
      if nulFreeB f && (specStartIO io f).isSome != (started == "1") then
        st ← oracleFail st s!"kind=Z in={inh} started={started} documented={(specStartIO io f).isSome} fault={name},{file},{idx} stdin={inh}"
      st := st.bump ("Z_fault_at_" ++ name ++ (if file == "-" then "" else "_" ++ file))
      if strikesStart io f && (start f).isSome then st := st.bump "Z_refused_because_of_the_fault"
      if !strikesStart io f && (start f).isSome then st := st.bump "Z_started_fault_harmless_or_none"
      return st
    | _, _, _ => disagree st s!"unparsable line {line}"
  | "S" :: a :: b :: c :: d :: e :: started :: _n :: steps =>
    match filesOf [a, b, c, d, e] with
    | some f =>
      let inh := ",".intercalate ("S" :: a :: b :: c :: d :: e :: steps.filter (fun t => t != ""))
      let mut st := st.bump "S"
      -- oracle (C10_start): the daemon starts iff the documents say so (NUL-free control directory)
      if nulFreeB f && (specStart f).isSome != (started == "1") then
        st ← oracleFail st s!"kind=S in={inh} started={started} documented={(specStart f).isSome} stdin={inh}"
      match start f with
      | some dm =>
        if started != "1" then
          return (← disagree st s!"kind=S in={inh} the daemon did not start (model: starts)")
        scenario st dm { inh := inh, f0 := f, d := dm, sp := specStart f } steps
      | none =>
        if started != "0" then disagree st s!"kind=S in={inh} the daemon started (model: refuses)"
        else return st.bump "S_refused"
    | none => disagree st s!"unparsable line {line}"
  | _ => disagree st s!"unparsable line {line}"

def main : IO Unit := do
  let ref ← IO.mkRef ({} : Cur)
  runDriver (handle ref)
