/- Driver for C05: real qmail-smtpd blast() vs `dblast`/`hopsOf`; oracle = the line-based RFC
   reference decoder, and (theorem C05_hops) the line-based hop count `HopCount.hopSpec` evaluated on the
   hop count the implementation reported; (theorems C05_chunking*) the chunked loop `SmtpIO.sblast` run with the
   harness's read plan as read script, and the chunk-independence oracle.
   Input lines: `<plan> <stream> <A|S|E|T> <stored> <consumed> <hops> <ssin.p> <ssin.n> <nreads> <delivered>` (plan: see
   Drv/SmtpPlan.lean; `inp` below is the stream after the plan's pre-consumed prefix, i.e. what blast() has to decode;
   `delivered` = bytes of the stream the read() calls had returned when the case ended) -/
import Drv.Util
import Drv.SmtpPlan
import Nq.SmtpIn
import Nq.SmtpIO
import Nq.HopCount

open Nq Nq.SmtpIn Drv Drv.SmtpPlan

def statusOf : DRes → String
  | .accepted _ _ => "A"
  | .stray => "S"
  | .incomplete => "E"

def handle (sigs : SigRef) (st : Stats) (line : String) : IO Stats := do
  match fields line with
  | [chunk, inh, status, storedh, consumedS, hopsS, pS, nS, nreadsS, deliveredS] =>
    match unhex inh, unhex storedh, parsePlan chunk with
    | some stream, some stored, some plan =>
      let inp := stream.drop plan.skip
      let h := hashBytes inp
      let fresh := !st.seen.contains h
      let nontriv := inp.contains CR || inp.contains LF
      let mut st := { st with cases := st.cases + 1, seen := st.seen.insert h,
                              nontrivial := st.nontrivial + (if fresh && nontriv then 1 else 0) }
      st := st.bump ("chunk" ++ plan.cls)
      st := st.bump ("status" ++ status)
      /- a death under a plan with a failing read (audit E, item 4) is legitimate only if (a) the decoder had no verdict yet on
         the bytes the program had been given (it reads only when its buffer is empty, so it had consumed all of them), and
         (b) the process stopped AT the failing call: the number of read() calls made is the 1-based index of the first
         failing entry of the plan (or the whole stream had been delivered: end of input) -/
      let delivered := (deliveredS.toNat?).getD stream.length
      let given := (stream.take delivered).drop plan.skip
      let stoppedAtFail := match plan.firstFail with
        | some k => nreadsS.toNat? == some (k + 1) || delivered == stream.length
        | none => false
      let model := dblast inp
      let agree := match status, model with
        | "A", .accepted body rest =>
            body == stored && consumedS.toInt? == some (Int.ofNat (inp.length - rest.length)) &&
            hopsS.toInt? == some (Int.ofNat (hopsOf (inp.take (inp.length - rest.length))))
        | "S", .stray => true
        | "E", .incomplete => true
        | "E", _ => plan.hasFail && stoppedAtFail && dblast given == .incomplete   -- the pure automaton on what had been delivered
        | _, _ => false
      if !agree then
        let ms := match model with
          | .accepted body rest => s!"A {hex body} {inp.length - rest.length} {hopsOf (inp.take (inp.length - rest.length))}"
          | .stray => "S" | .incomplete => "E"
        IO.println s!"DISAGREE in={inh} chunk={chunk} impl={status} {storedh} {consumedS} {hopsS} model={ms}"
        st := { st with disagree := st.disagree + 1 }
      -- property oracle on the implementation's behaviour: the independent reference decoder
      let spec := rfcDecode inp
      let ok := match status, spec with
        | "A", .accepted body rest => body == stored && consumedS.toInt? == some (Int.ofNat (inp.length - rest.length)) &&
            hopsS.toInt? == some (Int.ofNat (Nq.HopCount.hopSpec (inp.take (inp.length - rest.length))))
        | "S", .stray => true
        | "E", .incomplete => true
        | "E", _ => plan.hasFail && stoppedAtFail && rfcDecode given == .incomplete  -- C05_chunking_anyscript: only a failing read() ends the session early
        | _, _ => false
      if !ok then
        let sh := match spec with
          | .accepted _ rest => s!" spec-hops={Nq.HopCount.hopSpec (inp.take (inp.length - rest.length))}"
          | _ => ""
        IO.println s!"ORACLE in={inh} chunk={chunk} impl={status} stored={storedh} consumed={consumedS} hops={hopsS} spec={statusOf spec}{sh}"
        st := { st with oracle := st.oracle + 1 }
      /- ### chunked I/O (theorems C05_chunking, C05_chunking_anyscript, C05_chunking_ssin, C05_chunking_indep) -/
      -- DISAGREE channel: the composed model `sblast` (substdio_get(1) over ssin, 1024-byte buffer) run with the harness's
      -- read plan as the read script must do exactly what the implementation did, including the state `ssin` is left in
      if plan.cost stream.length 1024 > costBudget then
        st := st.bump "chunked-model-skipped(cost)"
      else
        let script := plan.script (stream.length + 4)
        let s0 := Nq.SmtpIO.istart 1024 stream script
        let mres := match skipLoop (plan.skip + 2) s0 plan.skip with
          | some s1 => Nq.SmtpIO.sblast s1
          | none => .died
        let cagree := match status, mres with
          | "A", .accepted body s' =>
              body == stored && consumedS.toInt? == some (Int.ofNat (inp.length - (s'.data ++ s'.src).length)) &&
              pS.toNat? == some s'.p && nS.toNat? == some s'.n && nreadsS.toNat? == some (script.length - s'.rs.length)
          | "S", .stray => true
          | "E", .died => true
          | _, _ => false
        if !cagree then
          let ms := match mres with
            | .accepted body s' => s!"A {hex body} {inp.length - (s'.data ++ s'.src).length} p={s'.p} n={s'.n} nreads={script.length - s'.rs.length}"
            | .stray => "S" | .died => "E"
          IO.println s!"DISAGREE in={inh} chunk={chunk} chunked-model impl={status} {storedh} {consumedS} p={pS} n={nS} nreads={nreadsS} model={ms}"
          st := { st with disagree := st.disagree + 1 }
      -- ORACLE channel (C05_chunking_indep on the implementation's behaviour): every split of the same stream gives the same
      -- verdict, stored bytes and consumed count (plans with a failing read are excluded: they may legitimately die)
      if !plan.hasFail then
        match ← checkSig sigs h chunk s!"{status} {hashBytes stored} {stored.length} {consumedS}" with
        | some first =>
          IO.println s!"ORACLE in={inh} chunk={chunk} impl={status} stored={storedh} consumed={consumedS} chunking-dependent: differs from the run under plan {first}"
          st := { st with oracle := st.oracle + 1 }
        | none => pure ()
      if fresh && status == "A" && st.samples < 3 && inp.length ≥ 6 then
        IO.println s!"SAMPLE in={inh} chunk={chunk} status={status} stored={storedh} consumed={consumedS} hops={hopsS}"
        st := { st with samples := st.samples + 1 }
      return st
    | _, _, _ => IO.println s!"DISAGREE unparsable line {line}"; return { st with disagree := st.disagree + 1 }
  | _ => IO.println s!"DISAGREE unparsable line {line}"; return { st with disagree := st.disagree + 1 }

def main : IO Unit := do
  let sigs : SigRef ← IO.mkRef {}
  runDriver (handle sigs)
