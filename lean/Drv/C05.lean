/- Driver for C05: real qmail-smtpd blast() vs `dblast`/`hopsOf`; oracle = the line-based RFC
   reference decoder. Input lines: `<chunk> <in> <A|S|E|T> <stored> <consumed> <hops>` -/
import Drv.Util
import Nq.SmtpIn

open Nq Nq.SmtpIn Drv

def statusOf : DRes → String
  | .accepted _ _ => "A"
  | .stray => "S"
  | .incomplete => "E"

def handle (st : Stats) (line : String) : IO Stats := do
  match fields line with
  | [chunk, inh, status, storedh, consumedS, hopsS] =>
    match unhex inh, unhex storedh with
    | some inp, some stored =>
      let h := hashBytes inp
      let fresh := !st.seen.contains h
      let nontriv := inp.contains CR || inp.contains LF
      let mut st := { st with cases := st.cases + 1, seen := st.seen.insert h,
                              nontrivial := st.nontrivial + (if fresh && nontriv then 1 else 0) }
      st := st.bump ("chunk" ++ chunk)
      st := st.bump ("status" ++ status)
      let model := dblast inp
      let agree := match status, model with
        | "A", .accepted body rest =>
            body == stored && consumedS.toInt? == some (Int.ofNat (inp.length - rest.length)) &&
            hopsS.toInt? == some (Int.ofNat (hopsOf (inp.take (inp.length - rest.length))))
        | "S", .stray => true
        | "E", .incomplete => true
        | _, _ => false
      if !agree then
        let ms := match model with
          | .accepted body rest => s!"A {hex body} {inp.length - rest.length} {hopsOf (inp.take (inp.length - rest.length))}"
          | .stray => "S" | .incomplete => "E"
        IO.println s!"DISAGREE in={inh} chunk={chunk} impl={status} {storedh} {consumedS} {hopsS} model={ms}"
        st := { st with disagree := st.disagree + 1 }
      -- property oracle on the implementation's behaviour: the independent reference decoder
      let spec := rfcDecode inp
      let ok := match status, spec with
        | "A", .accepted body rest => body == stored && consumedS.toInt? == some (Int.ofNat (inp.length - rest.length))
        | "S", .stray => true
        | "E", .incomplete => true
        | _, _ => false
      if !ok then
        IO.println s!"ORACLE in={inh} chunk={chunk} impl={status} stored={storedh} consumed={consumedS} spec={statusOf spec}"
        st := { st with oracle := st.oracle + 1 }
      if fresh && status == "A" && st.samples < 3 && inp.length ≥ 6 then
        IO.println s!"SAMPLE in={inh} chunk={chunk} status={status} stored={storedh} consumed={consumedS} hops={hopsS}"
        st := { st with samples := st.samples + 1 }
      return st
    | _, _ => IO.println s!"DISAGREE unparsable line {line}"; return { st with disagree := st.disagree + 1 }
  | _ => IO.println s!"DISAGREE unparsable line {line}"; return { st with disagree := st.disagree + 1 }

def main : IO Unit := runDriver handle
