/- Driver for C01 (stub until the property's model is written). -/
import Drv.Util
open Drv
def handle (st : Stats) (_line : String) : IO Stats := return { st with cases := st.cases + 1 }
def main : IO Unit := runDriver handle
