/- Driver for C01: replays the real qmail-queue's system-call traces (recorded under qsim) through
   the acceptor `QueueInject.accept`, and evaluates the property oracle on the concrete crash
   states the harness reports. -/
import Drv.Util
import Nq.QueueInject
import Nq.Datetime

open Nq Nq.QueueInject Drv

structure Case where
  p : Params := { msg := [], env := [], received := [], hdr := [] }
  hdrline : String := ""
  st : Option St := some {}
  rejected : String := ""
  messFd : String := "?"
  intdFd : String := "?"
  ino : String := "?"
  pid : String := ""
  clock : String := ""
  exit : Nat := 999
  fault : Bool := false
  setup : Int := 0            -- the failure of an untraced library call the harness arranged (0: none)
  faulty : Bool := false      -- a `Faulty` event occurred in the implementation's trace
  sig : Option Sig := none    -- a caught signal was delivered
  afterSig : List String := []  -- what the implementation did after the handler started
  final : String := "?"       -- names of the entry after the exit
  nev : Nat := 0
  kinds : List String := []

def kvOf (toks : List String) (k : String) : String :=
  match toks.find? (fun t => t.startsWith (k ++ "=")) with
  | some t => (t.drop (k.length + 1)).toString
  | none => ""

def parseEv (c : Case) (toks : List String) : Option Ev × Case :=
  let ok := fun (r : String) => r != "-1" && r != "0e"
  match toks with
  | ["T", _, "alarm", n] => (some (.alarm n.toNat!), c)
  | ["T", _, "exit", code] => (some (.exit code.toNat!), c)
  | ["T", _, "signal", n] =>
    -- SIGALRM -> sigalrm(); SIGILL, SIGABRT, SIGBUS, SIGFPE, SIGSEGV, SIGSYS -> sigbug() (sig_bugcatch)
    if n == "14" then (some (.signal .alrm), c)
    else if ["4", "6", "7", "8", "11", "31"].contains n then (some (.signal .bug), c)
    else (none, c)
  | "T" :: _ :: _ :: "open_excl" :: path :: "->" :: r :: rest =>
    if path.startsWith "pid/" then
      let parts := path.splitOn "."
      let seq := (parts.getLast?.getD "0").toNat!
      let good := path == s!"pid/{c.pid}.{c.clock}.{seq}"     -- pidfmt(): pid/<pid>.<starttime>.<seq>
      if !good then (none, c) else
      (some (.openPid seq (r != "-1")), if r != "-1" then { c with messFd := r, ino := kvOf rest "ino" } else c)
    else if path == "intd/" ++ c.ino then
      (some (.openIntd (r != "-1")), if r != "-1" then { c with intdFd := r } else c)
    else (none, c)
  | "T" :: _ :: _ :: "fstat" :: fd :: "->" :: r :: _ => if fd == c.messFd then (some (.fstatPid (r != "-1")), c) else (none, c)
  | "T" :: _ :: _ :: "link" :: a :: b :: "->" :: r :: _ =>
    let n := c.ino.toNat!
    if a.startsWith "pid/" && b == s!"mess/{n % Gen.auto_split}/{n}" then (some (.linkMess (r != "-1")), c)
    else if a == "intd/" ++ c.ino && b == "todo/" ++ c.ino then (some (.linkTodo (r != "-1")), c)
    else (none, c)
  | "T" :: _ :: _ :: "unlink" :: a :: "->" :: r :: _ =>
    let n := c.ino.toNat!
    if a.startsWith "pid/" then (some (.unlinkPid (r != "-1")), c)
    else if a == "intd/" ++ c.ino then (some (.unlinkF .intd (r != "-1")), c)
    else if a == s!"mess/{n % Gen.auto_split}/{n}" then (some (.unlinkF .mess (r != "-1")), c)
    else (none, c)
  | "T" :: _ :: _ :: "read" :: fd :: "->" :: r :: rest =>
    if r == "-1" then (some (.readErr fd.toNat! (rest.head? == some "e4")), c) else (some (.read fd.toNat! r.toNat!), c)
  | "T" :: _ :: _ :: "write" :: fd :: rest =>
    let f := if fd == c.messFd then some FileId.mess else if fd == c.intdFd then some FileId.intd else none
    match f with
    | none => (none, c)
    | some f =>
      if rest.contains "-1" then (some (.writeErr f (rest.contains "e4")), c)
      else match unhex (kvOf rest "data") with
        | some bs => (some (.write f bs), c)
        | none => (none, c)
  | "T" :: _ :: _ :: "fsync" :: fd :: "->" :: r :: _ | "T" :: _ :: _ :: "fsync" :: fd :: _ :: "->" :: r :: _ =>
    let f := if fd == c.messFd then some FileId.mess else if fd == c.intdFd then some FileId.intd else none
    match f with | some f => (some (.fsync f (r != "-1")), c) | none => (none, c)
  | "T" :: _ :: _ :: "ftruncate" :: fd :: rest =>
    let f := if fd == c.messFd then some FileId.mess else if fd == c.intdFd then some FileId.intd else none
    match f with | some f => (some (.ftrunc f (!rest.contains "-1")), c) | none => (none, c)
  | "T" :: _ :: _ :: "open_write" :: "lock/trigger" :: "->" :: r :: _ => (some (.trigOpen (r != "-1")), c)
  | "T" :: _ :: _ :: "write_fifo" :: _ => (some .trigWrite, c)
  | "T" :: _ :: _ :: "close_fifo" :: _ => (some .trigClose, c)
  | _ => (none, c)

def evKind : Ev → String
  | .alarm _ => "alarm" | .openPid _ ok => if ok then "openPid" else "openPid!" | .fstatPid ok => if ok then "fstat" else "fstat!"
  | .linkMess ok => if ok then "linkMess" else "linkMess!" | .unlinkPid ok => if ok then "unlinkPid" else "unlinkPid!"
  | .read _ _ => "read" | .readErr _ i => if i then "readEINTR" else "read!" | .write _ _ => "write"
  | .writeErr _ i => if i then "writeEINTR" else "write!" | .fsync _ ok => if ok then "fsync" else "fsync!"
  | .openIntd ok => if ok then "openIntd" else "openIntd!" | .linkTodo ok => if ok then "linkTodo" else "linkTodo!"
  | .ftrunc _ ok => (if ok then "ftrunc" else "ftrunc!") | .unlinkF _ ok => if ok then "unlinkF" else "unlinkF!" | .trigOpen ok => if ok then "trigOpen" else "trigOpen!"
  | .trigWrite => "trigWrite" | .trigClose => "trigClose" | .exit c => s!"exit{c}"
  | .signal g => match g with | .alrm => "SIGALRM" | .bug => "SIGBUG"

/-! the Received line qmail-queue.c documents (receivedfmt + date822fmt.c), computed from the uid, pid and clock the
harness gave the process - independently of the program's own buffer; the calendar is `Nq.Datetime.tai`
(proved against the civil calendar in C07) -/
def two (n : Nat) : String := (if n < 10 then "0" else "") ++ toString n

def date822 (t : Nat) : String :=
  let d := Nq.Datetime.tai (Int.ofNat t)
  let mon := ["Jan", "Feb", "Mar", "Apr", "May", "Jun", "Jul", "Aug", "Sep", "Oct", "Nov", "Dec"].getD d.mon.toNat "???"
  s!"{d.mday.toNat} {mon} {d.year.toNat} {two d.hour.toNat}:{two d.min.toNat}:{two d.sec.toNat} -0000\n"

/-- uids of the harness's passwd database: alias 7790, qmaild 7791, qmails 7796 -/
def receivedDoc (uid pid : String) (clock : Nat) : Bytes :=
  let who := if uid == "7790" then "by alias" else if uid == "7791" then "from network"
             else if uid == "7796" then "for bounce" else "by uid " ++ uid
  (s!"Received: (qmail {pid} invoked {who}); " ++ date822 clock).toUTF8.toList

def hash16 (b : Bytes) : String :=
  let h := hashBytes b
  let digs := (List.range 16).map (fun i => hexDigit ((h >>> (60 - 4 * i.toUInt64)) &&& 15).toUInt8)
  String.ofList digs

/-- the property, on one concrete crash state reported by the harness -/
def oracleState (c : Case) (k : Nat) (ncalls : Nat) (code : String) (toks : List String) : Option String :=
  let allowed := ["-", "p", "pm", "m", "mi", "mit"]
  if !allowed.contains code then some s!"leftover state {code} is not one the daemon collects"
  else
    let hasT := code.contains 't'
    let sc := scanDoc c.p.env
    let final := k == ncalls + 1
    if hasT then
      if sc.1 != .done then some "todo visible although the envelope is not well-formed"
      else
        let expMess := c.p.received ++ c.p.msg
        let expTodo := c.p.hdr ++ sc.2
        if kvOf toks "mess" != s!"{expMess.length}:{hash16 expMess}" then some "todo visible with an incomplete or wrong message file"
        else if kvOf toks "todo" != s!"{expTodo.length}:{hash16 expTodo}" then some "todo visible with an incomplete or wrong envelope"
        else if kvOf toks "named" != "1" then some "file name differs from inode number"
        else if kvOf toks "linked" != "1" then some "intd/<n> and todo/<n> are not the same inode"
        -- C01_failure / C01_killed: only the signal handlers' codes may go with a (complete) visible entry
        else if final && c.exit != 0 && c.exit != 52 && c.exit != 81 then some "failure reported but the message is visible to the daemon"
        else none
    else if final && c.exit == 0 then some "success reported but no todo entry is visible"
    else none

structure DState where
  st : Stats := {}
  cur : Case := {}
  ncalls : Nat := 0
  bad : Bool := false

def oracleLine (d : DState) (why : String) : IO DState := do
  IO.println s!"ORACLE {d.cur.hdrline} {why}"
  return { d with st := { d.st with oracle := d.st.oracle + 1 } }

def finishCase (d0 : DState) : IO DState := do
  let c := d0.cur
  let mut d := d0
  -- C01_refusal: no `Faulty` event in the implementation's trace => the exit code is the documented verdict on the envelope
  -- (EINTR, short writes, refused pid file names, failures inside cleanup() and of the trigger pull do not excuse it)
  if !c.faulty && !d.bad then
    let want := docCode (scanDoc c.p.env).1
    if c.exit != want then d ← oracleLine d s!"exit={c.exit} documented={want}"
    d := { d with st := d.st.bump "exit_code_judged" }
  -- C01_handler_no_cleanup: after a caught signal nothing but _exit(52) / _exit(81)
  match c.sig with
  | some g =>
    if c.afterSig != [s!"exit{sigCode g}"] then
      d ← oracleLine d s!"after_signal={"+".intercalate c.afterSig} why=the_signal_handler_must_only_exit_{sigCode g}"
    if c.exit != sigCode g then d ← oracleLine d s!"exit={c.exit} documented={sigCode g} why=signal_handler"
    d := { d with st := d.st.bump (if g == .alrm then "sigalrm_runs" else "sigbug_runs") }
  | none => pure ()
  -- documented codes of the failures the trace does not show (qmail-queue.8: 61 chdir home, 62 chdir queue, 51 out of
  -- memory, 81 internal bug) and what they leave: nothing before the pid file exists, the pid file afterwards
  let expect : Option (Nat × String) :=
    if c.setup == -31 then some (61, "-") else if c.setup == -32 then some (62, "-")
    else if c.setup == -11 || c.setup == -12 then some (51, "-")
    else if c.setup ≤ -13 && c.setup ≥ -15 then some (51, "p")
    else if c.setup == -22 then some (81, "-")
    else if c.setup ≤ -23 && c.setup ≥ -25 then some (81, "p")
    else none
  match expect with
  | some (code, left) =>
    if c.exit != code then d ← oracleLine d s!"exit={c.exit} documented={code} why=setup_failure_{c.setup}"
    if c.final != left then d ← oracleLine d s!"final_state={c.final} expected={left} why=setup_failure_{c.setup}"
    d := { d with st := d.st.bump "setup_failures" }
  | none => pure ()
  return d

def handle (d : DState) (line : String) : IO DState := do
  let toks := fields line
  match toks with
  | "CASE" :: rest =>
    let m := (unhex (kvOf rest "msg")).getD []
    let e := (unhex (kvOf rest "env")).getD []
    let r := (unhex (kvOf rest "received")).getD []
    let uid := kvOf rest "uid"
    let pid := kvOf rest "pid"
    let clock := kvOf rest "clock"
    let hdr := [117] ++ uid.toUTF8.toList ++ [0, 112] ++ pid.toUTF8.toList ++ [0]
    let flt := kvOf rest "fault"
    -- fault list: <call>:<err>+...; call 0 with err >= -1 is "no fault", call 0 with err <= -10 a set-up failure
    let fl : List (Int × Int) := (flt.splitOn "+").filterMap (fun t => match t.splitOn ":" with
      | [a, b] => match a.toInt?, b.toInt? with | some x, some y => some (x, y) | _, _ => none
      | _ => none)
    let setup : Int := ((fl.filter (fun t => t.1 == 0 && t.2 ≤ -10)).map (·.2)).headD 0
    let faulted := fl.any (fun t => t.1 > 0) || setup != 0
    let hl := s!"chunk={kvOf rest "chunk"} msg={kvOf rest "msg"} env={kvOf rest "env"} fault={flt}"
    let h := hashBytes (m ++ [255] ++ e ++ flt.toUTF8.toList)
    let fresh := !d.st.seen.contains h
    let st := { d.st with cases := d.st.cases + 1, seen := d.st.seen.insert h,
                          nontrivial := d.st.nontrivial + (if fresh then 1 else 0) }
    if fresh && st.samples < 3 && m.length < 40 then IO.println s!"SAMPLE {hl}"
    let st := if fresh && st.samples < 3 && m.length < 40 then { st with samples := st.samples + 1 } else st
    -- input distribution of the fault space: faulted runs of inputs that fail by themselves, runs with several faults
    let st := if faulted && (scanDoc e).1 != .done then st.bump "faulted_malformed_input" else st
    let st := if flt.contains '+' then st.bump "multi_fault" else st
    -- the Received line: the documented format for this uid / pid / instant, not the program's buffer
    let want := receivedDoc uid pid clock.toNat!
    let st := st.bump ("received_" ++ (if uid == "7790" then "alias" else if uid == "7791" then "network" else if uid == "7796" then "bounce" else "uid"))
    let cur : Case := { p := { msg := m, env := e, received := want, hdr := hdr }, hdrline := hl, pid := pid, clock := clock,
                        fault := faulted, setup := setup }
    let mut d := { d with st := st, cur := cur, bad := false, ncalls := 0 }
    if kvOf rest "received" != "null" && r != want then
      d ← oracleLine d s!"received={kvOf rest "received"} documented={hex want} why=Received_line_differs_from_the_documented_format"
    return d
  | "T" :: _ =>
    if d.bad then return d
    let c := d.cur
    if toks.contains "CRASH" || toks.contains "clockjump" then return d
    let (ev, c) := parseEv c toks
    match ev with
    | none =>
      IO.println s!"DISAGREE {c.hdrline} unparsed_or_misnamed_call={line.trimAscii.toString.take 160}"
      return { d with st := { d.st with disagree := d.st.disagree + 1 }, cur := c, bad := true }
    | some ev =>
      let st := d.st.bump (evKind ev)
      let c := { c with faulty := c.faulty || Faulty ev,
                        afterSig := if c.sig.isSome then c.afterSig ++ [evKind ev] else c.afterSig,
                        sig := match ev with | .signal g => (if c.sig.isSome then c.sig else some g) | _ => c.sig }
      match c.st with
      | none => return { d with cur := c, st := st }
      | some s =>
        match accept c.p s ev with
        | some s' => return { d with cur := { c with st := some s', nev := c.nev + 1 }, st := st }
        | none =>
          IO.println s!"DISAGREE {c.hdrline} event#{c.nev + 1}={evKind ev} rejected_at_pc={repr s.pc} line={line.trimAscii.toString.take 120}"
          return { d with cur := { c with st := none }, st := { st with disagree := st.disagree + 1 }, bad := true }
  | "EXIT" :: code :: rest =>
    let c := { d.cur with exit := code.toNat! }
    let mut st := d.st
    -- the trace must end in an `exited` control point
    match c.st with
    | some s => match s.pc with
      | .exited _ => pure ()
      | _ => if !d.bad then
               IO.println s!"DISAGREE {c.hdrline} trace ended at pc={repr s.pc}"
               st := { st with disagree := st.disagree + 1 }
    | none => pure ()
    return { d with cur := c, st := st, ncalls := (kvOf rest "ncalls").toNat! }
  | "S" :: k :: mode :: code :: rest =>
    let st := { d.st with counters := d.st.counters }
    let d := if k.toNat! == d.ncalls + 1 then { d with cur := { d.cur with final := code } } else d
    match oracleState d.cur k.toNat! d.ncalls code rest with
    | none => return { d with st := (st.bump "crash_states") }
    | some why =>
      IO.println s!"ORACLE {d.cur.hdrline} crash_before_call={k} resolution={mode} state={code} why={why.replace " " "_"}"
      return { d with st := { (st.bump "crash_states") with oracle := st.oracle + 1 } }
  | "END" :: _ => finishCase d
  | _ => return d

partial def loop2 (h : IO.FS.Stream) (d : DState) : IO DState := do
  let line ← h.getLine
  if line.isEmpty then return d
  let d' ← handle d line
  loop2 h d'

def main : IO Unit := do
  let stdin ← IO.getStdin
  let d ← loop2 stdin {}
  IO.println s!"STATS {d.st.json}"
