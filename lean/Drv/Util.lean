/- Driver utilities: hex, line loop, stats. Core Lean only. -/
import Nq.Basic
import Std.Data.HashSet

namespace Drv
open Nq

def hexVal (c : Char) : Option UInt8 :=
  if '0' ≤ c ∧ c ≤ '9' then some (c.toNat - '0'.toNat).toUInt8
  else if 'a' ≤ c ∧ c ≤ 'f' then some (c.toNat - 'a'.toNat + 10).toUInt8
  else if 'A' ≤ c ∧ c ≤ 'F' then some (c.toNat - 'A'.toNat + 10).toUInt8
  else none

/-- "-" is the empty string -/
def unhex (s : String) : Option Bytes :=
  if s == "-" then some [] else
  let rec go : List Char → Bytes → Option Bytes
    | [], acc => some acc.reverse
    | [_], _ => none
    | a :: b :: rest, acc => match hexVal a, hexVal b with
        | some x, some y => go rest ((x * 16 + y) :: acc)
        | _, _ => none
  go s.toList []

def hexDigit (n : UInt8) : Char := "0123456789abcdef".toList.getD n.toNat '0'

def hex (b : Bytes) : String :=
  if b.isEmpty then "-" else
  String.ofList (b.foldr (fun x acc => hexDigit (x / 16) :: hexDigit (x % 16) :: acc) [])

def hashBytes (b : Bytes) : UInt64 :=
  b.foldl (fun h x => (h ^^^ x.toUInt64) * 1099511628211) 14695981039346656037

def fields (line : String) : List String :=
  (line.trimAscii.toString.splitOn " ").filter (· ≠ "")

/-- accumulated run statistics -/
structure Stats where
  cases : Nat := 0
  nontrivial : Nat := 0
  seen : Std.HashSet UInt64 := {}
  disagree : Nat := 0
  oracle : Nat := 0
  samples : Nat := 0
  counters : List (String × Nat) := []

def Stats.bump (s : Stats) (k : String) : Stats :=
  let rec go : List (String × Nat) → List (String × Nat)
    | [] => [(k, 1)]
    | (k', n) :: r => if k' == k then (k', n + 1) :: r else (k', n) :: go r
  { s with counters := go s.counters }

def Stats.json (s : Stats) : String :=
  let cs := s.counters.map (fun (k, n) => s!"\"{k}\": {n}")
  let base := [s!"\"cases\": {s.cases}", s!"\"distinct_nontrivial\": {s.nontrivial}",
               s!"\"disagree\": {s.disagree}", s!"\"oracle_fail\": {s.oracle}"]
  "{" ++ ", ".intercalate (base ++ cs) ++ "}"

/-- generic line loop: `f` handles one line, may print DISAGREE/ORACLE/SAMPLE lines -/
partial def loop (h : IO.FS.Stream) (st : Stats) (f : Stats → String → IO Stats) : IO Stats := do
  let line ← h.getLine
  if line.isEmpty then return st
  let st' ← f st line
  loop h st' f

def runDriver (f : Stats → String → IO Stats) : IO Unit := do
  let stdin ← IO.getStdin
  let st ← loop stdin {} f
  IO.println s!"STATS {st.json}"

end Drv
