/- Driver for C19: real qmail-pop3d / qmail-popup runs vs the model `Nq.Pop3`; the oracle is the
   RFC 1939 reference `Nq.Pop3Ref` evaluated on the implementation's transcript.
   Input lines (see harness/c19_pop3d.c, harness/c19_popup.c):
     P <uid> <havedir> <now> <files> <events> <fd1> <fd2> <code> <maildir after> <chdirs>
     U <pid> <now> <host> <child> <input> <fd1> <fd3|none> <code>
     H <ops> <removed> <array afterwards> <drained>      (prioq.c driven directly) -/
import Drv.Util
import Nq.Pop3
import Nq.Spec.Pop3Ref
import Nq.Pop3Fault
import Nq.Spec.Pop3FaultRef
import Nq.Spec.Pop3SizeRef

open Nq Nq.Pop3 Drv

def parseFiles (s : String) : Option (List File) :=
  if s == "-" then some [] else
  (s.splitOn ",").mapM (fun e =>
    match e.splitOn ":" with
    | [p, d, mt, atm] => do
      let p ← unhex p; let d ← unhex d
      let mt ← mt.toNat?; let atm ← atm.toNat?
      pure { path := p, data := d, mtime := mt, atime := atm }
    | [p, d] => do
      let p ← unhex p; let d ← unhex d
      pure { path := p, data := d, mtime := 0, atime := 0 }
    | _ => none)

def parseEvents (s : String) : Option (List Ev) :=
  if s == "-" then some [] else
  (s.splitOn ",").mapM (fun e =>
    match e.toList with
    | 'd' :: r => (unhex (String.ofList r)).map Ev.data
    | 'v' :: r => (unhex (String.ofList r)).map Ev.vanish
    | _ => none)

def sortPairs (l : List (Bytes × Bytes)) : List (Bytes × Bytes) :=
  (l.toArray.qsort (fun a b => a.1 < b.1)).toList

def fsPairs (fs : List File) : List (Bytes × Bytes) := sortPairs (fs.map (fun f => (f.path, f.data)))

/-- events → what the reference sees: complete command lines and removals, in order -/
def toREv (evs : List Ev) : List Pop3Ref.REv :=
  let rec go : List Ev → Bytes → List Pop3Ref.REv → List Pop3Ref.REv
    | [], _, acc => acc.reverse
    | .vanish p :: rest, cur, acc => go rest cur (.vanish p :: acc)
    | .data b :: rest, cur, acc =>
      let (cur', acc') := b.foldl (fun (ca : Bytes × List Pop3Ref.REv) c =>
        if c == LF then ([], .line ca.1.reverse :: ca.2) else (c :: ca.1, ca.2)) (cur, acc)
      go rest cur' acc'
  go evs [] []

def hasHuge (evs : List Ev) : Bool :=
  let all := evs.flatMap (fun e => match e with | .data b => b | _ => [])
  let rec go : Bytes → Nat → Bool
    | [], n => n ≥ 20
    | c :: r, n => if isDigit c then go r (n + 1) else (n ≥ 20 || go r 0)
  go all 0

/-- the messages the property speaks about: entries of new/ and cur/ found at start-up whose name
does not begin with a dot and whose mtime is before `now` -/
def eligibleFiles (now : Nat) (fs : List File) : List File :=
  fs.filter (fun f => (f.path.take 4 == newSl || f.path.take 4 == curSl) &&
    (f.path.drop 4).head? != some DOT && f.mtime < now)

/-- the eligible files grouped by mtime, oldest group first -/
def mtimeGroups (elig : List File) : List (List File) :=
  let sorted := (elig.toArray.qsort (fun a b => a.mtime < b.mtime)).toList
  sorted.foldr (fun f (gs : List (List File)) => match gs with
    | (g :: gt) :: rest => if g.mtime == f.mtime then (f :: g :: gt) :: rest else [f] :: (g :: gt) :: rest
    | _ => [[f]]) []

def factorial : Nat → Nat
  | 0 => 1
  | n + 1 => (n + 1) * factorial n

/-- how many orderings the property allows: the product of the factorials of the group sizes -/
def numberingCount (groups : List (List File)) : Nat := groups.foldl (fun a g => a * factorial g.length) 1

/-- is `numbering` one of the orderings the property allows — a permutation of the eligible files,
oldest first? (decided directly, independently of how the candidate was found) -/
def isAdmissible (elig numbering : List File) : Bool :=
  let srt (l : List File) := (l.toArray.qsort (fun a b => a.path < b.path)).toList.map (fun f => (f.path, f.data, f.mtime))
  numbering.length == elig.length && srt numbering == srt elig &&
    Pop3Ref.sortedBy (fun f : File => f.mtime) numbering

/-- EXACT search: does some ordering — every permutation of every group of equal mtimes, groups in
mtime order — satisfy `p`? Depth first and lazy: nothing is truncated, the search stops at the first
witness. `fuel` ≥ number of files. -/
def anyPerm : Nat → List File → List File → (List File → Bool) → Bool
  | 0, _, _, _ => false
  | fuel + 1, chosen, remaining, k =>
    match remaining with
    | [] => k chosen.reverse
    | _ => (List.range remaining.length).any (fun i =>
        match remaining[i]? with
        | some f => anyPerm fuel (f :: chosen) (remaining.eraseIdx i) k
        | none => false)

def anyNumbering : List (List File) → List File → (List File → Bool) → Bool
  | [], pre, p => p pre
  | g :: rest, pre, p => anyPerm (g.length + 1) [] g (fun perm => anyNumbering rest (pre ++ perm) p)

/-- above this many orderings a failing case is not searched exhaustively (it is counted as
`oracle_skipped_ties` instead of being reported): 8! -/
def numberingCap : Nat := 40320

def toR (f : File) : Pop3Ref.RMsg := { path := f.path, data := f.data }

def handleP (st : Stats) (line : String) (fs : List String) : IO Stats := do
  match fs with
  | [uidS, hdS, nowS, filesS, evS, o1, o2, codeS, afterS, chS] =>
    match uidS.toNat?, nowS.toNat?, parseFiles filesS, parseEvents evS, unhex o1, unhex o2, codeS.toInt?, parseFiles afterS with
    | some uid, some now, some files, some evs, some out1, some out2, some code, some after =>
      let h := hashBytes (line.toUTF8.toList.take 4096)
      let fresh := !st.seen.contains h
      let havedir := hdS == "1"
      let mut st := { st with cases := st.cases + 1, seen := st.seen.insert h }
      st := st.bump (if uid == 0 then "root" else if !havedir then "nomaildir" else s!"msgs{min (getlist now (cleanTmp now files)).length 6}")
      -- (1) model vs implementation
      let r := Pop3.main uid havedir now files evs
      let agree := r.out == out1 && r.err == out2 && Int.ofNat r.code == code && fsPairs r.fs == fsPairs after
      if !agree && st.disagree < 40 then
        IO.println s!"DISAGREE in={evS} files={filesS} uid={uid} havedir={hdS} impl_out={o1} impl_err={o2} impl_code={code} impl_after={afterS} model_out={hex r.out} model_code={r.code} model_after={",".intercalate ((fsPairs r.fs).map (fun (p, d) => hex p ++ ":" ++ hex d))}"
      if !agree then st := { st with disagree := st.disagree + 1 }
      -- (2) the property on the implementation's behaviour
      let fs0 := fsPairs files
      let unchanged := fsPairs after == fs0
      let mut ok := true
      let mut why := ""
      if uid == 0 then
        ok := code == 1 && out1.isEmpty && unchanged && chS == "0"
        why := "root"
      else if !havedir then
        ok := unchanged && (match Pop3Ref.readLine out1 with | some (l, r) => Pop3Ref.isErr l && r.isEmpty | none => false)
        why := "nomaildir"
      else
        let nul := evs.any (fun e => match e with | .data b => b.contains NUL | _ => false)
        if nul then st := st.bump "oracle_skipped_nul"
        else
          -- documented maintenance: tmp/ files not accessed for 36 hours are removed at start-up
          let fs1 := files.filter (fun f => !(f.path.take 4 == tmpSl && (f.path.drop 4).head? != some DOT && now > f.atime + 129600))
          let revs := toREv evs
          let elig := eligibleFiles now fs1
          let groups := mtimeGroups elig
          let judge (modulus : Nat) (numbering : List File) : Bool :=
            Pop3Ref.sessionOk (numbering.map toR) (fs1.map toR) revs out1 (after.map toR) (modulus := modulus)
          -- The predicate is "SOME admissible numbering makes the transcript right". A first candidate is
          -- the order the model computes (prioq.c breaks ties by heap shape); it counts only if it is
          -- admissible by the independent definition. If it does not do, ALL admissible numberings are
          -- searched (exactly, lazily) — unless there are more than `numberingCap` of them: then the case
          -- is skipped and counted, never reported (the model comparison still covers it).
          let hint := (getlist now fs1).filterMap (fun m => fs1.find? (fun f => f.path == m.fn))
          let exists_ (modulus : Nat) : Option Bool :=
            if isAdmissible elig hint && judge modulus hint then some true
            else if numberingCount groups ≤ numberingCap then some (anyNumbering groups [] (judge modulus))
            else none
          match exists_ 0 with
          | none => st := st.bump "oracle_skipped_ties"
          | some found =>
            ok := found && code == 0 && out2.isEmpty
            -- classification only: is the failure explained by numbers being taken modulo 2^64?
            let lenient := !ok && hasHuge evs && code == 0 && out2.isEmpty &&
              exists_ 18446744073709551616 == some true
            why := if lenient then "wrap" else "session"
          if code != 0 || !out2.isEmpty then
            ok := false
            why := "session"
      if !ok then
        -- at most 25 reports of each kind per driver process (enumeration order: shortest first)
        let key := "oracle_" ++ why
        let seenN : Nat := ((st.counters.find? (fun kv => kv.1 == key)).map (fun kv => kv.2)).getD 0
        if seenN < 25 then
          IO.println s!"ORACLE kind={why} in={evS} files={filesS} uid={uid} havedir={hdS} out={o1} code={code} after={afterS}"
        st := { st with oracle := st.oracle + 1 }
        st := st.bump key
      let nontriv := out1.length > 12 && evs.length ≥ 2
      if fresh && nontriv then st := { st with nontrivial := st.nontrivial + 1 }
      if fresh && nontriv && st.samples < 3 && fsPairs after != fs0 && files.length ≥ 2 then
        IO.println s!"SAMPLE pop3d events={evS} files={filesS} out={o1} after={afterS}"
        st := { st with samples := st.samples + 1 }
      return st
    | _, _, _, _, _, _, _, _ => IO.println s!"DISAGREE unparsable line {line.take 300}"; return { st with disagree := st.disagree + 1 }
  | _ => IO.println s!"DISAGREE unparsable line {line.take 300}"; return { st with disagree := st.disagree + 1 }

/-! ### sessions with failing system calls (F lines, session 4) -/

def parseEventsF (s : String) : Option (List Pop3F.EvF) :=
  if s == "-" then some [] else
  (s.splitOn ",").mapM (fun e =>
    match e.toList with
    | 'd' :: r => (unhex (String.ofList r)).map Pop3F.EvF.data
    | 'v' :: r => (unhex (String.ofList r)).map Pop3F.EvF.vanish
    | ['o'] => some Pop3F.EvF.armOpen
    | 'r' :: r => (String.ofList r).toNat?.map Pop3F.EvF.armRead
    | _ => none)

def parseFaults (s : String) : Option Pop3F.Faults :=
  match s.splitOn ";" with
  | [a, g, u, n] => do
    let paths (x : String) : Option (List Bytes) := if x == "-" then some [] else (x.splitOn ".").mapM unhex
    let nums (x : String) : Option (List Nat) := if x == "-" then some [] else (x.splitOn ".").mapM String.toNat?
    let a ← paths a; let g ← paths g; let u ← nums u; let n ← nums n
    pure { a := a, g := g, u := u, n := n }
  | _ => none

/-- events → what the fault reference sees -/
def toFEv (evs : List Pop3F.EvF) : List Pop3FRef.FEv :=
  let rec go : List Pop3F.EvF → Bytes → List Pop3FRef.FEv → List Pop3FRef.FEv
    | [], _, acc => acc.reverse
    | .vanish p :: rest, cur, acc => go rest cur (.vanish p :: acc)
    | .armOpen :: rest, cur, acc => go rest cur (.armOpen :: acc)
    | .armRead _ :: rest, cur, acc => go rest cur (.armRead :: acc)
    | .data b :: rest, cur, acc =>
      let (cur', acc') := b.foldl (fun (ca : Bytes × List Pop3FRef.FEv) c =>
        if c == LF then ([], .line ca.1.reverse :: ca.2) else (c :: ca.1, ca.2)) (cur, acc)
      go rest cur' acc'
  go evs [] []

def handleF (st : Stats) (line : String) (fs : List String) : IO Stats := do
  match fs with
  | [uidS, hdS, nowS, filesS, evS, fltS, o1, o2, codeS, afterS, _chS] =>
    match uidS.toNat?, nowS.toNat?, parseFiles filesS, parseEventsF evS, parseFaults fltS, unhex o1, unhex o2, codeS.toInt?, parseFiles afterS with
    | some uid, some now, some files, some evs, some flt, some out1, some out2, some code, some after =>
      let h := hashBytes (line.toUTF8.toList.take 4096)
      let fresh := !st.seen.contains h
      let havedir := hdS == "1"
      let mut st := { st with cases := st.cases + 1, seen := st.seen.insert h }
      st := st.bump "fault_cases"
      if !flt.a.isEmpty then st := st.bump "f_stat_scan"
      if !flt.g.isEmpty then st := st.bump "f_stat_getlist"
      if !flt.u.isEmpty then st := st.bump "f_unlink"
      if !flt.n.isEmpty then st := st.bump "f_rename"
      if evs.any (fun e => match e with | .armOpen => true | _ => false) then st := st.bump "f_open"
      if evs.any (fun e => match e with | .armRead _ => true | _ => false) then st := st.bump "f_read"
      -- (1) model vs implementation
      let r := Pop3F.mainF flt uid havedir now files evs
      let agree := r.out == out1 && r.err == out2 && Int.ofNat r.code == code && fsPairs r.fs == fsPairs after
      if !agree && st.disagree < 40 then
        IO.println s!"DISAGREE in={evS} files={filesS} faults={fltS} uid={uid} havedir={hdS} impl_out={o1} impl_err={o2} impl_code={code} impl_after={afterS} model_out={hex r.out} model_code={r.code} model_after={",".intercalate ((fsPairs r.fs).map (fun (p, d) => hex p ++ ":" ++ hex d))}"
      if !agree then st := { st with disagree := st.disagree + 1 }
      -- (2) the property under faults, on the implementation's behaviour
      let mut ok := true
      if uid != 0 && havedir then
        let nul := evs.any (fun e => match e with | .data b => b.contains NUL | _ => false)
        let fs1 := files.filter (fun f => !(f.path.take 4 == tmpSl && (f.path.drop 4).head? != some DOT && now > f.atime + 129600))
        -- a file whose stat fails during the scan gets no number in this session
        let elig := (eligibleFiles now fs1).filter (fun f => !flt.a.contains f.path)
        if nul then st := st.bump "oracle_skipped_nul"
        else if elig.any (fun f => flt.g.contains f.path) then
          -- getlist()'s stat failed on a message: the code announces size 0 for it (finding C19-F1, reported;
          -- outside the property's quantifier). The replies are not judged; the model comparison covers the case.
          st := st.bump "oracle_skipped_getlist_stat"
        else
          let revs := toFEv evs
          let groups := mtimeGroups elig
          let judge (numbering : List File) : Bool :=
            Pop3FRef.faultSessionOk (numbering.map toR) flt.u flt.n (fs1.map toR) revs out1 (after.map toR)
          let hint := (Pop3F.getlistF flt.a flt.g now fs1).filterMap (fun m => fs1.find? (fun f => f.path == m.fn))
          let found : Option Bool :=
            if isAdmissible elig hint && judge hint then some true
            else if numberingCount groups ≤ numberingCap then some (anyNumbering groups [] judge)
            else none
          match found with
          | none => st := st.bump "oracle_skipped_ties"
          | some b => ok := b && code == 0 && out2.isEmpty
          -- what the faults did (evidence that the new paths are hit), read off the implementation's transcript
          let endsClean := match out1.reverse with | 10 :: 13 :: _ => true | _ => false
          match Pop3Ref.readLine out1 with
          | some (_, w) =>
            match Pop3FRef.fwalk { msgs := hint.map toR } false false revs w with
            | some e =>
              if e.died then st := st.bump "f_died_mid_message"
              if e.died && !endsClean then st := st.bump "f_died_mid_line"
              if e.died && out1.length > 1030 then st := st.bump "f_died_after_partial_payload"
              if e.quit && e.nErr > 0 then st := st.bump "f_quit_err_lines"
            | none => pure ()
          | none => pure ()
      if !ok then
        let seenN : Nat := ((st.counters.find? (fun kv => kv.1 == "oracle_fault")).map (fun kv => kv.2)).getD 0
        if seenN < 25 then
          IO.println s!"ORACLE kind=fault in={evS} files={filesS} faults={fltS} uid={uid} havedir={hdS} out={o1} code={code} after={afterS}"
        st := { st with oracle := st.oracle + 1 }
        st := st.bump "oracle_fault"
      if fresh && out1.length > 12 && evs.length ≥ 2 then st := { st with nontrivial := st.nontrivial + 1 }
      return st
    | _, _, _, _, _, _, _, _, _ => IO.println s!"DISAGREE unparsable line {line.take 300}"; return { st with disagree := st.disagree + 1 }
  | _ => IO.println s!"DISAGREE unparsable line {line.take 300}"; return { st with disagree := st.disagree + 1 }

/-! ### maildirs with multi-gigabyte (sparse) files (Z lines, session 4) -/

/-- files of a Z line: a data field `z<size>` is a big file; its `data` becomes the marker "z<size>" (so that the
model and the reference carry the size along through QUIT's renames) and (path, size) goes into the table -/
def parseFilesZ (s : String) : Option (List File × List (Bytes × Nat)) :=
  if s == "-" then some ([], []) else do
    let es ← (s.splitOn ",").mapM (fun e =>
      match e.splitOn ":" with
      | p :: d :: rest => do
        let p ← unhex p
        let (d, big) ← (match d.toList with
          | 'z' :: r => (String.ofList r).toNat?.map (fun n => (d.toUTF8.toList, some n))
          | _ => (unhex d).map (fun b => (b, none)))
        let (mt, atm) ← (match rest with
          | [mt, atm] => do let a ← mt.toNat?; let b ← atm.toNat?; pure (a, b)
          | [] => some (0, 0)
          | _ => none)
        pure (({ path := p, data := d, mtime := mt, atime := atm } : File), big.map (fun n => (p, n)))
      | _ => none)
    pure (es.map (·.1), es.filterMap (·.2))

def handleZ (st : Stats) (line : String) (fs : List String) : IO Stats := do
  match fs with
  | [uidS, hdS, nowS, filesS, evS, o1, o2, codeS, afterS, _chS] =>
    match uidS.toNat?, nowS.toNat?, parseFilesZ filesS, parseEvents evS, unhex o1, unhex o2, codeS.toInt?, parseFilesZ afterS with
    | some uid, some now, some (files, big), some evs, some out1, some out2, some code, some (after, _) =>
      let h := hashBytes (line.toUTF8.toList.take 4096)
      let fresh := !st.seen.contains h
      let havedir := hdS == "1"
      let mut st := { st with cases := st.cases + 1, seen := st.seen.insert h }
      st := st.bump "big_file_cases"
      if big.any (fun (_, n) => n ≥ 4294967296) then st := st.bump "big_size_ge_2^32"
      if big.all (fun (_, n) => n < 4294967296) && (big.foldl (fun t (_, n) => t + n) 0) ≥ 4294967296 then st := st.bump "big_total_ge_2^32"
      let r := Pop3F.mainS big uid havedir now files evs
      let agree := r.out == out1 && r.err == out2 && Int.ofNat r.code == code && fsPairs r.fs == fsPairs after
      if !agree && st.disagree < 40 then
        IO.println s!"DISAGREE in={evS} files={filesS} uid={uid} havedir={hdS} impl_out={o1} impl_err={o2} impl_code={code} impl_after={afterS} model_out={hex r.out} model_code={r.code}"
      if !agree then st := { st with disagree := st.disagree + 1 }
      -- the property: listed sizes and STAT's total against the true st_size (unbounded)
      let fs1 := files.filter (fun f => !(f.path.take 4 == tmpSl && (f.path.drop 4).head? != some DOT && now > f.atime + 129600))
      let revs := toREv evs
      let elig := eligibleFiles now fs1
      let groups := mtimeGroups elig
      let judge (numbering : List File) : Bool :=
        Pop3SRef.sessionOkS big (numbering.map toR) (fs1.map toR) revs out1 (after.map toR)
      let hint := (getlist now fs1).filterMap (fun m => fs1.find? (fun f => f.path == m.fn))
      let ok := uid != 0 && havedir && code == 0 && out2.isEmpty &&
        ((isAdmissible elig hint && judge hint) || (numberingCount groups ≤ numberingCap && anyNumbering groups [] judge))
      if !ok then
        IO.println s!"ORACLE kind=size in={evS} files={filesS} uid={uid} havedir={hdS} out={o1} code={code} after={afterS}"
        st := { st with oracle := st.oracle + 1 }
        st := st.bump "oracle_size"
      if fresh then st := { st with nontrivial := st.nontrivial + 1 }
      return st
    | _, _, _, _, _, _, _, _ => IO.println s!"DISAGREE unparsable line {line.take 300}"; return { st with disagree := st.disagree + 1 }
  | _ => IO.println s!"DISAGREE unparsable line {line.take 300}"; return { st with disagree := st.disagree + 1 }

def splitLines (b : Bytes) : List Bytes :=
  let (_, acc) := b.foldl (fun (ca : Bytes × List Bytes) c =>
    if c == LF then ([], ca.1.reverse :: ca.2) else (c :: ca.1, ca.2)) ([], [])
  acc.reverse

def handleU (st : Stats) (line : String) (fs : List String) : IO Stats := do
  match fs with
  | [pidS, nowS, hostS, childS, inS, o1, fd3S, codeS] =>
    match pidS.toNat?, nowS.toNat?, unhex hostS, unhex inS, unhex o1, codeS.toInt? with
    | some pid, some now, some host, some inp, some out1, some code =>
      let fd3 : Option Bytes := if fd3S == "none" then none else unhex fd3S
      let child : Popup.Child := match childS.toList with
        | 'e' :: r => .exited ((String.ofList r).toNat?.getD 0)
        | _ => .crashed
      let h := hashBytes (line.toUTF8.toList.take 4096)
      let fresh := !st.seen.contains h
      let mut st := { st with cases := st.cases + 1, seen := st.seen.insert h }
      st := st.bump (if fd3.isSome then "popup_auth" else "popup_noauth")
      let r := Popup.pmain pid now host child inp
      let agree := r.out == out1 && r.fd3 == fd3 && Int.ofNat r.code == code
      if !agree then
        IO.println s!"DISAGREE in={inS} popup host={hostS} child={childS} impl_out={o1} impl_fd3={fd3S} impl_code={code} model_out={hex r.out} model_fd3={match r.fd3 with | some b => hex b | none => "none"} model_code={r.code}"
        st := { st with disagree := st.disagree + 1 }
      let childOk := match child with | .exited 0 => true | _ => false
      if inp.contains NUL then st := st.bump "oracle_skipped_nul"
      else
        let ok := Pop3Ref.popupOk host (splitLines inp) childOk out1 fd3 && code != 0
        if !ok then
          IO.println s!"ORACLE kind=popup in={inS} host={hostS} child={childS} out={o1} fd3={fd3S} code={code}"
          st := { st with oracle := st.oracle + 1 }
      if fresh && fd3.isSome then st := { st with nontrivial := st.nontrivial + 1 }
      if fresh && fd3.isSome && st.samples < 4 && inp.length > 20 then
        IO.println s!"SAMPLE popup in={inS} out={o1} fd3={fd3S}"
        st := { st with samples := st.samples + 1 }
      return st
    | _, _, _, _, _, _ => IO.println s!"DISAGREE unparsable line {line.take 300}"; return { st with disagree := st.disagree + 1 }
  | _ => IO.println s!"DISAGREE unparsable line {line.take 300}"; return { st with disagree := st.disagree + 1 }

/-! ### prioq.c driven directly -/

inductive HOp
  | ins (dt : Nat)
  | del

def parseOps (s : String) : Option (List HOp) :=
  if s == "-" then some [] else
  (s.splitOn ",").mapM (fun e =>
    match e.toList with
    | ['d'] => some HOp.del
    | 'i' :: r => (String.ofList r).toNat?.map HOp.ins
    | _ => none)

def parseElt (e : String) : Option Elt :=
  match e.splitOn ":" with
  | [a, b] => do let a ← a.toNat?; let b ← b.toNat?; pure ⟨a, b⟩
  | _ => none

def parseElts (s : String) : Option (List Elt) :=
  if s == "-" then some [] else (s.splitOn ",").mapM parseElt

/-- `e` = the heap was empty -/
def parseRemoved (s : String) : Option (List (Option Elt)) :=
  if s == "-" then some [] else
  (s.splitOn ",").mapM (fun e => if e == "e" then some none else (parseElt e).map some)

/-- the model on a history: (heap, next id, what the delmins removed) -/
def runOps (ops : List HOp) : List Elt × List (Option Elt) :=
  let r := ops.foldl (fun (st : List Elt × Nat × List (Option Elt)) op =>
    match op with
    | .ins dt => (pqInsert st.1 ⟨dt, st.2.1⟩, st.2.1 + 1, st.2.2)
    | .del => (pqDelmin st.1, st.2.1, st.1.head? :: st.2.2)) ([], 0, [])
  (r.1, r.2.2.reverse)

def eraseElt (l : List Elt) (e : Elt) : Option (List Elt) :=
  if l.contains e then some (l.erase e) else none

/-- The property of the heap, on what the implementation did: every delmin removes an entry that is
present and whose dt is a minimum of those present (nothing if none is); what is left afterwards
(`arr`) and the final drain are exactly the entries still present; the drain is in non-decreasing
order of dt. -/
def heapOracle (ops : List HOp) (removed : List (Option Elt)) (arr drained : List Elt) : Bool :=
  let rec go : List HOp → Nat → List Elt → List (Option Elt) → Option (List Elt)
    | [], _, present, rem => if rem.isEmpty then some present else none
    | .ins dt :: rest, id, present, rem => go rest (id + 1) (⟨dt, id⟩ :: present) rem
    | .del :: rest, id, present, rem =>
      match rem with
      | [] => none
      | none :: rem' => if present.isEmpty then go rest id present rem' else none
      | some e :: rem' =>
        match eraseElt present e with
        | none => none
        | some p' => if present.all (fun x => e.dt ≤ x.dt) then go rest id p' rem' else none
  match go ops 0 [] removed with
  | none => false
  | some present =>
    let srt (l : List Elt) := (l.toArray.qsort (fun a b => a.dt < b.dt || (a.dt == b.dt && a.id < b.id))).toList
    srt arr == srt present && srt drained == srt present && Pop3Ref.sortedBy (fun e : Elt => e.dt) drained

def showElts (l : List Elt) : String := ",".intercalate (l.map (fun e => s!"{e.dt}:{e.id}"))

def handleH (st : Stats) (line : String) (fs : List String) : IO Stats := do
  match fs with
  | [opsS, remS, arrS, drS] =>
    match parseOps opsS, parseRemoved remS, parseElts arrS, parseElts drS with
    | some ops, some removed, some arr, some drained =>
      let h := hashBytes (line.toUTF8.toList.take 4096)
      let fresh := !st.seen.contains h
      let mut st := { st with cases := st.cases + 1, seen := st.seen.insert h }
      st := st.bump (if ops.length ≥ 100 then "heap_big" else "heap_small")
      let (mq, mrem) := runOps ops
      let mdr := pqDrain mq.length mq
      if !(mq == arr && mrem == removed && mdr == drained) then
        if st.disagree < 40 then
          IO.println s!"DISAGREE heap in={opsS} impl_removed={remS} impl_array={arrS} impl_drained={drS} model_array={showElts mq} model_drained={showElts mdr}"
        st := { st with disagree := st.disagree + 1 }
      if !heapOracle ops removed arr drained then
        let seenN : Nat := ((st.counters.find? (fun kv => kv.1 == "oracle_heap")).map (fun kv => kv.2)).getD 0
        if seenN < 25 then
          IO.println s!"ORACLE kind=heap in={opsS} removed={remS} array={arrS} drained={drS}"
        st := { st with oracle := st.oracle + 1 }
        st := st.bump "oracle_heap"
      if fresh && ops.length ≥ 3 then st := { st with nontrivial := st.nontrivial + 1 }
      return st
    | _, _, _, _ => IO.println s!"DISAGREE unparsable line {line.take 300}"; return { st with disagree := st.disagree + 1 }
  | _ => IO.println s!"DISAGREE unparsable line {line.take 300}"; return { st with disagree := st.disagree + 1 }

def handle (st : Stats) (line : String) : IO Stats := do
  match fields line with
  | "P" :: rest => handleP st line rest
  | "U" :: rest => handleU st line rest
  | "F" :: rest => handleF st line rest
  | "Z" :: rest => handleZ st line rest
  | "H" :: rest => handleH st line rest
  | [] => return st
  | _ => IO.println s!"DISAGREE unparsable line {line.take 300}"; return { st with disagree := st.disagree + 1 }

def main : IO Unit := runDriver handle
