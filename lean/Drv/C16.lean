/- Driver for C16: replays the trigger-related system calls of the real qmail-queue instances and
   qmail-send (qsim, every interleaving) through `Trigger.accept`; oracle: the daemon never sleeps while
   a completed injection is unprocessed. -/
import Drv.Util
import Nq.Trigger

open Nq Nq.Trigger Drv

structure Case where
  hdr : String := ""
  st : Option St := some {}
  nev : Nat := 0
  num : List (String × Nat) := []     -- injector process → message number
  bad : Bool := false

structure D where
  st : Stats := {}
  c : Case := {}

def feed (d : D) (ev : Ev) (what : String) : IO D := do
  match d.c.st with
  | none => return d
  | some s =>
    match accept s ev with
    | some s' => return { d with c := { d.c with st := some s', nev := d.c.nev + 1 }, st := d.st.bump ("ev_" ++ what) }
    | none =>
      IO.println s!"DISAGREE {d.c.hdr} event#{d.c.nev + 1} rejected: {what} {repr ev}"
      return { d with st := { d.st with disagree := d.st.disagree + 1 }, c := { d.c with st := none, bad := true } }

def lastNum (path : String) : Option Nat := (path.splitOn "/").getLast?.bind (·.toNat?)

def handle (d : D) (line : String) : IO D := do
  let toks := fields line
  match toks with
  | "CASE" :: rest =>
    let hl := " ".intercalate rest
    let h := hashBytes hl.toUTF8.toList
    let fresh := !d.st.seen.contains h
    let mut st : Stats := { d.st with cases := d.st.cases + 1, seen := d.st.seen.insert h, nontrivial := d.st.nontrivial + (if fresh then 1 else 0) }
    if st.samples < 3 then
      IO.println s!"SAMPLE {hl}"
      st := { st with samples := st.samples + 1 }
    return { st := st, c := { hdr := hl } }
  | "X" :: "sleeping-with-unprocessed-todo" :: rest =>
    IO.println s!"ORACLE {d.c.hdr} why=daemon_sleeps_with_a_completed_injection_unprocessed {" ".intercalate rest}"
    return { d with st := { d.st with oracle := d.st.oracle + 1 } }
  | "T" :: "P0" :: _ :: "open_read" :: "lock/trigger" :: "->" :: r :: _ => if r == "-1" then return d else feed d .dOpen "dOpen"
  | "T" :: "P0" :: _ :: "close_fifo" :: _ => feed d .dClose "dClose"
  | "T" :: "P0" :: _ :: "opendir" :: "todo" :: "->" :: r :: _ => if r == "ok" then feed d .dOpendir "dOpendir" else return d
  | "T" :: "P0" :: _ :: "readdir" :: "todo" :: "->" :: r :: _ =>
    if r == "end" then feed d .dEnd "dEnd"
    else match r.toNat? with
      | some n =>
        let seeNew := match d.c.st with
          | some s => (match s.d with | .scanning rem => !rem.contains n | _ => false)
          | none => false
        let d ← if seeNew then feed d (.dSeeNew n) "dSeeNew" else pure d
        feed d (.dRead n) "dRead"
      | none => return d
  | "T" :: p :: _ :: "link" :: _ :: b :: "->" :: r :: _ =>
    if p == "P0" || p == "P1" || r != "0" || !b.startsWith "todo/" then return d else
    match lastNum b with
    | some n => feed { d with c := { d.c with num := (p, n) :: d.c.num } } (.iLink n) "iLink"
    | none => return d
  | "T" :: p :: _ :: "open_write" :: "lock/trigger" :: "->" :: r :: _ =>
    match (d.c.num.find? (·.1 == p)).map (·.2) with
    | some n => feed d (.iOpen n (r != "-1")) (if r != "-1" then "iOpen" else "iOpenENXIO")
    | none => return d
  | "T" :: p :: _ :: "write_fifo" :: rest =>
    match (d.c.num.find? (·.1 == p)).map (·.2) with
    | some n => feed d (.iWrite n (!rest.contains "-1")) (if rest.contains "-1" then "iWriteEPIPE" else "iWrite")
    | none => return d
  | "T" :: p :: _ :: "close_fifo" :: _ =>
    match (d.c.num.find? (·.1 == p)).map (·.2) with
    | some n => feed d (.iClose n) "iClose"
    | none => return d
  | "END" :: _ =>
    -- at the end everything injected must have been processed
    match d.c.st with
    | some s =>
      if !s.todo.isEmpty then
        IO.println s!"ORACLE {d.c.hdr} why=run_ended_with_unprocessed_todo_entries"
        return { d with st := { d.st with oracle := d.st.oracle + 1 } }
      else return d
    | none => return d
  | _ => return d

partial def loop2 (h : IO.FS.Stream) (d : D) : IO D := do
  let line ← h.getLine
  if line.isEmpty then return d
  let d' ← handle d line
  loop2 h d'

def main : IO Unit := do
  let stdin ← IO.getStdin
  let d ← loop2 stdin {}
  IO.println s!"STATS {d.st.json}"
