/- Driver for C16.
   Trigger leg (default): replays the trigger-related system calls of the real qmail-queue instances and
   qmail-send (qsim, every interleaving) through `Trigger.accept`; oracles: the daemon never sleeps while a
   completed injection is unprocessed; a completed injection is processed within the `2·|todo|+3` own steps of
   the daemon that `C16_bounded` states.
   Select-preparation leg (both modes; with the argument `selprep` the T lines are ignored): every `X snap` line
   (harness/c16_snap.h) is a snapshot of the real daemon's globals at a select together with the timeout and
   descriptor sets the real code passed.  DISAGREE: `SelPrep.timeout/rfds/wfds` differ from what the code passed.
   ORACLE: the predicates of `C16_no_spin` / `C16_early_return_acts` evaluated on the implementation's values, and
   the predicates of `C16_never_past_any_queued` evaluated on the implementation's timeout and on ALL entries of
   the implementation's priority-queue arrays (q0= q1= qfail= qdone=): "earliest due event" is the minimum over
   everything queued, not the heap root the code reads.  Its premise (every root is a minimum of its queue) is
   checked on the arrays as well (DISAGREE). -/
import Drv.Util
import Nq.Trigger
import Nq.SelPrep
import Nq.Spec.SelQueued
import Nq.SelFds
import Nq.TriggerRelaxed

open Nq Nq.Trigger Drv

structure Case where
  hdr : String := ""
  st : Option St := some {}
  nev : Nat := 0
  num : List (String × Nat) := []     -- injector process → message number (model identity, see `alias`)
  alias : List (Nat × Nat) := []      -- file number in todo/ → model identity of the injection that currently owns it (newest first): a message
                                      -- number (inode) is reused once the earlier message with it has left the queue; the model identifies injections
                                      -- by number, so the k-th reuse of number n is the model's n + k·1000000
  bad : Bool := false
  boot : Bool := true                 -- the start-up re-arm has not happened yet
  budget : List (Nat × Nat) := []     -- completed, unprocessed injections → own steps the daemon has left (C16_bounded)
  nsnap : Nat := 0
  prev : Option (Nq.SelPrep.Snap × Bool × Bool) := none   -- previous snapshot of this incarnation, FIFO readable then?, FIFO watched then?

structure D where
  st : Stats := {}
  c : Case := {}
  selOnly : Bool := false
  snaps : Std.HashSet UInt64 := {}
  snapBad : Nat := 0

def isDaemonEv : Ev → Bool
  | .dClose | .dOpen | .dOpendir | .dSeeNew _ | .dRead _ | .dEnd => true
  | _ => false

/-- the bound of `C16_bounded` for every completed injection that is still unprocessed -/
def freshBudget (s : St) : List (Nat × Nat) :=
  (s.todo.filter (fun n => pulled (s.pc n))).map (fun n => (n, 2 * s.todo.length + 3))

def feed (d : D) (ev : Ev) (what : String) : IO D := do
  match d.c.st with
  | none => return d
  | some s =>
    match accept s ev with
    | some s' =>
      let own := isDaemonEv ev && dAllowed d.c.boot s ev
      let boot' := if isDaemonEv ev then bootAfter d.c.boot ev else d.c.boot
      -- C16_bounded on the implementation: own steps of the daemon are counted against the bound fixed when the entry
      -- became a completed injection (any injector step or timer-driven re-arm in between renews it)
      let budget' := if own then (d.c.budget.filter (fun b => s'.todo.contains b.1)).map (fun b => (b.1, b.2 - 1)) else freshBudget s'
      let mut d := { d with c := { d.c with st := some s', nev := d.c.nev + 1, boot := boot', budget := budget' }, st := d.st.bump ("ev_" ++ what) }
      if isDaemonEv ev && !own then d := { d with st := d.st.bump "daemon_steps_by_timer" }
      match budget'.find? (fun b => b.2 == 0) with
      | some b =>
        IO.println s!"ORACLE {d.c.hdr} why=completed_injection_{b.1}_not_processed_within_2todo+3_own_steps_of_the_daemon event#{d.c.nev} {what}"
        d := { d with st := { d.st with oracle := d.st.oracle + 1 }, c := { d.c with budget := [] } }
      | none => pure ()
      return d
    | none =>
      -- which single guard (Nq.TriggerRelaxed) rejects it: the three that C16_guards_necessary shows to be genuine assumptions, or the one
      -- (trigger_set before opendir) that C16_order_opendir_guard_removed shows the invariant does not need
      let g := if (acceptX { opendirAnywhere := true } s ev).isSome then "guard=opendir_without_a_preceding_trigger_set(safety_not_affected,the_FIFO_is_not_cleared)"
        else if (acceptX { pullBeforeLink := true } s ev).isSome then "guard=pull_before_link(C16_guards_necessary)"
        else if (acceptX { skipScan := true } s ev).isSome then "guard=re-arm_not_followed_by_a_scan(C16_guards_necessary)"
        else if (acceptX { endEarly := true } s ev).isSome then "guard=readdir_returned_NULL_before_every_covered_entry(C16_guards_necessary)"
        else "guard=other"
      IO.println s!"DISAGREE {d.c.hdr} event#{d.c.nev + 1} rejected: {what} {repr ev} {g}"
      return { d with st := { d.st with disagree := d.st.disagree + 1 }, c := { d.c with st := none, bad := true } }

/-! ### the select-preparation leg -/

open Nq.SelPrep in
def parseOptInt (s : String) : Option (Option Int) := if s == "-" then some none else s.toInt?.map some

open Nq.SelPrep in
def parseChan (v : String) : Option Chan :=
  match v.splitOn "," with
  | [a, b, u, c, p, q] =>
    match u.toNat?, c.toNat?, parseOptInt q with
    | some u, some c, some q => some { spawnAlive := a == "1", commPending := b == "1", used := u, conc := c, passOpen := p == "1", pqMin := q }
    | _, _, _ => none
  | _ => none

def kvOf (toks : List String) (k : String) : String :=
  match toks.find? (fun t => t.startsWith (k ++ "=")) with
  | some t => (t.drop (k.length + 1)).toString
  | none => ""

def parseDts (v : String) : Option (List Int) :=
  if v == "-" then some [] else (v.splitOn ",").mapM (·.toInt?)

open Nq.SelPrep in
/-- the contents of the four priority-queue arrays (absent in traces of an older harness: no check then) -/
def parseQueued (toks : List String) : Option Queued := do
  if kvOf toks "q0" == "" then none
  let q0 ← parseDts (kvOf toks "q0")
  let q1 ← parseDts (kvOf toks "q1")
  let qf ← parseDts (kvOf toks "qfail")
  let qd ← parseDts (kvOf toks "qdone")
  return { chans := [q0, q1], fail := qf, done := qd }

open Nq.SelPrep in
/-- the predicates of C16_never_past_any_queued on the implementation's timeout and queue contents; `none` = they hold -/
def queuedOracle (s : Snap) (q : Queued) (tmo : Int) : Option String :=
  if s.recent < 0 then none else
  if tmo == 0 && !pendingQ s q then some "timeout_0_with_nothing_queued_due(busy_loop)"
  else if tmo != 0 && pendingQ s q then some "positive_timeout_although_a_queued_entry_or_timer_is_due"
  else
    let w := s.recent + tmo - SLEEP_FUZZ
    match (queuedDue s q).find? (fun t => decide (w > t)) with
    | some t => if tmo > 0 then some s!"sleeps_past_a_queued_due_time:{t}_is_queued_but_wakeup_is_{w}" else none
    | none =>
      if tmo > 0 && !(w == s.recent + SLEEP_FOREVER || (queuedDue s q).contains w) then some "wakes_for_a_time_at_which_nothing_queued_is_due"
      else none

open Nq.SelPrep in
def parseSnap (toks : List String) : Option (Snap × Int × List String × List String) := do
  let recent ← (kvOf toks "recent").toInt?
  let c0 ← parseChan (kvOf toks "c0")
  let c1 ← parseChan (kvOf toks "c1")
  let jobs := kvOf toks "jobs"
  let refs := if jobs == "-" then [] else jobs.toList.map (fun ch => ch.toNat - '0'.toNat)
  let pqf ← parseOptInt (kvOf toks "pqfail")
  let pqd ← parseOptInt (kvOf toks "pqdone")
  let next ← (kvOf toks "next").toInt?
  let ct ← (kvOf toks "ct").toInt?
  let tmo ← (kvOf toks "timeout").toInt?
  let lst := fun (k : String) => let v := kvOf toks k; if v == "-" || v == "" then [] else v.splitOn ","
  let s : Snap := { recent := recent, exitasap := kvOf toks "exit" == "1", chans := [c0, c1], jobRefs := refs, pqfailMin := pqf, pqdoneMin := pqd,
                    triggerFd := kvOf toks "trig" == "1", tododir := kvOf toks "tododir" == "1", nexttodorun := next,
                    flagcleanup := kvOf toks "fc" == "1", cleanuptime := ct }
  return (s, tmo, lst "rfds", lst "wfds")

open Nq.SelPrep in
def fdTok : Fd → String
  | .commOut c => s!"c{c}"
  | .delIn c => s!"d{c}"
  | .trigger => "t"

open Nq.SelPrep in
def tokFd (t : String) : Option Fd :=
  if t == "t" then some .trigger else if t == "d0" then some (.delIn 0) else if t == "d1" then some (.delIn 1)
  else if t == "c0" then some (.commOut 0) else if t == "c1" then some (.commOut 1) else none

def sortStr (l : List String) : List String := (l.toArray.qsort (· < ·)).toList

open Nq.SelPrep in
/-- which case of the theorem a snapshot exercises (coverage statistics) -/
def snapClass (s : Snap) : String :=
  let e := if s.exitasap then "exit_" else ""
  if !s.exitasap && s.chans.any (fun c => c.passOpen && delAvail c) then "snap_zero_pass_may_proceed"
  else if !s.exitasap && s.tododir then "snap_zero_todo_scan"
  else if s.flagcleanup then "snap_" ++ e ++ "zero_cleanup_scan"
  else if pending s then "snap_" ++ e ++ "zero_due_time_reached"
  else
    let w := wakeup s
    if w == s.recent + SLEEP_FOREVER then "snap_" ++ e ++ "sleep_forever"
    else if w == s.cleanuptime then "snap_" ++ e ++ "sleep_until_cleanup"
    else if !s.exitasap && w == s.nexttodorun then "snap_sleep_until_todo_rescan"
    else "snap_sleep_until_retry"

open Nq.SelPrep in
/-- the guard of the `*_do` function that owns descriptor `f`, with only `f` ready (C16_early_return_acts, per descriptor) -/
def fdActs (s : Snap) (f : Fd) : Bool :=
  match f with
  | .trigger => todoDoActs { s with tododir := false, nexttodorun := s.recent + 1 } (fun g => g == f)
  | .delIn _ => delDoActs (fun g => g == f) 0 s.chans
  | .commOut _ => commDoActs (fun g => g == f) 0 s.chans

open Nq.SelPrep in
/-- the predicates of C16_no_spin / C16_early_return_acts on the implementation's timeout and descriptor sets;
`none` = they hold -/
def snapOracle (s : Snap) (tmo : Int) (rf wf : List String) : Option String :=
  if s.recent < 0 then none else
  if tmo == 0 && !pending s then some "timeout_0_with_nothing_pending(busy_loop)"
  else if tmo != 0 && pending s then some "positive_timeout_with_work_pending"
  else if tmo < 0 then some "negative_timeout"
  else
    let w := s.recent + tmo - SLEEP_FUZZ       -- the wake-up time the implementation asked for
    if tmo > 0 && (dueTimes s).any (fun t => decide (w > t)) then some "sleeps_past_a_due_event_by_more_than_the_fuzz"
    else if tmo > 0 && w > s.recent + SLEEP_FOREVER then some "sleeps_longer_than_SLEEP_FOREVER"
    else if tmo > 0 && !(w == s.recent + SLEEP_FOREVER || (dueTimes s).contains w) then some "wakes_for_a_time_that_is_not_due"
    else
      -- every watched descriptor must be one whose own `*_do` acts on it when it is ready (else: spin) ...
      let ignored := (rf ++ wf).find? (fun t => match tokFd t with
        | some f => !fdActs s f
        | none => true)
      match ignored with
      | some t => some s!"watches_descriptor_{t}_that_the_loop_body_ignores"
      | none =>
        -- ... and nothing the daemon must react to may be left out (else: deaf while asleep)
        if !s.exitasap && s.triggerFd && !rf.contains "t" then some "trigger_FIFO_not_watched"
        else if (s.chans.zipIdx.any fun (c, i) => c.spawnAlive && !rf.contains s!"d{i}") then some "live_spawner_reports_not_watched"
        else if (s.chans.zipIdx.any fun (c, i) => c.spawnAlive && c.commPending && !wf.contains s!"c{i}") then some "pending_command_not_watched"
        else none

def parseNats (v : String) : Option (List Nat) :=
  if v == "-" then some [] else (v.splitOn ",").mapM (·.toNat?)

def sortNat (l : List Nat) : List Nat := (l.toArray.qsort (· < ·)).toList

open Nq.SelPrep in
/-- the numeric side of a snapshot (absent in traces of an older harness): nfds as passed, the descriptor numbers, every member of both sets -/
def parseFds (toks : List String) : Option (Nq.SelFds.FdNums × Nat × List Nat × List Nat) := do
  if kvOf toks "nfds" == "" then none
  let nf ← (kvOf toks "nfds").toNat?
  let tfd ← (kvOf toks "tfd").toInt?
  let rs ← parseNats (kvOf toks "rset")
  let ws ← parseNats (kvOf toks "wset")
  match parseNats (kvOf toks "fdout"), parseNats (kvOf toks "fdin") with
  | some [o0, o1], some [i0, i1] =>
    return ({ out := fun c => if c == 0 then o0 else o1, inn := fun c => if c == 0 then i0 else i1, trig := tfd.toNat }, nf, rs, ws)
  | _, _ => none

def lastNum (path : String) : Option Nat := (path.splitOn "/").getLast?.bind (·.toNat?)

def handleT (d : D) (toks : List String) : IO D := do
  match toks with
  | "T" :: "P0" :: _ :: "open_read" :: "lock/trigger" :: "->" :: r :: _ => if r == "-1" then return d else feed d .dOpen "dOpen"
  | "T" :: "P0" :: _ :: "close_fifo" :: _ => feed d .dClose "dClose"
  | "T" :: "P0" :: _ :: "opendir" :: "todo" :: "->" :: r :: _ => if r == "ok" then feed d .dOpendir "dOpendir" else return d
  | "T" :: "P0" :: _ :: "readdir" :: "todo" :: "->" :: r :: _ =>
    if r == "end" then feed d .dEnd "dEnd"
    else match r.toNat? with
      | some n0 =>
        let n := ((d.c.alias.find? (·.1 == n0)).map (·.2)).getD n0
        let seeNew := match d.c.st with
          | some s => (match s.d with | .scanning rem => !rem.contains n | _ => false)
          | none => false
        let d ← if seeNew then feed d (.dSeeNew n) "dSeeNew" else pure d
        feed d (.dRead n) "dRead"
      | none => return d
  | "T" :: p :: _ :: "link" :: _ :: b :: "->" :: r :: _ =>
    if p == "P0" || p == "P1" || r != "0" || !b.startsWith "todo/" then return d else
    match lastNum b with
    | some n0 =>
      let uses := (d.c.alias.filter (·.1 == n0)).length
      let n := n0 + uses * 1000000
      feed { d with c := { d.c with num := (p, n) :: d.c.num, alias := (n0, n) :: d.c.alias } } (.iLink n) "iLink"
    | none => return d
  | "T" :: p :: _ :: "open_write" :: "lock/trigger" :: "->" :: r :: _ =>
    match (d.c.num.find? (·.1 == p)).map (·.2) with
    | some n => feed d (.iOpen n (r != "-1")) (if r != "-1" then "iOpen" else "iOpenENXIO")
    | none => return d
  | "T" :: p :: _ :: "write_fifo" :: rest =>
    match (d.c.num.find? (·.1 == p)).map (·.2) with
    | some n => feed d (.iWrite n (!rest.contains "-1")) (if rest.contains "-1" then "iWriteEPIPE" else "iWrite")
    | none => return d
  | "T" :: p :: _ :: "close_fifo" :: _ =>
    match (d.c.num.find? (·.1 == p)).map (·.2) with
    | some n => feed d (.iClose n) "iClose"
    | none => return d
  | _ => return d

def handle (d : D) (line : String) : IO D := do
  let toks := fields line
  match toks with
  | "CASE" :: rest =>
    let hl := " ".intercalate rest
    let h := hashBytes hl.toUTF8.toList
    let fresh := !d.st.seen.contains h
    let mut st : Stats := { d.st with cases := d.st.cases + 1, seen := d.st.seen.insert h, nontrivial := d.st.nontrivial + (if fresh then 1 else 0) }
    if st.samples < 3 then
      IO.println s!"SAMPLE {hl}"
      st := { st with samples := st.samples + 1 }
    return { d with st := st, c := { hdr := hl } }
  | "X" :: "snap" :: rest =>
    match parseSnap rest with
    | none =>
      IO.println s!"DISAGREE {d.c.hdr} unparsable snapshot: {" ".intercalate rest}"
      return { d with st := { d.st with disagree := d.st.disagree + 1 } }
    | some (s, tmo, rf, wf) =>
      let h := hashBytes ((" ".intercalate (rest.filter (fun t => !t.startsWith "recent="))).toUTF8.toList)
      let mut d := { d with snaps := d.snaps.insert h, st := d.st.bump (snapClass s), c := { d.c with nsnap := d.c.nsnap + 1 } }
      let mt := Nq.SelPrep.timeout s
      let mrf := sortStr ((Nq.SelPrep.rfds s).map fdTok)
      let mwf := sortStr ((Nq.SelPrep.wfds s).map fdTok)
      if !Nq.SelPrep.loopContinues s then
        if d.snapBad < 20 then IO.println s!"DISAGREE {d.c.hdr} select#{d.c.nsnap} the model's loop condition is false at a select: {" ".intercalate rest}"
        d := { d with snapBad := d.snapBad + 1, st := { d.st with disagree := d.st.disagree + 1 } }
      if mt != tmo || mrf != sortStr rf || mwf != sortStr wf then
        if d.snapBad < 20 then IO.println s!"DISAGREE {d.c.hdr} select#{d.c.nsnap} model timeout={mt} rfds={mrf} wfds={mwf} impl: {" ".intercalate rest}"
        d := { d with snapBad := d.snapBad + 1, st := { d.st with disagree := d.st.disagree + 1 } }
      -- the numeric side (Nq.SelFds): nfds and the sets by descriptor number.  DISAGREE: the model's nfds / sets differ from what the code
      -- passed; ORACLE (C16_wake_fds_watched on the implementation's values): every descriptor the daemon must wake up on - report pipe of a
      -- live spawner, command pipe with buffered commands, the armed trigger - is in the implementation's set AND below its nfds
      match parseFds rest with
      | some (f, nf, rs, ws) =>
        let mnf := Nq.SelFds.nfds s f
        d := { d with st := (d.st.bump "fds_selects_compared").bump s!"fds_nfds_{nf}" }
        if (Nq.SelFds.mustRead s f).any (fun fd => fd + 1 == nf && fd == f.trig) && s.triggerFd then d := { d with st := d.st.bump "fds_trigger_is_the_highest" }
        if (Nq.SelFds.mustWrite s f).any (fun fd => fd + 1 == nf) then d := { d with st := d.st.bump "fds_command_pipe_is_the_highest" }
        if (Nq.SelFds.mustRead s f).any (fun fd => fd + 1 == nf && fd != f.trig) then d := { d with st := d.st.bump "fds_report_pipe_is_the_highest" }
        if s.chans.any (fun c => c.spawnAlive && c.used > 0) then d := { d with st := d.st.bump "fds_with_deliveries_outstanding" }
        if s.chans.any (fun c => !c.spawnAlive) then d := { d with st := d.st.bump "fds_with_a_dead_spawner" }
        if s.triggerFd && (s.chans.zipIdx.any fun (c, i) => c.spawnAlive && f.trig < f.inn i) then d := { d with st := d.st.bump "fds_trigger_below_a_report_pipe" }
        if !(Nq.SelFds.mustWrite s f).isEmpty then d := { d with st := d.st.bump "fds_with_commands_buffered" }
        if mnf != nf || sortNat (Nq.SelFds.rset s f) != rs || sortNat (Nq.SelFds.wset s f) != ws then
          if d.snapBad < 20 then IO.println s!"DISAGREE {d.c.hdr} select#{d.c.nsnap} model nfds={mnf} rset={sortNat (Nq.SelFds.rset s f)} wset={sortNat (Nq.SelFds.wset s f)} impl: {" ".intercalate rest}"
          d := { d with snapBad := d.snapBad + 1, st := { d.st with disagree := d.st.disagree + 1 } }
        match Nq.SelFds.wakeOracle s f nf rs ws with
        | some why =>
          if d.st.oracle < 20 then IO.println s!"ORACLE {d.c.hdr} select#{d.c.nsnap} why={why}(nfds={nf},rfds={rs},wfds={ws}) snap: {" ".intercalate rest}"
          d := { d with st := { d.st with oracle := d.st.oracle + 1 } }
        | none => pure ()
      | none =>
        if kvOf rest "nfds" != "" then
          if d.snapBad < 20 then IO.println s!"DISAGREE {d.c.hdr} select#{d.c.nsnap} unparsable descriptor numbers: {" ".intercalate rest}"
          d := { d with snapBad := d.snapBad + 1, st := { d.st with disagree := d.st.disagree + 1 } }
      let qd := parseQueued rest
      -- the timeval's microsecond half (qsim's select writes the remaining time back like Linux): SelPrep passes whole seconds
      let usec : Int := ((kvOf rest "tusec").toInt?).getD 0
      if usec != 0 then
        if d.snapBad < 20 then IO.println s!"DISAGREE {d.c.hdr} select#{d.c.nsnap} the timeval passed to select is ({tmo},{usec}): the model's timeout is whole seconds ({mt},0): {" ".intercalate rest}"
        d := { d with snapBad := d.snapBad + 1, st := { d.st with disagree := d.st.disagree + 1 } }
      -- the simulator's clock at select entry against the program's `recent` (what the timeout was computed from)
      let simnow : Int := ((kvOf rest "simnow").toInt?).getD s.recent
      if simnow != s.recent then
        if d.snapBad < 20 then IO.println s!"DISAGREE {d.c.hdr} select#{d.c.nsnap} select is entered at clock {simnow} but the program's recent is {s.recent} (the model reads the clock at the top of every iteration): {" ".intercalate rest}"
        d := { d with snapBad := d.snapBad + 1, st := { d.st with disagree := d.st.disagree + 1 } }
      -- the oracles judge the timeout that was really requested (a fraction of a second counts as a sleep) at the time it really is
      let s := { s with recent := simnow }
      let tmoReal := tmo
      let tmo := if usec > 0 then tmo + 1 else tmo
      let note := (if usec != 0 then s!"[timeval=({tmoReal},{usec})]" else "") ++ (if simnow != (((kvOf rest "recent").toInt?).getD simnow) then s!"[clock={simnow},the_program's_recent={kvOf rest "recent"}]" else "")
      -- premise of C16_never_past_any_queued on the implementation's arrays: every root the loop read is a minimum
      match qd with
      | some q =>
        if q.chans.any (fun l => l.length ≥ 3) || q.done.length ≥ 3 || q.fail.length ≥ 3 then d := { d with st := d.st.bump "snap_some_queue_holds_3_or_more" }
        if !Nq.SelPrep.heapRoots s q then
          if d.snapBad < 20 then IO.println s!"DISAGREE {d.c.hdr} select#{d.c.nsnap} a prioq_min the select preparation read is not the minimum of its queue (premise HeapRoots of C16_never_past_any_queued; heap order of prioq.c): {" ".intercalate rest}"
          d := { d with snapBad := d.snapBad + 1, st := { d.st with disagree := d.st.disagree + 1 } }
      | none => pure ()
      let verdict := match snapOracle s tmo rf wf with
        | some why => some why
        | none => qd.bind (fun q => queuedOracle s q tmo)
      match verdict with
      | some why =>
        if d.st.oracle < 20 then IO.println s!"ORACLE {d.c.hdr} select#{d.c.nsnap} why={why}{note} snap: {" ".intercalate rest}"
        d := { d with st := { d.st with oracle := d.st.oracle + 1 } }
      | none => pure ()
      -- daemon scenarios (every entry of todo/ is a COMPLETED injection there: arrivals are atomic): the daemon must not go to sleep
      -- while one is unprocessed unless the trigger is readable (C16_no_lost_wakeup / C16_progress / C16_first_scan_unconditional);
      -- skipped once exit was requested (a draining daemon ignores todo) and for scenarios with an injected system-call fault
      if d.selOnly then
        match (kvOf rest "todo").toNat? with
        | some ntodo =>
          if ntodo > 0 then d := { d with st := d.st.bump "snap_with_todo_entries" }
          let faulty := (d.c.hdr.splitOn "fault=").length > 1
          if ntodo > 0 && tmo > 0 && kvOf rest "tready" != "1" && !s.exitasap && !faulty then
            if d.st.oracle < 20 then IO.println s!"ORACLE {d.c.hdr} select#{d.c.nsnap} why=sleeps_with_{ntodo}_completed_injection(s)_in_todo_unprocessed_and_the_trigger_not_readable{note} snap: {" ".intercalate rest}"
            d := { d with st := { d.st with oracle := d.st.oracle + 1 } }
        | none => pure ()
      -- the todo_do guard of `bodyActs` on the implementation (C16_early_return_acts for the FIFO): the previous select was
      -- bound to report the FIFO readable, no scan was open and exit was not requested => a scan has been started by now
      -- (skipped for scenarios with an injected system-call fault: a failing opendir legitimately postpones the scan)
      match d.c.prev with
      | some (ps, true, true) =>
        let faulty := (d.c.hdr.splitOn "fault=").length > 1
        if !faulty && !ps.exitasap && !ps.tododir && Nq.SelPrep.todoDoActs ps (fun _ => true) &&
            !(s.tododir || s.nexttodorun != ps.nexttodorun || s.exitasap) then
          if d.st.oracle < 20 then IO.println s!"ORACLE {d.c.hdr} select#{d.c.nsnap} why=trigger_was_readable_and_watched_but_todo_do_started_no_scan snap: {" ".intercalate rest}"
          d := { d with st := { d.st with oracle := d.st.oracle + 1 } }
        else d := { d with st := d.st.bump "snap_pull_followed_by_scan" }
      | _ => pure ()
      d := { d with c := { d.c with prev := some (s, kvOf rest "tready" == "1", rf.contains "t") } }
      -- trigger leg: the acceptor's FIFO state against the simulator's, and the statement of C16_no_lost_wakeup evaluated on the
      -- implementation (the abstract state is the one reconstructed from the real programs' system calls; `tready` is the real descriptor)
      if !d.selOnly then
        match d.c.st with
        | some ts =>
          let tready := kvOf rest "tready" == "1"
          if ts.dOpen && kvOf rest "trig" == "1" then
            d := { d with st := d.st.bump "snap_fifo_state_compared" }
            if tready != ts.buf then
              IO.println s!"DISAGREE {d.c.hdr} select#{d.c.nsnap} after event#{d.c.nev}: the trigger FIFO is {if tready then "readable" else "not readable"} in the run but Trigger.St.buf = {ts.buf}"
              d := { d with st := { d.st with disagree := d.st.disagree + 1 } }
          match ts.todo.find? (fun n => pulled (ts.pc n)) with
          | some n =>
            if ts.d == .idle then
              d := { d with st := d.st.bump "snap_idle_with_completed_injection_unprocessed" }
              if !tready then
                IO.println s!"ORACLE {d.c.hdr} select#{d.c.nsnap} after event#{d.c.nev} why=lost_wakeup:daemon_outside_a_scan,_injection_{n}_completed_and_unprocessed,_trigger_not_readable(C16_no_lost_wakeup)"
                d := { d with st := { d.st with oracle := d.st.oracle + 1 } }
            else
              -- C16_progress on the implementation: in every other state (start-up: FIFO opened, first scan not begun; re-arm; scan in
              -- progress) the daemon's next step is its own - it must not ask select to sleep
              d := { d with st := d.st.bump "snap_startup_or_scan_with_completed_injection_unprocessed" }
              if !tready && tmo > 0 then
                IO.println s!"ORACLE {d.c.hdr} select#{d.c.nsnap} after event#{d.c.nev} why=lost_wakeup:daemon_sleeps_(timeout_{tmo})_before_its_first_scan_or_inside_one,_injection_{n}_completed_and_unprocessed,_trigger_not_readable(C16_progress)"
                d := { d with st := { d.st with oracle := d.st.oracle + 1 } }
          | none => pure ()
        | none => pure ()
      return d
  | "X" :: "start" :: _ => return { d with c := { d.c with prev := none } }      -- a new incarnation of the daemon
  | "X" :: "intr" :: _ =>      -- this select was interrupted by a signal (EINTR): the loop body did not run, so nothing follows from `prev`
    return { d with c := { d.c with prev := none }, st := d.st.bump "daemon_selects_interrupted_by_a_signal" }
  | "X" :: "select-storm" :: rest =>
    IO.println s!"ORACLE {d.c.hdr} why=busy_loop:the_daemon_does_not_stop_calling_select {" ".intercalate rest}"
    return { d with st := { d.st with oracle := d.st.oracle + 1 } }
  | "X" :: "sleeping-with-unprocessed-todo" :: rest =>
    IO.println s!"ORACLE {d.c.hdr} why=daemon_sleeps_with_a_completed_injection_unprocessed {" ".intercalate rest}"
    return { d with st := { d.st with oracle := d.st.oracle + 1 } }
  | "T" :: _ => if d.selOnly then return d else handleT d toks
  | "END" :: _ =>
    if d.selOnly then return d else
    -- at the end everything injected must have been processed
    match d.c.st with
    | some s =>
      if !s.todo.isEmpty then
        IO.println s!"ORACLE {d.c.hdr} why=run_ended_with_unprocessed_todo_entries"
        return { d with st := { d.st with oracle := d.st.oracle + 1 } }
      else return d
    | none => return d
  | _ => return d

partial def loop2 (h : IO.FS.Stream) (d : D) : IO D := do
  let line ← h.getLine
  if line.isEmpty then return d
  let d' ← handle d line
  loop2 h d'

def main (args : List String) : IO Unit := do
  let stdin ← IO.getStdin
  let d ← loop2 stdin { selOnly := args.contains "selprep" }
  let st := { d.st with counters := d.st.counters ++ [("snap_distinct", d.snaps.size)] }
  IO.println s!"STATS {st.json}"
