/- Driver for C13: the real qmail-local main() (harness/c13_local.c) vs `Nq.Local.run`; oracle = the documented
   behaviour `Nq.LocalSpec` evaluated on the implementation's outputs.
   Input lines: `<doit> <blob> <exit> <stdout> <stderr> <opened> <events> <env> <stats> <files> <aux> <fenv> <cenv>` (see the
   harness header).  `fenv` / `cenv` (the real `environ` of the main process after the run / of the first command child at its
   execv) are compared variable by variable with `Nq.LocalEnv.commandEnv` (DISAGREE) and judged by `Nq.LocalEnvSpec.check` and
   `uflineOracle` (ORACLE). -/
import Drv.Util
import Nq.Local
import Nq.Spec.LocalSpec
import Nq.LocalEnv
import Nq.Spec.LocalEnvSpec

open Nq Nq.Local Drv

structure FEnt where
  name : Bytes
  kind : Char
  mode : Nat
  content : Bytes

structure Case where
  doit : Bool
  home : Option Nat
  qq : Nat
  dash : Bytes
  ext : Bytes
  host : Bytes
  loc : Bytes
  sender : Bytes
  alias : Bytes
  msg : Bytes
  files : List FEnt

def octal (s : String) : Option Nat :=
  if s.isEmpty then none else
  s.toList.foldl (fun acc c => match acc with
    | none => none
    | some n => if '0' ≤ c ∧ c ≤ '7' then some (n * 8 + (c.toNat - '0'.toNat)) else none) (some 0)

def parseFile (s : String) : Option FEnt :=
  match s.splitOn ":" with
  | [n, k, m, c] =>
    match unhex n, octal m, unhex c with
    | some n, some m, some c => some { name := n, kind := k.toList.headD 'f', mode := m, content := c }
    | _, _, _ => none
  | _ => none

def parseBlob (doit : Bool) (b : String) : Option Case :=
  match b.splitOn "," with
  | [hm, qq, dash, ext, host, loc, sender, al, msg, files] =>
    let fs : Option (List FEnt) :=
      if files == "-" then some [] else (files.splitOn ";").foldr (fun s acc => match acc, parseFile s with
        | some l, some e => some (e :: l)
        | _, _ => none) (some [])
    match unhex dash, unhex ext, unhex host, unhex loc, unhex sender, unhex al, unhex msg, fs with
    | some dash, some ext, some host, some loc, some sender, some al, some msg, some fs =>
      some { doit := doit, home := if hm == "x" then none else octal hm, qq := qq.toNat?.getD 0, dash := dash, ext := ext,
             host := host, loc := loc, sender := sender, alias := al, msg := msg, files := fs }
    | _, _, _, _, _, _, _, _ => none
  | _ => none

/-! ### the world, reconstructed from the case description (trusted glue: POSIX path lookup) -/

def collapse : Bytes → Bytes
  | a :: b :: r => if a = 47 ∧ b = 47 then collapse (b :: r) else a :: collapse (b :: r)
  | l => l

def stripSlash (l : Bytes) : Bytes := (l.reverse.dropWhile (· == 47)).reverse

def findEnt (fs : List FEnt) (n : Bytes) : Option FEnt := fs.find? (fun e => e.name == n)

def fsOf (fs : List FEnt) (n : Bytes) : FStat :=
  match findEnt fs n with
  | some e => if e.kind == 'T' || e.kind == 'A' then .temp else if e.kind == 'f' then .reg e.mode e.content else .absent
  | none =>
    let m := collapse n
    if m.getLast? == some 47 then .absent else
    match findEnt fs m with
    | some e => if e.kind == 'f' then .reg e.mode e.content else .absent
    | none => .absent

def exOf (fs : List FEnt) (n : Bytes) : Option Bool :=
  match findEnt fs n with
  | some e => if e.kind == 'T' then none else if e.kind == 'A' then some false else some true
  | none =>
    let m := collapse n
    match findEnt fs (stripSlash m) with
    | some e => if m.getLast? == some 47 then some (e.kind == 'd' || e.kind == 'm') else some (e.kind == 'f' || e.kind == 'd' || e.kind == 'm')
    | none => some false

def isInfix (p : Bytes) : Bytes → Bool
  | [] => p.isEmpty
  | c :: r => (p.isPrefixOf (c :: r)) || isInfix p r

/-- last "exit <digits>" in the command -/
def lastExit (cmd : Bytes) : Option Nat :=
  let rec go : Bytes → Option Nat → Option Nat
    | [], acc => acc
    | c :: r, acc =>
      if (str "exit ").isPrefixOf (c :: r) then
        let ds := (r.drop 4).takeWhile isDigit
        go r (if ds.isEmpty then acc else some (decVal ds))
      else go r acc
  go cmd none

/-- the stand-in commands of the harness: "kill -9 $$" crashes, "... exit N" exits N, anything else exits 0 -/
def pxOf (cmd : Bytes) : PRes :=
  if isInfix (str "kill") cmd then .crashed
  else match lastExit cmd with
    | some n => .exited (n % 256)
    | none => .exited 0

def dropDotSlash : Bytes → Bytes
  | 46 :: 47 :: r => r
  | l => l

def maildirText (code : Nat) : Bytes :=
  match (Nq.Gen.LocalExit.maildirCases.lookup code).getD Nq.Gen.LocalExit.maildirDefault with
  | some (_, t) => str t
  | none => []
def maildirCode (code : Nat) : Nat :=
  match (Nq.Gen.LocalExit.maildirCases.lookup code).getD Nq.Gen.LocalExit.maildirDefault with
  | some (c, _) => c
  | none => 0

def splitLastSlash (p : Bytes) : Bytes × Bytes :=
  let r := p.reverse
  let b := (r.takeWhile (· != 47)).reverse
  let d := (r.dropWhile (· != 47)).drop 1 |>.reverse
  (d, b)

/-- does the directory `d` (relative to the home, no trailing slash, "" = the home) exist in the generated home? -/
def dirExists (fs : List FEnt) (d : Bytes) : Bool :=
  d.isEmpty ||
  (match findEnt fs d with
   | some e => e.kind == 'd' || e.kind == 'm'
   | none => false) ||
  -- tmp/new/cur of a listed maildir
  (let (dd, b) := splitLastSlash d
   (b == str "tmp" || b == str "new" || b == str "cur") && (match findEnt fs dd with | some e => e.kind == 'm' | none => false)) ||
  -- created as the parent of a listed entry
  fs.any (fun e => (e.kind == 'f' || e.kind == 'd' || e.kind == 'm') && (d ++ [47]).isPrefixOf e.name)

/-- success/failure of a file delivery in the generated homes (trusted glue: POSIX open/chdir semantics).
mbox: `open(O_APPEND|O_CREAT)` succeeds iff the parent directory exists and the target is not a directory;
maildir: succeeds iff it is a listed maildir (`m`); a plain directory lacks tmp/ (child exits 1); anything
else cannot be entered (child exits 2) -/
def dxOf (fs : List FEnt) : Instr → Option Why
  | .mbox f =>
    let fail : Option Why := some (.fileFail 111 (str "Unable to open " ++ cstr f ++ str ": "))
    if (cstr f).head? == some 47 then fail else
    let p := collapse (dropDotSlash (cstr f))
    if p.isEmpty || p.getLast? == some 47 then fail else
    let (d, _) := splitLastSlash p
    if !dirExists fs d then fail
    else if dirExists fs p && !p.isEmpty then fail
    else none
  | .maildir f =>
    let p := stripSlash (dropDotSlash (cstr f))
    match findEnt fs p with
    | some e => if e.kind == 'm' then none
                else if e.kind == 'd' then some (.fileFail (maildirCode 1) (maildirText 1))
                else some (.fileFail (maildirCode 2) (maildirText 2))
    | none => some (.fileFail (maildirCode 2) (maildirText 2))
  | _ => none

def worldOf (c : Case) : World :=
  { home := c.home, fs := fsOf c.files, ex := exOf c.files, px := pxOf, dx := dxOf c.files,
    qq := if c.qq == 1 then str "Dqq permanent problem (#5.3.0)" else if c.qq == 2 then str "Zqq temporary problem (#4.3.0)" else [],
    qp := 4242 }

def argsOf (c : Case) : Args :=
  { doit := c.doit, loc := c.loc, dash := c.dash, ext := c.ext, host := c.host, sender := c.sender,
    aliasempty := c.alias, msg := c.msg }

/-! ### rendering the model's result in the harness's vocabulary -/

def hexList (l : List Bytes) : String := if l.isEmpty then "-" else ",".intercalate (l.map hex)

def effStr (dt msg : Bytes) : Effect → String
  | .deliver (.mbox f) => "M" ++ hex f
  | .deliver (.maildir f) => "D" ++ hex f
  | .deliver (.program c) => "P" ++ hex c
  | .deliver (.forward a) => "F" ++ hex a
  | .queue s rs => "Q" ++ hex s ++ ":" ++ hex (dt ++ msg) ++ String.join (rs.map (fun r => ":" ++ hex r))

def effsStr (dt msg : Bytes) (l : List Effect) : String := if l.isEmpty then "-" else ",".intercalate (l.map (effStr dt msg))

/-- expected stderr: (text, exact?) -/
def whyText : Why → Bytes × Bool
  | .homeStat => (str "Unable to stat home directory: ", false)
  | .homeWritable => (str Nq.Gen.LocalExit.homeWritableText ++ [LF], true)
  | .homeSticky => (str Nq.Gen.LocalExit.homeStickyText ++ [LF], true)
  | .looping => (str Nq.Gen.LocalExit.loopingText ++ [LF], true)
  | .qmailTemp n => (str "Unable to open " ++ n ++ str ": ", false)
  | .qmailWritable => (str Nq.Gen.LocalExit.qmailWritableText ++ [LF], true)
  | .noMailbox => (str Nq.Gen.LocalExit.noMailboxText ++ [LF], true)
  | .blankFirst => (str Nq.Gen.LocalExit.blankFirstText ++ [LF], true)
  | .xbitFile => (str Nq.Gen.LocalExit.xbitFileText ++ [LF], true)
  | .xbitProg => (str Nq.Gen.LocalExit.xbitProgText ++ [LF], true)
  | .progExit _ => ([], true)
  | .childCrashed => (str Nq.Gen.LocalExit.childCrashedText ++ [LF], true)
  | .fileFail _ t => (t, false)
  | .fwdFail _ t => (str "Unable to forward message: " ++ t ++ str ".\n", true)

def stage (r : Result) : Nat :=
  match r.why with
  | some .homeStat | some .homeWritable | some .homeSticky => 0
  | some .looping => 1
  | _ => if r.ueo.isSome then 3 else 2

def envExpect (c : Case) (r : Result) (inh : List (Bytes × Bytes)) : List (Option Bytes × Bool) :=  -- (value, compare-as-prefix)
  let st := stage r
  let on (k : Nat) (v : Bytes) : Option Bytes := if st ≥ k then some v else none
  let e2 := afterDash c.ext; let e3 := afterDash e2; let e4 := afterDash e3
  let h2 := beforeLastDot c.host; let h3 := beforeLastDot h2; let h4 := beforeLastDot h3
  let l : List (String × Option Bytes × Bool) :=
  [ ("DEFAULT", if st ≥ 2 then r.dfltEnv else none, false), ("NEWSENDER", if st ≥ 3 then r.ueo else none, false),
    ("DTLINE", on 1 (dtline c.loc c.host), false), ("RPLINE", on 2 (rpline c.sender), false), ("UFLINE", on 2 (uflinePrefix c.sender), true),
    ("EXT2", on 2 e2, false), ("EXT3", on 2 e3, false), ("EXT4", on 2 e4, false), ("HOST2", on 2 h2, false), ("HOST3", on 2 h3, false),
    ("HOST4", on 2 h4, false), ("RECIPIENT", on 1 (envrecip c.loc c.host), false) ]
  -- a variable the program has not (yet) put keeps its inherited value
  l.map (fun (n, v, pre) => match v with
    | some x => (some x, pre)
    | none => (LocalEnvSpec.lookupEnv inh (str n), false))

def envAgree (exp : List (Option Bytes × Bool)) (got : List String) : Bool :=
  exp.length == got.length && (exp.zip got).all (fun (e, g) =>
    match e.1 with
    | none => g == "!"
    | some v => match (if g == "!" then none else unhex g) with
      | some b => if e.2 then v.isPrefixOf b else b == v
      | none => false)

/-! ### the property oracle (documentation, evaluated on the implementation's output) -/

open Nq.LocalSpec in
def lookOf (fs : List FEnt) (n : Bytes) : Entry :=
  match fsOf fs n with
  | .absent => .missing
  | .temp => .unreadable
  | .reg m c => .file m c

open Nq.LocalSpec in
def sEffStr (dt msg : Bytes) : LocalSpec.Effect → String
  | .mbox f => "M" ++ hex f
  | .maildir f => "D" ++ hex f
  | .program c => "P" ++ hex c
  | .queue s rs => "Q" ++ hex s ++ ":" ++ hex (dt ++ msg) ++ String.join (rs.map (fun r => ":" ++ hex r))

def parseHexList (l : String) : Option (List Bytes) :=
  if l == "-" then some [] else (l.splitOn ",").foldr (fun s acc => match acc, unhex s with
    | some l, some b => some (b :: l) | _, _ => none) (some [])

/-- the documentation's view of the case (`Nq.LocalSpec.Setting`): the same record `settingOf` builds from the model's
arguments and world in `C13_run_outcome` -/
def settingOfCase (c : Case) (hm : Nat) : LocalSpec.Setting :=
  { doit := c.doit, homeMode := hm, loc := c.loc, dash := c.dash, ext := c.ext, host := c.host, sender := c.sender,
    dflt := c.alias, msg := c.msg, look := lookOf c.files, present := exOf c.files,
    run := fun cmd => match pxOf cmd with | .exited n => .exited n | .crashed => .crashed,
    fileOK := fun i => match i with
      | .mbox f => (match dxOf c.files (.mbox f) with | some w => w.code | none => 0)
      | .maildir f => (match dxOf c.files (.maildir f) with | some w => w.code | none => 0)
      | _ => 0,
    queueReply := (worldOf c).qq }

/-- the file (relative to the home, `dir/new/*` for a maildir) an observed delivery event may create or change -/
def eventFile (ev : String) : Option String :=
  match ev.toList with
  | 'M' :: h => match unhex (String.ofList h) with
    | some f => some (hex (collapse (dropDotSlash f)))
    | none => none
  | 'D' :: h => match unhex (String.ofList h) with
    | some d => some (hex (stripSlash (collapse (dropDotSlash d)) ++ str "/new/*"))
    | none => none
  | _ => none

/-- returns the names of the violated clauses: `LocalSpec.outcome` (the predicate of `C13_run_outcome`) and the
search / confinement / owner-name / header-line predicates, all evaluated on the implementation's output -/
def oracle (c : Case) (exit : Int) (out err : Bytes) (opens : String) (events : String) (env : List String)
    (stats : String) (files : String) (inh : List (Bytes × Bytes)) : List String := Id.run do
  let inhDefault := LocalEnvSpec.lookupEnv inh [68, 69, 70, 65, 85, 76, 84]
  let mut bad : List String := []
  let quiet := events == "-" && files == "-" &&
    !(isInfix (str "mbox ") out || isInfix (str "maildir ") out || isInfix (str "program ") out || isInfix (str "forward ") out)
  -- hostile envelope bytes cannot add header lines
  for (i, nm) in [(2, "DTLINE"), (3, "RPLINE"), (4, "UFLINE")] do
    match env[i]? with
    | some g => if g != "!" then
        match unhex g with
        | some b => if !LocalSpec.oneLine b && LocalEnvSpec.lookupEnv inh (str nm) != some b then bad := s!"noinject:{nm}" :: bad
        | none => pure ()
    | none => pure ()
  -- every file that appeared or changed in the home directory is explained by an observed delivery event
  let explained := (if events == "-" then [] else events.splitOn ",").filterMap eventFile
  for f in (if files == "-" then [] else files.splitOn ",") do
    let f' := if f.startsWith "~" then (f.drop 1).toString else f
    if !(explained.contains f') then bad := "effects:unobserved-file" :: bad
  match c.home with
  | none => return bad      -- stat(".") failing is outside the documentation
  | some hm =>
  let S := settingOfCase c hm
  let e := LocalSpec.outcome S
  let dt := LocalSpec.dtline c.loc c.host
  -- confinement of everything opened or stat'ed, whatever the stage
  if !(c.dash.contains 46) then
    match parseHexList opens, parseHexList stats with
    | some os, some ss =>
      if !(os.all LocalSpec.confined) then bad := "search:confined" :: bad
      if !(ss.all LocalSpec.confined) then bad := "owner:confined" :: bad
    | _, _ => bad := "search:unparsable" :: bad
  -- which stage decides (only to name the clause; the verdict is `e`)
  if hm &&& 2 != 0 || (hm &&& 0o1000 != 0 && c.doit) then
    if !(exit == Int.ofNat e.code && quiet && opens == "-" && stats == "-") then bad := "perm:home" :: bad
    return bad
  if c.doit && LocalSpec.loops c.loc c.host c.msg then
    if !(exit == Int.ofNat e.code && quiet && opens == "-" && stats == "-") then bad := "loop" :: bad
    return bad
  if isInfix (str "looping") err then
    bad := "loop:spurious" :: bad     -- bounced as a loop although the header has no such line
    return bad
  let cands := LocalSpec.candidates c.dash c.ext
  let must := LocalSpec.mustOpen S.look cands
  if hexList must != opens then bad := "search:order" :: bad
  if !(c.dash.contains 46) && !(must.all LocalSpec.confined) then bad := "search:confined-spec" :: bad
  match LocalSpec.plan S with
  | .error code =>
    if !(exit == Int.ofNat e.code && quiet && stats == "-") then bad := (if code == 100 then "nofile" else "perm:qmail") :: bad
    return bad
  | .ok _ =>
    -- the names examined for the -owner test are the documented ones
    if hexList (LocalSpec.ownerNames S) != stats then bad := "owner:names" :: bad
    match LocalSpec.senderFor S with
    | none =>
      if !(exit == Int.ofNat e.code && quiet) then bad := "owner:temp" :: bad
      return bad
    | some _ =>
      -- $DEFAULT as documented (only once the environment is complete: NEWSENDER set)
      if (env[1]?).getD "!" != "!" then
        let wantD : Option Bytes := match LocalSpec.control S.look cands with
          | some (n, _) => (match LocalSpec.defaultVar c.dash c.ext n with | some d => some d | none => inhDefault)
          | none => inhDefault    -- not set by qmail-local: an inherited value stays (LocalEnvSpec, C13_env_documented)
        let gotD : Option Bytes := match env[0]? with
          | some g => if g == "!" then none else unhex g
          | none => none
        if wantD != gotD then bad := "env:DEFAULT" :: bad
      if exit != Int.ofNat e.code then bad := s!"dispatch:exit(want {e.code})" :: bad
      let wantEv := if e.effects.isEmpty then "-" else ",".intercalate (e.effects.map (sEffStr dt c.msg))
      if c.doit && wantEv != events then bad := "dispatch:effects" :: bad
      if !c.doit && events != "-" then bad := "dispatch:n-has-effects" :: bad
      if !c.doit then
        if LocalSpec.printedN e != out then bad := "dispatch:description" :: bad
      else if e.code == 0 then
        if !((LocalSpec.didl e.counts).isPrefixOf out) then bad := "dispatch:counts" :: bad
      -- no file delivery documented: no file may appear or change
      if !(e.effects.any (fun x => match x with | .mbox _ => true | .maildir _ => true | _ => false)) && files != "-" then
        bad := "dispatch:unexpected-file" :: bad
      return bad

/-! ### the environment handed to commands -/

structure Aux where
  now : Nat
  user : Bytes
  home : Bytes
  inherited : List (Bytes × Bytes)

def splitEq (b : Bytes) : Bytes × Bytes := (b.takeWhile (· != 61), (b.dropWhile (· != 61)).drop 1)

def parseEnvList (sep : String) (l : String) : Option (List (Bytes × Bytes)) :=
  if l == "-" then some [] else (l.splitOn sep).foldr (fun s acc => match acc, (if s == "-" then some [] else unhex s) with
    | some l, some b => some (splitEq b :: l) | _, _ => none) (some [])

def parseAux (a : String) : Option Aux :=
  match a.splitOn ":" with
  | [t, u, h, inh] =>
    match t.toNat?, unhex u, unhex h, parseEnvList ";" inh with
    | some t, some u, some h, some inh => some { now := t, user := u, home := h, inherited := inh }
    | _, _, _, _ => none
  | _ => none

def leBytes : Bytes → Bytes → Bool
  | [], _ => true
  | _ :: _, [] => false
  | a :: r, b :: s => a < b || (a == b && leBytes r s)

def envKey (p : Bytes × Bytes) : Bytes := p.1 ++ [61] ++ p.2
def sortEnv (e : List (Bytes × Bytes)) : List Bytes := ((e.map envKey).toArray.qsort (fun a b => leBytes a b && a != b)).toList

def envShow (e : List (Bytes × Bytes)) : String := if e.isEmpty then "-" else ",".intercalate (e.map (fun p => hex (envKey p)))

/-- the documentation's view (`Nq.LocalEnvSpec.Given`) of a case whose command environment `env` was observed: DEFAULT from the
documented control-file search, NEWSENDER from the documented -owner rule, the date from the calendar search -/
def envOracle (c : Case) (hm : Nat) (ax : Aux) (env : List (Bytes × Bytes)) (tag : String) : List String :=
  let S := settingOfCase c hm
  let cands := LocalSpec.candidates c.dash c.ext
  let dflt : Option Bytes := match LocalSpec.control S.look cands with
    | some (n, _) => LocalSpec.defaultVar c.dash c.ext n
    | none => none
  match LocalSpec.senderFor S, LocalEnvSpec.civilSearch ax.now with
  | some ns, some (y, m, d) =>
    let g : LocalEnvSpec.Given := { user := ax.user, home := ax.home, loc := c.loc, ext := c.ext, host := c.host, sender := c.sender,
                                    now := ax.now, date := (y, m, d), dflt := dflt, newsender := ns }
    let bad := (LocalEnvSpec.check g ax.inherited env).map (fun k => s!"{tag}:{String.fromUTF8! (ByteArray.mk k.toArray)}")
    let uf := match LocalEnvSpec.lookupEnv env [85, 70, 76, 73, 78, 69] with
      | some l => if LocalEnvSpec.uflineOracle c.sender ax.now l then [] else [s!"{tag}:UFLINE-date"]
      | none => [s!"{tag}:UFLINE-unset"]
    let lineVars : List (Bytes × String) := [([68, 84, 76, 73, 78, 69], "DTLINE"), ([82, 80, 76, 73, 78, 69], "RPLINE"), ([85, 70, 76, 73, 78, 69], "UFLINE")]
    let lines := lineVars.filterMap
      (fun (p : Bytes × String) => match LocalEnvSpec.lookupEnv env p.1 with
        | some l => if LocalSpec.oneLine l then none else some s!"{tag}:{p.2}-lines"
        | none => none)
    bad ++ uf ++ lines
  | none, _ => [s!"{tag}:command-without-sender"]
  | _, none => [s!"{tag}:date-search"]

def handle (st : Stats) (line : String) : IO Stats := do
  match fields line with
  | [doitS, blob, "SKIP"] =>
    let _ := (doitS, blob)
    return (st.bump "skipped")
  | [doitS, blob, exitS, outH, errH, opens, events, envS, statsS, filesS, auxS, fenvS, cenvS] =>
    let doit := doitS == "1"
    match parseBlob doit blob, unhex outH, unhex errH, exitS.toInt?, parseAux auxS, parseEnvList "," fenvS, parseEnvList "," cenvS with
    | some c, some out, some err, some exit, some ax, some fenv, some cenv =>
      let h := hashBytes (blob.toUTF8.toList ++ [if doit then 1 else 0])
      let fresh := !st.seen.contains h
      let r := run (argsOf c) (worldOf c)
      let nontriv := !r.did.isEmpty || r.why.isSome
      let mut st := { st with cases := st.cases + 1, seen := st.seen.insert h,
                              nontrivial := st.nontrivial + (if fresh && nontriv then 1 else 0) }
      st := st.bump (if doit then "deliver" else "describe")
      st := st.bump s!"exit{exit}"
      st := st.bump (match r.why with
        | none => "why:ok" | some .homeStat => "why:homeStat" | some .homeWritable => "why:homeWritable" | some .homeSticky => "why:homeSticky"
        | some .looping => "why:looping" | some (.qmailTemp _) => "why:qmailTemp" | some .qmailWritable => "why:qmailWritable"
        | some .noMailbox => "why:noMailbox" | some .blankFirst => "why:blankFirst" | some .xbitFile => "why:xbitFile"
        | some .xbitProg => "why:xbitProg" | some (.progExit _) => "why:progExit" | some .childCrashed => "why:childCrashed"
        | some (.fileFail _ _) => "why:fileFail" | some (.fwdFail _ _) => "why:fwdFail")
      st := st.bump (match r.sel with
        | none => "sel:none"
        | some s => if r.tried.length == 1 then "sel:exact" else s!"sel:default@{min r.tried.length 5}")
      -- model vs implementation
      let dt := dtline c.loc c.host
      let (wtxt, exact) := match r.why with | some w => whyText w | none => ([], true)
      let wantErr := (if r.stickyWarn then str "Warning: home directory is sticky.\n" else []) ++ wtxt
      let envL := envS.splitOn ","
      let mut diffs : List String := []
      if exit != Int.ofNat r.code then diffs := s!"exit(model {r.code})" :: diffs
      if out != r.out then diffs := s!"stdout(model {hex r.out})" :: diffs
      if !(if exact then err == wantErr else wantErr.isPrefixOf err) then diffs := s!"stderr(model {hex wantErr})" :: diffs
      if opens != hexList r.tried then diffs := s!"opened(model {hexList r.tried})" :: diffs
      if statsS != hexList r.stats then diffs := s!"stats(model {hexList r.stats})" :: diffs
      if events != effsStr dt c.msg r.effects then diffs := s!"events(model {effsStr dt c.msg r.effects})" :: diffs
      if !envAgree (envExpect c r ax.inherited) envL then diffs := "env" :: diffs
      -- the whole environment: of the main process once NEWSENDER is put, and of the first command child
      let menv := Nq.LocalEnv.commandEnv ax.inherited (argsOf c) (worldOf c) ax.user ax.home ax.now
      let hasChild := cenvS != "-"
      match menv with
      | some me =>
        st := st.bump "env:main-compared"
        if sortEnv fenv != sortEnv me then diffs := s!"fenv(model {envShow me})" :: diffs
        if hasChild then
          st := st.bump "env:child-compared"
          if sortEnv cenv != sortEnv me then diffs := s!"cenv(model {envShow me})" :: diffs
      | none => if hasChild then diffs := "cenv(model: no command can run)" :: diffs
      if !ax.inherited.isEmpty then st := st.bump "env:inherited"
      if (LocalEnvSpec.lookupEnv ax.inherited [68, 69, 70, 65, 85, 76, 84]).isSome then
        st := st.bump (if r.dfltEnv.isSome then "env:inherited-DEFAULT-overwritten" else "env:inherited-DEFAULT-kept")
      -- evidence for the observation in notes/C13.md: a command child that sees an inherited DEFAULT although no -default file matched
      if hasChild && r.dfltEnv.isNone && (LocalEnvSpec.lookupEnv cenv [68, 69, 70, 65, 85, 76, 84]).isSome &&
          !(st.counters.any (fun p => p.1 == "env:sample-stale-DEFAULT")) then
        st := st.bump "env:sample-stale-DEFAULT"
        IO.println s!"SAMPLE stale-DEFAULT in={blob} doit={doitS} aux={auxS} child_environ={cenvS}"
      if menv.isSome then
        st := st.bump (if r.dfltEnv.isSome then "env:DEFAULT-set" else "env:DEFAULT-unset")
        st := st.bump (if ax.now ≥ 2147483648 then "env:clock>2038" else "env:clock<=2038")
        st := st.bump s!"env:dashes{min 4 (c.ext.count 45)}"
        st := st.bump s!"env:dots{min 4 (c.host.count 46)}"
      if !diffs.isEmpty then
        IO.println s!"DISAGREE in={blob} doit={doitS} what={",".intercalate diffs.reverse |>.replace " " "_"} impl_exit={exitS} impl_out={outH} impl_err={errH} impl_opened={opens} impl_events={events} impl_env={envS} impl_stats={statsS} impl_files={filesS}"
        st := { st with disagree := st.disagree + 1 }
      -- property oracle on the implementation's behaviour
      let mut bad := oracle c exit out err opens events envL statsS filesS ax.inherited
      match c.home with
      | some hm =>
        if hasChild then bad := (envOracle c hm ax cenv "cenv").reverse ++ bad
        -- the main process: once NEWSENDER has been put (and was not inherited) its environment is the commands' environment
        if (envL[1]?).getD "!" != "!" && (LocalEnvSpec.lookupEnv ax.inherited [78, 69, 87, 83, 69, 78, 68, 69, 82]).isNone then
          bad := (envOracle c hm ax fenv "fenv").reverse ++ bad
      | none => pure ()
      if !bad.isEmpty then
        IO.println s!"ORACLE in={blob} doit={doitS} clause={",".intercalate bad.reverse |>.replace " " "_"} impl_exit={exitS} impl_out={outH} impl_opened={opens} impl_events={events} impl_stats={statsS} impl_files={filesS}"
        st := { st with oracle := st.oracle + 1 }
      if fresh && st.samples < 3 && doit && r.effects.length ≥ 2 then
        IO.println s!"SAMPLE in={blob} doit={doitS} exit={exitS} opened={opens} events={events}"
        st := { st with samples := st.samples + 1 }
      return st
    | _, _, _, _, _, _, _ => IO.println s!"DISAGREE unparsable line {line.take 300}"; return { st with disagree := st.disagree + 1 }
  | _ => IO.println s!"DISAGREE unparsable line {line.take 300}"; return { st with disagree := st.disagree + 1 }

def main : IO Unit := runDriver handle
