/- Driver for C15: the real squareroot()/nextretry()/prioq_*()/pass_dochan()/del_dochan()/pqrun()/
   pqfinish()/pqstart() of qmail-send.c and prioq.c (harness/c15_sched.c) against Nq.Sched, with the
   property predicates of Nq.Spec.Sched evaluated on the implementation's outputs.
   Input lines: see harness/c15_sched.c. -/
import Drv.Util
import Nq.Sched
import Nq.Spec.Sched
import Nq.SchedHist

open Nq Nq.Sched Nq.Spec.Sched Nq.SchedHist Drv

def chanOf (s : String) : Option Chan :=
  if s == "0" then some .loc else if s == "1" then some .rem else none

def parseElt (s : String) : Option Elt :=
  match s.splitOn ":" with
  | [a, b] => match a.toInt?, b.toNat? with
    | some dt, some id => some { dt := dt, id := id }
    | _, _ => none
  | _ => none

def parseElts (s : String) : Option (List Elt) :=
  if s == "-" then some [] else (s.splitOn ",").mapM parseElt

/-- `none` = delmin, `some dt` = insert -/
def parseOps (s : String) : Option (List (Option Int)) :=
  if s == "-" then some [] else
  (s.splitOn ",").mapM fun t =>
    if t == "d" then some none
    else if t.startsWith "i" then (t.drop 1).toString.toInt?.map some
    else none

def parseMins (s : String) : Option (List (Option Elt)) :=
  if s == "-" then some [] else
  (s.splitOn ",").mapM fun t => if t == "e" then some none else (parseElt t).map some

def showElts (l : List Elt) : String :=
  if l.isEmpty then "-" else ",".intercalate (l.map fun e => s!"{e.dt}:{e.id}")

/-- model replay of an op sequence: (mins seen by the deletions, final array) -/
def replayOps (ops : List (Option Int)) : List (Option Elt) × PQ := Id.run do
  let mut q : PQ := #[]
  let mut mins : Array (Option Elt) := #[]
  let mut i := 0
  for op in ops do
    i := i + 1
    match op with
    | some dt => q := q.insert { dt := dt, id := i }
    | none => mins := mins.push q.min; q := q.delmin
  return (mins.toList, q)

/-- property oracle for an op sequence, on the implementation's answers only: every deletion returned
a minimum of what was in the queue (or "empty" iff it was empty), exactly that entry left, and the
final array is heap-ordered and holds exactly the surviving entries. -/
def oracleOps (ops : List (Option Int)) (mins : List (Option Elt)) (final : List Elt) : Option String := Id.run do
  let mut alive : List Elt := []
  let mut ms := mins
  let mut i := 0
  for op in ops do
    i := i + 1
    match op with
    | some dt => alive := { dt := dt, id := i } :: alive
    | none =>
      match ms with
      | [] => return some "fewer delmin answers than deletions"
      | m :: rest =>
        ms := rest
        match m with
        | none => if !alive.isEmpty then return some s!"op {i}: prioq_min says empty but {alive.length} entries are queued"
        | some e =>
          if !isMinOf e alive then return some s!"op {i}: prioq_min returned {e.dt}:{e.id} which is not a minimum"
          match removeOne e alive with
          | none => return some s!"op {i}: prioq_min returned {e.dt}:{e.id} which is not in the queue"
          | some a' => alive := a'
  if !heapB final.toArray then return some "final array is not heap-ordered"
  if !sameMultiset final alive then return some s!"final array {showElts final} is not the multiset of surviving entries"
  return none

def two32 : Int := 4294967296


/-! ### daemon histories -/

def parseStep (t : String) : Step :=
  let body := (t.drop 1).toString
  match t.front with
  | 'm' => match body.splitOn "," with
    | [a, b, c, d, e] => match a.toNat?, chanOf b, c.toInt?, d.toInt?, e.toNat? with
      | some id, some ch, some birth, some due, some n => .mk id ch birth due n
      | _, _, _, _, _ => .bad
    | _ => .bad
  | 'L' => .load
  | 't' => match body.toInt? with | some x => .clock x | none => .bad
  | 'a' => .alrm
  | 'w' => .wake
  | 'f' => .fin
  | 'p' => match body.splitOn "," with
    | [c] => match chanOf c with | some ch => .pass ch [90] | none => .bad
    | [c, l] => match chanOf c with
      | some ch => .pass ch (if l.isEmpty then [90] else l.toUTF8.toList)
      | none => .bad
    | _ => .bad
  | _ => .bad

def parseEv (t : String) : Option Ev :=
  match t.splitOn "/" with
  | [h] =>
    if h.startsWith "w" then (h.drop 1).toString.toInt?.map Ev.wake else some (.plain h)
  | ["L", a, b, c] => do some (.load (← parseElts a) (← parseElts b) (← parseElts c))
  | ["a", a, b] => do some (.alrm (← parseElts a) (← parseElts b))
  | ["f", a, b] => do some (.fin (← parseElts a) (← parseElts b))
  | [h, a, b, c] =>
    if h == "p0" then do some (.pass 0 0 false 0 "" 0 0 (← parseElts a) (← parseElts b) (← parseElts c))
    else if h.startsWith "p" then
      match (h.drop 1).toString.splitOn "," with
      | [id, retry, dying, ndel, recs, npar, ntoo] => do
        some (.pass (← id.toNat?) (← retry.toInt?) (dying == "1") (← ndel.toNat?) recs (← npar.toNat?) (← ntoo.toNat?)
                (← parseElts a) (← parseElts b) (← parseElts c))
      | _ => none
    else none
  | _ => none

def minDt (l : List Elt) : Option Int := l.foldl (fun m e => match m with | none => some e.dt | some x => some (if e.dt < x then e.dt else x)) none

/-- what the property demands of the records of an expiring / ordinary pass (independent of the model):
returns (records after, bounce paragraphs added, too-long paragraphs added, deliveries) -/
def specAnswer (dying : Bool) (letters : List Byte) : List Bool → Nat → List Bool × Nat × Nat × Nat
  | [], k => ([], 0, 0, k)
  | false :: r, k => let (r', p, t, k') := specAnswer dying letters r k; (false :: r', p, t, k')
  | true :: r, k =>
    let l := letters.getD (k % letters.length) 90
    let (r', p, t, k') := specAnswer dying letters r (k + 1)
    if l = 75 then (false :: r', p, t, k')                          -- K: done
    else if l = 68 then (false :: r', p + 1, t, k')                  -- D: bounced, done
    else if l = 90 then (if dying then (false :: r', p + 1, t + 1, k') else (true :: r', p, t, k'))  -- Z
    else (true :: r', p, t, k')                                      -- mangled: deferred

structure OSt where
  clock : Int := 0
  q0 : List Elt := []
  q1 : List Elt := []
  done : List Elt := []
  births : List (Nat × Int) := []
  recs : List ((Nat × Chan) × List Bool) := []     -- records per channel file, from the script and earlier events
  bounce : List (Nat × (Nat × Nat)) := []          -- per message: paragraphs, too-long paragraphs seen so far
  dues : List ((Nat × Chan) × Int) := []           -- mtime given by the script
  atFin : Option (List Elt × List Elt) := none     -- heaps when pqfinish ran (cleared by anything but L)

def OSt.q (o : OSt) : Chan → List Elt | .loc => o.q0 | .rem => o.q1

def lookupD {α β} [BEq α] (k : α) (d : β) (l : List (α × β)) : β := ((l.find? (·.1 == k)).map (·.2)).getD d
def setKey {α β} [BEq α] (k : α) (v : β) (l : List (α × β)) : List (α × β) := (k, v) :: l.filter (fun x => !(x.1 == k))

instance : BEq Chan := ⟨fun a b => decide (a = b)⟩

/-- the property oracle for one history step, evaluated on the implementation's event -/
def oracleStep (lifetime : Int) (o : OSt) (stp : Step) (ev : Ev) : OSt × Option String :=
  match stp, ev with
  | .mk id c birth due nrec, _ =>
    let births := if (o.births.find? (·.1 == id)).isSome then o.births else (id, birth) :: o.births
    ({ o with births := births, recs := setKey (id, c) (List.replicate nrec true) o.recs,
              dues := setKey (id, c) due o.dues, atFin := none }, none)
  | .clock t, _ => ({ o with clock := t }, none)
  | .load, .load a b d =>
    let o' := { o with q0 := a, q1 := b, done := d, atFin := none }
    if !(heapB a.toArray && heapB b.toArray && heapB d.toArray) then (o', some "heap order broken after pqstart") else
    match o.atFin with
    | some (f0, f1) =>
      if sameMultiset a f0 && sameMultiset b f1 then (o', none)
      else (o', some s!"schedule not preserved by TERM+restart: before {showElts f0}/{showElts f1} after {showElts a}/{showElts b}")
    | none =>
      let exp (c : Chan) := o.dues.filterMap fun ((id, c'), due) =>
        if c' == c && (o.recs.find? (·.1 == (id, c))).isSome then some ({ dt := due, id := id } : Elt) else none
      if o.q0.isEmpty && o.q1.isEmpty && sameMultiset a (exp .loc) && sameMultiset b (exp .rem) then (o', none)
      else if !(o.q0.isEmpty && o.q1.isEmpty) then (o', none)   -- crash restart: not covered by the property
      else (o', some "pqstart did not load the persisted due times (mtime of the channel files)")
  | .alrm, .alrm a b =>
    let o' := { o with q0 := a, q1 := b, atFin := none }
    let ok (n old : List Elt) := n.all (fun e => e.dt == o.clock) && sameMultiset (n.map fun e => { e with dt := 0 }) (old.map fun e => { e with dt := 0 })
    if ok a o.q0 && ok b o.q1 then (o', none) else (o', some "after ALRM (pqrun) not every scheduled message is due now")
  | .wake, .wake t =>
    let lim := o.clock + SLEEP_FOREVER
    let ok := decide (t ≤ lim) && (o.q0 ++ o.q1 ++ o.done).all (fun e => decide (t ≤ e.dt))
    (o, if ok then none else some s!"wakeup {t} is later than the earliest due time")
  | .fin, .fin m0 m1 =>
    let ok (q m : List Elt) := q.all fun e => m.contains e
    let o' := { o with atFin := some (o.q0, o.q1), q0 := [], q1 := [] }
    if ok o.q0 m0 && ok o.q1 m1 then (o', none) else (o', some "pqfinish did not persist every due time as the channel file's mtime")
  | .pass c letters, .pass id retry dying ndel recs npar ntoo a b d =>
    let o' := { o with q0 := a, q1 := b, done := d, atFin := none }
    let prev := o.q c
    if id = 0 then
      match minDt prev with
      | some m => if m ≤ o.clock then (o', some s!"a message due at {m} was not started at {o.clock}") else (o', none)
      | none => (o', none)
    else
      match prev.find? (·.id == id) with
      | none => (o', some s!"started message {id} which was not scheduled on this channel")
      | some e =>
        let birth := lookupD id 0 o.births
        let age := o.clock - birth
        let before := lookupD (id, c) [] o.recs
        let (after, p, t, k) := specAnswer dying letters before 0
        let gone := after.all (fun b => !b)
        let recsExp := if gone then "gone" else recsString (some after)
        let (p0, t0) := lookupD id (0, 0) o.bounce
        let o' := { o' with recs := if gone then o'.recs.filter (fun x => !(x.1 == (id, c))) else setKey (id, c) after o'.recs,
                            bounce := setKey id (npar, ntoo) o'.bounce }
        let newq := o'.q c
        let rest := (removeOne e prev).getD prev
        if e.dt > o.clock then (o', some s!"message {id} started at {o.clock}, before its retry time {e.dt}")
        else if some e.dt != minDt prev then (o', some s!"message {id} (due {e.dt}) started while an earlier-due message waits")
        else if retry ≤ o.clock then (o', some s!"retry time {retry} is not in the future of {o.clock}")
        else if 0 ≤ age && age < two32 && !isRetryB o.clock birth c retry then (o', some s!"retry time {retry} is not birth+(isqrt(age)+skip)^2 for birth {birth} now {o.clock}")
        else if dying != decide (o.clock > birth + lifetime) then (o', some s!"expiry flag {dying} wrong for birth {birth} lifetime {lifetime} now {o.clock}")
        else if recs != recsExp then (o', some s!"records after the pass are {recs}, the property requires {recsExp} (dying={dying})")
        else if npar != p0 + p || ntoo != t0 + t then (o', some s!"bounce paragraphs {npar}/{ntoo} (too long), required {p0 + p}/{t0 + t}")
        else if ndel != k then (o', some s!"{ndel} deliveries started for {k} pending recipients")
        else if gone then
          (if sameMultiset newq rest then (o', none) else (o', some s!"message {id} left the channel but the heap is not the old one minus it"))
        else if !sameMultiset newq ({ dt := retry, id := id } :: rest) then
          (o', some s!"after the pass message {id} is not rescheduled exactly at its retry time {retry}")
        else if !(heapB a.toArray && heapB b.toArray) then (o', some "heap order broken")
        else (o', none)
  | _, .plain "bad" => (o, none)
  | _, _ => (o, some "event does not match the step")

def handleHist (st : Stats) (line : String) (rest : List String) : IO Stats := do
  match rest with
  | [lts, script, events] =>
    match lts.toInt? with
    | none => IO.println s!"DISAGREE unparsable history {line.take 200}"; return { st with disagree := st.disagree + 1, cases := st.cases + 1 }
    | some lifetime =>
      let steps := if script == "-" then [] else (script.splitOn ";").map parseStep
      let evs := if events == "-" then [] else (events.splitOn ";").map parseEv
      let h := hashBytes line.toUTF8.toList
      let fresh := !st.seen.contains h
      let mut st := { st with cases := st.cases + 1, seen := st.seen.insert h, nontrivial := st.nontrivial + (if fresh then 1 else 0) }
      st := st.bump "histories"
      if steps.length != evs.length then
        IO.println s!"DISAGREE in=S,{lts},{script} what=event_count"
        return { st with disagree := st.disagree + 1 }
      let mut ms : HSt := { lifetime := lifetime }
      let mut os : OSt := {}
      let mut dis : Option String := none
      let mut orc : Option String := none
      let mut k := 0
      for (stp, ev?) in steps.zip evs do
        k := k + 1
        match ev? with
        | none => if dis.isNone then dis := some s!"step {k}: unparsable event"
        | some ev =>
          let (ms', mev) := step ms stp
          ms := ms'
          -- after pqstart the array order depends on readdir: compare as multisets and adopt the implementation's arrays
          match mev, ev with
          | .load a b d, .load a' b' d' =>
            if sameMultiset a a' && sameMultiset b b' && sameMultiset d d' then
              ms := { ms with q0 := a'.toArray, q1 := b'.toArray, done := d'.toArray }
            else if dis.isNone then dis := some s!"step {k}: model loads {showElts a}/{showElts b}/{showElts d}"
          | _, _ => if !(mev == ev) && dis.isNone then dis := some s!"step {k}: model event {repr mev}"
          match stp, ev with
          | .pass _ _, .pass id _ dying _ _ _ _ _ _ _ =>
            st := st.bump (if id = 0 then "hist_pass_none" else if dying then "hist_pass_expiring" else "hist_pass_started")
          | .fin, _ => st := st.bump "hist_term_restart"
          | .alrm, _ => st := st.bump "hist_alrm"
          | _, _ => pure ()
          let (os', why) := oracleStep lifetime os stp ev
          os := os'
          match why with
          | some w => if orc.isNone then orc := some s!"step {k}: {w}"
          | none => pure ()
      match dis with
      | some d =>
        IO.println s!"DISAGREE in=S,{lts},{script} what={((d.replace " " "_").replace "\n" "").take 1500} events={events.take 1500}"
        st := { st with disagree := st.disagree + 1 }
      | none => pure ()
      match orc with
      | some w =>
        IO.println s!"ORACLE in=S,{lts},{script} what={(w.replace " " "_").take 600} events={events.take 2500}"
        st := { st with oracle := st.oracle + 1 }
      | none => pure ()
      if st.samples < 5 && st.samples ≥ 3 && fresh && script.length < 260 && (events.splitOn ",1,").length > 1 then
        IO.println s!"SAMPLE history lifetime={lts} script={script} events={events}"
        st := { st with samples := st.samples + 1 }
      return st
  | _ => IO.println s!"DISAGREE unparsable history {line.take 200}"; return { st with disagree := st.disagree + 1, cases := st.cases + 1 }

def handle (st : Stats) (line : String) : IO Stats := do
  let bad := fun (st : Stats) => do
    IO.println s!"DISAGREE unparsable line {line.take 300}"
    return { st with disagree := st.disagree + 1, cases := st.cases + 1 }
  match fields line with
  | ["Q", los, his, rs] =>
    match los.toInt?, his.toInt?, rs.toInt? with
    | some lo, some hi, some r =>
      let n := (hi - lo + 1).toNat
      let mut st := { st with cases := st.cases + n }
      st := { st with nontrivial := st.nontrivial + (if 0 ≤ lo ∧ hi < two32 then n else 0) }
      st := st.bump (if hi < 0 then "sqrt_negative_runs" else if lo ≥ two32 then "sqrt_saturated_runs" else "sqrt_runs")
      let mid := (lo + hi) / 2
      if squareroot lo != r || squareroot hi != r || squareroot mid != r then
        IO.println s!"DISAGREE in=Q,{lo},{hi} impl={r} model={squareroot lo},{squareroot mid},{squareroot hi}"
        st := { st with disagree := st.disagree + 1 }
      -- oracle: every x of the run that lies in 0..2^32-1 has r as its exact integer root
      if 0 ≤ hi ∧ lo < two32 then
        let lo' := if lo < 0 then 0 else lo
        let hi' := if hi < two32 then hi else two32 - 1
        if !(decide (IsSqrt lo' r) && decide (IsSqrt hi' r)) then
          let x := if decide (IsSqrt lo' r) then hi' else lo'
          IO.println s!"ORACLE in=Q,{x},{x} what=squareroot({x})={r}_is_not_the_integer_square_root"
          st := { st with oracle := st.oracle + 1 }
      if st.samples < 1 && lo > 1000000 then
        IO.println s!"SAMPLE squareroot(x)={r} for every x in [{lo},{hi}]"
        st := { st with samples := st.samples + 1 }
      return st
    | _, _, _ => bad st
  | ["QOVER", _] =>
    IO.println s!"DISAGREE in=Q what=too_many_runs_(squareroot_not_monotone_step_function)"
    return { st with disagree := st.disagree + 1 }
  | ["N", bs, rs, cs, ts] =>
    match bs.toInt?, rs.toInt?, chanOf cs, ts.toInt? with
    | some birth, some recent, some c, some t =>
      let mut st := { st with cases := st.cases + 1, nontrivial := st.nontrivial + 1 }
      let age := recent - birth
      st := st.bump (if age < 0 then "retry_birth_in_future" else if age < two32 then "retry_in_domain" else "retry_saturated")
      let m := nextretry recent birth c
      if m != t then
        IO.println s!"DISAGREE in=N,{birth},{recent},{cs} impl={t} model={m}"
        st := { st with disagree := st.disagree + 1 }
      if age < two32 then
        let okFuture := decide (t > recent)
        let okFormula := age < 0 || isRetryB recent birth c t
        if !(okFuture && okFormula) then
          let what := if okFuture then "retry_time_is_not_birth+(isqrt(age)+skip)^2" else "retry_time_not_strictly_in_the_future"
          IO.println s!"ORACLE in=N,{birth},{recent},{cs} impl={t} what={what}"
          st := { st with oracle := st.oracle + 1 }
      if st.samples < 2 && age > 100000 && age < two32 then
        IO.println s!"SAMPLE nextretry(birth={birth},recent={recent},chan={cs})={t} (age {age}, retry in {t - recent} s)"
        st := { st with samples := st.samples + 1 }
      return st
    | _, _, _, _ => bad st
  | ["H", opss, minss, finals] =>
    match parseOps opss, parseMins minss, parseElts finals with
    | some ops, some mins, some final =>
      let h := hashBytes opss.toUTF8.toList
      let fresh := !st.seen.contains h
      let nontriv := ops.length ≥ 3
      let mut st := { st with cases := st.cases + 1, seen := st.seen.insert h,
                              nontrivial := st.nontrivial + (if fresh && nontriv then 1 else 0) }
      st := st.bump (if ops.length ≤ 12 then "pq_exhaustive_seqs" else "pq_random_seqs")
      let (mm, mq) := replayOps ops
      if mm != mins || mq.toList != final then
        IO.println s!"DISAGREE in=H,{opss.take 2000} impl_final={(showElts final).take 600} model_final={(showElts mq.toList).take 600}"
        st := { st with disagree := st.disagree + 1 }
      match oracleOps ops mins final with
      | some why =>
        IO.println s!"ORACLE in=H,{opss.take 3000} mins={minss.take 1500} final={finals.take 1500} what={why.replace " " "_"}"
        st := { st with oracle := st.oracle + 1 }
      | none => pure ()
      if st.samples < 3 && ops.length ≥ 8 && ops.length ≤ 12 && mins.length ≥ 3 then
        IO.println s!"SAMPLE prioq ops={opss} mins={minss} final={finals}"
        st := { st with samples := st.samples + 1 }
      return st
    | _, _, _ => bad st
  | "S" :: rest => handleHist st line rest
  | [] => return st
  | _ => bad st

def main : IO Unit := runDriver handle
