/- Driver for C15: the real squareroot()/nextretry()/prioq_*()/pass_dochan()/del_dochan()/pqrun()/
   pqfinish()/pqstart() of qmail-send.c and prioq.c (harness/c15_sched.c) against Nq.Sched, with the
   property predicates of Nq.Spec.Sched evaluated on the implementation's outputs.
   Input lines: see harness/c15_sched.c.  `W` lines (harness/c15_loop.c): the real main() loop under a discrete-event
   virtual clock; every select is judged by Nq.Spec.SchedHist.sleptThrough (theorem C15_sleep_not_through) and its
   timeout compared with Nq.SelPrep.timeout. -/
import Drv.Util
import Nq.Sched
import Nq.Spec.Sched
import Nq.SchedHist
import Nq.SchedFail
import Nq.Spec.SchedHist
import Nq.SelPrep

open Nq Nq.Sched Nq.Spec.Sched Nq.SchedHist Nq.SchedFail Drv

def chanOf (s : String) : Option Chan :=
  if s == "0" then some .loc else if s == "1" then some .rem else none

def parseElt (s : String) : Option Elt :=
  match s.splitOn ":" with
  | [a, b] => match a.toInt?, b.toNat? with
    | some dt, some id => some { dt := dt, id := id }
    | _, _ => none
  | _ => none

def parseElts (s : String) : Option (List Elt) :=
  if s == "-" then some [] else (s.splitOn ",").mapM parseElt

/-- `none` = delmin, `some dt` = insert -/
def parseOps (s : String) : Option (List (Option Int)) :=
  if s == "-" then some [] else
  (s.splitOn ",").mapM fun t =>
    if t == "d" then some none
    else if t.startsWith "i" then (t.drop 1).toString.toInt?.map some
    else none

def parseMins (s : String) : Option (List (Option Elt)) :=
  if s == "-" then some [] else
  (s.splitOn ",").mapM fun t => if t == "e" then some none else (parseElt t).map some

def showElts (l : List Elt) : String :=
  if l.isEmpty then "-" else ",".intercalate (l.map fun e => s!"{e.dt}:{e.id}")

/-- model replay of an op sequence: (mins seen by the deletions, final array) -/
def replayOps (ops : List (Option Int)) : List (Option Elt) × PQ := Id.run do
  let mut q : PQ := #[]
  let mut mins : Array (Option Elt) := #[]
  let mut i := 0
  for op in ops do
    i := i + 1
    match op with
    | some dt => q := q.insert { dt := dt, id := i }
    | none => mins := mins.push q.min; q := q.delmin
  return (mins.toList, q)

/-- property oracle for an op sequence, on the implementation's answers only: every deletion returned
a minimum of what was in the queue (or "empty" iff it was empty), exactly that entry left, and the
final array is heap-ordered and holds exactly the surviving entries. -/
def oracleOps (ops : List (Option Int)) (mins : List (Option Elt)) (final : List Elt) : Option String := Id.run do
  let mut alive : List Elt := []
  let mut ms := mins
  let mut i := 0
  for op in ops do
    i := i + 1
    match op with
    | some dt => alive := { dt := dt, id := i } :: alive
    | none =>
      match ms with
      | [] => return some "fewer delmin answers than deletions"
      | m :: rest =>
        ms := rest
        match m with
        | none => if !alive.isEmpty then return some s!"op {i}: prioq_min says empty but {alive.length} entries are queued"
        | some e =>
          if !isMinOf e alive then return some s!"op {i}: prioq_min returned {e.dt}:{e.id} which is not a minimum"
          match removeOne e alive with
          | none => return some s!"op {i}: prioq_min returned {e.dt}:{e.id} which is not in the queue"
          | some a' => alive := a'
  if !heapB final.toArray then return some "final array is not heap-ordered"
  if !sameMultiset final alive then return some s!"final array {showElts final} is not the multiset of surviving entries"
  return none

def two32 : Int := 4294967296


/-! ### daemon histories -/

def faultOf (s : String) : Option Fault :=
  if s == "o" then some .openf else if s == "i" then some .info else if s == "u" then some .unlink
  else if s == "s" then some .stat else none

def parseStep (t : String) : Step :=
  let body := (t.drop 1).toString
  match t.front with
  | 'm' => match body.splitOn "," with
    | [a, b, c, d, e] => match a.toNat?, chanOf b, c.toInt?, d.toInt?, e.toNat? with
      | some id, some ch, some birth, some due, some n => .mk id ch birth due n
      | _, _, _, _, _ => .bad
    | _ => .bad
  | 'L' => .load
  | 't' => match body.toInt? with | some x => .clock x | none => .bad
  | 'a' => .alrm
  | 'w' => .wake
  | 'f' => .fin
  | 'p' => match body.splitOn "," with
    | [c] => match chanOf c with | some ch => .pass ch [90] | none => .bad
    | [c, l] => match chanOf c with
      | some ch => .pass ch (if l.isEmpty then [90] else l.toUTF8.toList)
      | none => .bad
    | [c, l, f] => match chanOf c, faultOf f with
      | some ch, some ft => .pass ch (if l.isEmpty then [90] else l.toUTF8.toList) ft
      | _, _ => .bad
    | _ => .bad
  | _ => .bad

def specRetry (clock birth : Int) (c : Chan) : Option Int :=
  let age := clock - birth
  if 0 ≤ age && age < two32 then
    let r : Int := (Nat.sqrt age.toNat : Nat)
    some (birth + (r + skip c) * (r + skip c))
  else none

def parseEv (t : String) : Option Ev :=
  match t.splitOn "/" with
  | [h] =>
    if h.startsWith "w" then (h.drop 1).toString.toInt?.map Ev.wake else some (.plain h)
  | [h, a] =>
    if h.startsWith "d" then
      match (h.drop 1).toString.splitOn "," with
      | [id, gone] => do some (.done (← id.toNat?) (gone == "1") (← parseElts a))
      | _ => none
    else none
  | ["L", a, b, c] => do some (.load (← parseElts a) (← parseElts b) (← parseElts c))
  | ["a", a, b] => do some (.alrm (← parseElts a) (← parseElts b))
  | ["f", a, b] => do some (.fin (← parseElts a) (← parseElts b))
  | [h, a, b, c] =>
    if h == "p0" then do some (.pass 0 0 false 0 "" 0 0 (← parseElts a) (← parseElts b) (← parseElts c))
    else if h.startsWith "p" then
      match (h.drop 1).toString.splitOn "," with
      | [id, retry, dying, ndel, recs, npar, ntoo] => do
        some (.pass (← id.toNat?) (← retry.toInt?) (dying == "1") (← ndel.toNat?) recs (← npar.toNat?) (← ntoo.toNat?)
                (← parseElts a) (← parseElts b) (← parseElts c))
      | _ => none
    else none
  | _ => none

def minDt (l : List Elt) : Option Int := l.foldl (fun m e => match m with | none => some e.dt | some x => some (if e.dt < x then e.dt else x)) none

/-- what the property demands of the records of an expiring / ordinary pass (independent of the model):
returns (records after, bounce paragraphs added, too-long paragraphs added, deliveries) -/
def specAnswer (dying : Bool) (letters : List Byte) : List Bool → Nat → List Bool × Nat × Nat × Nat
  | [], k => ([], 0, 0, k)
  | false :: r, k => let (r', p, t, k') := specAnswer dying letters r k; (false :: r', p, t, k')
  | true :: r, k =>
    let l := letters.getD (k % letters.length) 90
    let (r', p, t, k') := specAnswer dying letters r (k + 1)
    if l = 75 then (false :: r', p, t, k')                          -- K: done
    else if l = 68 then (false :: r', p + 1, t, k')                  -- D: bounced, done
    else if l = 90 then (if dying then (false :: r', p + 1, t + 1, k') else (true :: r', p, t, k'))  -- Z
    else (true :: r', p, t, k')                                      -- mangled: deferred

structure OSt where
  clock : Int := 0
  q0 : List Elt := []
  q1 : List Elt := []
  done : List Elt := []
  births : List (Nat × Int) := []
  recs : List ((Nat × Chan) × List Bool) := []     -- records per channel file, from the script and earlier events
  bounce : List (Nat × (Nat × Nat)) := []          -- per message: paragraphs, too-long paragraphs seen so far
  dues : List ((Nat × Chan) × Int) := []           -- mtime given by the script
  mts : List ((Nat × Chan) × Option Int) := []     -- what is known of each channel file's mtime: the script's value or the one pqfinish
                                                   -- stored (read back from disk in the f event); none after a pass has marked a record
                                                   -- (markdone's write gives the file the real time of day, which the script does not fix)
  atFin : Option (List Elt × List Elt) := none     -- heaps when pqfinish ran (cleared by anything but L)
  live : Bool := false                             -- a daemon process is running on this directory (L seen, no f / file creation since)
  backoff : List ((Nat × Chan) × Int) := []        -- ghost: back-off time owed since the last attempt that left a 'T' record
                                                   -- (theorem C15_hist_backoff); cleared by ALRM, file creation, crash restart

def OSt.q (o : OSt) : Chan → List Elt | .loc => o.q0 | .rem => o.q1

def lookupD {α β} [BEq α] (k : α) (d : β) (l : List (α × β)) : β := ((l.find? (·.1 == k)).map (·.2)).getD d
def setKey {α β} [BEq α] (k : α) (v : β) (l : List (α × β)) : List (α × β) := (k, v) :: l.filter (fun x => !(x.1 == k))

instance : BEq Chan := ⟨fun a b => decide (a = b)⟩

/-- the property oracle for one history step, evaluated on the implementation's event -/
def oracleStep0 (lifetime : Int) (o : OSt) (stp : Step) (ev : Ev) : OSt × Option String :=
  match stp, ev with
  | .mk id c birth due nrec, _ =>
    let births := if (o.births.find? (·.1 == id)).isSome then o.births else (id, birth) :: o.births
    ({ o with births := births, recs := setKey (id, c) (List.replicate nrec true) o.recs,
              dues := setKey (id, c) due o.dues, mts := setKey (id, c) (some due) o.mts, atFin := none, live := false,
              backoff := o.backoff.filter (fun x => !(x.1.1 == id)) }, none)
  | .clock t, _ => ({ o with clock := t }, none)
  | .load, .load a b d =>
    let o' := { o with q0 := a, q1 := b, done := d, atFin := none, live := true, backoff := if o.atFin.isSome then o.backoff else [] }
    if !(heapB a.toArray && heapB b.toArray && heapB d.toArray) then (o', some "heap order broken after pqstart") else
    match o.atFin with
    | some (f0, f1) =>
      if sameMultiset a f0 && sameMultiset b f1 then (o', none)
      else (o', some s!"schedule not preserved by TERM+restart: before {showElts f0}/{showElts f1} after {showElts a}/{showElts b}")
    | none =>
      let exp (c : Chan) := o.dues.filterMap fun ((id, c'), due) =>
        if c' == c && (o.recs.find? (·.1 == (id, c))).isSome then some ({ dt := due, id := id } : Elt) else none
      if o.q0.isEmpty && o.q1.isEmpty && sameMultiset a (exp .loc) && sameMultiset b (exp .rem) then (o', none)
      else if !(o.q0.isEmpty && o.q1.isEmpty) then
        -- crash restart (no pqfinish): the back-off of the running process is lost by design, but pqstart must still schedule
        -- every existing channel file, and with the mtime the file has (where the history fixes it)
        let okc (c : Chan) (q : List Elt) :=
          sameMultiset (q.map fun e => { e with dt := 0 })
            (o.recs.filterMap fun ((id, c'), _) => if c' == c then some ({ dt := 0, id := id } : Elt) else none) &&
          q.all fun e => match (o.mts.find? (·.1 == (e.id, c))).map (·.2) with
            | some (some t) => e.dt == t
            | _ => true
        if okc .loc a && okc .rem b then (o', none)
        else (o', some s!"after a crash restart pqstart did not schedule every existing channel file at its persisted mtime: {showElts a}/{showElts b}")
      else (o', some "pqstart did not load the persisted due times (mtime of the channel files)")
  | .alrm, .alrm a b =>
    let o' := { o with q0 := a, q1 := b, atFin := none, backoff := [] }
    let ok (n old : List Elt) := n.all (fun e => e.dt == o.clock) && sameMultiset (n.map fun e => { e with dt := 0 }) (old.map fun e => { e with dt := 0 })
    if ok a o.q0 && ok b o.q1 then (o', none) else (o', some "after ALRM (pqrun) not every scheduled message is due now")
  | .wake, .wake t =>
    let lim := o.clock + SLEEP_FOREVER
    let ok := decide (t ≤ lim) && (o.q0 ++ o.q1 ++ o.done).all (fun e => decide (t ≤ e.dt))
    (o, if ok then none else some s!"wakeup {t} is later than the earliest due time")
  | .fin, .fin m0 m1 =>
    let ok (q m : List Elt) := q.all fun e => m.contains e
    let o' := { o with atFin := some (o.q0, o.q1), q0 := [], q1 := [], live := false,
                       mts := (m1.foldl (fun acc e => setKey (e.id, Chan.rem) (some e.dt) acc)
                                (m0.foldl (fun acc e => setKey (e.id, Chan.loc) (some e.dt) acc) o.mts)) }
    if ok o.q0 m0 && ok o.q1 m1 then (o', none) else (o', some "pqfinish did not persist every due time as the channel file's mtime")
  | .pass c letters fault, .pass id retry dying ndel recs npar ntoo a b d =>
    let o' := { o with q0 := a, q1 := b, done := d, atFin := none }
    let prev := o.q c
    let newq0 := o'.q c
    if !(heapB a.toArray && heapB b.toArray && heapB d.toArray) then (o', some "heap order broken") else
    if id = 0 then
      match minDt prev with
      | some m =>
        if m ≤ o.clock then
          if fault.trouble then
            -- the channel file / info file could not be opened: the message must stay scheduled on the channel
            -- (not lost), strictly later than it was (never earlier than its back-off time), nothing else moves
            let ok := prev.any fun e => e.dt == m &&
              (match newq0.find? (·.id == e.id) with
               | some ne => decide (ne.dt > e.dt) && decide (ne.dt > o.clock) && sameMultiset newq0 (ne :: (removeOne e prev).getD prev)
               | none => false)
            (o', if ok then none else some s!"after a failed open at {o.clock} the due message is lost or rescheduled earlier than before")
          else (o', some s!"a message due at {m} was not started at {o.clock}")
        else (o', if sameMultiset newq0 prev then none else some "nothing was due but the schedule changed")
      | none => (o', if newq0.isEmpty then none else some "nothing was scheduled but the schedule changed")
    else
      match prev.find? (·.id == id) with
      | none => (o', some s!"started message {id} which was not scheduled on this channel")
      | some e =>
        let birth := lookupD id 0 o.births
        let age := o.clock - birth
        let before := lookupD (id, c) [] o.recs
        let (after, p, t, k) := specAnswer dying letters before 0
        let gone := after.all (fun b => !b)
        let unlinkFailed := gone && fault == Fault.unlink
        let recsExp := if gone && !unlinkFailed then "gone" else recsString (some after)
        let (p0, t0) := lookupD id (0, 0) o.bounce
        let owed := (o.backoff.find? (·.1 == (id, c))).map (·.2)
        let otherRecs := (o.recs.find? (·.1 == (id, SchedHist.other c))).isSome
        let o' := { o' with recs := if gone && !unlinkFailed then o'.recs.filter (fun x => !(x.1 == (id, c))) else setKey (id, c) after o'.recs,
                            bounce := setKey id (npar, ntoo) o'.bounce,
                            mts := if gone && !unlinkFailed then o'.mts.filter (fun x => !(x.1 == (id, c)))
                                   else if after != before then setKey (id, c) none o'.mts else o'.mts,
                            backoff := if gone then o'.backoff.filter (fun x => !(x.1 == (id, c)))
                                       else match specRetry o.clock birth c with
                                         | some r => setKey (id, c) r o'.backoff
                                         | none => o'.backoff.filter (fun x => !(x.1 == (id, c))) }
        let newq := o'.q c
        let rest := (removeOne e prev).getD prev
        if e.dt > o.clock then (o', some s!"message {id} started at {o.clock}, before its retry time {e.dt}")
        else if (match owed with | some r => decide (o.clock < r) | none => false) then
          (o', some s!"message {id} attempted again at {o.clock}, before the back-off time {owed.getD 0} owed since its last temporary failure")
        else if some e.dt != minDt prev then (o', some s!"message {id} (due {e.dt}) started while an earlier-due message waits")
        else if retry ≤ o.clock then (o', some s!"retry time {retry} is not in the future of {o.clock}")
        else if 0 ≤ age && age < two32 && !isRetryB o.clock birth c retry then (o', some s!"retry time {retry} is not birth+(isqrt(age)+skip)^2 for birth {birth} now {o.clock}")
        else if !dying && 0 ≤ lifetime && lifetime < two32 && !gone &&
                decide (retry > birth + ((Nat.sqrt lifetime.toNat : Nat) + skip c) * ((Nat.sqrt lifetime.toNat : Nat) + skip c)) then
          (o', some s!"retry time {retry} of a not yet expired message lies beyond birth+(isqrt(lifetime)+skip)^2 (birth {birth}, lifetime {lifetime})")
        else if dying != decide (o.clock > birth + lifetime) then (o', some s!"expiry flag {dying} wrong for birth {birth} lifetime {lifetime} now {o.clock}")
        else if recs != recsExp then (o', some s!"records after the pass are {recs}, the property requires {recsExp} (dying={dying})")
        else if npar != p0 + p || ntoo != t0 + t then (o', some s!"bounce paragraphs {npar}/{ntoo} (too long), required {p0 + p}/{t0 + t}")
        else if ndel != k then (o', some s!"{ndel} deliveries started for {k} pending recipients")
        else if unlinkFailed then
          -- all recipients done but the file could not be removed: the message must stay scheduled (no recipient is
          -- left that could be retried early), in the future
          (match newq.find? (·.id == id) with
           | some ne => if decide (ne.dt > o.clock) && sameMultiset newq (ne :: rest) then (o', none)
                        else (o', some s!"after a failed unlink message {id} is not rescheduled in the future")
           | none => (o', some s!"after a failed unlink message {id} is lost from the channel heap"))
        else if gone then
          (if !sameMultiset newq rest then (o', some s!"message {id} left the channel but the heap is not the old one minus it")
           else if !otherRecs && !(d.any (·.id == id)) then (o', some s!"message {id} left its last channel but is not in pqdone (lost)")
           else (o', none))
        else if !sameMultiset newq ({ dt := retry, id := id } :: rest) then
          (o', some s!"after the pass message {id} is not rescheduled exactly at its retry time {retry}")
        else (o', none)
  | _, .plain "bad" => (o, none)
  | _, _ => (o, some "event does not match the step")

/-- "nothing is lost" (theorem C15_hist_noloss) on the implementation's heaps: while a daemon process is running,
every channel file known to exist is scheduled on its channel heap -/
def lostFile (o : OSt) : Option (Nat × Chan) :=
  if !o.live then none else
  (o.recs.find? fun ((id, c), _) => !((o.q c).any (·.id == id))).map (·.1)

def oracleStep (lifetime : Int) (o : OSt) (stp : Step) (ev : Ev) : OSt × Option String :=
  let (o', why) := oracleStep0 lifetime o stp ev
  match why with
  | some w => (o', some w)
  | none =>
    match lostFile o' with
    | some (id, c) => (o', some s!"channel file {if c == Chan.loc then "local" else "remote"}/{id} exists but the message is not scheduled on that channel (lost)")
    | none => (o', none)

/-! ### the failure-path events (Nq.SchedFail): messdone / pqdone, cut passes, pqfinish with failing utimes -/

def mdFaultOf (s : String) : Option MdFault :=
  if s == "" then some .none else if s == "l" then some .statLoc else if s == "r" then some .statRem
  else if s == "t" then some .statTodo else if s == "n" then some .statInfo else if s == "b" then some .bounce
  else if s == "u" then some .unlinkInfo else none

def parseBad (l : List String) : Option (List (Chan × Nat)) :=
  l.mapM fun t => match t.splitOn ":" with
    | [c, i] => do some ((← chanOf c), (← i.toNat?))
    | _ => none

def parseFStep (t : String) : FStep :=
  let body := (t.drop 1).toString
  match t.front with
  | 'd' =>
    if body == "" then .done .none
    else match body.splitOn "," with
      | ["", f] => match mdFaultOf f with | some ft => .done ft | none => .old .bad
      | _ => .old .bad
  | 'f' =>
    if body == "" then .old .fin
    else match body.splitOn "," with
      | "" :: l => match parseBad l with | some bad => .finF bad | none => .old .bad
      | _ => .old .bad
  | 'p' => match body.splitOn "," with
    | [c, l, f] =>
      if f == "r" || f.startsWith "x" then
        match chanOf c, (if f == "r" then some 0 else (f.drop 1).toString.toNat?) with
        | some ch, some k => .passCut ch (if l.isEmpty then [90] else l.toUTF8.toList) k
        | _, _ => .old .bad
      else .old (parseStep t)
    | _ => .old (parseStep t)
  | _ => .old (parseStep t)

def mtKnown (o : OSt) (id : Nat) (c : Chan) : Option Int :=
  match (o.mts.find? (·.1 == (id, c))).map (·.2) with
  | some (some t) => some t
  | _ => none

/-- the property oracle for the failure-path events, on the implementation's event only: executable forms of
C15_fail_messdone / C15_fail_noloss (pqdone: only the due minimum moves; afterwards pqdone is the rest or the rest plus the
message strictly in the future; a message without channel files that is still on disk stays in pqdone; a message leaves the
disk only without an injected failure and without channel files), C15_fail_cut (re-inserted exactly at its retry time, which is
in the future and the quadratic formula; records before the cut handled, the rest untouched; pqdone untouched) and
C15_fail_utimes (utimes ok: mtime = due time; utimes failed: the file keeps the mtime it had). -/
def oracleFail0 (lifetime : Int) (o : OSt) (stp : FStep) (ev : Ev) : OSt × Option String :=
  match stp, ev with
  | .old x, _ => oracleStep0 lifetime o x ev
  | .done f, .done id gone d =>
    let o' := { o with done := d, atFin := none }
    if !heapB d.toArray then (o', some "pqdone heap order broken") else
    match minDt o.done with
    | none => (o', if id = 0 && d.isEmpty then none else some "pqdone was empty but messdone ran or pqdone changed")
    | some m =>
      if m > o.clock then
        (o', if id = 0 && sameMultiset d o.done then none else some s!"no pqdone entry is due (earliest {m}, now {o.clock}) but messdone ran or pqdone changed")
      else
        match o.done.find? (fun e => e.id == id && e.dt == m) with
        | none => (o', some s!"a pqdone entry is due at {m} but messdone was called for {id}, which is not an earliest-due entry")
        | some e =>
          let rest := (removeOne e o.done).getD o.done
          let hasChan := (o.recs.find? (·.1 == (id, Chan.loc))).isSome || (o.recs.find? (·.1 == (id, Chan.rem))).isSome
          let onDisk := (o.births.find? (·.1 == id)).isSome
          let reins := d.find? (fun ne => ne.id == id && decide (ne.dt > o.clock) && sameMultiset d (ne :: rest))
          let o' := if gone then { o' with births := o'.births.filter (fun x => !(x.1 == id)), bounce := o'.bounce.filter (fun x => !(x.1 == id)) } else o'
          if gone && onDisk && (f != MdFault.none || hasChan) then
            (o', some s!"message {id} was removed from the disk by messdone although {if hasChan then "it still has a channel file" else "a system call failed"}")
          else if !sameMultiset d rest && reins.isNone then
            (o', some s!"pqdone after messdone({id}) is neither the rest nor the rest plus the message at a time in the future of {o.clock}")
          else if !gone && onDisk && !hasChan && !(d.any (·.id == id)) then
            (o', some s!"message {id} is still on disk without channel files but no longer in pqdone (lost)")
          else if f != MdFault.none && onDisk && !hasChan && reins.isNone then
            (o', some s!"after a failed system call in messdone({id}) the message was not put back into pqdone in the future")
          else (o', none)
  | .passCut c letters k, .pass id retry dying ndel recs npar ntoo a b d =>
    let before := lookupD (id, c) [] o.recs
    if id = 0 || before.length ≤ k then oracleStep0 lifetime o (.pass c letters .none) ev else
    let o' := { o with q0 := a, q1 := b, done := d, atFin := none }
    let prev := o.q c
    if !(heapB a.toArray && heapB b.toArray && heapB d.toArray) then (o', some "heap order broken") else
    match prev.find? (·.id == id) with
    | none => (o', some s!"started message {id} which was not scheduled on this channel")
    | some e =>
      let birth := lookupD id 0 o.births
      let age := o.clock - birth
      let (ans, p, t, kk) := specAnswer dying letters (before.take k) 0
      let after := ans ++ before.drop k
      let (p0, t0) := lookupD id (0, 0) o.bounce
      let owed := (o.backoff.find? (·.1 == (id, c))).map (·.2)
      let o' := { o' with recs := setKey (id, c) after o'.recs, bounce := setKey id (npar, ntoo) o'.bounce,
                          mts := setKey (id, c) none o'.mts,
                          backoff := match specRetry o.clock birth c with
                            | some r => setKey (id, c) r o'.backoff
                            | none => o'.backoff.filter (fun x => !(x.1 == (id, c))) }
      let rest := (removeOne e prev).getD prev
      if e.dt > o.clock then (o', some s!"message {id} started at {o.clock}, before its retry time {e.dt}")
      else if (match owed with | some r => decide (o.clock < r) | none => false) then
        (o', some s!"message {id} attempted again at {o.clock}, before the back-off time {owed.getD 0} owed since its last temporary failure")
      else if some e.dt != minDt prev then (o', some s!"message {id} (due {e.dt}) started while an earlier-due message waits")
      else if retry ≤ o.clock then (o', some s!"retry time {retry} is not in the future of {o.clock}")
      else if 0 ≤ age && age < two32 && !isRetryB o.clock birth c retry then (o', some s!"retry time {retry} is not birth+(isqrt(age)+skip)^2 for birth {birth} now {o.clock}")
      else if dying != decide (o.clock > birth + lifetime) then (o', some s!"expiry flag {dying} wrong for birth {birth} lifetime {lifetime} now {o.clock}")
      else if recs != recsString (some after) then (o', some s!"records after the pass cut short at record {k} are {recs}, the property requires {recsString (some after)}")
      else if npar != p0 + p || ntoo != t0 + t then (o', some s!"bounce paragraphs {npar}/{ntoo} (too long), required {p0 + p}/{t0 + t}")
      else if ndel != kk then (o', some s!"{ndel} deliveries started for {kk} pending recipients before the cut")
      else if !sameMultiset (o'.q c) ({ dt := retry, id := id } :: rest) then
        (o', some s!"after a pass cut short at record {k} message {id} is not rescheduled exactly at its retry time {retry} (lost or early)")
      else if !sameMultiset d o.done then (o', some "a pass cut short changed pqdone")
      else (o', none)
  | .finF bad, .fin m0 m1 =>
    let isBad (c : Chan) (id : Nat) := bad.contains (c, id)
    let ok (c : Chan) (q m : List Elt) := q.all fun e =>
      if isBad c e.id then
        (match mtKnown o e.id c with
         | some t => m.contains { dt := t, id := e.id }
         | none => m.any (·.id == e.id))
      else m.contains e
    let persisted (c : Chan) (q m : List Elt) := q.map fun e =>
      if isBad c e.id then (match m.find? (·.id == e.id) with | some x => x | none => e) else e
    let o' := { o with atFin := some (persisted .loc o.q0 m0, persisted .rem o.q1 m1), q0 := [], q1 := [], live := false,
                       mts := (m1.foldl (fun acc e => setKey (e.id, Chan.rem) (some e.dt) acc)
                                (m0.foldl (fun acc e => setKey (e.id, Chan.loc) (some e.dt) acc) o.mts)),
                       backoff := o.backoff.filter (fun x => !(isBad x.1.2 x.1.1)) }
    if ok .loc o.q0 m0 && ok .rem o.q1 m1 then (o', none)
    else (o', some "pqfinish with a failing utimes: a file whose utimes succeeded does not carry its due time, or a file whose utimes failed did not keep its mtime")
  | _, .plain "bad" => (o, none)
  | _, _ => (o, some "event does not match the step")

def oracleFStep (lifetime : Int) (o : OSt) (stp : FStep) (ev : Ev) : OSt × Option String :=
  let (o', why) := oracleFail0 lifetime o stp ev
  match why with
  | some w => (o', some w)
  | none =>
    match lostFile o' with
    | some (id, c) => (o', some s!"channel file {if c == Chan.loc then "local" else "remote"}/{id} exists but the message is not scheduled on that channel (lost)")
    | none => (o', none)

def handleHist (st : Stats) (line : String) (rest : List String) : IO Stats := do
  match rest with
  | [lts, script, events] =>
    match lts.toInt? with
    | none => IO.println s!"DISAGREE unparsable history {line.take 200}"; return { st with disagree := st.disagree + 1, cases := st.cases + 1 }
    | some lifetime =>
      let steps := if script == "-" then [] else (script.splitOn ";").map parseFStep
      let evs := if events == "-" then [] else (events.splitOn ";").map parseEv
      let h := hashBytes line.toUTF8.toList
      let fresh := !st.seen.contains h
      let mut st := { st with cases := st.cases + 1, seen := st.seen.insert h, nontrivial := st.nontrivial + (if fresh then 1 else 0) }
      st := st.bump "histories"
      if steps.length != evs.length then
        IO.println s!"DISAGREE in=S,{lts},{script} what=event_count"
        return { st with disagree := st.disagree + 1 }
      let mut ms : HSt := { lifetime := lifetime }
      let mut os : OSt := {}
      let mut dis : Option String := none
      let mut orc : Option String := none
      let mut k := 0
      for (stp, ev?) in steps.zip evs do
        k := k + 1
        match ev? with
        | none => if dis.isNone then dis := some s!"step {k}: unparsable event"
        | some ev =>
          let (ms', mev0) := fstep ms stp
          ms := ms'
          let mut mev := mev0
          let mut evc := ev
          -- utimes failed on a file whose mtime the history does not fix (a record was marked since: the real FS gave it the time
          -- of day): adopt the implementation's mtime for that file, compare the rest
          match stp, mev0, ev with
          | .finF bad, .fin l0 l1, .fin m0 m1 =>
            let unk (c : Chan) (e : Elt) := bad.contains (c, e.id) && (mtKnown os e.id c).isNone
            for e in m0 do
              if unk .loc e then match ms.find e.id with | some m => ms := ms.update (m.setMt .loc e.dt) | none => pure ()
            for e in m1 do
              if unk .rem e then match ms.find e.id with | some m => ms := ms.update (m.setMt .rem e.dt) | none => pure ()
            mev := .fin (l0.filter fun e => !unk .loc e) (l1.filter fun e => !unk .rem e)
            evc := .fin (m0.filter fun e => !unk .loc e) (m1.filter fun e => !unk .rem e)
          | _, _, _ => pure ()
          -- after pqstart the array order depends on readdir: compare as multisets and adopt the implementation's arrays
          match mev, evc with
          | .load a b d, .load a' b' d' =>
            if sameMultiset a a' && sameMultiset b b' && sameMultiset d d' then
              ms := { ms with q0 := a'.toArray, q1 := b'.toArray, done := d'.toArray }
            else if os.atFin.isNone && !(os.q0.isEmpty && os.q1.isEmpty) &&
                    sameMultiset (a.map fun e => { e with dt := 0 }) (a'.map fun e => { e with dt := 0 }) &&
                    sameMultiset (b.map fun e => { e with dt := 0 }) (b'.map fun e => { e with dt := 0 }) then
              -- crash restart: a file marked since it was last persisted carries the real time of day (markdone's write), which the
              -- model does not fix; same messages per channel: adopt the implementation's due times (the oracle checks the known ones)
              ms := { ms with q0 := a'.toArray, q1 := b'.toArray, done := d'.toArray }
            else if dis.isNone then dis := some s!"step {k}: model loads {showElts a}/{showElts b}/{showElts d}"
          | _, _ => if !(mev == evc) && dis.isNone then dis := some s!"step {k}: model event {repr mev}"
          match stp, ev with
          | .old (.pass _ _ ft), .pass id _ dying _ _ _ _ _ _ _ =>
            st := st.bump (if id = 0 then (if ft.trouble then "hist_pass_none_or_trouble" else "hist_pass_none") else if dying then "hist_pass_expiring" else "hist_pass_started")
            if ft != Fault.none then st := st.bump "hist_pass_with_fault"
          | .old .fin, _ => st := st.bump "hist_term_restart"
          | .old .alrm, _ => st := st.bump "hist_alrm"
          | .done f, .done id gone _ =>
            st := st.bump (if id = 0 then "hist_messdone_nothing_due" else if gone then "hist_messdone_finished" else if f != MdFault.none then "hist_messdone_failed_requeued" else "hist_messdone_false_alarm")
          | .passCut c _ kcut, .pass id _ _ _ _ _ _ _ _ _ =>
            if id != 0 && kcut < (lookupD (id, c) [] os.recs).length then st := st.bump "hist_pass_cut_short" else st := st.bump "hist_pass_cut_not_reached"
          | .finF bad, .fin m0 m1 =>
            st := st.bump "hist_term_restart"
            let hit := (os.q0.filter fun e => bad.contains (Chan.loc, e.id)).length + (os.q1.filter fun e => bad.contains (Chan.rem, e.id)).length
            if hit > 0 then st := st.bump "hist_term_utimes_failed"
            let early := (os.q0.any fun e => bad.contains (Chan.loc, e.id) && m0.any (fun x => x.id == e.id && decide (x.dt < e.dt))) ||
                         (os.q1.any fun e => bad.contains (Chan.rem, e.id) && m1.any (fun x => x.id == e.id && decide (x.dt < e.dt)))
            if early then st := st.bump "hist_term_utimes_failed_persisted_earlier_than_due"
          | _, _ => pure ()
          let (os', why) := oracleFStep lifetime os stp ev
          os := os'
          match why with
          | some w => if orc.isNone then orc := some s!"step {k}: {w}"
          | none => pure ()
      match dis with
      | some d =>
        IO.println s!"DISAGREE in=S,{lts},{script} what={((d.replace " " "_").replace "\n" "").take 1500} events={events.take 1500}"
        st := { st with disagree := st.disagree + 1 }
      | none => pure ()
      match orc with
      | some w =>
        IO.println s!"ORACLE in=S,{lts},{script} what={(w.replace " " "_").take 600} events={events.take 2500}"
        st := { st with oracle := st.oracle + 1 }
      | none => pure ()
      if st.samples < 5 && st.samples ≥ 3 && fresh && script.length < 260 && (events.splitOn ",1,").length > 1 then
        IO.println s!"SAMPLE history lifetime={lts} script={script} events={events}"
        st := { st with samples := st.samples + 1 }
      return st
  | _ => IO.println s!"DISAGREE unparsable history {line.take 200}"; return { st with disagree := st.disagree + 1, cases := st.cases + 1 }


/-! ### pqadd / pqfail scenarios -/

def parseStat (s : String) : Option StatRes :=
  if s == "n" then some .noent else if s == "e" then some .err else s.toInt?.map StatRes.found

def parseFiles (s : String) : Option (List (Nat × Files)) :=
  if s == "-" then some [] else
  (s.splitOn ",").mapM fun t => match t.splitOn ":" with
    | [i, a, b, c, d] => do
      some ((← i.toNat?), { info := (← parseStat a), todo := (← parseStat b), ch0 := (← parseStat c), ch1 := (← parseStat d) })
    | _ => none

def parseHeaps (s : String) : Option Heaps :=
  match s.splitOn "/" with
  | ["c", a, b, c, d] => do
    some { q0 := (← parseElts a).toArray, q1 := (← parseElts b).toArray, done := (← parseElts c).toArray, fail := (← parseElts d).toArray }
  | _ => none

def heapsEq (x y : Heaps) : Bool :=
  x.q0.toList == y.q0.toList && x.q1.toList == y.q1.toList && x.done.toList == y.done.toList && x.fail.toList == y.fail.toList

def showHeaps (h : Heaps) : String :=
  s!"{showElts h.q0.toList}/{showElts h.q1.toList}/{showElts h.done.toList}/{showElts h.fail.toList}"

/-- the property oracle for one `pass_do()` call restricted to pqfail (theorems C15_pqfail_*), on the
implementation's heaps before (`b`) and after (`a`): heaps stay heaps; at most the pqfail minimum moves and
only if it is due; a message whose info file exists (and has no todo file) is afterwards in at least one of the
four heaps (never lost); it enters a channel heap only with the persisted due time (mtime of the channel file),
never earlier; a re-insertion into pqfail is in the future. -/
def oracleFail (recent now : Int) (files : Nat → Files) (b a : Heaps) : Option String :=
  if !(heapB a.q0 && heapB a.q1 && heapB a.done && heapB a.fail) then some "heap order broken" else
  match minDt b.fail.toList with
  | none => if heapsEq a b then none else some "pqfail empty but the heaps changed"
  | some m =>
    if m > recent then (if sameMultiset a.fail.toList b.fail.toList && heapsEq { a with fail := #[] } { b with fail := #[] } then none
                        else some "no pqfail entry is due but the heaps changed")
    else
      -- which entry moved?
      let cands := b.fail.toList.filter fun e => e.dt == m
      let ok := cands.any fun e =>
        let f := files e.id
        let restFail := (removeOne e b.fail.toList).getD []
        let added (x y : PQ) : Option (List Elt) :=     -- entries of y not in x (y = x + added), as a list
          y.toList.foldl (fun acc z => acc.bind fun (remain, extra) =>
            match removeOne z remain with
            | some r => some (r, extra)
            | none => some (remain, z :: extra)) (some (x.toList, ([] : List Elt))) |>.bind fun (remain, extra) =>
              if remain.isEmpty then some extra else none
        match added b.q0 a.q0, added b.q1 a.q1, added b.done a.done, added restFail.toArray a.fail with
        | some n0, some n1, some nd, some nf =>
          let all := n0 ++ n1 ++ nd ++ nf
          let onlyThis := all.all (·.id == e.id)
          let tracked := !all.isEmpty
          let mustTrack := (match f.info with | .found _ => true | _ => false) && (match f.todo with | .found _ => false | _ => true)
          let chanOk (n : List Elt) (st : StatRes) := n.all fun z => match st with | .found t => z.dt == t | _ => false
          let failOk := nf.all fun z => decide (z.dt > recent) && z.dt == now + SLEEP_SYSFAIL
          let doneOk := nd.all fun z => z.dt == now
          let complete := nf.isEmpty == false || mustTrack == false ||
            ((match f.ch0 with | .found _ => n0.length == 1 | _ => n0.isEmpty) &&
             (match f.ch1 with | .found _ => n1.length == 1 | _ => n1.isEmpty))
          -- a file that could not be examined (stat error other than ENOENT) may exist: the message must come back via pqfail
          let isErr (x : StatRes) := match x with | .err => true | _ => false
          let isFound (x : StatRes) := match x with | .found _ => true | _ => false
          let errSeen := isErr f.info || (isFound f.info && (isErr f.todo || (!isFound f.todo && (isErr f.ch0 || isErr f.ch1))))
          onlyThis && (tracked || !mustTrack) && chanOk n0 f.ch0 && chanOk n1 f.ch1 && failOk && doneOk && complete &&
            (!errSeen || !nf.isEmpty)
        | _, _, _, _ => false
      if ok then none else some s!"pqfail entry due at {m}: message lost, scheduled earlier than its persisted time, or other entries disturbed"

def handleP (st : Stats) (line : String) (rest : List String) : IO Stats := do
  let bad := do
    IO.println s!"DISAGREE unparsable P line {line.take 300}"
    return { st with disagree := st.disagree + 1, cases := st.cases + 1 }
  match rest with
  | [rs, ns, fq, fs, _nc, hs] =>
    match rs.toInt?, ns.toInt?, parseElts fq, parseFiles fs, (hs.splitOn ";").mapM parseHeaps with
    | some recent, some now, some failq, some files, some heaps =>
      let h := hashBytes line.toUTF8.toList
      let fresh := !st.seen.contains h
      let mut st := { st with cases := st.cases + 1, seen := st.seen.insert h, nontrivial := st.nontrivial + (if fresh then 1 else 0) }
      st := st.bump "pqfail_scenarios"
      let fileOf (i : Nat) : Files := ((files.find? (·.1 == i)).map (·.2)).getD {}
      let mut m : Heaps := { fail := failq.foldl PQ.insert #[] }
      let mut prev : Heaps := m
      let mut dis : Option String := none
      let mut orc : Option String := none
      let mut k := 0
      for impl in heaps do
        k := k + 1
        m := passDoFail recent now fileOf m
        if !heapsEq m impl && dis.isNone then dis := some s!"call {k}: model {showHeaps m} impl {showHeaps impl}"
        match oracleFail recent now fileOf prev impl with
        | some w => if orc.isNone then orc := some s!"call {k}: {w}"
        | none => pure ()
        if !(sameMultiset prev.fail.toList impl.fail.toList) then st := st.bump "pqfail_readded"
        prev := impl
      match dis with
      | some d => IO.println s!"DISAGREE in=P,{rs},{ns},{fq},{fs},{_nc} what={(d.replace " " "_").take 1200}"; st := { st with disagree := st.disagree + 1 }
      | none => pure ()
      match orc with
      | some w => IO.println s!"ORACLE in=P,{rs},{ns},{fq},{fs},{_nc} what={(w.replace " " "_").take 600} heaps={hs.take 1500}"; st := { st with oracle := st.oracle + 1 }
      | none => pure ()
      return st
    | _, _, _, _, _ => bad
  | _ => bad

/-! ### select-loop scenarios (harness/c15_loop.c) -/

def optInt (s : String) : Option (Option Int) := if s == "-" then some none else s.toInt?.map some

def parseLChan (s : String) : Option Nq.SelPrep.Chan :=
  match s.splitOn "," with
  | [a, cp, u, k, o, m] => do
    some { spawnAlive := a == "1", commPending := cp == "1", used := (← u.toNat?), conc := (← k.toNat?),
           passOpen := o == "1", pqMin := (← optInt m) }
  | _ => none

structure SelRec where
  snap : Nq.SelPrep.Snap
  timeout : Int
  tafter : Int
  nready : Nat
  count : Nat

def parseSel (t : String) : Option SelRec :=
  let (body, cnt) := match t.splitOn "*" with
    | [b, c] => (b, c.toNat?.getD 1)
    | _ => (t, 1)
  match body.splitOn ":" with
  | ["s", rc, ex, c0, c1, fj, pf, pd, td, nx, fc, ct, tmo, ta, nr] => do
    let snap : Nq.SelPrep.Snap :=
      { recent := (← rc.toInt?), exitasap := ex == "1", chans := [(← parseLChan c0), (← parseLChan c1)],
        jobRefs := if (← fj.toNat?) > 0 then [0] else [1], pqfailMin := (← optInt pf), pqdoneMin := (← optInt pd),
        triggerFd := true, tododir := td == "1", nexttodorun := (← nx.toInt?), flagcleanup := fc == "1",
        cleanuptime := (← ct.toInt?) }
    some { snap := snap, timeout := (← tmo.toInt?), tafter := (← ta.toInt?), nready := (← nr.toNat?), count := cnt }
  | _ => none

def bumpN (s : Stats) (k : String) (n : Nat) : Stats :=
  if n = 0 then s else
  let rec go : List (String × Nat) → List (String × Nat)
    | [] => [(k, n)]
    | (k', m) :: r => if k' == k then (k', m + n) :: r else (k', m) :: go r
  { s with counters := go s.counters }

/-- a channel is in the middle of a pass and cannot start another delivery (slots taken, write pending or spawner dead) -/
def midPassBlocked (s : Nq.SelPrep.Snap) : Bool := s.chans.any fun c => c.passOpen && !Nq.SelPrep.delAvail c

def handleLoop (st : Stats) (line : String) (rest : List String) : IO Stats := do
  match rest with
  | [scen, recs] =>
    let h := hashBytes scen.toUTF8.toList
    let fresh := !st.seen.contains h
    let mut st := { st with seen := st.seen.insert h, nontrivial := st.nontrivial + (if fresh then 1 else 0) }
    st := st.bump "loop_scenarios"
    let mut dis : Option String := none
    let mut orc : Option String := none
    let mut nsel := 0
    let mut nsleep := 0
    let mut nblocked := 0
    let mut nblockedStartable := 0
    let mut ncut := 0
    let mut nbFail := 0
    let mut nbDone := 0
    let mut nbChan := 0
    let mut nbOwn := 0
    let mut ended := false
    let mut k := 0
    let mut alrm := 0      -- an ALRM was delivered inside a select: the snapshot of the select after that one is taken after pqrun()
    let mut nalrm := 0
    -- back-off across clean restarts (black box on the delivery commands and reports): a recipient reported Z in a pass whose
    -- retry time is R must not be started again before R, in this or a later daemon process, unless an ALRM intervened
    let mut inc := 1
    let mut cmds : List (Nat × (Nat × Nat × String × Int × Bool)) := []          -- attempt ↦ chan, id, recipient, retry, dying
    let mut owed : List ((Nat × Nat × String) × (Int × Nat × Int)) := []         -- (chan, id, recipient) ↦ R, daemon #, time of the Z
    let mut cut : List (Nat × Nat × Nat) := []                                   -- (daemon #, chan, id): pass open when that daemon exited
    -- correspondence with the fine-grained pass model (Nq.SchedPass.openSt): jo[].retry / flagdying are computed from `recent`
    -- at the moment the job is OPENED = the `recent` of the first select that shows pass[c] open (or the time of the command, if the
    -- command comes first), for the messages whose birth the scenario fixes
    let lifetime : Int := ((scen.splitOn "/").findSome? fun f => if f.startsWith "life=" then (f.drop 5).toString.toInt? else none).getD 604800
    let mut births : List (Nat × Int) := []
    let mut openAt : List (Nat × Int) := []        -- channel ↦ recent at open of the pass currently open
    let mut nopenChecked := 0
    let mut nrestart := 0
    let mut npcut := 0
    let mut nowedAcross := 0
    -- injected unlink / utimes failures (F records): after a failed unlink of a finished channel file (job_close) or of info/<id>
    -- (messdone) the message must be back on that channel heap / in pqdone, due no later than the time of the failure +
    -- SLEEP_SYSFAIL, at the next select (never lost; theorems C15_jobclose / C15_fail_messdone); a failed utimes at exit exempts
    -- that channel file from the back-off oracle (theorem C15_fail_utimes: the file keeps its old mtime, "retried too soon")
    let mut pendingF : List (Int × String × Nat) := []     -- time, "local"/"remote"/"info", id
    let mut freshArrivals : List Nat := []                 -- arrived in todo/, no delivery command yet: todo_do() unlinks stale info/local/remote files of the
                                                           -- new message first; a failure THERE leaves the message in todo/ (not this property's subject)
    let mut nFunlink := 0
    let mut nFutimes := 0
    let mut nFchecked := 0
    let mut nFexempt := 0
    for t in (if recs == "-" then [] else recs.splitOn ";") do
      if t.startsWith "F:" then
        match t.splitOn ":" with
        | ["F", ts, what, path] =>
          match ts.toInt?, path.splitOn "/" with
          | some tf, dir :: restp =>
            let id := (restp.getLast?.bind (·.toNat?)).getD 0
            if what == "unlink" then
              nFunlink := nFunlink + 1
              if (dir == "local" || dir == "remote" || dir == "info") && !freshArrivals.contains id then pendingF := (tf, dir, id) :: pendingF
            else if what == "utimes" then
              nFutimes := nFutimes + 1
              let ch := if dir == "local" then 0 else 1
              if owed.any (fun x => x.1.1 == ch && x.1.2.1 == id) then nFexempt := nFexempt + 1
              owed := owed.filter (fun x => !(x.1.1 == ch && x.1.2.1 == id))
          | _, _ => if dis.isNone then dis := some s!"unparsable fault record {t}"
        | _ => if dis.isNone then dis := some s!"unparsable fault record {t}"
      else if t.startsWith "g:" && t.endsWith ":A" then
        alrm := 2
        owed := []
      else if t.startsWith "i:" then
        openAt := []
        pendingF := []
        match t.splitOn ":" with
        | ["i", _, n] =>
          inc := n.toNat?.getD inc
          if inc > 1 then nrestart := nrestart + 1
        | _ => pure ()
      else if t.startsWith "n:" then
        -- an arrival may reuse the number of a message that has left the queue: its birth is the time todo/ is processed (not fixed here)
        match t.splitOn ":" with
        | ["n", _, ids] =>
          births := births.filter (fun x => some x.1 != ids.toNat?)
          match ids.toNat? with | some i => freshArrivals := i :: freshArrivals | none => pure ()
        | _ => pure ()
      else if t.startsWith "q:" then
        match t.splitOn ":" with
        | ["q", ids, bs] =>
          match ids.toNat?, bs.toInt? with
          | some id, some b => births := (id, b) :: births
          | _, _ => pure ()
        | _ => pure ()
      else if t.startsWith "c:" then
        match t.splitOn ":" with
        | ["c", ts, cs, ids, _, att, rs, dy, recip] =>
          match ts.toInt?, cs.toNat?, ids.toNat?, att.toNat?, rs.toInt? with
          | some tc, some ch, some id, some a, some retry =>
            let key := (ch, id, recip)
            freshArrivals := freshArrivals.filter (· != id)
            match owed.find? (·.1 == key) with
            | some (_, (r, zi, tz)) =>
              if zi < inc then nowedAcross := nowedAcross + 1
              if tc < r then
                let cutp := zi < inc && cut.any (fun (i, c, m) => i == zi && c == ch && m == id)
                let msg := s!"recipient {recip} of message {id} (channel {ch}) was reported Z at {tz} (T0+{tz - 1000000000}) in a pass with retry time {r} (T0+{r - 1000000000}); it is started again at {tc} (T0+{tc - 1000000000}), {r - tc} s before its back-off time, by daemon #{inc} (the Z was seen by daemon #{zi}{if cutp then "; its pass on this message was still open when it exited after TERM: the retry time of the cut pass was not persisted (pass_finish)" else ""})"
                if orc.isNone then orc := some msg
            | none => pure ()
            owed := owed.filter (fun x => !(x.1 == key))
            cmds := (a, (ch, id, recip, retry, dy == "1")) :: cmds
            let topen := ((openAt.find? (·.1 == ch)).map (·.2)).getD tc
            if (openAt.find? (·.1 == ch)).isNone then openAt := (ch, tc) :: openAt
            match births.find? (·.1 == id), (if ch == 0 then some Chan.loc else if ch == 1 then some Chan.rem else none) with
            | some (_, b), some chn =>
              nopenChecked := nopenChecked + 1
              let job := jobOpen topen lifetime b chn
              if (job.retry != retry || job.dying != (dy == "1")) && dis.isNone then
                dis := some s!"command at {tc} for message {id} channel {ch}: jo.retry={retry} flagdying={dy}, model (job opened at {topen}, birth {b}, lifetime {lifetime}): retry={job.retry} dying={job.dying}"
            | _, _ => pure ()
          | _, _, _, _, _ => if dis.isNone then dis := some s!"unparsable command record {t}"
        | _ => if dis.isNone then dis := some s!"unparsable command record {t}"
      else if t.startsWith "r:" then
        match t.splitOn ":" with
        | ["r", ts, _, _, letter, att] =>
          match ts.toInt?, att.toNat? with
          | some tr, some a =>
            match cmds.find? (·.1 == a) with
            | some (_, (ch, id, recip, retry, dying)) =>
              if letter == "Z" && !dying then owed := ((ch, id, recip), (retry, inc, tr)) :: owed.filter (fun x => !(x.1 == (ch, id, recip)))
            | none => if dis.isNone then dis := some s!"report for an unknown attempt {t}"
          | _, _ => if dis.isNone then dis := some s!"unparsable report record {t}"
        | _ => if dis.isNone then dis := some s!"unparsable report record {t}"
      else if t.startsWith "s:" then
        match parseSel t with
        | none => if dis.isNone then dis := some s!"unparsable select record {t}"
        | some r =>
          k := k + r.count
          nsel := nsel + r.count
          let s := r.snap
          for (tf, dir, id) in pendingF do
            nFchecked := nFchecked + 1
            let lim := tf + Nq.Sched.SLEEP_SYSFAIL
            let m : Option Int := if dir == "local" then (s.chans.getD 0 {}).pqMin else if dir == "remote" then (s.chans.getD 1 {}).pqMin else s.pqdoneMin
            let ok := match m with | some d => decide (d ≤ lim) | none => false
            if !ok && orc.isNone then
              orc := some s!"select {k}: unlink of {dir}/{id} failed at {tf} (T0+{tf - 1000000000}) but at the next select {if dir == "info" then "pqdone" else "the channel heap"} has no entry due by {lim} (failure time + SLEEP_SYSFAIL): the message is lost or put off longer than documented; snap={t}"
          pendingF := []
          for (ci, cs) in [(0, s.chans.getD 0 {}), (1, s.chans.getD 1 {})] do
            if cs.passOpen then
              if (openAt.find? (·.1 == ci)).isNone then openAt := (ci, s.recent) :: openAt
            else openAt := openAt.filter (fun x => !(x.1 == ci))
          -- "an ALRM makes everything due at once": at the first select after pqrun() the head of every channel heap is due
          if alrm > 0 then
            if r.count ≥ alrm then
              alrm := 0
              nalrm := nalrm + 1
              if s.chans.any (fun c => match c.pqMin with | some d => decide (d > s.recent) | none => false) && orc.isNone then
                orc := some s!"select {k}: after ALRM (pqrun) a channel heap still has its earliest entry in the future of {s.recent}: snap={t}"
            else alrm := alrm - r.count
          -- correspondence: the timeout the real main() passed to select vs the model of the select preparation
          let mt := Nq.SelPrep.timeout s
          if mt != r.timeout && dis.isNone then dis := some s!"select {k}: timeout impl={r.timeout} model={mt} snap={t}"
          -- property oracle on the implementation's values only (theorem C15_sleep_not_through)
          let dues := Nq.Spec.SchedHist.startableDues s
          if r.timeout != 0 then
            nsleep := nsleep + r.count
            if midPassBlocked s then
              nblocked := nblocked + r.count
              if !dues.isEmpty then nblockedStartable := nblockedStartable + r.count
              if s.pqfailMin.isSome then nbFail := nbFail + r.count
              if s.pqdoneMin.isSome then nbDone := nbDone + r.count
              if s.chans.any (fun c => !c.passOpen && c.pqMin.isSome) then nbChan := nbChan + r.count
              if s.chans.any (fun c => c.passOpen && !Nq.SelPrep.delAvail c && c.pqMin.isSome) then nbOwn := nbOwn + r.count
            if dues.any (fun d => d + Nq.SelPrep.SLEEP_FUZZ == r.tafter) then ncut := ncut + r.count
          if Nq.Spec.SchedHist.sleptThrough s r.tafter && orc.isNone then
            let d := (Nq.Spec.SchedHist.sleptThroughWhich s r.tafter).getD 0
            orc := some s!"select {k}: slept through a due time: a startable entry was due at {d} (T0+{d - 1000000000}), the daemon went to sleep at {s.recent} with timeout {r.timeout} and woke at {r.tafter}, {r.tafter - d} s late (fuzz {Nq.SelPrep.SLEEP_FUZZ}); blocked mid-pass={midPassBlocked s} snap={t}"
      else if t == "x:abort" then
        ended := true
        if orc.isNone then orc := some s!"the daemon used up the select budget without finishing (it spins with work it does not start, or never stops) after select {k}"
      else if t.startsWith "x:" then
        ended := true
        match t.splitOn ":" with
        | ["x", code, crashed, _, p0, p1] =>
          if (code != "0" || crashed != "0") && dis.isNone then dis := some s!"daemon ended with exit={code} crashed={crashed}"
          for (c, ps) in [(0, p0), (1, p1)] do
            match ps.toNat? with
            | some m =>
              if m != 0 then
                cut := (inc, c, m) :: cut
                npcut := npcut + 1
            | none => pure ()
        | _ => if dis.isNone then dis := some s!"unparsable end record {t}"
      else pure ()
    if !ended && dis.isNone then dis := some "no end record"
    st := { st with cases := st.cases + nsel }
    st := bumpN st "loop_selects" nsel
    st := bumpN st "loop_sleeps" nsleep
    st := bumpN st "loop_sleeps_with_a_channel_blocked_midpass" nblocked
    st := bumpN st "loop_sleeps_blocked_midpass_and_startable_entry_pending" nblockedStartable
    st := bumpN st "loop_sleeps_ended_by_a_startable_due_time" ncut
    st := bumpN st "loop_blocked_sleeps_with_pqfail_entry" nbFail
    st := bumpN st "loop_alrm_checked" nalrm
    st := bumpN st "loop_commands_compared_with_jobOpen_at_open_time" nopenChecked
    st := bumpN st "loop_clean_restarts" nrestart
    st := bumpN st "loop_passes_cut_short_by_term" npcut
    st := bumpN st "loop_deferred_recipients_restarted_by_a_later_daemon" nowedAcross
    st := bumpN st "loop_injected_unlink_failures" nFunlink
    st := bumpN st "loop_injected_utimes_failures_at_exit" nFutimes
    st := bumpN st "loop_unlink_failures_checked_requeued_within_sysfail" nFchecked
    st := bumpN st "loop_utimes_failures_exempting_a_deferred_recipient" nFexempt
    st := bumpN st "loop_blocked_sleeps_with_pqdone_entry" nbDone
    st := bumpN st "loop_blocked_sleeps_with_entry_on_an_idle_channel" nbChan
    st := bumpN st "loop_blocked_sleeps_with_entry_on_the_blocked_channels_own_heap" nbOwn
    match dis with
    | some d =>
      IO.println s!"DISAGREE in=W,{scen} what={((d.replace " " "_").replace "\n" "").take 1500}"
      st := { st with disagree := st.disagree + 1 }
    | none => pure ()
    match orc with
    | some w =>
      IO.println s!"ORACLE in=W,{scen} what={(w.replace " " "_").take 1200}"
      st := { st with oracle := st.oracle + 1 }
    | none => pure ()
    if st.samples < 2 && fresh && nblockedStartable > 0 && ncut > 0 && scen.length < 200 then
      IO.println s!"SAMPLE select loop scenario={scen} selects={nsel} sleeps={nsleep} sleeps_with_a_channel_blocked_midpass_and_a_startable_entry_pending={nblockedStartable} sleeps_ended_exactly_at_due+fuzz={ncut}"
      st := { st with samples := st.samples + 1 }
    return st
  | _ => IO.println s!"DISAGREE unparsable W line {line.take 200}"; return { st with disagree := st.disagree + 1, cases := st.cases + 1 }

def handle (st : Stats) (line : String) : IO Stats := do
  let bad := fun (st : Stats) => do
    IO.println s!"DISAGREE unparsable line {line.take 300}"
    return { st with disagree := st.disagree + 1, cases := st.cases + 1 }
  match fields line with
  | ["Q", los, his, rs] =>
    match los.toInt?, his.toInt?, rs.toInt? with
    | some lo, some hi, some r =>
      let n := (hi - lo + 1).toNat
      let mut st := { st with cases := st.cases + n }
      st := { st with nontrivial := st.nontrivial + (if 0 ≤ lo ∧ hi < two32 then n else 0) }
      st := st.bump (if hi < 0 then "sqrt_negative_runs" else if lo ≥ two32 then "sqrt_saturated_runs" else "sqrt_runs")
      let mid := (lo + hi) / 2
      if squareroot lo != r || squareroot hi != r || squareroot mid != r then
        IO.println s!"DISAGREE in=Q,{lo},{hi} impl={r} model={squareroot lo},{squareroot mid},{squareroot hi}"
        st := { st with disagree := st.disagree + 1 }
      -- oracle: every x of the run that lies in 0..2^32-1 has r as its exact integer root
      if 0 ≤ hi ∧ lo < two32 then
        let lo' := if lo < 0 then 0 else lo
        let hi' := if hi < two32 then hi else two32 - 1
        if !(decide (IsSqrt lo' r) && decide (IsSqrt hi' r)) then
          let x := if decide (IsSqrt lo' r) then hi' else lo'
          IO.println s!"ORACLE in=Q,{x},{x} what=squareroot({x})={r}_is_not_the_integer_square_root"
          st := { st with oracle := st.oracle + 1 }
      if st.samples < 1 && lo > 1000000 then
        IO.println s!"SAMPLE squareroot(x)={r} for every x in [{lo},{hi}]"
        st := { st with samples := st.samples + 1 }
      return st
    | _, _, _ => bad st
  | ["QOVER", _] =>
    IO.println s!"DISAGREE in=Q what=too_many_runs_(squareroot_not_monotone_step_function)"
    return { st with disagree := st.disagree + 1 }
  | ["N", bs, rs, cs, ts] =>
    match bs.toInt?, rs.toInt?, chanOf cs, ts.toInt? with
    | some birth, some recent, some c, some t =>
      let mut st := { st with cases := st.cases + 1, nontrivial := st.nontrivial + 1 }
      let age := recent - birth
      st := st.bump (if age < 0 then "retry_birth_in_future" else if age < two32 then "retry_in_domain" else "retry_saturated")
      let m := nextretry recent birth c
      if m != t then
        IO.println s!"DISAGREE in=N,{birth},{recent},{cs} impl={t} model={m}"
        st := { st with disagree := st.disagree + 1 }
      -- the harness only generates cases inside the no-overflow range (UBSan build): there the wrapped
      -- arithmetic must give the same value (theorem C15_overflow_range)
      if nextretryOk recent birth c then
        st := st.bump "retry_no_overflow_checked"
        if nextretryW recent birth c != t then
          IO.println s!"DISAGREE in=N,{birth},{recent},{cs} impl={t} model_wrapped={nextretryW recent birth c}"
          st := { st with disagree := st.disagree + 1 }
      else
        IO.println s!"DISAGREE in=N,{birth},{recent},{cs} what=case_outside_the_no-overflow_range_(harness_must_not_generate_it)"
        st := { st with disagree := st.disagree + 1 }
      if age < two32 then
        let okFuture := decide (t > recent)
        let okFormula := age < 0 || isRetryB recent birth c t
        if !(okFuture && okFormula) then
          let what := if okFuture then "retry_time_is_not_birth+(isqrt(age)+skip)^2" else "retry_time_not_strictly_in_the_future"
          IO.println s!"ORACLE in=N,{birth},{recent},{cs} impl={t} what={what}"
          st := { st with oracle := st.oracle + 1 }
      if st.samples < 2 && age > 100000 && age < two32 then
        IO.println s!"SAMPLE nextretry(birth={birth},recent={recent},chan={cs})={t} (age {age}, retry in {t - recent} s)"
        st := { st with samples := st.samples + 1 }
      return st
    | _, _, _, _ => bad st
  | ["H", opss, minss, finals] =>
    match parseOps opss, parseMins minss, parseElts finals with
    | some ops, some mins, some final =>
      let h := hashBytes opss.toUTF8.toList
      let fresh := !st.seen.contains h
      let nontriv := ops.length ≥ 3
      let mut st := { st with cases := st.cases + 1, seen := st.seen.insert h,
                              nontrivial := st.nontrivial + (if fresh && nontriv then 1 else 0) }
      st := st.bump (if ops.length ≤ 12 then "pq_exhaustive_seqs" else "pq_random_seqs")
      let (mm, mq) := replayOps ops
      if mm != mins || mq.toList != final then
        IO.println s!"DISAGREE in=H,{opss.take 2000} impl_final={(showElts final).take 600} model_final={(showElts mq.toList).take 600}"
        st := { st with disagree := st.disagree + 1 }
      match oracleOps ops mins final with
      | some why =>
        IO.println s!"ORACLE in=H,{opss.take 3000} mins={minss.take 1500} final={finals.take 1500} what={why.replace " " "_"}"
        st := { st with oracle := st.oracle + 1 }
      | none => pure ()
      if st.samples < 3 && ops.length ≥ 8 && ops.length ≤ 12 && mins.length ≥ 3 then
        IO.println s!"SAMPLE prioq ops={opss} mins={minss} final={finals}"
        st := { st with samples := st.samples + 1 }
      return st
    | _, _, _ => bad st
  | "S" :: rest => handleHist st line rest
  | "P" :: rest => handleP st line rest
  | "W" :: rest => handleLoop st line rest
  | ["K", name, v] =>
    let st := { st with cases := st.cases + 1 }
    if name == "SLEEP_SYSFAIL" && v.toInt? != some Nq.Sched.SLEEP_SYSFAIL then
      IO.println s!"DISAGREE in=K,{name} impl={v} model={Nq.Sched.SLEEP_SYSFAIL}"
      return { st with disagree := st.disagree + 1 }
    return st
  | [] => return st
  | _ => bad st

def main : IO Unit := runDriver handle
