/- Driver for C09.
   `S` lines: the real qmail-remote smtp() against a scripted server — compared with `smtpRun`
   (report bytes, bytes received by the server, exit status, and the relayed line of qmail-rspawn's
   report()); the property predicates `verdictOK (expect …)/kSound/rcptOrder/wireOrderQ` (Nq.Spec.RemoteVerdict)
   are evaluated — strictly, also when the QUIT write fails — on what the implementation printed, against
   the line-based reading of the server's stream. The harness names a failing write by its bytes only and
   never reads the client's `flagcritical`: for the model the driver derives from the bytes whether a
   failing write of blast() came after `flagcritical = 1` (`flagWrite`), for the oracle whether it carried
   the last byte of the encoded message (`critWrite`) — only then is the "Possible duplicate!" flag required.
   `R` lines: the real qmail-rspawn report() — compared with `rreport`; predicates
   `rspawnSound/rspawnClasses/noUpgrade` on the implementation's line.
   End to end (`relayAsReplied`, theorem `C09_relay_class`): for every `S` line the class (K/Z/D) of the line the real
   report() relays for the real qmail-remote output must be `relayClass (expect …)` — a function of the server's replies only.
   Line formats: see harness/c09_remote.c -/
import Drv.Util
import Nq.RemoteSmtp
import Nq.RemoteBuf
import Nq.RspawnReport
import Nq.RemoteConnect
import Nq.Spec.RemoteVerdict

open Nq Nq.SmtpOut Nq.RemoteSmtp Nq.RemoteBuf Nq.RspawnReport Nq.RemoteConnect Nq.Spec.RemoteVerdict Drv

def parseWPoint (s : String) : Option (Option WPoint) :=
  if s == "none" then some none
  else if s == "helo" then some (some .helo)
  else if s == "mail" then some (some .mail)
  else if s == "data" then some (some .data)
  else if s == "body" then some (some .body)
  else if s == "final" then some (some .final)
  else if s == "quit" then some (some .quit)
  else if s.startsWith "rcpt" then (s.drop 4).toNat?.map (fun i => some (.rcpt i))
  else none

def verdictStr : Verdict → String
  | .K => "K" | .Z => "Z" | .D => "D" | .lost true => "Z-lost-possible-duplicate" | .lost false => "Z-lost"

def parseRcpts (s : String) : Option (List Bytes) :=
  if s == "." then some [] else (s.splitOn ",").mapM unhex

def parseIp (s : String) : Option Bytes :=
  match unhex s with
  | some [a, b, c, d] => some (ipFmt a b c d)
  | _ => none

/-- bytes `blast()` has put before the end of the message is reached -/
def stepsOut : RSt → Bytes → Bytes × RSt
  | s, [] => ([], s)
  | s, c :: m => let (o, s') := stepsOut (rstep s c).1 m; ((rstep s c).2 ++ o, s')

def encodedBody (m : Bytes) : Bytes :=
  let (o, s) := stepsOut .top m
  o ++ (match rfinish s with | some f => f | none => [])

def wireAgrees (r : Res) (msg wire : Bytes) : Bool :=
  if r.wireOpen then r.wire.isPrefixOf wire && wire.isPrefixOf (r.wire ++ encodedBody msg)
  else r.wire == wire

/-- the report stream of qmail-remote: NUL-terminated records, the last one K/Z/D, the others r/h/s -/
def parseOut (out : Bytes) : Option Obs :=
  if out.getLast? != some NUL then none else
  let rs := records [] out
  match rs.reverse with
  | [] => none
  | m :: revr =>
    let rl := revr.reverse.map headB
    if isKZD (headB m) && rl.all (fun c => c == lR || c == lH || c == lS) then
      some ⟨rl, headB m, hasInfix dupMark m⟩
    else none

/-- the failing write as the oracle sees it: a write inside blast() is critical iff its bytes say so -/
def oracleLabel (a : Args) (msg wire wtry : Bytes) (wf : Option WPoint) : Option WPoint :=
  oracleWf wf ((rblast msg).isSome && !a.msgErr && critWrite a (encodedBody msg) wire wtry)

/-- the buffered model's script. The harness names a failing write of blast() "body" and gives the number `wk` of the
    failing `write()` call of the conversation; HELO, MAIL, the `n` RCPTs and DATA are the `3 + n` calls before blast(),
    so it is call number `wk - (3 + n) - 1` (from 0) of blast(): the model is run with the write script "that call
    fails, every other call takes at most `wchunk` bytes (0 = all)" and computes the label `body`/`final`, the bytes of
    the failing write and the wire itself. Other failing writes are command writes (`WB.cmd`). -/
def scriptB (n : Nat) (wf : Option WPoint) (wk wchunk encLen : Nat) : WB :=
  let ent := if wchunk == 0 then SMTPTO else wchunk
  match wf with
  | some .body => .blast (List.replicate (wk - (3 + n) - 1) ent ++ [0])
  | none => if wchunk == 0 then .cmd none else .blast (List.replicate (encLen + 8) ent)
  | w => .cmd w

/-- executable form of `C09_flag_computed` on the implementation's bytes: the duplicate flag a failing write of blast()
    must carry -/
def flagExpected (a : Args) (msg wire wtry : Bytes) : Bool :=
  (rblast msg).isSome && !a.msgErr && flagWrite a (encodedBody msg) wire wtry

def handleS (st : Stats) (line : String) (f : List String) : IO Stats := do
  match f with
  | [_, ipS, heloS, senderS, rcptsS, msgS, msgerrS, streamS, chunk, wk, endmode, wlabelS, wtryS, outS, wireS, exitS, relayS, wchunkS] =>
    match parseIp ipS, unhex heloS, unhex senderS, parseRcpts rcptsS, unhex msgS, unhex streamS,
          parseWPoint wlabelS, unhex outS, unhex wireS, unhex relayS, unhex wtryS with
    | some host, some helo, some sender, some rcpts, some msg, some stream, some wf, some out, some wire, some relay, some wtry =>
      let a : Args := { host, helo, sender, rcpts, msg, msgErr := msgerrS == "1" }
      let wb := scriptB rcpts.length wf wk.toNat! wchunkS.toNat! (encodedBody msg).length
      let sb : ScriptB := { stream, wb }
      let mwf := effWf a wb
      let mlab := if mwf == some .final then "final" else if mwf == some .body then "body" else wlabelS
      let inKey := hash (String.intercalate " " [ipS, heloS, senderS, rcptsS, msgS, msgerrS, streamS, mlab])
      let fresh := !st.seen.contains inKey
      let mut st := { st with cases := st.cases + 1, seen := st.seen.insert inKey }
      st := st.bump "smtp_cases"
      st := st.bump ("chunk" ++ chunk)
      if wchunkS != "0" then st := st.bump "short_writes_in_blast"
      st := st.bump ("wfail_" ++ (if wlabelS.startsWith "rcpt" then "rcpt" else mlab))
      st := st.bump ("nrcpt" ++ toString (min rcpts.length 4))
      -- model: smtp() with blast() over the 1024-byte buffer; report, exact wire, bytes of the failing write
      let res := smtpRunB a sb
      let mout := renderB res
      let mrelay := rreport 0 out
      let mtried := match res.tried with | some t => t | none => []
      if wf == some .body then
        st := st.bump ("blast_fail_write" ++ toString (min (wk.toNat! - (3 + rcpts.length) - 1) 4))
        st := st.bump ("model_label_" ++ (if mwf == some .final then "final" else if mwf == some .body then "body" else "none"))
      if !(mout == out && res.wire == wire && exitS == "0" && mrelay == relay && mtried == (if wf == some .body then wtry else []) &&
           ((wf == some .body) == res.tried.isSome)) then
        IO.println s!"DISAGREE kind=S in={streamS} ip={ipS} helo={heloS} sender={senderS} rcpts={rcptsS} msg={msgS} msgerr={msgerrS} chunk={chunk} wk={wk} endmode={endmode} wchunk={wchunkS} wlabel={wlabelS} impl_out={outS} impl_wire={wireS} impl_wtry={wtryS} exit={exitS} impl_relay={relayS} model_out={hex mout} model_wire={hex res.wire} model_wtry={hex mtried} model_relay={hex mrelay}"
        st := { st with disagree := st.disagree + 1 }
      -- oracle, on the implementation's output
      let (codes, wfS) := match specCodes stream with
        | some cs => (cs, true)
        | none => ((frames .d1 [] stream).map codeNat, false)
      st := st.bump (if wfS then "stream_wellformed" else "stream_garbage")
      let owf := oracleLabel a msg wire wtry wf
      if owf == some .final then st := st.bump "critical_write_by_bytes"
      if mwf == some .final && owf == some .body then st := st.bump "flag_set_but_write_not_critical"
      let as : AScript := { codes, n := rcpts.length, msgErr := a.msgErr,
                            msgPartial := partialMsg msg (rblast msg).isNone, wfail := owf }
      let e := expect as
      let mut why := ""
      if exitS != "0" then why := why ++ "exit_nonzero,"
      match parseOut out with
      | none => why := why ++ "malformed_report_stream,"
      | some o =>
        if !kSound as o then why := why ++ "K_unsound,"
        if !rcptOrder as o then why := why ++ "recipient_reports_wrong_or_out_of_order,"
        if !verdictOK e.v o then why := why ++ "wrong_class,"
        if o.rl != e.rl then why := why ++ "recipient_classes,"
        if !wireOrderQ a (encodedBody msg) wire o (wf == some .quit) then why := why ++ "commands_out_of_order_or_missing,"
        if wf == some .body then
          -- C09_blast_writes_prefix / C09_flag_computed, evaluated on the implementation's bytes
          if wtry.isEmpty || !(wire ++ wtry).isPrefixOf (fullCmds a ++ encodedBody msg) then why := why ++ "failing_write_not_a_prefix_of_the_encoding,"
          if o.dup != flagExpected a msg wire wtry then why := why ++ "duplicate_flag_not_as_computed,"
          if flagExpected a msg wire wtry then st := st.bump "flag_expected_by_bytes"
        st := st.bump ("verdict_" ++ String.singleton (Char.ofNat o.ml.toNat) ++ (if o.dup then "_dup" else ""))
        if fresh && (o.ml != cK || stream.contains DASH) then st := { st with nontrivial := st.nontrivial + 1 }
      -- the relayed line
      if !rspawnSound 0 out relay then why := why ++ "relay_K_unsound,"
      if !rspawnClasses 0 out relay then why := why ++ "relay_class,"
      if !noUpgrade out relay then why := why ++ "relay_upgrade,"
      if !relayWithin out relay then why := why ++ "relay_text_not_from_output,"
      if headB relay == cK && !(e.v == .K && e.rl.head? == some lR) then why := why ++ "relay_K_but_not_accepted,"
      -- end to end (C09_relay_class): the class of the line report() relays for qmail-remote's real output must be the documented
      -- function of what the SERVER did (first recipient 4xx -> Z, 5xx -> D, else the class of the message verdict; lost -> Z)
      if !relayAsReplied e relay then why := why ++ "relay_class_not_as_server_replied,"
      st := st.bump ("relay_expected_" ++ String.singleton (Char.ofNat (relayClass e).toNat) ++
                     (match e.rl.head? with | some c => "_rcpt_" ++ String.singleton (Char.ofNat c.toNat) | none => "_no_rcpt_report"))
      if why != "" then
        IO.println s!"ORACLE kind=S in={streamS} why={why} ip={ipS} helo={heloS} sender={senderS} rcpts={rcptsS} msg={msgS} msgerr={msgerrS} chunk={chunk} wk={wk} endmode={endmode} wchunk={wchunkS} wlabel={wlabelS} wtry={wtryS} out={outS} wire={wireS} exit={exitS} relay={relayS} expected={verdictStr e.v} expected_relay={String.singleton (Char.ofNat (relayClass e).toNat)}"
        st := { st with oracle := st.oracle + 1 }
      if fresh && st.samples < 3 && wfS && rcpts.length ≥ 2 && stream.contains DASH && codes.length ≥ 5 then
        IO.println s!"SAMPLE kind=S stream={streamS} nrcpt={rcpts.length} wlabel={wlabelS} out={outS} relay={relayS}"
        st := { st with samples := st.samples + 1 }
      return st
    | _, _, _, _, _, _, _, _, _, _, _ =>
      IO.println s!"DISAGREE unparsable line {line}"; return { st with disagree := st.disagree + 1 }
  | _ => IO.println s!"DISAGREE unparsable line {line}"; return { st with disagree := st.disagree + 1 }

def handleR (st : Stats) (line : String) (f : List String) : IO Stats := do
  match f with
  | [_, wstatS, outS, relayS] =>
    match wstatS.toNat?, unhex outS, unhex relayS with
    | some wstat, some out, some relay =>
      let inKey := hash (wstatS ++ " " ++ outS)
      let fresh := !st.seen.contains inKey
      let mut st := { st with cases := st.cases + 1, seen := st.seen.insert inKey }
      st := st.bump "report_cases"
      if fresh && wstat == 0 && out.contains NUL then st := { st with nontrivial := st.nontrivial + 1 }
      let m := rreport wstat out
      if m != relay then
        IO.println s!"DISAGREE kind=R in={outS} wstat={wstatS} impl_relay={relayS} model_relay={hex m}"
        st := { st with disagree := st.disagree + 1 }
      let mut why := ""
      if !rspawnSound wstat out relay then why := why ++ "relay_K_unsound,"
      if !rspawnClasses wstat out relay then why := why ++ "relay_class,"
      if wstat == 0 && !out.isEmpty && !noUpgrade out relay then why := why ++ "relay_upgrade,"
      if wstat % 128 == 0 && wstat / 256 == 0 && !out.isEmpty && !relayWithin out relay then why := why ++ "relay_text_not_from_output,"
      if why != "" then
        IO.println s!"ORACLE kind=R in={outS} why={why} wstat={wstatS} relay={relayS}"
        st := { st with oracle := st.oracle + 1 }
      st := st.bump ("relay_" ++ String.singleton (Char.ofNat (headB relay).toNat))
      return st
    | _, _, _ => IO.println s!"DISAGREE unparsable line {line}"; return { st with disagree := st.disagree + 1 }
  | _ => IO.println s!"DISAGREE unparsable line {line}"; return { st with disagree := st.disagree + 1 }

def parseCand (s : String) : Option Cand :=
  match s.splitOn ":" with
  | [ipS, prefS, meS, skipS, connS] =>
    match parseIp ipS, prefS.toNat?, connS.toNat? with
    | some host, some pref, some conn => some { host, pref, isMe := meS == "1", skip := skipS == "1", conn }
    | _, _, _ => none
  | _ => none

def parseCands (s : String) : Option (List Cand) :=
  if s == "." then some [] else (s.splitOn ",").mapM parseCand

def traceStr (t : List (Nat × Bool)) : String :=
  if t.isEmpty then "." else ",".intercalate (t.map (fun (i, f) => s!"{i}:{if f then 1 else 0}"))

/-- M lines: the real main() from the DNS result on. Oracle: connect trouble / DNS trouble is never `K`,
    `temp_noconn` exactly when no eligible address connects, the address used is the first eligible one
    that connects (`preOK`), plus the smtp() predicates when a connection was made. -/
def handleM (st : Stats) (line : String) (f : List String) : IO Stats := do
  match f with
  | [_, dnsS, candsS, streamS, wk, wlabelS, wtryS, outS, wireS, exitS, traceS] =>
    match dnsS.toInt?, parseCands candsS, unhex streamS, parseWPoint wlabelS, unhex outS, unhex wireS, unhex wtryS with
    | some dnsret, some cs, some stream, some wf, some out, some wire, some wtry =>
      let a : Args := { host := [], helo := lit "me.example", sender := lit "s@a.example", rcpts := [lit "r0@b.example"],
                        msg := lit "Subject: x\n\nbody\n", msgErr := false }
      let inKey := hash (String.intercalate " " ["M", dnsS, candsS, streamS, wlabelS])
      let fresh := !st.seen.contains inKey
      let mut st := { st with cases := st.cases + 1, seen := st.seen.insert inKey }
      st := st.bump "main_cases"
      let wb := scriptB 1 wf wk.toNat! 0 0
      let res := mainRun dnsret (lit "host.example") cs a ⟨stream, effWf a wb⟩
      let mtrace := traceStr (connectTrace dnsret cs)
      if !(render res == out && wireAgrees res a.msg wire && exitS == "0" && mtrace == traceS) then
        IO.println s!"DISAGREE kind=M in={streamS} dnsret={dnsS} cands={candsS} wk={wk} wlabel={wlabelS} impl_out={outS} impl_wire={wireS} exit={exitS} impl_trace={traceS} model_out={hex (render res)} model_wire={hex res.wire} model_trace={mtrace}"
        st := { st with disagree := st.disagree + 1 }
      -- oracle
      let mut why := ""
      if exitS != "0" then why := why ++ "exit_nonzero,"
      match parseOut out with
      | none => why := why ++ "malformed_report_stream,"
      | some o =>
        if !preOK dnsret cs o then why := why ++ "connect_phase,"
        if dnsret ≥ 0 && !hostNamed cs out then why := why ++ "wrong_address,"
        st := st.bump ("main_verdict_" ++ String.singleton (Char.ofNat o.ml.toNat))
        if fresh && o.ml != cK then st := { st with nontrivial := st.nontrivial + 1 }
        match connectPhase dnsret (lit "host.example") cs with
        | .connected _ h =>
          let codes := match specCodes stream with | some c => c | none => (frames .d1 [] stream).map codeNat
          let as : AScript := { codes, n := 1, msgErr := false, msgPartial := false, wfail := oracleLabel a a.msg wire wtry wf }
          if !kSound as o then why := why ++ "K_unsound,"
          if !verdictOK (expect as).v o then why := why ++ "wrong_class,"
          if !wireOrderQ { a with host := h } (encodedBody a.msg) wire o (wf == some .quit) then why := why ++ "commands_out_of_order_or_missing,"
        | .report _ => if !wire.isEmpty then why := why ++ "wrote_without_connection,"
      if why != "" then
        IO.println s!"ORACLE kind=M in={streamS} why={why} dnsret={dnsS} cands={candsS} wk={wk} wlabel={wlabelS} wtry={wtryS} out={outS} wire={wireS} exit={exitS} trace={traceS}"
        st := { st with oracle := st.oracle + 1 }
      return st
    | _, _, _, _, _, _, _ => IO.println s!"DISAGREE unparsable line {line}"; return { st with disagree := st.disagree + 1 }
  | _ => IO.println s!"DISAGREE unparsable line {line}"; return { st with disagree := st.disagree + 1 }

def handle (st : Stats) (line : String) : IO Stats := do
  let f := fields line
  match f.head? with
  | some "S" => handleS st line f
  | some "R" => handleR st line f
  | some "M" => handleM st line f
  | _ => IO.println s!"DISAGREE unparsable line {line}"; return { st with disagree := st.disagree + 1 }

def main : IO Unit := runDriver handle
