/- C20 driver, getln2 part: Nq.Getln.getln2 against the calls harness/c20_parse.c (kind gl2) made to the real getln2(). -/
import Drv.Util
import Nq.Getln

open Nq Drv

namespace Drv.C20Getln

def natOf (s : String) : Nat := s.toNat?.getD 0

open Nq.Getln Nq.Substdio Nq.Stralloc in
/-- the model's rendering of the calls, in the harness's format -/
def modelCalls (stream : Bytes) (chunk bufsz : Nat) (sep : Byte) : String × Nat := Id.run do
  let rs : List Nat := if chunk == 0 then [] else List.replicate (2 * stream.length + 8) chunk
  let mut g : GSt := ⟨{ size := bufsz, n := bufsz, src := stream, rs := rs }, {}⟩
  let mut outs : List String := []
  let mut grew := 0
  for _ in [0:stream.length + 2] do
    let a0 := g.sa.a
    let o := getln2 (fun _ => true) sep g
    g := ⟨{ o.st.ss with cp := [] }, o.st.sa⟩
    if o.st.sa.a != a0 then grew := grew + 1
    let c := if o.ret && o.clen != 0 then toString o.cont else "-"
    outs := outs ++ [s!"{if o.ret then 0 else -1},{c},{o.clen},{o.st.sa.len},{o.st.sa.a},{o.st.ss.p},{o.st.ss.n}"]
    if !o.ret || o.clen == 0 then break
  return (";".intercalate outs, grew)

/-- the theorem's predicates (C20_getln2_in_bounds) on the implementation's numbers -/
def implOk (calls : String) (bufsz : Nat) : Bool :=
  (calls.splitOn ";").all (fun c => match c.splitOn "," with
    | [_, contS, clenS, lenS, aS, pS, nS] =>
        (contS == "-" || (contS.toNat?.isSome && natOf contS + natOf clenS ≤ bufsz)) &&
        natOf lenS ≤ natOf aS && pS.toNat?.isSome && nS.toNat?.isSome && natOf pS + natOf nS == bufsz
    | _ => false)

end Drv.C20Getln
