/- Driver for C17.  Reads the lines of harness/c17_quote.c (Q, P) and harness/c17_inject.c (C, I), runs
   the Lean models on the same inputs (DISAGREE channel) and evaluates the property predicates on the
   implementation's outputs (ORACLE channel).  See the harness files for the line formats. -/
import Drv.Util
import Nq.Quote
import Nq.Token822
import Nq.SmtpAddr
import Nq.Inject
import Nq.Spec.Addr
import Nq.Spec.Lex822
import Nq.Spec.HeaderBody
import Nq.Spec.Hidden

open Nq Nq.Quote Nq.Token822 Nq.SmtpAddr Nq.Inject Nq.Spec.Addr Nq.Spec.Lex822 Drv

/-- qmail-smtpd configuration used by harness/c17_quote.c -/
def smtpdCfg : SmtpAddr.Cfg := { liphost := some (str "lip.example"), ipme := [[127, 0, 0, 1], [0, 0, 0, 0]] }

/-! ### token lists as text -/

def tokStr : Tok → String
  | .atom s => "a" ++ (if s.isEmpty then "" else hex s)
  | .quote s => "q" ++ (if s.isEmpty then "" else hex s)
  | .literal s => "l" ++ (if s.isEmpty then "" else hex s)
  | .comment s => "c" ++ (if s.isEmpty then "" else hex s)
  | .left => "<" | .right => ">" | .at => "@" | .comma => "," | .semi => ";" | .colon => ":" | .dot => "."

def toksStr (ts : List Tok) : String := if ts.isEmpty then "-" else "/".intercalate (ts.map tokStr)

def tokOfStr (s : String) : Option Tok :=
  match s.toList with
  | [] => none
  | c :: r =>
    let body : Option Bytes := if r.isEmpty then some [] else unhex (String.ofList r)
    match c with
    | 'a' => body.map .atom | 'q' => body.map .quote | 'l' => body.map .literal | 'c' => body.map .comment
    | '<' => some .left | '>' => some .right | '@' => some .at | ',' => some .comma
    | ';' => some .semi | ':' => some .colon | '.' => some .dot
    | _ => none

def toksOfStr (s : String) : Option (List Tok) :=
  if s == "-" then some [] else (s.splitOn "/").mapM tokOfStr

def optToksStr : Option (List Tok) → String
  | some ts => toksStr ts
  | none => "-"

/-- callback addresses: '|'-separated, `e` = empty -/
def gotStr (g : List (List Tok)) : String :=
  if g.isEmpty then "-" else "|".intercalate (g.map (fun a => if a.isEmpty then "e" else toksStr a))

def gotOfStr (s : String) : Option (List (List Tok)) :=
  if s == "-" then some [] else (s.splitOn "|").mapM (fun a => if a == "e" then some [] else toksOfStr a)

/-! ### expectations (E field) -/

structure MBox where
  loc : Bytes
  host : Option Bytes
  deriving Repr

def mboxOfStr (s : String) : Option MBox :=
  match s.splitOn "/" with
  | [l, h] => match unhex l, (if h == "~" then some none else (unhex h).map some) with
    | some l, some h => some { loc := l, host := h }
    | _, _ => none
  | _ => none

def mboxesOfStr (s : String) : Option (List MBox) :=
  if s.isEmpty then some [] else (s.splitOn ",").mapM mboxOfStr

/-- `k=mb,mb;k=…` -/
def expectOfStr (s : String) : Option (List (Char × List MBox)) :=
  if s == "-" then some [] else
  (s.splitOn ";").mapM (fun f => match f.toList with
    | k :: '=' :: r => (mboxesOfStr (String.ofList r)).map (fun m => (k, m))
    | _ => none)

def hexList (s : String) : Option (List Bytes) :=
  if s == "-" then some [] else (s.splitOn ",").mapM (fun x => if x == "e" then some [] else unhex x)

def hexListStr (l : List Bytes) : String :=
  if l.isEmpty then "-" else ",".intercalate (l.map (fun b => if b.isEmpty then "e" else hex b))

def optHex (s : String) : Option (Option Bytes) := if s == "~" then some none else (unhex s).map some

def sortBytes (l : List Bytes) : List Bytes := (l.toArray.qsort (fun a b => decide (a < b))).toList

/-! ### line handlers -/

def note (st : Stats) (key : Bytes) (nontriv : Bool) : Stats :=
  let h := hashBytes key
  let fresh := !st.seen.contains h
  { st with cases := st.cases + 1, seen := st.seen.insert h,
            nontrivial := st.nontrivial + (if fresh && nontriv then 1 else 0) }

def disagree (st : Stats) (msg : String) : IO Stats := do
  IO.println s!"DISAGREE {msg}"
  return { st with disagree := st.disagree + 1 }

def oracleFail (st : Stats) (msg : String) : IO Stats := do
  IO.println s!"ORACLE {msg}"
  return { st with oracle := st.oracle + 1 }

/-- one SMTP command line as qmail-smtpd reads it (model side): (verb matches, addrparse rc, address) -/
def smtpSide (line : Bytes) (verb : String) : Bool × Int × Bytes :=
  let (mverb, marg) := match readLine line with
    | some (ln, _) => splitCmd ln
    | none => ([], [])
  let mverbOk := lower mverb == str verb
  let maddr := if mverbOk then addrparse smtpdCfg marg else none
  (mverbOk, (if !mverbOk then -1 else if maddr.isSome then 1 else 0),
   maddr.getD (if mverbOk then (localIp smtpdCfg (copyAddr 62 false false (stripRoute ((afterFirst 60 marg).getD [])))) else []))

def handleQ (st : Stats) (f : List String) : IO Stats := do
  match f with
  | [lh, dh, needS, qh, q2h, prcS, toksS, uqh, mh, verbS, aprcS, addrh, arcS, gotS, verb2S, aprc2S, addr2h] =>
    match unhex lh, unhex dh, unhex uqh, unhex addrh, unhex addr2h with
    | some l, some d, some uq, some addr, some addr2 =>
      let a := l ++ [AT] ++ d
      let need := quoteNeed l
      let mut st := note st (81 :: a) need
      st := st.bump (if need then "Q_quoted" else "Q_plain")
      -- model
      let mq2 := quote2 a
      let mtoks := parse mq2
      let mm := addrmangle a
      let (mverbOk, mrc, maddr) := smtpSide (mailFromLine a) "mail"
      let (mverbOk2, mrc2, maddr2) := smtpSide (rcptToLine a) "rcpt"
      let mal := mtoks.map (fun ts => addrlist id (Tok.atom [84] :: Tok.colon :: ts))
      let mline := s!"{if need then 1 else 0} {hex (quote l)} {hex mq2} {if mtoks.isSome then 1 else 0} {optToksStr mtoks} " ++
        s!"{hex ((mtoks.map unquote).getD [])} {hex mm} {if mverbOk then 1 else 0} {mrc} {hex maddr} " ++
        s!"{match mal with | some r => (if r.ok then 1 else 0) | none => 0} {match mal with | some r => gotStr r.got | none => "-"} " ++
        s!"{if mverbOk2 then 1 else 0} {mrc2} {hex maddr2}"
      let iline := s!"{needS} {qh} {q2h} {prcS} {toksS} {uqh} {mh} {verbS} {aprcS} {addrh} {arcS} {gotS} {verb2S} {aprc2S} {addr2h}"
      if mline != iline then
        st ← disagree st s!"kind=Q in={lh} dom={dh} impl={iline} model={mline}"
      -- oracle (1): header round trip, on the implementation's own quote2 / parse / unquote / addrlist
      -- (C17_header_roundtrip_addrlist: accepted, unquotes to the address, shape, ONE callback with the whole address)
      if saneDomain d then
        st := st.bump "Q_header_checked"
        let (shapeOk, oneCb) := match toksOfStr toksS with
          | some ts => (mailboxShape ts, arcS == "1" && gotS == gotStr [ts.reverse])
          | none => (false, false)
        if !(prcS == "1" && uq == a && shapeOk && oneCb) then
          st ← oracleFail st s!"kind=Qheader in={lh} dom={dh} quote2={q2h} parse_rc={prcS} tokens={toksS} unquote={uqh} addrlist_rc={arcS} got={gotS} expected={hex a}"
      -- oracle (2): SMTP round trip, on the implementation's own addrmangle / commands / addrparse, MAIL FROM and RCPT TO
      if smtpDomain d then
        let expect : Option Bytes :=
          if isLocalLiteral smtpdCfg d then
            (if (l ++ [AT] ++ str "lip.example").length + 1 > 900 then none else some (l ++ [AT] ++ str "lip.example"))
          else if a.length + 1 > 900 then none else some a
        let ok1 := verbS == "1" && (match expect with
          | some e => aprcS == "1" && addr == e
          | none => aprcS == "0")
        let ok2 := verb2S == "1" && (match expect with
          | some e => aprc2S == "1" && addr2 == e
          | none => aprc2S == "0")
        st := st.bump (if isLocalLiteral smtpdCfg d then "Q_localip" else if a.length + 1 > 900 then "Q_toolong" else "Q_smtp")
        if !ok1 then
          st ← oracleFail st s!"kind=Qsmtp in={lh} dom={dh} mangled={mh} verb={verbS} addrparse_rc={aprcS} addr={addrh} expected={(expect.map hex).getD "refused"}"
        if !ok2 then
          st ← oracleFail st s!"kind=Qsmtp_rcpt in={lh} dom={dh} mangled={mh} verb={verb2S} addrparse_rc={aprc2S} addr={addr2h} expected={(expect.map hex).getD "refused"}"
      if st.samples < 2 && need && l.length ≥ 4 then
        IO.println s!"SAMPLE Q local={lh} dom={dh} quote2={q2h} tokens={toksS} unquote={uqh} mangled={mh} addrparse={addrh}"
        st := { st with samples := st.samples + 1 }
      return st
    | _, _, _, _, _ => disagree st s!"unparsable Q line"
  | _ => disagree st s!"unparsable Q line"

/-- comment tokens removed (the predicate of `C17_comments_ignored`; local copy, the lemma file's is not linked) -/
def noComment : Tok → Bool
  | .comment _ => false
  | _ => true

/-! ### R lines: a rendering described piece by piece -/

def hexByte (s : String) : Option Byte :=
  match unhex s with
  | some [b] => some b
  | _ => none

/-- `p<hh>` / `e<hh>` groups -/
def qpOfChars : List Char → Option (List (Byte × Bool))
  | [] => some []
  | k :: a :: b :: r =>
    if k == 'p' || k == 'e' then
      match hexByte (String.ofList [a, b]), qpOfChars r with
      | some c, some ps => some ((c, k == 'e') :: ps)
      | _, _ => none
    else none
  | _ => none

def celOfChars : List Char → Option (List CEl)
  | [] => some []
  | 'o' :: r => (celOfChars r).map (CEl.op :: ·)
  | 'x' :: r => (celOfChars r).map (CEl.cl :: ·)
  | k :: a :: b :: r =>
    if k == 'p' || k == 'e' then
      match hexByte (String.ofList [a, b]), celOfChars r with
      | some c, some els => some (CEl.ch c (k == 'e') :: els)
      | _, _ => none
    else none
  | _ => none

def ctokOfStr (s : String) : Option CTok :=
  match s.toList with
  | 's' :: r => (hexByte (String.ofList r)).map CTok.special
  | 'a' :: r => (if r.isEmpty then some [] else unhex (String.ofList r)).map CTok.atom
  | 'q' :: r => (qpOfChars r).map CTok.quote
  | 'l' :: r => (qpOfChars r).map CTok.literal
  | 'c' :: r => (celOfChars r).map CTok.comment
  | _ => none

def wsOfStr (s : String) : Option Bytes := if s == "-" then some [] else unhex s

/-- items and trailing white space -/
def descOfStr (s : String) : Option (List (Bytes × CTok) × Bytes) :=
  let parts := s.splitOn "/"
  match parts.getLast? with
  | none => none
  | some last =>
    match last.splitOn "~" with
    | [w, "$"] =>
      match wsOfStr w, parts.dropLast.mapM (fun it => match it.splitOn "~" with
          | [w, e] => match wsOfStr w, ctokOfStr e with
            | some w, some k => some (w, k)
            | _, _ => none
          | _ => none) with
      | some tr, some items => some (items, tr)
      | _, _ => none
    | _ => none

def handleP (st : Stats) (f : List String) : IO Stats := do
  match f with
  | [nS, sh, eS, prcS, toksS, uqh, uph, rc2S, toks2S, arcS, outS, gotS, arc2S, got2S] =>
    match unhex sh, nS.toNat? with
    | some s, some n =>
      let mut st := note st (80 :: n.toUInt8 :: s) (s.length > 3)
      let mtoks := parse s
      st := st.bump (if mtoks.isSome then "P_parsed" else "P_refused")
      let mline := match mtoks with
        | none => "0 - - - 0 - 0 - - 0 -"
        | some ts =>
          let up := unparse n ts
          let r := addrlist id ts
          let rn := addrlist id (ts.take 2 ++ (ts.drop 2).filter noComment)
          let t2 := parse up
          s!"1 {toksStr ts} {hex (unquote ts)} {hex up} {if t2.isSome then 1 else 0} {optToksStr t2} " ++
          s!"{if r.ok then 1 else 0} {if r.ok then toksStr r.out else "-"} {gotStr r.got} {if rn.ok then 1 else 0} {gotStr rn.got}"
      let iline := s!"{prcS} {toksS} {uqh} {uph} {rc2S} {toks2S} {arcS} {outS} {gotS} {arc2S} {got2S}"
      if mline != iline then
        st ← disagree st s!"kind=P in={sh} n={nS} impl={iline} model={mline}"
      -- oracle (3): what unparse writes parses back to the same tokens (valid atoms only)
      if prcS == "1" then
        match toksOfStr toksS with
        | some ts =>
          if ts.all cleanTok then
            st := st.bump "P_reparse_checked"
            if !(rc2S == "1" && toks2S == toksS) then
              st ← oracleFail st s!"kind=Preparse in={sh} n={nS} tokens={toksS} unparse={uph} reparse_rc={rc2S} reparse={toks2S}"
        | none => st ← disagree st s!"kind=P unparsable tokens {toksS}"
      -- oracle (4): comment tokens are white space for addrlist (C17_comments_ignored), on the implementation's two runs
      if prcS == "1" then
        st := st.bump "P_nocomment_checked"
        if !(arc2S == arcS && got2S == gotS) then
          st ← oracleFail st s!"kind=Pcomments in={sh} n={nS} tokens={toksS} addrlist_rc={arcS} got={gotS} without_comments_rc={arc2S} without_comments_got={got2S}"
      -- oracle (5): on a generated RFC 822 list the callback sees exactly the listed mailboxes (right to left)
      if eS != "X" then
        match mboxesOfStr (if eS == "-" then "" else eS), gotOfStr gotS with
        | some mbs, some got =>
          st := st.bump "P_grammar_checked"
          let want := mbs.reverse.map (fun m => match m.host with | some h => m.loc ++ [AT] ++ h | none => m.loc)
          let have_ := got.map (fun a => unquote a.reverse)
          if !(arcS == "1" && want == have_) then
            st ← oracleFail st s!"kind=Pmailboxes in={sh} n={nS} E={eS} addrlist_rc={arcS} got={gotS} expected={hexListStr want}"
        | _, _ => st ← disagree st s!"kind=P unparsable expectation {eS} / {gotS}"
      if st.samples < 4 && eS != "X" && s.length > 40 then
        IO.println s!"SAMPLE P n={nS} in={sh} tokens={toksS} unparse={uph} got={gotS}"
        st := { st with samples := st.samples + 1 }
      return st
    | _, _ => disagree st "unparsable P line"
  | _ => disagree st "unparsable P line"

/-- R line: the harness describes a rendering (`desc`), gives the text it parsed and what the real
`token822_parse` returned.  DISAGREE: the text is not `render desc`, or the model tokenizes it differently.
ORACLE (`C17_parse_render` on the implementation): if the description is legal (`CTok.ok`, `sepsOk`, white
space), the real parser must have accepted and returned exactly `desc`'s tokens. -/
def handleR (st : Stats) (f : List String) : IO Stats := do
  match f with
  | [descS, texth, rcS, toksS] =>
    match descOfStr descS, unhex texth with
    | some (items, tr), some text =>
      let mut st := note st (82 :: text) (items.length > 3)
      if render items tr != text then
        st ← disagree st s!"kind=Rtext desc={descS} text={texth} render={hex (render items tr)}"
      let mt := parse text
      let mline := s!"{if mt.isSome then 1 else 0} {optToksStr mt}"
      if mline != s!"{rcS} {toksS}" then
        st ← disagree st s!"kind=R desc={descS} text={texth} impl={rcS} {toksS} model={mline}"
      if items.all (fun p => p.2.ok) && sepsOk false items && tr.all isWs then
        st := st.bump "R_legal_checked"
        let want := toksStr (items.map (fun p => p.2.tok))
        if !(rcS == "1" && toksS == want) then
          st ← oracleFail st s!"kind=Rrender desc={descS} text={texth} parse_rc={rcS} tokens={toksS} expected={want}"
      else
        st := st.bump "R_not_legal_skipped"
      return st
    | _, _ => disagree st s!"unparsable R line {descS.take 200}"
  | _ => disagree st "unparsable R line"

structure Clock where
  starttime : Nat := 0
  pid : Nat := 0
  date : Bytes := []
  stamp : Bytes := []

/-- does some header field of the message have a comment between `<` and `>`?  (only used to label an
oracle failure with the class of the known finding C17-angle-comment; it never decides a verdict) -/
def commentInAngle : List Tok → Bool → Bool
  | [], _ => false
  | .left :: r, _ => commentInAngle r true
  | .right :: r, _ => commentInAngle r false
  | .comment _ :: r, inA => inA || commentInAngle r inA
  | _ :: r, inA => commentInAngle r inA

def angleComment (inp : Bytes) : Bool :=
  (headerbody inp).fields.any (fun h => match parse h with
    | some ts => commentInAngle ts false
    | none => false)

def handleI (clk : Clock) (st : Stats) (f : List String) : IO Stats := do
  match f with
  | [flagsS, stratS, fsS, recS, envS, inh, eS, exS, sndh, rcpS, msgh, ex2S, rcp2S] =>
    let envF := (envS.splitOn ",").map optHex
    match unhex inh, hexList recS, (if fsS == "N" then some none else (unhex fsS).map some), envF, unhex sndh, hexList rcpS, unhex msgh, hexList rcp2S with
    | some inp, some args, some fs, [some user, some host, some shost, some suser, some name, some dd, some dh, some pd, some idh],
      some snd, some rcps, some msg, some rcps2 =>
      let flags : Bytes := if flagsS == "-" then [] else flagsS.toUTF8.toList
      let strat := match stratS.toList.head? with | some 'a' => 2 | some 'h' => 3 | some 'H' => 4 | _ => 1
      let queue := !(stratS.toList.contains 'n')
      let env : Env := {
        flags := flags, mailhost := host, shost := shost, mailuser := user.getD (str "anonymous"),
        suser := suser, fullname := name, defaultdomain := dd.getD (str "defaultdomain"),
        defaulthost := dh.getD (str "defaulthost"), plusdomain := pd.getD (str "plusdomain"), idhost := idh.getD (str "idhost"),
        date := clk.date, stamp := clk.stamp, starttime := clk.starttime, pid := clk.pid }
      let a : Args := { strategy := strat, queue := queue, fsender := fs, recips := args }
      let mut st := note st (73 :: (flags ++ stratS.toUTF8.toList ++ inp ++ args.flatten)) (eS != "X" && eS != "-")
      st := st.bump ("I_exit" ++ exS)
      st := st.bump ("I_strategy_" ++ stratS)
      let r := inject env a inp
      let agree := if exS != "0" then exS == toString r.exit
        else r.exit == 0 && r.sender == snd && r.recips == rcps && r.msg == msg
      if !agree then
        st ← disagree st s!"kind=I flags={flagsS} strat={stratS} f={fsS} args={recS} env={envS} in={inh} impl={exS} {sndh} {rcpS} {msgh} model={r.exit} {hex r.sender} {hexListStr r.recips} {hex r.msg}"
      -- oracle (9) (audit repair: a grammar case that BOTH sides reject used to be silent): on a generated,
      -- grammatical header (E known by construction) qmail-inject must not die — `C17_envelope` says parse and
      -- addrlist succeed on every legal rendering, and every generated argument / -f value is parsable
      if eS != "X" && exS != "0" then
        st ← oracleFail st s!"kind=Irejected flags={flagsS} strat={stratS} f={fsS} args={recS} env={envS} in={inh} E={eS} exit={exS}"
      if eS != "X" && !queue then
        st := st.bump "I_generated_not_queued_skipped"
      if exS == "0" && queue then
        st := st.bump "I_hidden_checked"
        -- the second run (the produced message injected again with -h)
        let r2 := inject env { strategy := 3 } msg
        if !(ex2S == toString r2.exit && (r2.exit != 0 || r2.recips == rcps2)) then
          st ← disagree st s!"kind=I2 env={envS} in={msgh} impl={ex2S} {rcp2S} model={r2.exit} {hexListStr r2.recips}"
        -- do the (token-level) hypotheses of C17_bcc_text_tokens_partial hold (then oracle (7) is a theorem for the model's message)?
        match parse ([46] ++ env.defaultdomain), parse ([AT] ++ env.defaulthost), parse ([46] ++ env.plusdomain) with
        | some tdd, some tdh, some tpd =>
          let c : RwCfg := { defaulthost := tdh, defaultdomain := tdd, plusdomain := tpd }
          let ps := Nq.Spec.Hidden.pieceSafe
          let hyp := ps env.date && ps (str "Resent-" ++ env.date) && ps (msgid env) && ps (str "Resent-" ++ msgid env) &&
            Nq.Spec.Hidden.fromOk env c &&
            (Nq.Spec.HeaderBody.specFields inp).all (fun h => (fieldClass (hfieldKnown h)).1 == 0 || nameIn hiddenFields h ||
              Nq.Spec.Hidden.rewrittenOk c h)
          st := st.bump (if hyp then "I_hidden_theorem_applies" else "I_hidden_theorem_hypothesis_fails")
        | _, _, _ => pure ()
        -- oracle (7): no Bcc / Resent-Bcc / Return-Path / Content-Length field in the produced header
        let names := fieldNames msg
        if names.any (fun n => hiddenFields.contains n) then
          st ← oracleFail st s!"kind=Ihidden flags={flagsS} strat={stratS} f={fsS} args={recS} env={envS} in={inh} E={eS} message={msgh}"
        if eS != "X" then
          match expectOfStr eS with
          | some ex =>
            let spec : RwSpec := { defaulthost := env.defaulthost, defaultdomain := env.defaultdomain, plusdomain := env.plusdomain }
            let rw := fun (m : MBox) => rewriteMailbox spec m.loc m.host
            let of := fun (ks : List Char) => ((ex.filter (fun p => ks.contains p.1)).map (fun p => p.2.map rw)).flatten
            let resent := ex.any (fun p => ['T', 'C', 'B', 'r'].contains p.1)
            let hdr := if resent then of ['T', 'C', 'B'] else of ['t', 'c', 'b', 'a']
            let useArgs := strat == 2 || strat == 4 || (strat == 1 && !args.isEmpty)
            let useHdr := strat == 3 || strat == 4 || (strat == 1 && args.isEmpty)
            let want := (if useArgs then of ['A'] else []) ++ (if useHdr then hdr else [])
            st := st.bump (if resent then "I_resent" else "I_plain")
            st := st.bump "I_envelope_checked"
            -- oracle (6): envelope recipients = listed mailboxes after the documented rewriting (as a multiset)
            if sortBytes want != sortBytes rcps then
              st ← oracleFail st s!"kind=Irecipients{if angleComment inp then " class=angle-comment" else ""} flags={flagsS} strat={stratS} f={fsS} args={recS} env={envS} in={inh} E={eS} recipients={rcpS} expected={hexListStr want}"
            -- oracle (8): the rewritten header parses again to the same (visible) addresses
            let want2 := if resent then of ['T', 'C'] else of ['t', 'c', 'a']
            if !(ex2S == "0" && sortBytes want2 == sortBytes rcps2) then
              st ← oracleFail st s!"kind=Ireparse{if angleComment inp then " class=angle-comment" else ""} flags={flagsS} strat={stratS} f={fsS} args={recS} env={envS} in={inh} E={eS} message={msgh} recipients2={rcp2S} expected={hexListStr want2}"
          | none => st ← disagree st s!"kind=I unparsable expectation {eS}"
      if st.samples < 6 && eS != "X" && eS != "-" && exS == "0" && inp.length > 60 then
        IO.println s!"SAMPLE I flags={flagsS} strat={stratS} args={recS} in={inh} sender={sndh} recipients={rcpS} message={msgh}"
        st := { st with samples := st.samples + 1 }
      return st
    | _, _, _, _, _, _, _, _ => disagree st "unparsable I line"
  | _ => disagree st s!"unparsable I line ({f.length} fields)"

/-- B line: the real `headerbody()` run directly.  DISAGREE: the model `Inject.headerbody` delivers other fields /
body pieces (or the call failed).  ORACLES, on the IMPLEMENTATION's fields and body (`C17_headerbody_spec`,
`C17_headerbody_laws`): they are the description's (`Spec.HeaderBody.specFields/specBody`); they reassemble the
input (`reassembles`); every field is accepted by `hfield_valid`'s model and is one logical line; `hdone` was
called once, between the fields and the body. -/
def handleB (st : Stats) (f : List String) : IO Stats := do
  match f with
  | [inh, rcS, ordS, fieldsS, bodyS] =>
    match unhex inh, hexList fieldsS, hexList bodyS with
    | some inp, some flds, some body =>
      let ls := Nq.Spec.HeaderBody.linesOf inp
      let mut st := note st (66 :: inp) (flds.length > 0 && body.length > 0)
      st := st.bump "B_checked"
      st := st.bump (if flds.length ≥ 3 then "B_fields_3plus" else s!"B_fields_{flds.length}")
      if flds.any (fun x => Nq.Spec.HeaderBody.isFromLine (Nq.Spec.HeaderBody.unalter x) && Nq.Spec.HeaderBody.unalter x != x) then st := st.bump "B_mbox_line"
      if flds.any (fun x => (x.dropLast.contains LF)) then st := st.bump "B_continuation"
      if body.isEmpty then st := st.bump "B_no_body"
      match Nq.Spec.HeaderBody.rest ls with
      | l :: _ => if l != [LF] then st := st.bump (if Nq.Spec.HeaderBody.isCont l then "B_ended_by_stray_continuation" else "B_inserted_blank_line")
                  else st := st.bump "B_blank_line_separator"
      | [] => pure ()
      if !inp.isEmpty && inp.getLast? != some LF then st := st.bump "B_unterminated_last_line"
      let hb := headerbody inp
      if !(rcS == "0" && hb.fields == flds && hb.body == body) then
        st ← disagree st s!"kind=B in={inh} impl={rcS} {fieldsS} {bodyS} model=0 {hexListStr hb.fields} {hexListStr hb.body}"
      if !(Nq.Spec.HeaderBody.specFields inp == flds && Nq.Spec.HeaderBody.specBody inp == body) then
        st ← oracleFail st s!"kind=Bspec in={inh} fields={fieldsS} body={bodyS} expected_fields={hexListStr (Nq.Spec.HeaderBody.specFields inp)} expected_body={hexListStr (Nq.Spec.HeaderBody.specBody inp)}"
      if !(Nq.Spec.HeaderBody.reassembles inp flds body) then
        st ← oracleFail st s!"kind=Breassemble in={inh} fields={fieldsS} body={bodyS}"
      if !(flds.all (fun x => hfieldValid x && Nq.Spec.HeaderBody.logicalLine x)) then
        st ← oracleFail st s!"kind=Bfield in={inh} fields={fieldsS}"
      if ordS != "1" then
        st ← oracleFail st s!"kind=Border in={inh} fields={fieldsS} body={bodyS}"
      return st
    | _, _, _ => disagree st "unparsable B line"
  | _ => disagree st "unparsable B line"

/-- the executable form of `Nq.Lemmas.C17HB.wfField` (the lemma file is not linked): one logical line, valid name, not a `From ` line -/
def wfFieldX (t : Bytes) : Bool := Nq.Spec.HeaderBody.logicalLine t && hfieldValid t && !Nq.Spec.HeaderBody.isFromLine t

/-- W line: a message built by construction from field texts and a tail.  When the hypotheses of
`C17_headerbody_wellformed` hold (every text `wfField`, tail empty or beginning with LF) the ORACLE requires the real
`headerbody()` to have delivered exactly these texts and a body that flattens to the tail (final LF supplied). -/
def handleW (st : Stats) (f : List String) : IO Stats := do
  match f with
  | [textsS, tailS, rcS, ordS, fieldsS, bodyS] =>
    match hexList textsS, unhex tailS, hexList fieldsS, hexList bodyS with
    | some texts, some tail, some flds, some body =>
      let inp := texts.flatten ++ tail
      let mut st := note st (87 :: inp) (texts.length > 1)
      let hb := headerbody inp
      if !(rcS == "0" && hb.fields == flds && hb.body == body) then
        st ← disagree st s!"kind=W texts={textsS} tail={tailS} in={hex inp} impl={rcS} {fieldsS} {bodyS} model=0 {hexListStr hb.fields} {hexListStr hb.body}"
      if texts.all wfFieldX && (tail.isEmpty || tail.head? == some LF) then
        st := st.bump "W_wellformed_checked"
        if texts.any (fun t => t.dropLast.contains LF) then st := st.bump "W_with_continuation"
        if !(ordS == "1" && flds == texts && body.flatten == Nq.Spec.HeaderBody.norm tail) then
          st ← oracleFail st s!"kind=Wfields texts={textsS} tail={tailS} in={hex inp} fields={fieldsS} body={bodyS}"
      else
        st := st.bump "W_not_wellformed_skipped"
      return st
    | _, _, _, _ => disagree st "unparsable W line"
  | _ => disagree st "unparsable W line"

def handle (clk : IO.Ref Clock) (st : Stats) (line : String) : IO Stats := do
  match fields line with
  | "Q" :: f => handleQ st f
  | "P" :: f => handleP st f
  | "R" :: f => handleR st f
  | "I" :: f => handleI (← clk.get) st f
  | "B" :: f => handleB st f
  | "W" :: f => handleW st f
  | ["C", t, p, d, s] =>
    clk.set { starttime := t.toNat?.getD 0, pid := p.toNat?.getD 0, date := (unhex d).getD [], stamp := (unhex s).getD [] }
    return st
  | [] => return st
  | _ => disagree st s!"unparsable line {line.take 200}"

def main : IO Unit := do
  let clk ← IO.mkRef ({} : Clock)
  runDriver (handle clk)
