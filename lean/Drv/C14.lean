/- Driver for C14: the real stripvdomprepend()/addbounce()/del_dochan()/getcontrols()/injectbounce()
   (harness/c14_bounce.c) against `Nq.Bounce`; the oracle is `Nq.BounceSpec` (paragraph reader,
   governing virtualdomains entry, envelope rules) evaluated on what the implementation produced.
   Input lines (hex fields, blob = NUL-separated case fields):
     P <blob> <stripped> <text> <sleeps> <flagstrip> <stored>
     I <id> <blob> <bouncefile> <ret> <q> <F> <T> <body> <left> <log> <ret2> <q2> <F2> <T2> <body2|=> <left2> <log2> <sizes> <routes>
     Q <blob> <bouncefile> <ret> <left> <rec> <msg> <env> <ret2> <left2> <rec2> <msg2> <env2> <routes>
     C <blob> <n> <sender0> {<F> <T>}*
     D <blob> <appended>
   Daemon level (C14_daemon_*): every I line is also replayed as the whole life of message <id> through the
   monitor `Nq.Daemon.accept` with the history layer `Nq.BounceDaemon` (arrival, preprocessing, one D report per
   failure, `appendBounce` with the bytes the real addbounce() appended, the injection(s) with the envelope and text
   the real injectbounce() handed to qmail-queue, the unlink of bounce/<id> when the real code removed it); the I
   lines of one C case (ids 4711, 4712, …) run through ONE monitor, so the chain message -> bounce -> double bounce ->
   discard is one accepted event sequence.
   Oracle inputs are computed on the SPEC side from the raw control-file bytes of the case (`specVdoms`, `specLocals`,
   `specDoubleBounceTo` of Nq.BounceSpec), not with the model's `getcontrols`/`readfile`; the model's values are used for the
   DISAGREE channel only (and a difference between the two parses is itself a DISAGREE).
   Channels: `addbounce(id,recip,report,flagstrip)`; the harness prints flagstrip and the stored recipient of every failure.  P
   mode A and every I/C/Q failure start from an ORIGINAL address routed by the real rewrite(): its (channel, stored form) is
   compared with C10's model `Nq.Rewrite.rewrite` over the spec-side tables (DISAGREE), and the END-TO-END oracle demands that the
   paragraph names the routed address `(rewrite c a).addr` whenever the non-ambiguity hypothesis of C14_bounce_names_routed_address
   holds (always on the remote channel).  Q lines come from the binary that links the REAL qmail.c with a scripted queue program. -/
import Drv.Util
import Nq.Bounce
import Nq.Spec.BounceSpec
import Nq.BounceDaemon
import Nq.BounceQq
import Nq.Rewrite

open Nq Nq.Bounce Nq.BounceSpec Nq.BounceDaemon Drv

def splitNul (b : Bytes) : List Bytes :=
  let rec go : Bytes → Bytes → List Bytes → List Bytes
    | [], cur, acc => (cur.reverse :: acc).reverse
    | c :: r, cur, acc => if c == 0 then go r [] (cur.reverse :: acc) else go r (c :: cur) acc
  go b [] []

def fld (fs : List Bytes) (i : Nat) : Bytes := fs.getD i []

def pairsFrom : List Bytes → List (Bytes × Bytes)
  | a :: b :: r => (a, b) :: pairsFrom r
  | _ => []

def DATE : Bytes := str "Date: 26 Sep 1995 04:46:53 -0000\n"
def QP : Nat := 4242
def chainReport : Bytes := str "Sorry, I couldn't find any host by that name. (#5.1.2)\n"
/-- what the harness prints for "the file does not exist" -/
def ABSENT : Bytes := [0]

def faultOf (b : Bytes) : Fault :=
  match b.head? with
  | some 97 => .info | some 98 => .statErr | some 99 => .qqOpen | some 100 => .bounceOpen
  | some 101 => .bounceRead | some 102 => .messOpen | some 103 => .messRead | some 104 => .qqClose
  | some 105 => .unlink | _ => .none

def controlsOf (fs : List Bytes) : Controls :=
  let has (c : UInt8) (i : Nat) : Option Bytes := if (fld fs 0).contains c then some (fld fs i) else none
  -- with neither control/me nor control/locals the harness supplies locals = "localhost" (getcontrols() would refuse to start)
  let loc : Option Bytes := match has 108 7, has 109 1 with
    | some l, _ => some l
    | none, some _ => none
    | none, none => some (str "localhost\n")
  { me := has 109 1, bouncefrom := has 102 2, bouncehost := has 104 3, doublebounceto := has 116 4,
    doublebouncehost := has 100 5, virtualdomains := has 118 6, locals := loc }

/-- envnoathost as getcontrols() reads it when there is no control/envnoathost: first line of control/me, else the literal -/
def envOf (c : Controls) : Bytes :=
  match c.me with
  | some m => specFirstLine m
  | none => str "envnoathost"

/-- spec-side VERP base, written independently of `verpBase`: drop a final "-@[]" -/
def specBase (s : Bytes) : Bytes :=
  match s.reverse with
  | 93 :: 91 :: 64 :: 45 :: r => r.reverse
  | _ => s

def unhexList (s : String) : Option (List Bytes) :=
  if s == "-" then some [] else (s.splitOn ",").mapM unhex

def isSuffix (a b : Bytes) : Bool := a.reverse.isPrefixOf b.reverse

def dropTrailingLF (t : Bytes) : Bytes := (t.reverse.dropWhile (· == LF)).reverse

/-- naming oracle over the paragraphs of a bounce file / notice -/
def namingOK (ls : List Bytes) (es : List (Bytes × Bytes)) (fails : List Fail) (ps : List Bytes) : Bool :=
  (List.zip fails ps).all (fun (fr, p) => (recipLine (namedRecipient fr.1 ls es fr.2.1)).isPrefixOf p)

/-- C10's configuration from the spec-side tables (no percenthack file in these cases) -/
def rcfgOf (env : Bytes) (ls : List Bytes) (es : List (Bytes × Bytes)) : Rewrite.Cfg :=
  { env := env, ph := [], locals := ls.map (fun l => ⟨l, []⟩), vdoms := es.map (fun e => ⟨e.1, e.2⟩) }

def ENVDEFAULT : Bytes := str "envnoathost"

/-- channel flag and stored recipient `rewrite()` gives an original address (C10's model) -/
def routeOf (rc : Rewrite.Cfg) (a : Bytes) : Bool × Bytes :=
  let r := Rewrite.rewrite rc a
  (r.chan == .loc, if r.tag = [] then r.addr else r.tag ++ 45 :: r.addr)

/-- END TO END (C14_bounce_names_routed_address evaluated on the implementation): the paragraph `p` written for the original
address `a` must begin with the line naming the routed address — required whenever the non-ambiguity hypothesis holds.
`none` = hypothesis fails (inherent ambiguity, skipped), `some ok` otherwise. -/
def e2eCheck (rc : Rewrite.Cfg) (es : List (Bytes × Bytes)) (a p : Bytes) : Option Bool :=
  let r := Rewrite.rewrite rc a
  let stored := if r.tag = [] then r.addr else r.tag ++ 45 :: r.addr
  let unamb := r.tag = [] || (match userSplit es stored with | none => true | some rest => rest == r.addr)
  if unamb then some ((recipLine r.addr).isPrefixOf p) else none

/-- "<flag>:<storedhex>,…" -/
def parseRoutes (s : String) : Option (List (Bool × Bytes)) :=
  if s == "-" then some [] else
  (s.splitOn ",").mapM (fun it => match it.splitOn ":" with
    | [f, h] => match b01' f, unhex h with
      | some fl, some st => some (fl, st)
      | _, _ => none
    | _ => none)
where b01' (s : String) : Option Bool := if s == "1" then some true else if s == "0" then some false else none

/-- oracle for one recipient paragraph as written by the implementation; `named` = the address it must name -/
def paragraphOK (named report text : Bytes) : Option String :=
  let hdr := recipLine named
  let rep' := if !report.isEmpty && report.getLast? != some LF then report ++ [LF] else report
  let body := text.drop hdr.length
  if (paragraphs text).length != 1 then some "not-exactly-one-paragraph"
  else if !hdr.isPrefixOf text then some "does-not-start-with-recipient-line"
  else if !isSuffix [LF, LF] text then some "no-blank-line-at-end"
  else if hasLFLF (dropTrailingLF text) then some "blank-line-inside"
  else if !(body.length == rep'.length + 1 && sanit rep' body.dropLast) then some "report-text-not-shown"
  else none

/-- oracle for the envelope of a queued message / for not queueing -/
def envelopeOK (dbto : Bytes) (sender : Bytes) (q : Bool) (f : Bytes) (t : List Bytes) : Option String :=
  let base := specBase sender
  if base == DBSENDER then (if q then some "double-bounce-failure-was-not-discarded" else none)
  else if !q then none
  else if base.isEmpty then
    (if f == DBSENDER && t == [dbto] then none else some "double-bounce-envelope-wrong")
  else (if f.isEmpty && t == [base] then none else some "bounce-envelope-wrong")

/-- oracle for the text of a queued notice.  `ls`/`es`/`dbto` = spec-side tables and double-bounce address.  The stated
predicates are: the original message is a suffix; one paragraph per failed recipient, in order, each naming its recipient;
two header paragraphs before them.  The model's `trailer` is used only to LOCATE the end of the recipient paragraphs (the
marker and Return-Path line sit between them and the message). -/
def noticeOK (ls : List Bytes) (es : List (Bytes × Bytes)) (dbto : Bytes) (sender mess : Bytes) (fails : List Fail) (body : Bytes) : Option String :=
  let base := specBase sender
  let single := !base.isEmpty
  let tail := trailer single base mess
  if !isSuffix mess body then some "original-message-not-appended"
  else if !isSuffix tail body then some "marker-and-return-path-missing-before-the-original-message" else
  let front := body.take (body.length - tail.length)
  let ps := paragraphs front
  let n := fails.length
  let rcptParas := ps.drop (ps.length - n)
  let toAddr := if single then base else dbto
  if ps.length < n then some "fewer-paragraphs-than-failed-recipients"
  -- a sender whose domain part carries LFs can put a blank line into its own To: field (quote2 copies the
  -- domain part verbatim); the count of the header paragraphs is then not 2, the recipient paragraphs are
  -- still checked from the end
  else if !hasLFLF (Quote.quote2 toAddr ++ [LF]) && ps.length != n + 2 then some "paragraph-count-differs-from-failed-recipients"
  else if !namingOK ls es fails rcptParas then some "paragraph-does-not-name-its-recipient"
  else none

def showRes (r : Res) : String :=
  match r.queued with
  | some m => s!"ret={r.ret} q=1 F={hex m.sender} T={",".intercalate (m.rcpts.map hex)} body={hex m.body} left={r.bounce.isSome} log={hex r.log}"
  | none => s!"ret={r.ret} q=0 left={r.bounce.isSome} log={hex r.log}"

structure Out where
  st : Stats
  msgs : List String := []

def Out.dis (o : Out) (m : String) : Out :=
  { st := { o.st with disagree := o.st.disagree + 1 }, msgs := s!"DISAGREE {m}" :: o.msgs }
def Out.ora (o : Out) (m : String) : Out :=
  { st := { o.st with oracle := o.st.oracle + 1 }, msgs := s!"ORACLE {m}" :: o.msgs }

def b01 (s : String) : Option Bool := if s == "1" then some true else if s == "0" then some false else none

/-- compare one injectbounce call with the model's result -/
def agreeRes (r : Res) (ret q : Bool) (f : Bytes) (t : List Bytes) (body : Option Bytes) (left : Bool)
    (log : Option Bytes) : Bool :=
  r.ret == ret && r.queued.isSome == q && r.bounce.isSome == left &&
  (match log with | some l => r.log == l | none => true) &&
  (match r.queued with
   | some m => m.sender == f && m.rcpts == t && (match body with | some b => m.body == b | none => true)
   | none => true)

def handleP (o : Out) (blobh : String) (blob stripped text : Bytes) (flag : Bool) (stored : Bytes) : Out := Id.run do
  let fs := splitNul blob
  let es : Tables := { locals := readfile (fld fs 4), vdoms := cmEntries (readfile (fld fs 0)) }
  -- spec side, from the bytes
  let sl := specControlLines (fld fs 4)
  let sv := specVdoms (some (fld fs 0))
  let given := fld fs 1
  let report := fld fs 2
  let mode := (fld fs 5).headD 76
  let mut o := o
  o := { o with st := (o.st.bump "kindP").bump (if mode == 65 then "P_mode_address" else if flag then "P_mode_local_record" else "P_mode_remote_record") }
  if sl != es.locals || sv != es.vdoms then
    o := o.dis s!"in={blobh} kind=P what=control-file-parse model-and-spec-differ"
  -- the routing the harness observed from the real rewrite() against C10's model (mode A); direct modes: as given
  let rc := rcfgOf ENVDEFAULT sl sv
  let want : Bool × Bytes := if mode == 65 then routeOf rc given else (mode != 82, given)
  if want != (flag, stored) then
    o := o.dis s!"in={blobh} kind=P what=routing impl={flag}:{hex stored} model={want.1}:{hex want.2}"
  if flag then
    match domainPart stored with
    | some d =>
      if isLocal sl d then o := { o with st := o.st.bump "P_local_domain" }
      else if (userSplit sv stored).isSome then o := { o with st := o.st.bump "P_virtual_user" }
    | none => pure ()
  let ms := stripvdom es stored
  let mt := addbounceText es flag stored report
  if ms != stripped || mt != text then
    o := o.dis s!"in={blobh} kind=P impl={hex stripped} {hex text} model={hex ms} {hex mt}"
  if stripped != stored then o := { o with st := o.st.bump "P_strip_changes" }
  -- stripvdomprepend() itself is the local-channel rule (C14_strip)
  if stripped != namedRecipient true sl sv stored then
    o := o.ora s!"in={blobh} kind=P why=virtual-domain-prefix-not-removed-as-specified stripped={hex stripped} spec={hex (namedRecipient true sl sv stored)}"
  -- what addbounce wrote names the channel-aware address (C14_names, C14_paragraph)
  let spec := namedRecipient flag sl sv stored
  match paragraphOK spec report text with
  | some why => o := o.ora s!"in={blobh} kind=P why={why} flagstrip={flag} stored={hex stored} must-name={hex spec} text={hex text}"
  | none => pure ()
  -- end to end (mode A): the paragraph names the routed address
  if mode == 65 then
    match e2eCheck rc sv given text with
    | some true => o := { o with st := o.st.bump "e2e_checked" }
    | some false => o := o.ora s!"in={blobh} kind=P why=bounce-does-not-name-the-routed-address routed={hex (Rewrite.rewrite rc given).addr} flagstrip={flag} stored={hex stored} text={hex text}"
    | none => o := { o with st := o.st.bump "e2e_ambiguous_skipped" }
  return o

def handleD (o : Out) (blobh : String) (blob appended : Bytes) : Out := Id.run do
  let fs := splitNul blob
  let dying := (fld fs 0).head? == some 49
  -- del_dochan(c) passes `c == 0`: flags[1] = 'r' is the remote channel
  let flag := (fld fs 0).getD 1 108 != 114
  let recip := fld fs 1
  let raw := fld fs 2
  let es : Tables := { locals := readfile (fld fs 5), vdoms := cmEntries (readfile (fld fs 4)) }
  let sl := specControlLines (fld fs 5)
  let sv := specVdoms (some (fld fs 4))
  let mut o := o
  o := { o with st := (o.st.bump "kindD").bump (if flag then "D_local_channel" else "D_remote_channel") }
  if sl != es.locals || sv != es.vdoms then
    o := o.dis s!"in={blobh} kind=D what=control-file-parse model-and-spec-differ"
  let rep := delReport dying (1 :: raw)
  let expect := match rep with | some r => addbounceText es flag recip r | none => ABSENT
  if expect != appended then
    o := o.dis s!"in={blobh} kind=D impl={hex appended} model={hex expect}"
  -- spec: a paragraph iff status 'D', or 'Z' while the message is past its lifetime
  let st := raw.head?
  let want := st == some 68 || (st == some 90 && dying)
  o := { o with st := o.st.bump (if want then "D_bounced" else "D_not_bounced") }
  let spec := namedRecipient flag sl sv recip
  if want then
    if appended == ABSENT then o := o.ora s!"in={blobh} kind=D why=permanent-failure-not-recorded"
    else if (paragraphs appended).length != 1 then o := o.ora s!"in={blobh} kind=D why=not-exactly-one-paragraph text={hex appended}"
    else if !(recipLine spec).isPrefixOf appended then
      o := o.ora s!"in={blobh} kind=D why=does-not-start-with-recipient-line channel-local={flag} must-name={hex spec} text={hex appended}"
    else if raw.length + 1 < Gen.REPORTMAX && st == some 68 then
      match paragraphOK spec (raw.drop 1) appended with
      | some why => o := o.ora s!"in={blobh} kind=D why={why} text={hex appended}"
      | none => pure ()
  else if appended != ABSENT then o := o.ora s!"in={blobh} kind=D why=bounce-recorded-without-permanent-failure text={hex appended}"
  return o

/-- D leg, write-ahead order (session 4): the failure record is written before the recipient is marked done.  `ord` = the order of
the real writes ('a' to bounce/<id>, 'M' to the channel file), `mk` = first byte of the channel record afterwards.  DISAGREE against
`BounceQq.delOrder`; ORACLE (independent of the model): for a permanent failure (status D, or Z on a dying message) every write to
bounce/<id> comes before the first write of the mark, and the mark is made. -/
def orderD (o : Out) (blobh : String) (blob appended : Bytes) (ord mk : String) : Out := Id.run do
  let fs := splitNul blob
  let dying := (fld fs 0).head? == some 49
  let raw := fld fs 2
  let evs : List BounceQq.DelEv := (if ord == "-" then [] else ord.toList).map (fun c => if c == 'a' then .record else .mark)
  let mut o := o
  if evs != BounceQq.delOrder dying raw then
    o := o.dis s!"in={blobh} kind=D what=order-of-record-and-mark impl={ord} model={(BounceQq.delOrder dying raw).map (fun e => if e == .record then "a" else "M")}"
  let st := raw.head?
  let want := st == some 68 || (st == some 90 && dying)
  if want then
    o := { o with st := o.st.bump "D_record_then_mark_checked" }
    if !BounceQq.recordBeforeMark evs then
      o := o.ora s!"in={blobh} kind=D why=recipient-marked-done-before-its-failure-record-was-written order={ord} legend=a:write-to-bounce-file,M:write-of-the-done-mark"
    else if mk != "D" || appended == ABSENT then
      o := o.ora s!"in={blobh} kind=D why=permanent-failure-not-recorded-and-marked mark={mk}"
  else if st == some 75 then
    if mk != "D" then o := o.ora s!"in={blobh} kind=D why=delivered-recipient-not-marked-done mark={mk}"
  else if mk != "T" then o := o.ora s!"in={blobh} kind=D why=recipient-marked-done-without-success-or-permanent-failure mark={mk}"
  return o

def handleI (o : Out) (id : Nat) (blobh : String) (blob : Bytes) (bfile : Option Bytes)
    (ret q : Bool) (f : Bytes) (t : List Bytes) (body : Bytes) (left : Bool) (log : Bytes)
    (ret2 q2 : Bool) (f2 : Bytes) (t2 : List Bytes) (body2 : Option Bytes) (left2 : Bool) (routes : List (Bool × Bytes)) : Out := Id.run do
  let fs := splitNul blob
  let ctl := controlsOf fs
  let cfg := getcontrols ctl
  -- spec side, from the control-file bytes
  let sl := specLocals ctl.locals ctl.me
  let sv := specVdoms ctl.virtualdomains
  let sdb := specDoubleBounceTo ctl.doublebounceto ctl.doublebouncehost ctl.me
  let fault := faultOf (fld fs 8)
  let sender := fld fs 9
  let mess := fld fs 10
  -- the failures: original address + report in the blob; (flagstrip, stored) as the real rewrite() routed them
  let given := pairsFrom (fs.drop 11)
  let rc := rcfgOf (envOf ctl) sl sv
  let fails : List Fail := (List.zip routes given).map (fun (rt, g) => (rt.1, rt.2, g.2))
  let mut o := o
  o := { o with st := (o.st.bump "kindI").bump ("fault_" ++ String.ofList [Char.ofNat ((fld fs 8).headD 45).toNat]) }
  if sl != cfg.locals || sv != cfg.vdoms || sdb != cfg.doublebounceto then
    o := o.dis s!"in={blobh} kind=I what=controls model-and-spec-differ spec-dbto={hex sdb} model-dbto={hex cfg.doublebounceto}"
  if routes != given.map (fun g => routeOf rc g.1) then
    o := o.dis s!"in={blobh} kind=I what=routing impl={routes.map (fun r => s!"{r.1}:{hex r.2}")} model={(given.map (fun g => routeOf rc g.1)).map (fun r => s!"{r.1}:{hex r.2}")}"
  for rt in routes do o := { o with st := o.st.bump (if rt.1 then "I_failure_local_channel" else "I_failure_remote_channel") }
  -- model
  let mb := if fails.isEmpty then none else some (bounceFile cfg.tables fails)
  if mb != bfile then
    o := o.dis s!"in={blobh} kind=I what=bouncefile impl={match bfile with | some b => hex b | none => "absent"} model={match mb with | some b => hex b | none => "absent"}"
  let r1 := inject cfg DATE id QP fault sender mb mess
  if !agreeRes r1 ret q f t (some body) left (some log) then
    o := o.dis s!"in={blobh} kind=I what=call1 impl=ret={ret} q={q} F={hex f} T={",".intercalate (t.map hex)} left={left} log={hex log} body={hex body} model={showRes r1}"
  let r2 := inject cfg DATE id QP .none sender r1.bounce mess
  let body2' := match body2 with | some b => some b | none => (if q then some body else none)
  if !agreeRes r2 ret2 q2 f2 t2 body2' left2 none then
    o := o.dis s!"in={blobh} kind=I what=call2 impl=ret={ret2} q={q2} F={hex f2} T={",".intercalate (t2.map hex)} left={left2} model={showRes r2}"
  -- oracle on the implementation's behaviour
  let base := specBase sender
  o := { o with st := o.st.bump (if base == DBSENDER then "sender_doublebounce" else if base.isEmpty then "sender_empty"
                                  else if base != sender then "sender_verp" else "sender_ordinary") }
  -- every recipient paragraph of the implementation's bounce file
  match bfile with
  | some b =>
    let ps := paragraphs b
    if ps.length != fails.length then
      o := o.ora s!"in={blobh} kind=I why=bounce-file-paragraphs-differ-from-failed-recipients n={ps.length} fails={fails.length} file={hex b}"
    else if !namingOK sl sv fails ps then
      o := o.ora s!"in={blobh} kind=I why=bounce-file-paragraph-does-not-name-its-recipient file={hex b}"
    else
      -- end to end: each paragraph names the routed address of the ORIGINAL recipient (where unambiguous)
      for (g, pp) in List.zip given ps do
        match e2eCheck rc sv g.1 pp with
        | some true => o := { o with st := o.st.bump "e2e_checked" }
        | some false => o := o.ora s!"in={blobh} kind=I why=bounce-does-not-name-the-routed-address address={hex g.1} routed={hex (Rewrite.rewrite rc g.1).addr} file={hex b}"
        | none => o := { o with st := o.st.bump "e2e_ambiguous_skipped" }
  | none => if !fails.isEmpty then o := o.ora s!"in={blobh} kind=I why=failures-not-recorded"
  match envelopeOK sdb sender q f t with
  | some why => o := o.ora s!"in={blobh} kind=I why={why} F={hex f} T={",".intercalate (t.map hex)} want-dbto={hex sdb}"
  | none => pure ()
  match envelopeOK sdb sender q2 f2 t2 with
  | some why => o := o.ora s!"in={blobh} kind=I why={why}-on-retry F={hex f2} T={",".intercalate (t2.map hex)}"
  | none => pure ()
  if q then
    match noticeOK sl sv sdb sender mess fails body with
    | some why => o := o.ora s!"in={blobh} kind=I why={why} body={hex body}"
    | none => pure ()
  if q2 then
    match body2 with
    | some b2 => match noticeOK sl sv sdb sender mess fails b2 with
      | some why => o := o.ora s!"in={blobh} kind=I why={why}-on-retry body={hex b2}"
      | none => pure ()
    | none => pure ()
  let had := bfile.isSome
  -- bounce file removed only after the notice was queued (or the double bounce failure discarded)
  if had && !left && !q && base != DBSENDER then
    o := o.ora s!"in={blobh} kind=I why=bounce-file-removed-without-queued-notice"
  -- success means: queued (unless nothing failed / triple bounce)
  if ret && had && base != DBSENDER && !q then
    o := o.ora s!"in={blobh} kind=I why=success-reported-without-notice"
  -- once: after success a second call sends nothing
  if ret && q2 then o := o.ora s!"in={blobh} kind=I why=second-notice-after-success"
  -- retry: after a failure that queued nothing the next call sends the notice
  if !ret && !q && had && base != DBSENDER && !q2 then
    o := o.ora s!"in={blobh} kind=I why=notice-lost-after-temporary-failure"
  return o


/-- envelope bytes as qmail-queue receives them, from the captured qmail_from / qmail_to calls -/
def envReal (f : Bytes) (t : List Bytes) : Bytes := 70 :: f ++ [0] ++ (t.map (fun r => 84 :: r ++ [0])).flatten

/-- the fault the harness injected into the first injectbounce() call of a Q case: the k-th open_read() / read() of a queue file -/
structure QFault where
  isRead : Bool
  idx : Nat
  fired : Bool
  target : UInt8      -- 'b' bounce/<id>, 'm' mess/<id>, 'i' info/<id>
  pos : Nat           -- bytes of that file delivered before the failing read
def QFault.show (f : QFault) : String :=
  s!"{if f.isRead then "read" else "open_read"}#{f.idx}-of-{String.singleton (Char.ofNat f.target.toNat)}-after-{f.pos}-bytes"
def parseQFault (s : String) : Option (Option QFault) :=
  if s == "-" then some none else
  match s.splitOn ":" with
  | [k, i, f, t, p] =>
    match i.toNat?, b01 f, p.toNat? with
    | some i, some f, some p => some (some { isRead := k == "r", idx := i, fired := f, target := (t.toList.headD '-').toNat.toUInt8, pos := p })
    | _, _, _ => none
  | _ => none

/-- Q: the real qmail.c (qmail_open/qmail_put/qmail_from/qmail_to/qmail_close) between injectbounce() and a scripted queue
program (exit code / death by signal).  `rec` = the queue program ran and recorded (message, envelope).  The notice is
COMMITTED only if the queue program exited 0 without a signal.  Oracle: bounce/<id> removed / return 1 only if committed (or the
documented discard / nothing failed); after a refused injection the retry (scripted 0,0) commits the notice; what the queue
program was given is the notice (contains the bounce file, envelope as prescribed). -/
def handleQ (o : Out) (blobh : String) (blob : Bytes) (bfile : Option Bytes) (ret left rec : Bool) (msg env : Bytes)
    (ret2 left2 rec2 : Bool) (msg2 env2 : Bytes) (routes : List (Bool × Bytes)) (qf : Option QFault) (log1 : Bytes) : Out := Id.run do
  let fs := splitNul blob
  let ctl := controlsOf fs
  let cfg := getcontrols ctl
  let sdb := specDoubleBounceTo ctl.doublebounceto ctl.doublebouncehost ctl.me
  let script := ((String.fromUTF8! ⟨(fld fs 8).toArray⟩).splitOn ",").map (·.toNat?)
  let (code, sig) : Nat × Nat := match script with
    | some c :: some s :: _ => (c, s)
    | _ => (0, 0)
  let okq := code == 0 && sig == 0
  let sender := fld fs 9
  let mess := fld fs 10
  let given := pairsFrom (fs.drop 11)
  let fails : List Fail := (List.zip routes given).map (fun (rt, g) => (rt.1, rt.2, g.2))
  let base := specBase sender
  let had := bfile.isSome
  let file := bfile.getD []
  let live := had && base != DBSENDER         -- a notice has to be sent
  -- the injected fault (session 4): which copy loop of injectbounce() it hit
  let fired : Option QFault := match qf with | some f => if f.fired then some f else none | none => none
  let infoFault := match fired with | some f => f.target == 105 | none => false
  let rfOf (t : UInt8) : BounceQq.RF := match fired with
    | some f => if f.target == t then (if f.isRead then .readFail f.pos else .openFail) else .ok
    | none => .ok
  let fb := rfOf 98
  let fm := rfOf 109
  let copyFault := fb != .ok || fm != .ok
  let mut o := o
  o := { o with st := ((o.st.bump "kindQ").bump (if sig != 0 then "Q_killed_by_signal" else if code == 0 then "Q_exit_0" else "Q_exit_nonzero")) }
  match qf with
  | some f =>
    o := { o with st := o.st.bump (if !f.fired then "Q_fault_index_beyond_last_call"
      else s!"Q_fault_{if f.isRead then "read" else "open"}_{if f.target == 98 then "bounce" else if f.target == 109 then "mess" else if f.target == 105 then "info" else "other"}") }
  | none => pure ()
  -- model: a queue program that does not end with exit 0 is a refusal by qmail_close; a failed open/read is the fault point of `inject`
  let mb := if fails.isEmpty then none else some (bounceFile cfg.tables fails)
  if mb != bfile then o := o.dis s!"in={blobh} kind=Q what=bouncefile"
  let mfault : Fault := if infoFault then .info else if copyFault then BounceQq.faultOf fb fm else if okq then .none else .qqClose
  let r1 := inject cfg DATE ID0Q 0 mfault sender mb mess
  -- model of the real qmail.c's two streams (Nq.BounceQq): what the queue program must have read
  let qq := if live && !infoFault then BounceQq.injectQq cfg DATE sender file mess fb fm code (sig != 0) else none
  if r1.ret != ret || r1.bounce.isSome != left || qq.isSome != rec
     || (match qq with | some (q, acc) => q.msg != msg || q.env != env || acc != ret | none => false) then
    o := o.dis s!"in={blobh} kind=Q what=call1 impl=ret={ret} left={left} rec={rec} env={hex env} model=ret={r1.ret} left={r1.bounce.isSome} q={r1.queued.isSome} qq-env={match qq with | some (q, _) => hex q.env | none => "none"} msg-equal={match qq with | some (q, _) => q.msg == msg | none => true}"
  let r2 := inject cfg DATE ID0Q 0 .none sender r1.bounce mess
  if r2.ret != ret2 || r2.bounce.isSome != left2 || r2.queued.isSome != rec2 then
    o := o.dis s!"in={blobh} kind=Q what=call2 impl=ret={ret2} left={left2} rec={rec2} model=ret={r2.ret} left={r2.bounce.isSome} q={r2.queued.isSome}"
  -- oracle
  if live then
    -- the envelope the notice must go out with (spec side)
    let (ef, et) : Bytes × Bytes := if base.isEmpty then (DBSENDER, sdb) else ([], base)
    -- QUEUED: the queue program exited 0 un-killed having been given a terminated envelope; COMPLETE: every failure paragraph
    -- (the whole bounce/<id>) inside, the original message at the end, the prescribed envelope (C14_inject_fault_accepted_complete)
    let queued := rec && BounceQq.queuedOK code (sig != 0) env
    let complete := BounceQq.completeOK ef et file mess msg env
    o := { o with st := o.st.bump (if queued then (if complete then "Q_queued_complete" else "Q_queued_INCOMPLETE") else "Q_not_queued") }
    if queued && !complete then
      o := o.ora s!"in={blobh} kind=Q why=queued-notice-incomplete-after-failed-open-or-read-of-a-queue-file fault={match fired with | some f => f.show | none => "-"} env={hex env} notice-has-bounce-file={Daemon.isInfix file msg} notice-ends-with-message={BounceQq.isSuffixB mess msg}"
    if !left && !(queued && complete) then
      o := o.ora s!"in={blobh} kind=Q why=bounce-file-removed-without-a-complete-notice-accepted-by-the-queue-program exit={code} signal={sig} fault={match fired with | some f => f.show | none => "-"}"
    if !left && !okq then o := o.ora s!"in={blobh} kind=Q why=bounce-file-removed-although-the-queue-program-did-not-accept-the-notice exit={code} signal={sig}"
    if ret && !(okq && queued && complete) then o := o.ora s!"in={blobh} kind=Q why=success-reported-although-the-queue-program-did-not-accept-the-notice exit={code} signal={sig}"
    if !rec && !infoFault then o := o.ora s!"in={blobh} kind=Q why=queue-program-not-run"
    -- not queued: "will try later", the record stays (an unreadable info/<id> gives up silently before anything is opened)
    if !queued && !(left && !ret) then o := o.ora s!"in={blobh} kind=Q why=record-not-kept-although-nothing-was-queued"
    if !queued && rec && log1 != troubleLogQ then o := o.ora s!"in={blobh} kind=Q why=refused-injection-not-logged-as-will-try-later log={hex log1}"
    -- qmail_close() ends the envelope with one more NUL (qmail-queue's format): F sender NUL {T recipient NUL} NUL
    if !copyFault && rec && !(env.getLast? == some 0 && injectGuard (dcfgQ sdb) sender file env.dropLast msg) then
      o := o.ora s!"in={blobh} kind=Q why=queue-program-was-not-given-the-notice env={hex env}"
    if okq && !copyFault && !infoFault then
      if rec2 then o := o.ora s!"in={blobh} kind=Q why=second-notice-after-success"
    else
      if !(rec2 && ret2 && !left2) then o := o.ora s!"in={blobh} kind=Q why=notice-lost-after-refused-injection exit={code} signal={sig} fault={match fired with | some f => f.show | none => "-"}"
      else if !(env2.getLast? == some 0 && injectGuard (dcfgQ sdb) sender file env2.dropLast msg2 && BounceQq.completeOK ef et file mess msg2 env2) then
        o := o.ora s!"in={blobh} kind=Q why=retry-did-not-give-the-queue-program-the-notice env={hex env2}"
      else o := { o with st := o.st.bump "Q_retry_complete" }
  else
    if rec || rec2 then o := o.ora s!"in={blobh} kind=Q why=notice-sent-although-nothing-to-bounce"
  return o
where
  ID0Q : Nat := 4711
  troubleLogQ : Bytes := str "warning: trouble injecting bounce message, will try later\n"
  dcfgQ (dbto : Bytes) : Daemon.Cfg := { conc := fun _ => 1, lifetime := 604800, route := fun a => (.loc, a), doublebounceto := dbto }

/-! ### daemon level: replay through the monitor, oracle of C14_daemon_* on the implementation's output -/

def ID0 : Nat := 4711
def troubleLog : Bytes := str "warning: trouble injecting bounce message, will try later\n"
def unlinkWarn : Bytes := str "warning: unable to unlink "
def okAddr : Bytes := [111, 107]

/-- monitor + history carried from one I line of a chain to the next -/
structure Chain where
  sg : Option (Daemon.St × Ghost) := none
  gapSender : Bool := false        -- the last message's sender is `#@[]-@[]…` (monitor gap, see C14_daemon_verp_discard_gap)

/-- cut the bounce file at the sizes observed after each real addbounce() call (oldest first) -/
def cutParts (file : Bytes) : Nat → List Nat → Option (List Bytes)
  | prev, [] => if prev == file.length then some [] else none
  | prev, sz :: r =>
    if sz < prev || sz > file.length then none
    else (cutParts file sz r).map (fun ps => ((file.drop prev).take (sz - prev)) :: ps)

def feedAll (dcfg : Daemon.Cfg) : (Daemon.St × Ghost) → List (String × Daemon.Ev) → Except String (Daemon.St × Ghost)
  | sg, [] => .ok sg
  | sg, (nm, e) :: r => match gaccept dcfg sg e with
    | some sg' => feedAll dcfg sg' r
    | none => .error nm

def dcfgOf (dbto : Bytes) : Daemon.Cfg :=
  { conc := fun _ => 1, lifetime := 604800, route := fun a => (.loc, a), doublebounceto := dbto }

def lab (nm : String) (es : List Daemon.Ev) : List (String × Daemon.Ev) := es.map (fun e => (nm, e))

/-- the events of one real injectbounce() call, from what the harness observed -/
def callEvents (id : Nat) (q : Bool) (f : Bytes) (t : List Bytes) (body log : Bytes) (before after : Bool) : List (String × Daemon.Ev) :=
  (if q then [("bounceInject-ok", Daemon.Ev.bounceInject id true (envReal f t) body)]
   else if log == troubleLog then [("bounceInject-failed", Daemon.Ev.bounceInject id false [] [])] else [])
  ++ (if before && !after then [("unlinkBounce", Daemon.Ev.unlinkBounce id)] else [])

def daemonI (o : Out) (ch : Chain) (id : Nat) (blobh : String) (sl : List Bytes) (sv : List (Bytes × Bytes)) (sdb : Bytes)
    (sender : Bytes) (fails : List Fail)
    (bfile : Option Bytes) (ret q : Bool) (f : Bytes) (t : List Bytes) (body : Bytes) (left : Bool) (log : Bytes)
    (ret2 q2 : Bool) (f2 : Bytes) (t2 : List Bytes) (body2 : Bytes) (left2 : Bool) (log2 : Bytes) (sizes : List Nat) : Out × Chain := Id.run do
  let mut o := o
  let dcfg := dcfgOf sdb
  let base := specBase sender
  let gap := base == DBSENDER && sender != DBSENDER
  let had := bfile.isSome
  let file := bfile.getD []
  let parts := match cutParts file 0 sizes with
    | some ps => if ps.length == fails.length then ps else []
    | none => []
  if had && parts.length != fails.length then
    o := o.dis s!"in={blobh} kind=I what=sizes-do-not-cut-the-bounce-file sizes={sizes} len={file.length}"
    return (o, { sg := none })
  -- (a) on the implementation's output: the file is unlinked only after an injection of exactly its content
  --     (executable form of the monitor's guard, `injectGuard`; `#@[]` after VERP stripping = the documented discard)
  if had && !left && base != DBSENDER && !(q && injectGuard dcfg sender file (envReal f t) body) then
    o := o.ora s!"in={blobh} kind=I why=bounce-file-unlinked-without-injection-of-its-content env={hex (envReal f t)}"
  if left && !left2 && base != DBSENDER && !(q2 && injectGuard dcfg sender file (envReal f2 t2) body2) then
    o := o.ora s!"in={blobh} kind=I why=bounce-file-unlinked-without-injection-of-its-content-on-retry env={hex (envReal f2 t2)}"
  -- (b) every text appended by addbounce() is inside every notice that was queued
  if q && !parts.all (fun p => Daemon.isInfix p body) then
    o := o.ora s!"in={blobh} kind=I why=appended-paragraph-missing-from-queued-notice"
  if q2 && !parts.all (fun p => Daemon.isInfix p body2) then
    o := o.ora s!"in={blobh} kind=I why=appended-paragraph-missing-from-queued-notice-on-retry"
  -- (b) committed bounces (queued and the file removed by the same call): never two, exactly one when the file is gone
  let committed := (if q && had && !left then 1 else 0) + (if q2 && left && !left2 then 1 else 0)
  if committed > 1 then o := o.ora s!"in={blobh} kind=I why=paragraphs-sent-in-two-committed-bounces"
  if had && base != DBSENDER && !left2 && committed != 1 then
    o := o.ora s!"in={blobh} kind=I why=bounce-file-gone-without-exactly-one-committed-bounce committed={committed}"
  -- (b) a notice that was queued while the file stays is the at-least-once case: only when unlink failed
  if q && left && !Daemon.isInfix unlinkWarn log then
    o := o.ora s!"in={blobh} kind=I why=notice-queued-but-bounce-file-kept-without-unlink-failure"
  -- (b) a failed call keeps the record
  if had && !ret && !q && !left then o := o.ora s!"in={blobh} kind=I why=record-lost-by-failed-injection"
  -- replay through the monitor
  let start : Option (Daemon.St × Ghost) := if id == ID0 then some ginit else ch.sg
  match start with
  | none => return (o, { sg := none })
  | some sg0 =>
    -- record addresses: the documented name (the monitor's header guard wants the name that is written)
    let named := fails.map (fun fr => namedRecipient fr.1 sl sv fr.2.1)
    let addrs := okAddr :: named
    let setup := lab "setup-arrive" (evArrive id sender addrs)
      ++ lab "setup-deliver" [.cmd .loc 0 id 0 okAddr, .rbytes .loc [0, 75, 0], .markD id .loc 0]
    let failEvs := (List.zip (List.range fails.length) (List.zip fails parts)).flatMap (fun (j, fr, part) =>
      [("setup-cmd", Daemon.Ev.cmd .loc 0 id (recPos addrs (j + 1)) (addrs.getD (j + 1) [])),
       ("setup-report", Daemon.Ev.rbytes .loc ([0, 68] ++ fr.2.2.filter (· != 0) ++ [0])),
       ("appendBounce", Daemon.Ev.appendBounce id part),
       ("setup-mark", Daemon.Ev.markD id .loc (recPos addrs (j + 1)))])
    let close := lab "setup-close" [Daemon.Ev.unlinkChan id .loc]
    let calls := if gap then [] else
      callEvents id q f t body log had left ++ callEvents id q2 f2 t2 body2 log2 left left2
      ++ (if ret2 && !left2 then lab "done" (evDone id) else [])
    if gap then o := { o with st := o.st.bump "daemon_gap_verp_discard" }
    match feedAll dcfg sg0 (setup ++ failEvs ++ close ++ calls) with
    | .error nm =>
      if nm.startsWith "setup" then o := o.dis s!"in={blobh} kind=I what=daemon-replay event={nm} rejected by the monitor"
      else o := o.ora s!"in={blobh} kind=I why=daemon-monitor-rejects-{nm}"
      return (o, { sg := none })
    | .ok (s, g) =>
      let gm := g id
      let outcome : String :=
        if !gm.committed.isEmpty then (if gm.attempts.length > gm.committed.length then "daemon_committed_after_resend" else "daemon_committed")
        else if (s.msg id).discarded then "daemon_discarded" else if !had then "daemon_nothing_failed"
        else if gap then "daemon_gap" else "daemon_pending"
      o := { o with st := (o.st.bump "daemon_replayed").bump outcome }
      -- the history the monitor recorded is the implementation's: what was committed is what the real code queued
      if !gap then
        let wantCommitted : List Bytes := if q && had && !left then [body] else if q2 && left && !left2 then [body2] else []
        if gm.committed.map (·.body) != wantCommitted || (gm.committed.any fun x => x.file != file || x.parts.reverse != parts) then
          o := o.dis s!"in={blobh} kind=I what=daemon-history committed={gm.committed.length} want={wantCommitted.length}"
      return (o, { sg := some (s, g), gapSender := gap })

/-- end of a C case: the chain as the monitor's history saw it -/
def daemonC (o : Out) (ch : Chain) (blobh : String) (sender : Bytes) (env : List (Bytes × Bytes)) : Out := Id.run do
  let mut o := o
  match ch.sg with
  | none => return o
  | some (s, g) =>
    o := { o with st := o.st.bump "daemon_chain_checked" }
    for (k, ft) in List.zip (List.range env.length) env do
      if (g (ID0 + k)).committed.map (·.env) != [envReal ft.1 [ft.2]] then
        o := o.ora s!"in={blobh} kind=C why=chain-step-{k}-not-committed-exactly-once-with-this-envelope"
    let last := ID0 + env.length
    let gapS := specBase sender == DBSENDER && sender != DBSENDER
    if env.length < 6 && !(gapS && env.isEmpty) then
      if !(g last).committed.isEmpty || !((s.msg last).noted.isEmpty || (s.msg last).discarded) || (s.msg last).bounce.isSome then
        o := o.ora s!"in={blobh} kind=C why=chain-does-not-end-in-a-discard-or-a-message-without-failures"
    return o

def handleC (o : Out) (blobh : String) (blob : Bytes) (n : Nat) (s0 : Bytes) (env : List (Bytes × Bytes)) : Out := Id.run do
  let fs := splitNul blob
  let ctl := controlsOf fs
  let cfg := getcontrols ctl
  let sdb := specDoubleBounceTo ctl.doublebounceto ctl.doublebouncehost ctl.me
  let sender := fld fs 9
  let mess := fld fs 10
  -- model side of the chain: every failing recipient is routed by C10's model of rewrite() (the real routing is compared on the I lines)
  let rc := rcfgOf (envOf ctl) (specLocals ctl.locals ctl.me) (specVdoms ctl.virtualdomains)
  let failOf (a rep : Bytes) : Fail := let rt := routeOf rc a; (rt.1, rt.2, rep)
  let fails : List Fail := (pairsFrom (fs.drop 11)).map (fun g => failOf g.1 g.2)
  let mut o := o
  o := { o with st := (o.st.bump "kindC").bump s!"chain_len_{n}" }
  -- model chain: every generated message fails permanently at its single recipient
  let step (m : Msg) (bf : Bytes) : Option Msg := bounceOf cfg DATE bf m
  let m0 : Msg := { sender := sender, rcpts := [], body := mess }
  let rec go (fuel : Nat) (m : Msg) (bf : Option Bytes) (acc : List (Bytes × Bytes)) : List (Bytes × Bytes) :=
    match fuel, bf with
    | 0, _ => acc.reverse
    | _, none => acc.reverse
    | fuel + 1, some b => match step m b with
      | none => acc.reverse
      | some m' =>
        let t := m'.rcpts.headD []
        go fuel m' (some (bounceFile cfg.tables [failOf t chainReport])) ((m'.sender, t) :: acc)
  let mchain := go 6 m0 (if fails.isEmpty then none else some (bounceFile cfg.tables fails)) []
  if mchain != env || s0 != sender || n != env.length then
    o := o.dis s!"in={blobh} kind=C impl={env.map (fun (a, b) => hex a ++ ">" ++ hex b)} model={mchain.map (fun (a, b) => hex a ++ ">" ++ hex b)}"
  -- oracle: the chain message -> bounce -> double bounce -> nothing
  let base := specBase sender
  let want : Nat := if fails.isEmpty then 0 else if base == DBSENDER then 0 else if base.isEmpty then 1 else 2
  if env.length > 2 then o := o.ora s!"in={blobh} kind=C why=bounce-chain-longer-than-bounce-and-double-bounce n={env.length}"
  else if env.length != want then o := o.ora s!"in={blobh} kind=C why=bounce-chain-length n={env.length} want={want}"
  else
    let ok := match env with
      | [] => true
      | [(f1, t1)] => if base.isEmpty then f1 == DBSENDER && t1 == sdb else f1.isEmpty && t1 == base
      | [(f1, t1), (f2, t2)] => f1.isEmpty && t1 == base && f2 == DBSENDER && t2 == sdb
      | _ => false
    if !ok then o := o.ora s!"in={blobh} kind=C why=bounce-chain-envelopes chain={env.map (fun (a, b) => hex a ++ ">" ++ hex b)} want-dbto={hex sdb}"
  return o

def pairUp : List Bytes → List (Bytes × Bytes)
  | a :: b :: r => (a, b) :: pairUp r
  | _ => []

def handle (chain : IO.Ref Chain) (st : Stats) (line : String) : IO Stats := do
  let bad : IO Stats := do
    IO.println s!"DISAGREE unparsable line {line.take 300}"
    return { st with disagree := st.disagree + 1, cases := st.cases + 1 }
  let fsl := fields line
  let finish (o : Out) (blob : Bytes) (nontriv : Bool) (sample : String) : IO Stats := do
    for m in o.msgs.reverse do IO.println m
    let h := hashBytes (blob ++ (fsl.headD "").toUTF8.toList)
    let fresh := !o.st.seen.contains h
    let mut st := { o.st with cases := o.st.cases + 1, seen := o.st.seen.insert h,
                              nontrivial := o.st.nontrivial + (if fresh && nontriv then 1 else 0) }
    if fresh && nontriv && st.samples < 2 && blob.length > 40 && blob.length < 400 then
      IO.println s!"SAMPLE {sample.take 1200}"
      st := { st with samples := st.samples + 1 }
    return st
  match fsl with
  | ["P", blobh, sh, th, _sleeps, flags, storedh] =>
    match unhex blobh, unhex sh, unhex th, b01 flags, unhex storedh with
    | some blob, some s, some t, some flag, some stored =>
      let o := handleP { st := st } blobh blob s t flag stored
      let fs := splitNul blob
      let nontriv := s != stored || stored != fld fs 1 || hasLFLF (fld fs 2) || (fld fs 2).head? == some LF || (fld fs 1).contains LF
        || (match domainPart stored with | some d => isLocal (readfile (fld fs 4)) d | none => false)
      finish o blob nontriv s!"kind=P in={blobh} flagstrip={flags} stored={storedh} stripped={sh} text={th}"
    | _, _, _, _, _ => bad
  | ["D", blobh, ah, ord, mk] =>
    match unhex blobh, unhex ah with
    | some blob, some a =>
      let o := handleD { st := st } blobh blob a
      let o := orderD o blobh blob a ord mk
      finish o blob (a != ABSENT) s!"kind=D in={blobh} appended={ah} order={ord} mark={mk}"
    | _, _ => bad
  | ["I", ids, blobh, bfh, rets, qs, fh, ths, bodyh, lefts, logh, ret2s, q2s, f2h, t2hs, body2h, left2s, log2h, sizess, routess] =>
    match ids.toNat?, unhex blobh, unhex bfh, b01 rets, b01 qs, unhex fh, unhexList ths, unhex bodyh, parseRoutes routess with
    | some id, some blob, some bf, some ret, some q, some f, some t, some body, some routes =>
      match b01 lefts, unhex logh, b01 ret2s, b01 q2s, unhex f2h, unhexList t2hs, b01 left2s with
      | some left, some log, some ret2, some q2, some f2, some t2, some left2 =>
        let body2 : Option (Option Bytes) := if body2h == "=" then some none else (unhex body2h).map some
        match body2 with
        | some body2 =>
          let bfile := if bfh == "-" then none else some bf
          let o := handleI { st := st } id blobh blob bfile ret q f t body left log ret2 q2 f2 t2 body2 left2 routes
          let sizes : Option (List Nat) := if sizess == "-" then some [] else (sizess.splitOn ",").mapM (·.toNat?)
          let o ← (match unhex log2h, sizes with
            | some log2, some szs => do
              let fs := splitNul blob
              let ch ← chain.get
              let ctl := controlsOf fs
              let (o', ch') := daemonI o ch id blobh (specLocals ctl.locals ctl.me) (specVdoms ctl.virtualdomains)
                (specDoubleBounceTo ctl.doublebounceto ctl.doublebouncehost ctl.me) (fld fs 9)
                ((List.zip routes (pairsFrom (fs.drop 11))).map (fun (rt, g) => (rt.1, rt.2, g.2)))
                bfile ret q f t body left log ret2 q2 f2 t2 (body2.getD body) left2 log2 szs
              chain.set ch'
              pure o'
            | _, _ => pure (o.dis s!"in={blobh} kind=I what=unparsable-log2-or-sizes"))
          finish o blob (q || !ret) s!"kind=I in={blobh} ret={rets} q={qs} F={fh} T={ths} left={lefts} log={logh} body={bodyh}"
        | none => bad
      | _, _, _, _, _, _, _ => bad
    | _, _, _, _, _, _, _, _, _ => bad
  | ["Q", blobh, bfh, rets, lefts, recs, msgh, envh, ret2s, left2s, rec2s, msg2h, env2h, routess, qfs, log1h, _log2h] =>
    match unhex blobh, unhex bfh, b01 rets, b01 lefts, b01 recs, unhex msgh, unhex envh, parseRoutes routess with
    | some blob, some bf, some ret, some left, some rec, some msg, some env, some routes =>
      match b01 ret2s, b01 left2s, b01 rec2s, unhex msg2h, unhex env2h, parseQFault qfs, unhex log1h with
      | some ret2, some left2, some rec2, some msg2, some env2, some qf, some log1 =>
        let bfile := if bfh == "-" then none else some bf
        let o := handleQ { st := st } blobh blob bfile ret left rec msg env ret2 left2 rec2 msg2 env2 routes qf log1
        finish o blob true s!"kind=Q in={blobh} ret={rets} left={lefts} rec={recs} fault={qfs}"
      | _, _, _, _, _, _, _ => bad
    | _, _, _, _, _, _, _, _ => bad
  | ["X", kind, blobh] =>
    IO.println s!"ORACLE in={blobh} kind={kind} why=implementation-crashed-or-sanitizer-error-on-this-input"
    return { st with cases := st.cases + 1, oracle := st.oracle + 1 }
  | "C" :: blobh :: ns :: s0h :: rest =>
    match unhex blobh, ns.toNat?, unhex s0h, rest.mapM unhex with
    | some blob, some n, some s0, some envl =>
      let o := handleC { st := st } blobh blob n s0 (pairUp envl)
      let ch ← chain.get
      let o := daemonC o ch blobh s0 (pairUp envl)
      chain.set {}
      finish o blob (n > 0) s!"kind=C in={blobh} n={ns} chain={" ".intercalate rest}"
    | _, _, _, _ => bad
  | _ => bad

def main : IO Unit := do
  let chain ← IO.mkRef ({} : Chain)
  runDriver (handle chain)
