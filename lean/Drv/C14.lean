/- Driver for C14: the real stripvdomprepend()/addbounce()/del_dochan()/getcontrols()/injectbounce()
   (harness/c14_bounce.c) against `Nq.Bounce`; the oracle is `Nq.BounceSpec` (paragraph reader,
   governing virtualdomains entry, envelope rules) evaluated on what the implementation produced.
   Input lines (hex fields, blob = NUL-separated case fields):
     P <blob> <stripped> <text> <sleeps>
     I <id> <blob> <bouncefile> <ret> <q> <F> <T> <body> <left> <log> <ret2> <q2> <F2> <T2> <body2|=> <left2> <log2> <sizes>
     C <blob> <n> <sender0> {<F> <T>}*
     D <blob> <appended>
   Daemon level (C14_daemon_*): every I line is also replayed as the whole life of message <id> through the
   monitor `Nq.Daemon.accept` with the history layer `Nq.BounceDaemon` (arrival, preprocessing, one D report per
   failure, `appendBounce` with the bytes the real addbounce() appended, the injection(s) with the envelope and text
   the real injectbounce() handed to qmail-queue, the unlink of bounce/<id> when the real code removed it); the I
   lines of one C case (ids 4711, 4712, …) run through ONE monitor, so the chain message -> bounce -> double bounce ->
   discard is one accepted event sequence.
   Oracle inputs are computed on the SPEC side from the raw control-file bytes of the case (`specVdoms`, `specLocals`,
   `specDoubleBounceTo` of Nq.BounceSpec), not with the model's `getcontrols`/`readfile`; the model's values are used for the
   DISAGREE channel only (and a difference between the two parses is itself a DISAGREE).
   Open finding C14-strip-exception: the naming oracle is strict (`namedRecipient` with the exception rule); a failure that is
   exactly that finding (the recipient has an exception entry of its own and is named as the function without the
   whole-recipient lookup names it) carries `known=C14-strip-exception`; the remaining checks of such a case are still made. -/
import Drv.Util
import Nq.Bounce
import Nq.Spec.BounceSpec
import Nq.BounceDaemon

open Nq Nq.Bounce Nq.BounceSpec Nq.BounceDaemon Drv

def splitNul (b : Bytes) : List Bytes :=
  let rec go : Bytes → Bytes → List Bytes → List Bytes
    | [], cur, acc => (cur.reverse :: acc).reverse
    | c :: r, cur, acc => if c == 0 then go r [] (cur.reverse :: acc) else go r (c :: cur) acc
  go b [] []

def fld (fs : List Bytes) (i : Nat) : Bytes := fs.getD i []

def pairsFrom : List Bytes → List (Bytes × Bytes)
  | a :: b :: r => (a, b) :: pairsFrom r
  | _ => []

def DATE : Bytes := str "Date: 26 Sep 1995 04:46:53 -0000\n"
def QP : Nat := 4242
def chainReport : Bytes := str "Sorry, I couldn't find any host by that name. (#5.1.2)\n"
/-- what the harness prints for "the file does not exist" -/
def ABSENT : Bytes := [0]

def faultOf (b : Bytes) : Fault :=
  match b.head? with
  | some 97 => .info | some 98 => .statErr | some 99 => .qqOpen | some 100 => .bounceOpen
  | some 101 => .bounceRead | some 102 => .messOpen | some 103 => .messRead | some 104 => .qqClose
  | some 105 => .unlink | _ => .none

def controlsOf (fs : List Bytes) : Controls :=
  let has (c : UInt8) (i : Nat) : Option Bytes := if (fld fs 0).contains c then some (fld fs i) else none
  -- with neither control/me nor control/locals the harness supplies locals = "localhost" (getcontrols() would refuse to start)
  let loc : Option Bytes := match has 108 7, has 109 1 with
    | some l, _ => some l
    | none, some _ => none
    | none, none => some (str "localhost\n")
  { me := has 109 1, bouncefrom := has 102 2, bouncehost := has 104 3, doublebounceto := has 116 4,
    doublebouncehost := has 100 5, virtualdomains := has 118 6, locals := loc }

/-- spec-side VERP base, written independently of `verpBase`: drop a final "-@[]" -/
def specBase (s : Bytes) : Bytes :=
  match s.reverse with
  | 93 :: 91 :: 64 :: 45 :: r => r.reverse
  | _ => s

def unhexList (s : String) : Option (List Bytes) :=
  if s == "-" then some [] else (s.splitOn ",").mapM unhex

def isSuffix (a b : Bytes) : Bool := a.reverse.isPrefixOf b.reverse

def dropTrailingLF (t : Bytes) : Bytes := (t.reverse.dropWhile (· == LF)).reverse

def KNOWN : String := " known=C14-strip-exception"

/-- what the function WITHOUT the whole-recipient lookup names (rules 1, 3, 4 only; spec vocabulary, cf. C14_strip_unrepaired) -/
def unrepairedName (ls : List Bytes) (es : List (Bytes × Bytes)) (recip : Bytes) : Bytes :=
  match domainPart recip with
  | none => recip
  | some d => if isLocal ls d then recip else prefixUndone es recip d

inductive Named | ok | known | bad
  deriving DecidableEq

/-- does `p` begin with the line naming `recip` as documented?  `known` = exactly the open finding -/
def namedCheck (ls : List Bytes) (es : List (Bytes × Bytes)) (recip p : Bytes) : Named :=
  if (recipLine (namedRecipient ls es recip)).isPrefixOf p then .ok
  else if hasException es recip && (recipLine (unrepairedName ls es recip)).isPrefixOf p then .known
  else .bad

/-- the name to use for the remaining checks of a paragraph: the documented one, or (known finding) the one written -/
def nameFor (ls : List Bytes) (es : List (Bytes × Bytes)) (recip p : Bytes) : Bytes :=
  if namedCheck ls es recip p == .known then unrepairedName ls es recip else namedRecipient ls es recip

/-- naming oracle over the paragraphs of a bounce file / notice: `none` = all named as documented, else (why-suffix, tag) -/
def namingOK (ls : List Bytes) (es : List (Bytes × Bytes)) (fails : List (Bytes × Bytes)) (ps : List Bytes) : Option String :=
  let rs := (List.zip fails ps).map (fun (fr, p) => namedCheck ls es fr.1 p)
  if rs.any (· == .bad) then some "" else if rs.any (· == .known) then some KNOWN else none

/-- oracle for one recipient paragraph as written by the implementation; `named` = the address it must name -/
def paragraphOK (named report text : Bytes) : Option String :=
  let hdr := recipLine named
  let rep' := if !report.isEmpty && report.getLast? != some LF then report ++ [LF] else report
  let body := text.drop hdr.length
  if (paragraphs text).length != 1 then some "not-exactly-one-paragraph"
  else if !hdr.isPrefixOf text then some "does-not-start-with-recipient-line"
  else if !isSuffix [LF, LF] text then some "no-blank-line-at-end"
  else if hasLFLF (dropTrailingLF text) then some "blank-line-inside"
  else if !(body.length == rep'.length + 1 && sanit rep' body.dropLast) then some "report-text-not-shown"
  else none

/-- oracle for the envelope of a queued message / for not queueing -/
def envelopeOK (dbto : Bytes) (sender : Bytes) (q : Bool) (f : Bytes) (t : List Bytes) : Option String :=
  let base := specBase sender
  if base == DBSENDER then (if q then some "double-bounce-failure-was-not-discarded" else none)
  else if !q then none
  else if base.isEmpty then
    (if f == DBSENDER && t == [dbto] then none else some "double-bounce-envelope-wrong")
  else (if f.isEmpty && t == [base] then none else some "bounce-envelope-wrong")

/-- oracle for the text of a queued notice.  `ls`/`es`/`dbto` = spec-side tables and double-bounce address.  The stated
predicates are: the original message is a suffix; one paragraph per failed recipient, in order, each naming its recipient;
two header paragraphs before them.  The model's `trailer` is used only to LOCATE the end of the recipient paragraphs (the
marker and Return-Path line sit between them and the message). -/
def noticeOK (ls : List Bytes) (es : List (Bytes × Bytes)) (dbto : Bytes) (sender mess : Bytes) (fails : List (Bytes × Bytes)) (body : Bytes) : Option String :=
  let base := specBase sender
  let single := !base.isEmpty
  let tail := trailer single base mess
  if !isSuffix mess body then some "original-message-not-appended"
  else if !isSuffix tail body then some "marker-and-return-path-missing-before-the-original-message" else
  let front := body.take (body.length - tail.length)
  let ps := paragraphs front
  let n := fails.length
  let rcptParas := ps.drop (ps.length - n)
  let toAddr := if single then base else dbto
  if ps.length < n then some "fewer-paragraphs-than-failed-recipients"
  -- a sender whose domain part carries LFs can put a blank line into its own To: field (quote2 copies the
  -- domain part verbatim); the count of the header paragraphs is then not 2, the recipient paragraphs are
  -- still checked from the end
  else if !hasLFLF (Quote.quote2 toAddr ++ [LF]) && ps.length != n + 2 then some "paragraph-count-differs-from-failed-recipients"
  else match namingOK ls es fails rcptParas with
    | some tag => some ("paragraph-does-not-name-its-recipient" ++ tag)
    | none => none

def showRes (r : Res) : String :=
  match r.queued with
  | some m => s!"ret={r.ret} q=1 F={hex m.sender} T={",".intercalate (m.rcpts.map hex)} body={hex m.body} left={r.bounce.isSome} log={hex r.log}"
  | none => s!"ret={r.ret} q=0 left={r.bounce.isSome} log={hex r.log}"

structure Out where
  st : Stats
  msgs : List String := []

def Out.dis (o : Out) (m : String) : Out :=
  { st := { o.st with disagree := o.st.disagree + 1 }, msgs := s!"DISAGREE {m}" :: o.msgs }
def Out.ora (o : Out) (m : String) : Out :=
  { st := { o.st with oracle := o.st.oracle + 1 }, msgs := s!"ORACLE {m}" :: o.msgs }

def b01 (s : String) : Option Bool := if s == "1" then some true else if s == "0" then some false else none

/-- compare one injectbounce call with the model's result -/
def agreeRes (r : Res) (ret q : Bool) (f : Bytes) (t : List Bytes) (body : Option Bytes) (left : Bool)
    (log : Option Bytes) : Bool :=
  r.ret == ret && r.queued.isSome == q && r.bounce.isSome == left &&
  (match log with | some l => r.log == l | none => true) &&
  (match r.queued with
   | some m => m.sender == f && m.rcpts == t && (match body with | some b => m.body == b | none => true)
   | none => true)

def handleP (o : Out) (blobh : String) (blob stripped text : Bytes) : Out := Id.run do
  let fs := splitNul blob
  let es : Tables := { locals := readfile (fld fs 4), vdoms := cmEntries (readfile (fld fs 0)) }
  -- spec side, from the bytes
  let sl := specControlLines (fld fs 4)
  let sv := specVdoms (some (fld fs 0))
  let recip := fld fs 1
  let report := fld fs 2
  let mut o := o
  o := { o with st := o.st.bump "kindP" }
  if sl != es.locals || sv != es.vdoms then
    o := o.dis s!"in={blobh} kind=P what=control-file-parse model-and-spec-differ"
  match domainPart recip with
  | some d =>
    if isLocal sl d then o := { o with st := o.st.bump "P_local_domain" }
    else if hasException sv recip then o := { o with st := o.st.bump "P_exception_entry" }
    else if (userSplit sv recip).isSome then o := { o with st := o.st.bump "P_virtual_user" }
  | none => pure ()
  let ms := stripvdom es recip
  let mt := addbounceText es recip report
  if ms != stripped || mt != text then
    o := o.dis s!"in={blobh} kind=P impl={hex stripped} {hex text} model={hex ms} {hex mt}"
  if stripped != recip then o := { o with st := o.st.bump "P_prefix_removed" }
  let spec := namedRecipient sl sv recip
  let known := hasException sv recip && stripped == unrepairedName sl sv recip && stripped != spec
  if stripped != spec then
    o := o.ora s!"in={blobh} kind=P why=virtual-domain-prefix-not-removed-as-specified stripped={hex stripped} spec={hex spec}{if known then KNOWN else ""}"
    if known then o := { o with st := o.st.bump "known_strip_exception" }
  -- the remaining checks of a known-finding case are made against the name that was written
  match paragraphOK (if known then stripped else spec) report text with
  | some why => o := o.ora s!"in={blobh} kind=P why={why} text={hex text}"
  | none => pure ()
  return o

def handleD (o : Out) (blobh : String) (blob appended : Bytes) : Out := Id.run do
  let fs := splitNul blob
  let dying := (fld fs 0).head? == some 49
  let recip := fld fs 1
  let raw := fld fs 2
  let es : Tables := { locals := readfile (fld fs 5), vdoms := cmEntries (readfile (fld fs 4)) }
  let sl := specControlLines (fld fs 5)
  let sv := specVdoms (some (fld fs 4))
  let mut o := o
  o := { o with st := o.st.bump "kindD" }
  if sl != es.locals || sv != es.vdoms then
    o := o.dis s!"in={blobh} kind=D what=control-file-parse model-and-spec-differ"
  let rep := delReport dying (1 :: raw)
  let expect := match rep with | some r => addbounceText es recip r | none => ABSENT
  if expect != appended then
    o := o.dis s!"in={blobh} kind=D impl={hex appended} model={hex expect}"
  -- spec: a paragraph iff status 'D', or 'Z' while the message is past its lifetime
  let st := raw.head?
  let want := st == some 68 || (st == some 90 && dying)
  o := { o with st := o.st.bump (if want then "D_bounced" else "D_not_bounced") }
  if want then
    let nc := namedCheck sl sv recip appended
    if appended == ABSENT then o := o.ora s!"in={blobh} kind=D why=permanent-failure-not-recorded"
    else if (paragraphs appended).length != 1 then o := o.ora s!"in={blobh} kind=D why=not-exactly-one-paragraph text={hex appended}"
    else
      if nc != .ok then
        o := o.ora s!"in={blobh} kind=D why=does-not-start-with-recipient-line text={hex appended}{if nc == .known then KNOWN else ""}"
        if nc == .known then o := { o with st := o.st.bump "known_strip_exception" }
      if nc != .bad && raw.length + 1 < Gen.REPORTMAX && st == some 68 then
        match paragraphOK (nameFor sl sv recip appended) (raw.drop 1) appended with
        | some why => o := o.ora s!"in={blobh} kind=D why={why} text={hex appended}"
        | none => pure ()
  else if appended != ABSENT then o := o.ora s!"in={blobh} kind=D why=bounce-recorded-without-permanent-failure text={hex appended}"
  return o

def handleI (o : Out) (id : Nat) (blobh : String) (blob : Bytes) (bfile : Option Bytes)
    (ret q : Bool) (f : Bytes) (t : List Bytes) (body : Bytes) (left : Bool) (log : Bytes)
    (ret2 q2 : Bool) (f2 : Bytes) (t2 : List Bytes) (body2 : Option Bytes) (left2 : Bool) : Out := Id.run do
  let fs := splitNul blob
  let ctl := controlsOf fs
  let cfg := getcontrols ctl
  -- spec side, from the control-file bytes
  let sl := specLocals ctl.locals ctl.me
  let sv := specVdoms ctl.virtualdomains
  let sdb := specDoubleBounceTo ctl.doublebounceto ctl.doublebouncehost ctl.me
  let fault := faultOf (fld fs 8)
  let sender := fld fs 9
  let mess := fld fs 10
  let fails := pairsFrom (fs.drop 11)
  let mut o := o
  o := { o with st := (o.st.bump "kindI").bump ("fault_" ++ String.ofList [Char.ofNat ((fld fs 8).headD 45).toNat]) }
  if sl != cfg.locals || sv != cfg.vdoms || sdb != cfg.doublebounceto then
    o := o.dis s!"in={blobh} kind=I what=controls model-and-spec-differ spec-dbto={hex sdb} model-dbto={hex cfg.doublebounceto}"
  -- model
  let mb := if fails.isEmpty then none else some (bounceFile cfg.tables fails)
  if mb != bfile then
    o := o.dis s!"in={blobh} kind=I what=bouncefile impl={match bfile with | some b => hex b | none => "absent"} model={match mb with | some b => hex b | none => "absent"}"
  let r1 := inject cfg DATE id QP fault sender mb mess
  if !agreeRes r1 ret q f t (some body) left (some log) then
    o := o.dis s!"in={blobh} kind=I what=call1 impl=ret={ret} q={q} F={hex f} T={",".intercalate (t.map hex)} left={left} log={hex log} body={hex body} model={showRes r1}"
  let r2 := inject cfg DATE id QP .none sender r1.bounce mess
  let body2' := match body2 with | some b => some b | none => (if q then some body else none)
  if !agreeRes r2 ret2 q2 f2 t2 body2' left2 none then
    o := o.dis s!"in={blobh} kind=I what=call2 impl=ret={ret2} q={q2} F={hex f2} T={",".intercalate (t2.map hex)} left={left2} model={showRes r2}"
  -- oracle on the implementation's behaviour
  let base := specBase sender
  o := { o with st := o.st.bump (if base == DBSENDER then "sender_doublebounce" else if base.isEmpty then "sender_empty"
                                  else if base != sender then "sender_verp" else "sender_ordinary") }
  -- every recipient paragraph of the implementation's bounce file
  match bfile with
  | some b =>
    let ps := paragraphs b
    if ps.length != fails.length then
      o := o.ora s!"in={blobh} kind=I why=bounce-file-paragraphs-differ-from-failed-recipients n={ps.length} fails={fails.length} file={hex b}"
    else match namingOK sl sv fails ps with
      | some tag =>
        o := o.ora s!"in={blobh} kind=I why=bounce-file-paragraph-does-not-name-its-recipient file={hex b}{tag}"
        if tag == KNOWN then o := { o with st := o.st.bump "known_strip_exception" }
      | none => pure ()
  | none => if !fails.isEmpty then o := o.ora s!"in={blobh} kind=I why=failures-not-recorded"
  match envelopeOK sdb sender q f t with
  | some why => o := o.ora s!"in={blobh} kind=I why={why} F={hex f} T={",".intercalate (t.map hex)} want-dbto={hex sdb}"
  | none => pure ()
  match envelopeOK sdb sender q2 f2 t2 with
  | some why => o := o.ora s!"in={blobh} kind=I why={why}-on-retry F={hex f2} T={",".intercalate (t2.map hex)}"
  | none => pure ()
  if q then
    match noticeOK sl sv sdb sender mess fails body with
    | some why => o := o.ora s!"in={blobh} kind=I why={why} body={hex body}"
    | none => pure ()
  if q2 then
    match body2 with
    | some b2 => match noticeOK sl sv sdb sender mess fails b2 with
      | some why => o := o.ora s!"in={blobh} kind=I why={why}-on-retry body={hex b2}"
      | none => pure ()
    | none => pure ()
  let had := bfile.isSome
  -- bounce file removed only after the notice was queued (or the double bounce failure discarded)
  if had && !left && !q && base != DBSENDER then
    o := o.ora s!"in={blobh} kind=I why=bounce-file-removed-without-queued-notice"
  -- success means: queued (unless nothing failed / triple bounce)
  if ret && had && base != DBSENDER && !q then
    o := o.ora s!"in={blobh} kind=I why=success-reported-without-notice"
  -- once: after success a second call sends nothing
  if ret && q2 then o := o.ora s!"in={blobh} kind=I why=second-notice-after-success"
  -- retry: after a failure that queued nothing the next call sends the notice
  if !ret && !q && had && base != DBSENDER && !q2 then
    o := o.ora s!"in={blobh} kind=I why=notice-lost-after-temporary-failure"
  return o


/-! ### daemon level: replay through the monitor, oracle of C14_daemon_* on the implementation's output -/

def ID0 : Nat := 4711
def troubleLog : Bytes := str "warning: trouble injecting bounce message, will try later\n"
def unlinkWarn : Bytes := str "warning: unable to unlink "
def okAddr : Bytes := [111, 107]

/-- monitor + history carried from one I line of a chain to the next -/
structure Chain where
  sg : Option (Daemon.St × Ghost) := none
  gapSender : Bool := false        -- the last message's sender is `#@[]-@[]…` (monitor gap, see C14_daemon_verp_discard_gap)

/-- envelope bytes as qmail-queue receives them, from the captured qmail_from / qmail_to calls -/
def envReal (f : Bytes) (t : List Bytes) : Bytes := 70 :: f ++ [0] ++ (t.map (fun r => 84 :: r ++ [0])).flatten

/-- cut the bounce file at the sizes observed after each real addbounce() call (oldest first) -/
def cutParts (file : Bytes) : Nat → List Nat → Option (List Bytes)
  | prev, [] => if prev == file.length then some [] else none
  | prev, sz :: r =>
    if sz < prev || sz > file.length then none
    else (cutParts file sz r).map (fun ps => ((file.drop prev).take (sz - prev)) :: ps)

def feedAll (dcfg : Daemon.Cfg) : (Daemon.St × Ghost) → List (String × Daemon.Ev) → Except String (Daemon.St × Ghost)
  | sg, [] => .ok sg
  | sg, (nm, e) :: r => match gaccept dcfg sg e with
    | some sg' => feedAll dcfg sg' r
    | none => .error nm

def dcfgOf (dbto : Bytes) : Daemon.Cfg :=
  { conc := fun _ => 1, lifetime := 604800, route := fun a => (.loc, a), doublebounceto := dbto }

def lab (nm : String) (es : List Daemon.Ev) : List (String × Daemon.Ev) := es.map (fun e => (nm, e))

/-- the events of one real injectbounce() call, from what the harness observed -/
def callEvents (id : Nat) (q : Bool) (f : Bytes) (t : List Bytes) (body log : Bytes) (before after : Bool) : List (String × Daemon.Ev) :=
  (if q then [("bounceInject-ok", Daemon.Ev.bounceInject id true (envReal f t) body)]
   else if log == troubleLog then [("bounceInject-failed", Daemon.Ev.bounceInject id false [] [])] else [])
  ++ (if before && !after then [("unlinkBounce", Daemon.Ev.unlinkBounce id)] else [])

def daemonI (o : Out) (ch : Chain) (id : Nat) (blobh : String) (sl : List Bytes) (sv : List (Bytes × Bytes)) (sdb : Bytes)
    (sender : Bytes) (fails : List (Bytes × Bytes))
    (bfile : Option Bytes) (ret q : Bool) (f : Bytes) (t : List Bytes) (body : Bytes) (left : Bool) (log : Bytes)
    (ret2 q2 : Bool) (f2 : Bytes) (t2 : List Bytes) (body2 : Bytes) (left2 : Bool) (log2 : Bytes) (sizes : List Nat) : Out × Chain := Id.run do
  let mut o := o
  let dcfg := dcfgOf sdb
  let base := specBase sender
  let gap := base == DBSENDER && sender != DBSENDER
  let had := bfile.isSome
  let file := bfile.getD []
  let parts := match cutParts file 0 sizes with
    | some ps => if ps.length == fails.length then ps else []
    | none => []
  if had && parts.length != fails.length then
    o := o.dis s!"in={blobh} kind=I what=sizes-do-not-cut-the-bounce-file sizes={sizes} len={file.length}"
    return (o, { sg := none })
  -- (a) on the implementation's output: the file is unlinked only after an injection of exactly its content
  --     (executable form of the monitor's guard, `injectGuard`; `#@[]` after VERP stripping = the documented discard)
  if had && !left && base != DBSENDER && !(q && injectGuard dcfg sender file (envReal f t) body) then
    o := o.ora s!"in={blobh} kind=I why=bounce-file-unlinked-without-injection-of-its-content env={hex (envReal f t)}"
  if left && !left2 && base != DBSENDER && !(q2 && injectGuard dcfg sender file (envReal f2 t2) body2) then
    o := o.ora s!"in={blobh} kind=I why=bounce-file-unlinked-without-injection-of-its-content-on-retry env={hex (envReal f2 t2)}"
  -- (b) every text appended by addbounce() is inside every notice that was queued
  if q && !parts.all (fun p => Daemon.isInfix p body) then
    o := o.ora s!"in={blobh} kind=I why=appended-paragraph-missing-from-queued-notice"
  if q2 && !parts.all (fun p => Daemon.isInfix p body2) then
    o := o.ora s!"in={blobh} kind=I why=appended-paragraph-missing-from-queued-notice-on-retry"
  -- (b) committed bounces (queued and the file removed by the same call): never two, exactly one when the file is gone
  let committed := (if q && had && !left then 1 else 0) + (if q2 && left && !left2 then 1 else 0)
  if committed > 1 then o := o.ora s!"in={blobh} kind=I why=paragraphs-sent-in-two-committed-bounces"
  if had && base != DBSENDER && !left2 && committed != 1 then
    o := o.ora s!"in={blobh} kind=I why=bounce-file-gone-without-exactly-one-committed-bounce committed={committed}"
  -- (b) a notice that was queued while the file stays is the at-least-once case: only when unlink failed
  if q && left && !Daemon.isInfix unlinkWarn log then
    o := o.ora s!"in={blobh} kind=I why=notice-queued-but-bounce-file-kept-without-unlink-failure"
  -- (b) a failed call keeps the record
  if had && !ret && !q && !left then o := o.ora s!"in={blobh} kind=I why=record-lost-by-failed-injection"
  -- replay through the monitor
  let start : Option (Daemon.St × Ghost) := if id == ID0 then some ginit else ch.sg
  match start with
  | none => return (o, { sg := none })
  | some sg0 =>
    -- record addresses: the documented name (in a known-finding case the name that was written; the naming itself is judged in handleI)
    let named := (List.zip fails parts).map (fun (fr, part) => nameFor sl sv fr.1 part)
    let addrs := okAddr :: named
    let setup := lab "setup-arrive" (evArrive id sender addrs)
      ++ lab "setup-deliver" [.cmd .loc 0 id 0 okAddr, .rbytes .loc [0, 75, 0], .markD id .loc 0]
    let failEvs := (List.zip (List.range fails.length) (List.zip fails parts)).flatMap (fun (j, fr, part) =>
      [("setup-cmd", Daemon.Ev.cmd .loc 0 id (recPos addrs (j + 1)) (addrs.getD (j + 1) [])),
       ("setup-report", Daemon.Ev.rbytes .loc ([0, 68] ++ fr.2.filter (· != 0) ++ [0])),
       ("appendBounce", Daemon.Ev.appendBounce id part),
       ("setup-mark", Daemon.Ev.markD id .loc (recPos addrs (j + 1)))])
    let close := lab "setup-close" [Daemon.Ev.unlinkChan id .loc]
    let calls := if gap then [] else
      callEvents id q f t body log had left ++ callEvents id q2 f2 t2 body2 log2 left left2
      ++ (if ret2 && !left2 then lab "done" (evDone id) else [])
    if gap then o := { o with st := o.st.bump "daemon_gap_verp_discard" }
    match feedAll dcfg sg0 (setup ++ failEvs ++ close ++ calls) with
    | .error nm =>
      if nm.startsWith "setup" then o := o.dis s!"in={blobh} kind=I what=daemon-replay event={nm} rejected by the monitor"
      else o := o.ora s!"in={blobh} kind=I why=daemon-monitor-rejects-{nm}"
      return (o, { sg := none })
    | .ok (s, g) =>
      let gm := g id
      let outcome : String :=
        if !gm.committed.isEmpty then (if gm.attempts.length > gm.committed.length then "daemon_committed_after_resend" else "daemon_committed")
        else if (s.msg id).discarded then "daemon_discarded" else if !had then "daemon_nothing_failed"
        else if gap then "daemon_gap" else "daemon_pending"
      o := { o with st := (o.st.bump "daemon_replayed").bump outcome }
      -- the history the monitor recorded is the implementation's: what was committed is what the real code queued
      if !gap then
        let wantCommitted : List Bytes := if q && had && !left then [body] else if q2 && left && !left2 then [body2] else []
        if gm.committed.map (·.body) != wantCommitted || (gm.committed.any fun x => x.file != file || x.parts.reverse != parts) then
          o := o.dis s!"in={blobh} kind=I what=daemon-history committed={gm.committed.length} want={wantCommitted.length}"
      return (o, { sg := some (s, g), gapSender := gap })

/-- end of a C case: the chain as the monitor's history saw it -/
def daemonC (o : Out) (ch : Chain) (blobh : String) (sender : Bytes) (env : List (Bytes × Bytes)) : Out := Id.run do
  let mut o := o
  match ch.sg with
  | none => return o
  | some (s, g) =>
    o := { o with st := o.st.bump "daemon_chain_checked" }
    for (k, ft) in List.zip (List.range env.length) env do
      if (g (ID0 + k)).committed.map (·.env) != [envReal ft.1 [ft.2]] then
        o := o.ora s!"in={blobh} kind=C why=chain-step-{k}-not-committed-exactly-once-with-this-envelope"
    let last := ID0 + env.length
    let gapS := specBase sender == DBSENDER && sender != DBSENDER
    if env.length < 6 && !(gapS && env.isEmpty) then
      if !(g last).committed.isEmpty || !((s.msg last).noted.isEmpty || (s.msg last).discarded) || (s.msg last).bounce.isSome then
        o := o.ora s!"in={blobh} kind=C why=chain-does-not-end-in-a-discard-or-a-message-without-failures"
    return o

def handleC (o : Out) (blobh : String) (blob : Bytes) (n : Nat) (s0 : Bytes) (env : List (Bytes × Bytes)) : Out := Id.run do
  let fs := splitNul blob
  let ctl := controlsOf fs
  let cfg := getcontrols ctl
  let sdb := specDoubleBounceTo ctl.doublebounceto ctl.doublebouncehost ctl.me
  let sender := fld fs 9
  let mess := fld fs 10
  let fails := pairsFrom (fs.drop 11)
  let mut o := o
  o := { o with st := (o.st.bump "kindC").bump s!"chain_len_{n}" }
  -- model chain: every generated message fails permanently at its single recipient
  let step (m : Msg) (bf : Bytes) : Option Msg := bounceOf cfg DATE bf m
  let m0 : Msg := { sender := sender, rcpts := [], body := mess }
  let rec go (fuel : Nat) (m : Msg) (bf : Option Bytes) (acc : List (Bytes × Bytes)) : List (Bytes × Bytes) :=
    match fuel, bf with
    | 0, _ => acc.reverse
    | _, none => acc.reverse
    | fuel + 1, some b => match step m b with
      | none => acc.reverse
      | some m' =>
        let t := m'.rcpts.headD []
        go fuel m' (some (addbounceText cfg.tables t chainReport)) ((m'.sender, t) :: acc)
  let mchain := go 6 m0 (if fails.isEmpty then none else some (bounceFile cfg.tables fails)) []
  if mchain != env || s0 != sender || n != env.length then
    o := o.dis s!"in={blobh} kind=C impl={env.map (fun (a, b) => hex a ++ ">" ++ hex b)} model={mchain.map (fun (a, b) => hex a ++ ">" ++ hex b)}"
  -- oracle: the chain message -> bounce -> double bounce -> nothing
  let base := specBase sender
  let want : Nat := if fails.isEmpty then 0 else if base == DBSENDER then 0 else if base.isEmpty then 1 else 2
  if env.length > 2 then o := o.ora s!"in={blobh} kind=C why=bounce-chain-longer-than-bounce-and-double-bounce n={env.length}"
  else if env.length != want then o := o.ora s!"in={blobh} kind=C why=bounce-chain-length n={env.length} want={want}"
  else
    let ok := match env with
      | [] => true
      | [(f1, t1)] => if base.isEmpty then f1 == DBSENDER && t1 == sdb else f1.isEmpty && t1 == base
      | [(f1, t1), (f2, t2)] => f1.isEmpty && t1 == base && f2 == DBSENDER && t2 == sdb
      | _ => false
    if !ok then o := o.ora s!"in={blobh} kind=C why=bounce-chain-envelopes chain={env.map (fun (a, b) => hex a ++ ">" ++ hex b)} want-dbto={hex sdb}"
  return o

def pairUp : List Bytes → List (Bytes × Bytes)
  | a :: b :: r => (a, b) :: pairUp r
  | _ => []

def handle (chain : IO.Ref Chain) (st : Stats) (line : String) : IO Stats := do
  let bad : IO Stats := do
    IO.println s!"DISAGREE unparsable line {line.take 300}"
    return { st with disagree := st.disagree + 1, cases := st.cases + 1 }
  let fsl := fields line
  let finish (o : Out) (blob : Bytes) (nontriv : Bool) (sample : String) : IO Stats := do
    for m in o.msgs.reverse do IO.println m
    let h := hashBytes (blob ++ (fsl.headD "").toUTF8.toList)
    let fresh := !o.st.seen.contains h
    let mut st := { o.st with cases := o.st.cases + 1, seen := o.st.seen.insert h,
                              nontrivial := o.st.nontrivial + (if fresh && nontriv then 1 else 0) }
    if fresh && nontriv && st.samples < 2 && blob.length > 40 && blob.length < 400 then
      IO.println s!"SAMPLE {sample.take 1200}"
      st := { st with samples := st.samples + 1 }
    return st
  match fsl with
  | ["P", blobh, sh, th, _sleeps] =>
    match unhex blobh, unhex sh, unhex th with
    | some blob, some s, some t =>
      let o := handleP { st := st } blobh blob s t
      let fs := splitNul blob
      let nontriv := s != fld fs 1 || hasLFLF (fld fs 2) || (fld fs 2).head? == some LF || (fld fs 1).contains LF
        || (match domainPart (fld fs 1) with | some d => isLocal (readfile (fld fs 4)) d | none => false)
      finish o blob nontriv s!"kind=P in={blobh} stripped={sh} text={th}"
    | _, _, _ => bad
  | ["D", blobh, ah] =>
    match unhex blobh, unhex ah with
    | some blob, some a =>
      let o := handleD { st := st } blobh blob a
      finish o blob (a != ABSENT) s!"kind=D in={blobh} appended={ah}"
    | _, _ => bad
  | ["I", ids, blobh, bfh, rets, qs, fh, ths, bodyh, lefts, logh, ret2s, q2s, f2h, t2hs, body2h, left2s, log2h, sizess] =>
    match ids.toNat?, unhex blobh, unhex bfh, b01 rets, b01 qs, unhex fh, unhexList ths, unhex bodyh with
    | some id, some blob, some bf, some ret, some q, some f, some t, some body =>
      match b01 lefts, unhex logh, b01 ret2s, b01 q2s, unhex f2h, unhexList t2hs, b01 left2s with
      | some left, some log, some ret2, some q2, some f2, some t2, some left2 =>
        let body2 : Option (Option Bytes) := if body2h == "=" then some none else (unhex body2h).map some
        match body2 with
        | some body2 =>
          let bfile := if bfh == "-" then none else some bf
          let o := handleI { st := st } id blobh blob bfile ret q f t body left log ret2 q2 f2 t2 body2 left2
          let sizes : Option (List Nat) := if sizess == "-" then some [] else (sizess.splitOn ",").mapM (·.toNat?)
          let o ← (match unhex log2h, sizes with
            | some log2, some szs => do
              let fs := splitNul blob
              let ch ← chain.get
              let ctl := controlsOf fs
              let (o', ch') := daemonI o ch id blobh (specLocals ctl.locals ctl.me) (specVdoms ctl.virtualdomains)
                (specDoubleBounceTo ctl.doublebounceto ctl.doublebouncehost ctl.me) (fld fs 9) (pairsFrom (fs.drop 11))
                bfile ret q f t body left log ret2 q2 f2 t2 (body2.getD body) left2 log2 szs
              chain.set ch'
              pure o'
            | _, _ => pure (o.dis s!"in={blobh} kind=I what=unparsable-log2-or-sizes"))
          finish o blob (q || !ret) s!"kind=I in={blobh} ret={rets} q={qs} F={fh} T={ths} left={lefts} log={logh} body={bodyh}"
        | none => bad
      | _, _, _, _, _, _, _ => bad
    | _, _, _, _, _, _, _, _ => bad
  | ["X", kind, blobh] =>
    IO.println s!"ORACLE in={blobh} kind={kind} why=implementation-crashed-or-sanitizer-error-on-this-input"
    return { st with cases := st.cases + 1, oracle := st.oracle + 1 }
  | "C" :: blobh :: ns :: s0h :: rest =>
    match unhex blobh, ns.toNat?, unhex s0h, rest.mapM unhex with
    | some blob, some n, some s0, some envl =>
      let o := handleC { st := st } blobh blob n s0 (pairUp envl)
      let ch ← chain.get
      let o := daemonC o ch blobh s0 (pairUp envl)
      chain.set {}
      finish o blob (n > 0) s!"kind=C in={blobh} n={ns} chain={" ".intercalate rest}"
    | _, _, _, _ => bad
  | _ => bad

def main : IO Unit := do
  let chain ← IO.mkRef ({} : Chain)
  runDriver (handle chain)
