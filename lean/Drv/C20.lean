/- Driver for C20.  Reads the lines of harness/c20_lib.c (A S Q O I), c20_dns.c (D), c20_parse.c (T),
   c20_prog.c (P) and the sanitizer death lines (X).
   DISAGREE = the Lean model (Nq.Stralloc / Nq.Substdio / Nq.Dns / Nq.Users.cdbSeek) predicts something else than the
   real code did.  ORACLE = the bounds / stream predicate the theorems of Nq/Props/C20.lean state, evaluated on the
   IMPLEMENTATION's output, fails — or a sanitizer aborted the run, or a program ended outside its documented exits. -/
import Drv.Util
import Nq.Stralloc
import Nq.Substdio
import Nq.Dns
import Nq.Users
import Nq.Spawn
import Nq.Gen.C20Bounds
import Nq.FixedBuf
import Nq.Gen.Consts
import Drv.C20Tok
import Nq.LocalPass
import Drv.C20Getln

open Nq Drv

def U32 : Nat := 4294967296

def natOf (s : String) : Nat := s.toNat?.getD 0
def intOf (s : String) : Int := s.toInt?.getD 0
def optNat (s : String) : Option Nat := if s == "-" then none else s.toNat?
def showOpt : Option Nat → String | none => "-" | some n => toString n
def commaList (s : String) : List String := if s == "-" then [] else s.splitOn ","
def script (s : String) : List Nat := (commaList s).map natOf

def note (st : Stats) (tag : String) (dis : Bool) (msg : String) : IO Stats := do
  IO.println s!"{tag} {msg}"
  return if dis then { st with disagree := st.disagree + 1 } else { st with oracle := st.oracle + 1 }

/-! ### A / S / Q : gen_alloc, stralloc, quote -/
open Nq.Stralloc in
def modelA (sz base limit : Nat) (x : GA) (op n : Nat) : Out :=
  let grant := fun k => decide (k ≤ limit)
  match op with
  | 0 => ready sz base grant x n
  | 1 => readyplus sz base grant x n
  | 2 => append sz base grant x
  | 3 => catb grant x n
  | _ => copyb grant x n

def handleA (st : Stats) (f : List String) (inp : String) : IO Stats := do
  match f with
  | [szS, baseS, limS, nnS, lenS, aS, opS, nS, ":", retS, nn2S, len2S, a2S, reqS] =>
    let sz := natOf szS; let base := natOf baseS; let lim := natOf limS; let nn := nnS == "1"
    let len := natOf lenS; let a := natOf aS; let op := natOf opS; let n := natOf nS
    let ret := retS == "1"; let nn2 := nn2S == "1"; let len2 := natOf len2S; let a2 := natOf a2S; let req := optNat reqS
    let mut st := st.bump ("A.op" ++ opS ++ (if ret then ".ok" else ".fail"))
    let o := modelA sz base lim ⟨nn, len, a, a * sz⟩ op n
    if !(o.ret == ret && o.x.nonnull == nn2 && o.x.len == len2 && o.x.a == a2 && o.req == req) then
      st ← note st "DISAGREE" true s!"kind=alloc in={inp} impl={retS},{nn2S},{len2S},{a2S},{reqS} model={if o.ret then 1 else 0},{if o.x.nonnull then 1 else 0},{o.x.len},{o.x.a},{showOpt o.req}"
    -- property oracle on the implementation's numbers (initial state well-formed)
    let wf0 := (!nn || len ≤ a) && a * sz < U32
    let len0 := if nn then len else 0
    let okSucc := nn2 && len2 ≤ a2 && a2 * sz < U32 && (match req with | some r => r == a2 * sz | none => true) &&
      (match op with
       | 0 => n ≤ a2
       | 1 => (if nn then len + n ≤ a2 else n ≤ a2)
       | 2 => len2 == len0 + 1
       | 3 => len2 == len0 + n && len2 < a2
       | _ => len2 == n && n < a2)
    let okFail := a2 == a && nn2 == nn
    let need := match op with | 0 => n | 1 => len0 + n | 2 => len0 + 1 | 3 => len0 + n + 1 | _ => n + 1
    let okOvf := !(nn && need ≥ U32 && ret)          -- a request that does not fit 32 bits is never granted
    if wf0 && !((if ret then okSucc else okFail) && okOvf) then
      st ← note st "ORACLE" false s!"kind=alloc in={inp} impl={retS},{nn2S},{len2S},{a2S},{reqS} bounds-predicate-fails"
    return st
  | _ => note st "DISAGREE" true s!"kind=alloc unparsable in={inp}"

open Nq.Stralloc in
def parseSOp (s : String) : Option (Char × Nat) :=
  match s.toList with
  | c :: r => some (c, (String.ofList r).toNat?.getD 0)
  | [] => none

open Nq.Stralloc in
def handleS (st : Stats) (f : List String) (inp : String) : IO Stats := do
  match f with
  | [limS, opsS, ":", resS, okS] =>
    let lim := natOf limS
    let grant := fun k => decide (k ≤ lim)
    let ops := (opsS.splitOn ".").filterMap parseSOp
    let res := resS.splitOn ";"
    let mut st := st.bump "S.seq"
    let mut x : GA := {}
    let mut outs : List String := []
    for (c, n) in ops do
      let o : Out := match c with
        | 'r' => ready 1 30 grant x n
        | 'p' => readyplus 1 30 grant x n
        | 'a' => append 1 30 grant x
        | 'c' => catb grant x n
        | 'y' => copyb grant x n
        | _ => if n ≤ x.a then ⟨true, { x with len := n }, none, [], false⟩ else ⟨true, x, none, [], false⟩
      x := o.x
      outs := outs ++ [s!"{if o.ret then 1 else 0},{o.x.len},{o.x.a},{showOpt o.req}"]
    if outs != res then
      st ← note st "DISAGREE" true s!"kind=seq in={inp} impl={resS} model={";".intercalate outs}"
    -- oracle: len ≤ a after every step of the real run, content intact
    let bad := res.any (fun r => match r.splitOn "," with
      | [_, l, a, _] => natOf l > natOf a
      | _ => true)
    if bad || okS != "1" then
      st ← note st "ORACLE" false s!"kind=seq in={inp} impl={resS} content={okS} len>a-or-content-corrupted"
    return st
  | _ => note st "DISAGREE" true s!"kind=seq unparsable in={inp}"

open Nq.Stralloc in
def handleQ (st : Stats) (f : List String) (inp : String) : IO Stats := do
  match f with
  | [limS, nnS, aS, ilS, escS, ":", retS, len2S, a2S, reqS, okS] =>
    let lim := natOf limS; let nn := nnS == "1"; let a := natOf aS; let il := natOf ilS; let esc := natOf escS
    let ret := retS == "1"; let len2 := natOf len2S; let a2 := natOf a2S; let req := optNat reqS
    let mut st := st.bump ("Q" ++ (if ret then ".ok" else ".fail"))
    let o := quoteDoit Nq.Gen.C20Bounds.quoteSignedCounters (fun k => decide (k ≤ lim)) ⟨nn, 0, if nn then a else 0, if nn then a else 0⟩ il esc
    if !(o.ret == ret && o.x.len == len2 && o.x.a == a2 && o.req == req) then
      st ← note st "DISAGREE" true s!"kind=quote in={inp} impl={retS},{len2S},{a2S},{reqS} model={if o.ret then 1 else 0},{o.x.len},{o.x.a},{showOpt o.req}"
    let okv := if ret then len2 == il + esc + 2 && len2 ≤ a2 && !o.ub && okS == "1" else true
    if !okv then
      st ← note st "ORACLE" false s!"kind=quote in={inp} impl={retS},{len2S},{a2S},{reqS} bounds-predicate-fails"
    return st
  | _ => note st "DISAGREE" true s!"kind=quote unparsable in={inp}"

/-! ### O / I : substdio -/
open Nq.Substdio in
def parseOOp (s : String) : Option OOp :=
  match s.toList with
  | 'f' :: _ => some .flush
  | 'p' :: r => (unhex (String.ofList r)).map .put
  | 'b' :: r => (unhex (String.ofList r)).map .bput
  | 'P' :: r => (unhex (String.ofList r)).map .putflush
  | _ => none

open Nq.Substdio in
def handleO (st : Stats) (f : List String) (inp : String) : IO Stats := do
  match f with
  | [nS, wsS, opsS, ":", resS, takenS, bufS] =>
    let n := natOf nS
    let ops := (opsS.splitOn ".").filterMap parseOOp
    let mut st := st.bump "O.seq"
    let mut s : OSt := { n := n, ws := script wsS }
    let mut outs : List String := []
    let mut allok := true
    let mut total : Bytes := []
    for o in ops do
      let r := oapply s o
      s := r.1
      allok := allok && r.2
      total := total ++ (match o with | .put d => d | .bput d => d | .putflush d => d | .flush => [])
      outs := outs ++ [s!"{if r.2 then "0" else "-1"},{s.p}"]
    let res := resS.splitOn ";"
    if outs != res || hex s.out != takenS || hex s.buf != bufS then
      st ← note st "DISAGREE" true s!"kind=sout in={inp} impl={resS},{takenS},{bufS} model={";".intercalate outs},{hex s.out},{hex s.buf}"
    -- oracle on the implementation: 0 ≤ p ≤ n after every call; if nothing failed, taken ++ buffered = everything put
    let pbad := res.any (fun r => match r.splitOn "," with
      | [_, p] => (match p.toInt? with | some v => v < 0 || v > Int.ofNat n | none => true)
      | _ => true)
    let implOk := res.all (fun r => r.startsWith "0,")
    let stream := match unhex takenS, unhex bufS with
      | some t, some b => !implOk || t ++ b == total
      | _, _ => false
    if pbad || !stream then
      st ← note st "ORACLE" false s!"kind=sout in={inp} impl={resS},{takenS},{bufS} p-out-of-range-or-stream-law-fails"
    return st
  | _ => note st "DISAGREE" true s!"kind=sout unparsable in={inp}"

open Nq.Substdio in
def handleI (st : Stats) (f : List String) (inp : String) : IO Stats := do
  match f with
  | [sizeS, rsS, srcS, opsS, ":", resS] =>
    let size := natOf sizeS
    match unhex srcS with
    | none => note st "DISAGREE" true s!"kind=sin unparsable in={inp}"
    | some src =>
    let mut st := st.bump "I.seq"
    let mut s : ISt := { size := size, n := size, src := src, rs := script rsS }
    let mut outs : List String := []
    for o in (opsS.splitOn ".").filterMap parseSOp do
      match o with
      | ('g', len) =>
        let r := Substdio.get s len
        s := r.1
        outs := outs ++ [match r.2 with
          | .err => "-1,-" | .eof => "0,-"
          | .got b => s!"{b.length},{hex b}"]
      | ('f', _) =>
        let r := feed s
        s := r.1
        outs := outs ++ [match r.2 with
          | .err => s!"-1,{s.p},{s.n}" | .eof => s!"0,{s.p},{s.n}"
          | .got b => s!"{b.length},{s.p},{s.n}"]
      | (_, len) =>
        let k := min len s.p
        outs := outs ++ [s!"{k},{hex (s.data.take k)}"]
        s := seek s k
    let res := resS.splitOn ";"
    if outs != res then
      st ← note st "DISAGREE" true s!"kind=sin in={inp} impl={resS} model={";".intercalate outs}"
    -- oracle on the implementation: the bytes handed out, in order, are a prefix of the source; no get returns more
    -- than it was asked for; after every feed p + n = size
    let opsL := (opsS.splitOn ".").filterMap parseSOp
    let mut got : Bytes := []
    let mut bad := res.length != opsL.length
    for (o, r) in opsL.zip res do
      match o, r.splitOn "," with
      | ('g', len), [cnt, hx] =>
        let c := intOf cnt
        if c > Int.ofNat len then bad := true
        if c > 0 then
          match unhex hx with
          | some b => if b.length != c.toNat then bad := true else got := got ++ b
          | none => bad := true
      | ('f', _), [_, p, n] => if natOf p + natOf n != size then bad := true
      | ('s', _), [_, hx] => match unhex hx with | some b => got := got ++ b | none => bad := true
      | _, _ => bad := true
    if bad || got != src.take got.length then
      st ← note st "ORACLE" false s!"kind=sin in={inp} impl={resS} bytes-out-of-order-or-count-exceeds-request"
    return st
  | _ => note st "DISAGREE" true s!"kind=sin unparsable in={inp}"

/-! ### D : dns.c -/
open Nq.Dns in
def renderStep (s : Step) : String :=
  let (r, d) := match s.r with
    | .soft => ("-1", "-") | .done => ("2", "-") | .skip => ("0", "-") | .name => ("1", "-")
    | .ip a b c d => ("1", hex [a, b, c, d])
    | .mx p => ("1", toString p)
  s!"{r},{s.st.pos},{s.st.num},{d}"

open Nq.Dns in
def handleD (st : Stats) (f : List String) (inp : String) : IO Stats := do
  match f with
  | [kindS, respS, ":", rcS, stepsS, dnS, pubS] =>
    match unhex respS with
    | none => note st "DISAGREE" true s!"kind=dns unparsable in={inp}"
    | some resp =>
    let mut st := st.bump ("D." ++ kindS)
    let log : List (Nat × Int) := (commaList dnS).filterMap (fun e => match e.splitOn ":" with
      | [p, r] => some (natOf p, intOf r) | _ => none)
    let dn : Nat → Option Nat := fun p => match log.find? (fun e => e.1 == p) with
      | some (_, r) => if r < 0 then none else some r.toNat
      | none => none
    let (k, want) : Kind × Nat := if kindS == "i" then (.ip, 1) else if kindS == "m" then (.mx, 15) else (.name, 12)
    let pubrc := intOf ((pubS.splitOn ",").headD "0")
    let pubOk := pubrc == 0 || pubrc == 1 || pubrc == -1 || pubrc == -2 || pubrc == -3
    if resp.length < 12 then
      -- no response / resolver error: nothing to walk; the documented results are DNS_HARD / DNS_SOFT
      if !(rcS.startsWith "-") || !pubOk then
        st ← note st "ORACLE" false s!"kind=dns in={inp} impl={rcS} {pubS} no-response-not-reported-as-error"
      return st
    let (q, s0) := resolve resp dn
    let mrc := if q.ok then s!"0,{s0.pos},{s0.num}" else "-1,0,0"
    let steps := if q.ok then walk k true resp dn want (s0.num + 1) s0 else []
    let msteps := if q.ok then ";".intercalate (steps.map renderStep) else "-"
    let mdns := q.dns ++ (steps.map (·.dns)).flatten
    if mrc != rcS || msteps != stepsS || mdns != log.map (·.1) then
      st ← note st "DISAGREE" true s!"kind=dns in={inp} impl={rcS} {stepsS} dn={dnS} model={mrc} {msteps} dn={",".intercalate (mdns.map toString)}"
    if steps.any (fun s => match s.r with | .ip .. => true | .mx _ => true | .name => true | _ => false) then st := st.bump "D.found"
    -- oracle on the implementation's trace: dn_expand honoured its contract, responsepos never passed responseend
    let len := resp.length
    let dnBad := log.any (fun e => e.2 ≥ 0 && e.1 + e.2.toNat > len) || log.any (fun e => e.1 > len)
    let posBad := (match rcS.splitOn "," with | [rc, p, _] => rc == "0" && natOf p > len | _ => true) ||
      (if stepsS == "-" then false else (stepsS.splitOn ";").any (fun s => match s.splitOn "," with
        | [_, p, _, _] => natOf p > len | _ => true))
    if dnBad || posBad || !pubOk then
      st ← note st "ORACLE" false s!"kind=dns in={inp} impl={rcS} {stepsS} dn={dnS} pub={pubS} position-beyond-response-or-undocumented-result"
    return st
  | _ => note st "DISAGREE" true s!"kind=dns unparsable in={inp}"

/-! ### T : parsers (c20_parse.c) -/
def handleT (st : Stats) (f : List String) (inp : String) : IO Stats := do
  match f with
  | kind :: rest =>
    let mut st := st.bump ("T." ++ kind)
    if rest.getLast? != some "inv=1" then
      st ← note st "ORACLE" false s!"kind=parse.{kind} in={inp} structural-invariant-fails"
    if kind == "tok" || kind == "utok" then
      let r : Option (List Drv.C20Tok.Finding × List String) := match kind, rest with
        | "tok", [inS, rcS, _ntok, usedS, _naddr, _uplen, pS, uS, qS, _] =>
            (unhex inS).map (fun b => Drv.C20Tok.checkTok b rcS (natOf usedS) pS uS qS)
        | "utok", [specS, llS, uaS, ulS, qaS, qlS, _] =>
            (unhex specS).map (fun b => Drv.C20Tok.checkUtok b (natOf llS) (natOf uaS) (natOf ulS) (natOf qaS) (natOf qlS))
        | _, _ => none
      match r with
      | none => st ← note st "DISAGREE" true s!"kind=parse.{kind} unparsable in={inp}"
      | some (fs, ks) =>
        for k in ks do st := st.bump k
        for (dis, msg) in fs do
          st ← note st (if dis then "DISAGREE" else "ORACLE") dis s!"kind=parse.{kind} in={inp} {msg}"
    if kind == "gl2" then
      match rest with
      | [streamS, chunkS, bufS, sepS, callsS, _] =>
        match unhex streamS with
        | some stream =>
          let bufsz := natOf bufS
          let (m, grew) := Drv.C20Getln.modelCalls stream (natOf chunkS) bufsz (natOf sepS).toUInt8
          if grew > 0 then st := st.bump "T.gl2.line-buffer-grew"
          if (callsS.splitOn ";").any (fun c => match c.splitOn "," with | [_, contS, _, _, _, _, _] => contS != "-" && contS != "0" | _ => false) then
            st := st.bump "T.gl2.slice-inside-buffer-at-offset>0"
          if m != callsS then
            st ← note st "DISAGREE" true s!"kind=parse.gl2 in={inp} impl={callsS} model={m}"
          if !Drv.C20Getln.implOk callsS bufsz then
            st ← note st "ORACLE" false s!"kind=parse.gl2 in={inp} impl={callsS} cont/clen-outside-the-buffer-or-len>a-or-n+p≠size"
        | none => st ← note st "DISAGREE" true s!"kind=parse.gl2 unparsable in={inp}"
      | _ => st ← note st "DISAGREE" true s!"kind=parse.gl2 unparsable in={inp}"
    if kind == "cdb" then
      match rest with
      | [fileS, keyS, rS, dlenS, dataS, _] =>
        match unhex fileS, unhex keyS with
        | some file, some key =>
          let m : String := match Nq.Users.cdbSeek file key with
            | .found dpos dlen =>
                if dlen > 1048576 then s!"-3 {dlen} -"
                else
                  let d := (file.drop dpos).take dlen
                  if d.length = dlen then s!"1 {dlen} {hex d}" else s!"-2 {dlen} -"
            | .notFound => "0 0 -"
            | .err => "-1 0 -"
          if m != s!"{rS} {dlenS} {dataS}" then
            st ← note st "DISAGREE" true s!"kind=parse.cdb in={inp} impl={rS},{dlenS},{dataS} model={m}"
          -- oracle: data handed out is a slice of the file (never bytes from elsewhere), lengths agree
          if rS == "1" then
            match unhex dataS with
            | some d =>
              if d.length != natOf dlenS || !(List.range (file.length + 1)).any (fun i => (file.drop i).take d.length == d) then
                st ← note st "ORACLE" false s!"kind=parse.cdb in={inp} data-not-from-file"
            | none => st ← note st "ORACLE" false s!"kind=parse.cdb in={inp} data-unparsable"
        | _, _ => st ← note st "DISAGREE" true s!"kind=parse.cdb unparsable in={inp}"
      | _ => st ← note st "DISAGREE" true s!"kind=parse.cdb unparsable in={inp}"
    return st
  | _ => note st "DISAGREE" true s!"kind=parse unparsable in={inp}"

/-! ### R : report() of qmail-rspawn / qmail-lspawn (c20_report.c) -/
def handleR (st : Stats) (f : List String) (inp : String) : IO Stats := do
  match f with
  | [kS, wS, outS, ":", repS] =>
    match unhex outS, unhex repS with
    | some out, some rep =>
      let mut st := st.bump ("R." ++ kS)
      let k : Nq.Spawn.Kind := if kS == "l" then .l else .r
      let m := Nq.Spawn.reportBody k (natOf wS) out
      if m != rep then
        st ← note st "DISAGREE" true s!"kind=report in={inp} impl={repS} model={hex m}"
      -- oracle: a report is one status letter followed by bytes of the child's output, or one of the short fixed texts:
      -- it can never be longer than the output + 1 (bytes from beyond the output would make it longer or foreign)
      let body := rep.drop 1
      let fromChild := body.all (fun c => out.contains c)
      if !(rep.length ≤ 64 || (rep.length ≤ out.length + 1 && fromChild)) then
        st ← note st "ORACLE" false s!"kind=report in={inp} impl={repS} report-contains-bytes-not-in-the-child-output"
      return st
    | _, _ => note st "DISAGREE" true s!"kind=report unparsable in={inp}"
  | _ => note st "DISAGREE" true s!"kind=report unparsable in={inp}"

/-! ### F : fixed buffers (c20_fixed.c) vs Nq.FixedBuf -/
/-- "0-5,7" / "-" → indices -/
def parseSet (s : String) : List Nat :=
  if s == "-" then [] else
  (s.splitOn ",").flatMap (fun r => match r.splitOn "-" with
    | [a] => [natOf a]
    | [a, b] => (List.range (natOf b - natOf a + 1)).map (· + natOf a)
    | _ => [])

/-- sorted duplicate-free rendering of an index list, as the harness prints sets -/
def renderSet (l : List Nat) : String :=
  if l.isEmpty then "-" else
  let m := l.foldl max 0
  let marks := l.foldl (fun (a : Array Bool) i => a.set! i true) (Array.replicate (m + 2) false)
  let rec go (fuel i : Nat) (start : Option Nat) (acc : List String) : List String :=
    match fuel with
    | 0 => acc.reverse
    | fuel + 1 =>
      let on := marks.getD i false
      match start, on with
      | none, true => go fuel (i + 1) (some i) acc
      | none, false => go fuel (i + 1) none acc
      | some s, true => go fuel (i + 1) (some s) acc
      | some s, false => go fuel (i + 1) none ((if s + 1 == i then toString s else s!"{s}-{i - 1}") :: acc)
  ",".intercalate (go (m + 2) 0 none [])

open Nq.FixedBuf Nq.Gen.C20Bounds in
def handleF (st : Stats) (f : List String) (inp : String) : IO Stats := do
  let fin (st : Stats) (kind impl model : String) (implSet : List Nat) (size : Nat) : IO Stats := do
    let mut st := st.bump ("F." ++ kind)
    if impl != model then
      st ← note st "DISAGREE" true s!"kind=fixed.{kind} in={inp} impl={impl} model={model}"
    -- oracle (the theorems' predicate on the implementation): every index stored to is inside the array
    if implSet.any (· ≥ size) then
      st ← note st "ORACLE" false s!"kind=fixed.{kind} in={inp} impl={impl} store-outside-the-buffer"
    return st
  match f with
  | ["qmqpd", lenS, avS, ":", rS, setS] =>
    let len := natOf lenS; let av := natOf avS
    let mr := match qmqpdRet qmqpdGuard len av with | some true => "1" | some false => "0" | none => "E0"
    fin st "qmqpd" s!"{rS} {setS}" s!"{mr} {renderSet (qmqpdStores qmqpdGuard len av)}" (parseSet setS) qmqpdBuf
  | ["qmtpd", relS, rclS, lsS, lrS, ":", sndS, rcpS] =>
    let m1 := renderSet (qmtpdSenderStores qmtpdSenderGuard (natOf lsS))
    let m2 := renderSet (qmtpdRcptStores qmtpdRcptGuard (natOf lrS) (natOf rclS) (relS == "1"))
    fin st "qmtpd" s!"{sndS} {rcpS}" s!"{m1} {m2}" (parseSet sndS ++ parseSet rcpS) qmtpdBuf
  | ["getpw", locS, ":", rS, probesS, okS] =>
    match unhex locS with
    | none => note st "DISAGREE" true s!"kind=fixed.getpw unparsable in={inp}"
    | some loc =>
      let pr := getpwProbes getpwGuard (Nq.Gen.auto_break).toUInt8 loc
      let m := if pr.isEmpty then "-" else ",".intercalate (pr.map toString)
      let implProbes := (commaList probesS).map natOf
      -- each probe k stores username[0..k]: the stores are inside iff k < sizeof username
      fin st "getpw" s!"{rS} {probesS} {okS}" s!"0 {m} 1" (implProbes.flatMap (getpwStores (getpwUserlen + 1000000))) getpwUserlen
  | ["qq", avS, ":", lenS, setS] =>
    let av := natOf avS
    fin st "qq" s!"{lenS} {setS}" s!"{(errstrLoop qqErrGuard av 0).2} {renderSet (errstrStores qqErrGuard av)}" (parseSet setS) qqErrstr
  | ["qn", nS, ":", rS, setS] =>
    let n := natOf nS
    fin st "qn" s!"{rS} {setS}" s!"{if n == 0 then 1 else 0} {renderSet (Nq.Stralloc.quoteNeedReads n)}" (parseSet setS) (max n 1)
  | _ => note st "DISAGREE" true s!"kind=fixed unparsable in={inp}"

/-! ### P : whole programs (c20_prog.c) -/
def allowedExit (prog : String) (code : Int) : Bool :=
  match prog with
  | "smtpd" => code == 0 || code == 1
  | "qmtpd" => code == 0 || code == 100 || code == 111
  | "qmqpd" => code == 0 || code == 100 || code == 111
  | "pop3d" => code == 0 || code == 1
  | "popup" => code == 0 || code == 1 || code == 2 || code == 111
  | "inject" => code == 0 || code == 100 || code == 111
  | "local" => code == 0 || code == 100 || code == 111
  | _ => false

def handleP (st : Stats) (f : List String) (inp : String) : IO Stats := do
  match f with
  | [prog, variant, inh, exitS, sigS, sanS, _outlen, _outp, errmark] =>
    let mut st := st.bump ("P." ++ prog)
    st := st.bump ("P." ++ prog ++ ".exit" ++ exitS)
    if sanS != "0" then
      st ← note st "ORACLE" false s!"kind=prog.{prog} in=P|{prog}|{variant}|{inh} exit={exitS} sig={sigS} sanitizer-report={errmark}"
    else if sigS == "9" && exitS == "-1" then
      st ← note st "ORACLE" false s!"kind=prog.{prog} in=P|{prog}|{variant}|{inh} hang-after-end-of-input"
    else if sigS != "0" then
      st ← note st "ORACLE" false s!"kind=prog.{prog} in=P|{prog}|{variant}|{inh} killed-by-signal={sigS}"
    else if !allowedExit prog (intOf exitS) then
      st ← note st "ORACLE" false s!"kind=prog.{prog} in=P|{prog}|{variant}|{inh} undocumented-exit={exitS}"
    return st
  | _ => note st "DISAGREE" true s!"kind=prog unparsable in={inp.take 200}"

/-! ### H : histories of control-file edits and re-reads through qmail-send's getcontrols/regetcontrols/rewrite (c20_ctl.c) -/
def handleH (st : Stats) (f : List String) (inp : String) : IO Stats := do
  match f with
  | _chunk :: _events :: ":" :: results :: rest =>
    let mut st := st.bump "H"
    let rs := results.splitOn ","
    if rs.contains "h0" then st := st.bump "H.reread-failed"
    if rs.contains "g0" then st := st.bump "H.start-failed"
    if rest.getLast? != some "inv=1" then
      st ← note st "ORACLE" false s!"kind=ctl-history in={inp} shadow={rest.headD "?"} tables-in-force-differ-from-a-fresh-start-on-the-same-configuration(stale-or-dangling-lookup-table)"
    return st
  | _ => note st "DISAGREE" true s!"kind=ctl-history unparsable in={inp.take 300}"

/-! ### L : qmail-local.c main(), counting pass vs filling pass (c20_local.c) vs Nq.LocalPass -/
open Nq.LocalPass in
def handleL (st : Stats) (f : List String) (inp : String) : IO Stats := do
  match f with
  | [doitS, xS, contS, ":", exitS, callocS, ntoS, cfS, insideS] =>
    match unhex contS with
    | none => note st "DISAGREE" true s!"kind=local unparsable in={inp}"
    | some cont =>
      let doit := doitS == "1"
      -- what main() builds before the two passes: an empty file is replaced by aliasempty ("#" here) and the x bit is
      -- forgotten; a missing final newline is added
      let (cmds, ffo) : Bytes × Bool :=
        if cont.isEmpty then ([35, 10], false)
        else (if cont.getLast? == some 10 then cont else cont ++ [10], xS == "1")
      let n1 := pass1 cmds
      let r := pass2 doit (fun _ => false) ffo cmds
      let mexit := match r.exit with | .done => "0" | .die => "111" | .env => "?"
      let mnto := if doit && r.exit == .done then r.nf else 0
      let mut st := st.bump ("L." ++ (if doit then "doit" else "n") ++ ".exit" ++ exitS)
      if n1 > r.cf && r.exit == .done then st := st.bump "L.pass1-overcounts"
      if r.cf > 0 then st := st.bump "L.forwards"
      if s!"{mexit} {n1 + 1} {mnto} {r.cf}" != s!"{exitS} {callocS} {ntoS} {cfS}" then
        st ← note st "DISAGREE" true s!"kind=local in={inp} impl={exitS},{callocS},{ntoS},{cfS} model={mexit},{n1 + 1},{mnto},{r.cf}"
      -- ORACLE (C20_local_two_pass on the implementation's numbers): what pass 2 stored / would store, plus the
      -- terminator, fits the array that pass 1 sized; every recipient pointer lies inside cmds
      let ca := intOf callocS
      if ca ≥ 0 && !(Int.ofNat (natOf ntoS) + 1 ≤ ca && Int.ofNat (natOf cfS) + 1 ≤ ca && insideS == "1") then
        st ← note st "ORACLE" false s!"kind=local in={inp} impl={exitS},{callocS},{ntoS},{cfS},{insideS} pass2-stores-exceed-pass1-count"
      return st
  | _ => note st "DISAGREE" true s!"kind=local unparsable in={inp}"

def handle (st : Stats) (line : String) : IO Stats := do
  let f := fields line
  match f with
  | [] => return st
  | tag :: rest =>
    let inp := ("|".intercalate (f.takeWhile (· != ":")))
    let h := hash inp
    let fresh := !st.seen.contains h
    let mut st := { st with cases := st.cases + 1, seen := st.seen.insert h,
                            nontrivial := st.nontrivial + (if fresh then 1 else 0) }
    if fresh && st.samples < 8 && (st.cases % 997 == 3) && line.length < 400 then
      IO.println s!"SAMPLE {line.trimAscii.toString}"
      st := { st with samples := st.samples + 1 }
    match tag with
    | "A" => handleA st rest inp
    | "S" => handleS st rest inp
    | "Q" => handleQ st rest inp
    | "O" => handleO st rest inp
    | "I" => handleI st rest inp
    | "D" => handleD st rest inp
    | "T" => handleT st rest ("|".intercalate (f.take (if rest.headD "" == "utok" then 4 else if rest.headD "" == "tok" then 3 else 6)))
    | "P" => handleP st rest inp
    | "R" => handleR st rest inp
    | "F" => handleF st rest inp
    | "H" => handleH st rest inp
    | "L" => handleL st rest inp
    | "X" =>
      -- c20_parse.c prints its X lines without the leading T of the case: put it back so that the case can be replayed
      let cs := rest.dropLast
      let cs := if ["tok", "utok", "cdb", "ctl", "ip", "hdr", "gl", "gl2", "scan"].contains (cs.headD "") then "T" :: cs else cs
      note (st.bump "X") "ORACLE" false s!"kind=sanitizer-abort in={"|".intercalate cs} the-run-was-killed-by-ASan/UBSan"
    | _ => note st "DISAGREE" true s!"kind=unknown unparsable in={(line.take 200)}"

def main : IO Unit := runDriver handle
