/- Driver for C18: the real qmail-clean main(), spawn.c + qmail-lspawn/rspawn report(), and
   qmail-send del_dochan() against their models; the oracle is `Nq.Spec.TB` (the predicates the
   theorems of Props/C18.lean are stated with) evaluated on the implementation's traces.
   Input lines (see the harness headers):
     C <chunk> <plan> <in> <scans> <trace>
     Q <rscript> <wplan> <plan> <scans> <trace>      (qmail-clean with read()/write() faults)
     S <l|r> <plan> <script> <trace>
     A <l|r> <plan> <oom> <script> <trace>           (spawn.c with failing stralloc_append calls in getcmd())
     D <c> <jobs> <slots> <plan> <chunk> <stream> <trace>                                       -/
import Drv.Util
import Nq.Spec.TrustBoundary
import Nq.Spec.ReportRef
import Nq.Spec.CleanIOSpec
import Nq.Spec.SpawnOOMSpec

open Nq Drv

def hexNat2 (n : Nat) : String := String.ofList [hexDigit (n / 16 % 16).toUInt8, hexDigit (n % 16).toUInt8]

def hexRaw (b : Bytes) : String :=
  String.ofList (b.foldr (fun x acc => hexDigit (x / 16) :: hexDigit (x % 16) :: acc) [])

def planOf (s : String) : Option (List Nat) := (unhex s).map (·.map UInt8.toNat)

def disagree (st : Stats) (msg : String) : IO Stats := do
  IO.println s!"DISAGREE {msg}"
  return { st with disagree := st.disagree + 1 }

def oracleFail (st : Stats) (msg : String) : IO Stats := do
  IO.println s!"ORACLE {msg}"
  return { st with oracle := st.oracle + 1 }

/-! ### qmail-clean -/
namespace CleanD
open Nq.Clean

def render : List Ev → List String
  | [] => []
  | .cleanup :: r => "o706964" :: render r
  | .cleanupEnd :: r => "c" :: render r
  | .unlink p :: r => ("u" ++ hex p) :: render r
  | .status b :: r => ("s" ++ hex [b]) :: render r

def parseEv (tok : String) : Option (List Ev) :=
  match tok.toList with
  | 'o' :: _ => some [.cleanup]
  | ['c'] => some [.cleanupEnd]
  | 'u' :: h => (unhex (String.ofList h)).map (fun p => [.unlink p])
  | 's' :: h => (unhex (String.ofList h)).map (fun bs => bs.map .status)
  | _ => none

def parseTrace (toks : List String) : Option (List Ev) :=
  toks.foldr (fun t acc => match parseEv t, acc with
    | some e, some l => some (e ++ l)
    | _, _ => none) (some [])

/-- one directory entry `<name-hex>=<atime>` or `<name-hex>=x` (stat fails) -/
def parseEnt (s : String) : Option PidEnt :=
  match s.splitOn "=" with
  | [n, a] => match unhex n with
      | some name => if a == "x" then some ⟨name, none⟩ else a.toNat?.map (fun t => ⟨name, some t⟩)
      | none => none
  | _ => none

/-- one `cleanuppid()` scenario `<now>@<entries>`: entries `!` = opendir fails, `-` = empty directory,
else entries joined by `+` -/
def parseScan (s : String) : Option Scan :=
  match s.splitOn "@" with
  | [n, e] => match n.toNat? with
      | none => none
      | some now =>
        if e == "!" then some ⟨now, none⟩
        else if e == "-" then some ⟨now, some []⟩
        else ((e.splitOn "+").foldr (fun t acc => match parseEnt t, acc with
            | some x, some l => some (x :: l)
            | _, _ => none) (some [])).map (fun es => ⟨now, some es⟩)
  | _ => none

def parseScans (s : String) : Option (List Scan) :=
  if s == "-" then some [] else
  (s.splitOn ";").foldr (fun t acc => match parseScan t, acc with
    | some x, some l => some (x :: l)
    | _, _ => none) (some [])

def handle (st : Stats) (chunk planh inh scansS trace : String) : IO Stats := do
  match planOf planh, unhex inh, parseScans scansS with
  | some plan, some inp, some scans =>
    let h := hashBytes (inp ++ scansS.toUTF8.toList)
    let fresh := !st.seen.contains h
    let reqs := splitReqs [] inp
    let nontriv := reqs.any (fun q => q.length ≥ 7)
    let mut st := { st with cases := st.cases + 1, seen := st.seen.insert h,
                            nontrivial := st.nontrivial + (if fresh && nontriv then 1 else 0) }
    st := st.bump "clean"
    if scans.any (fun sc => match sc.ents with | some (_ :: _) => true | _ => false) then st := st.bump "clean_pid_populated"
    let model := ",".intercalate (render (run inp plan scans) ++ ["e0"])
    if model != trace then
      st ← disagree st s!"kind=clean in={inh} chunk={chunk} plan={planh} scans={scansS} impl={trace} model={model}"
    -- cross-check of the two decimal printers (model's fmt_ulong vs Lean's Nat printer)
    for q in reqs do
      let ds := (q.drop 5).dropLast
      if ds.all isDigit && ds.length ≤ 40 && fmtUlong (decVal ds) != fmtNat (decVal ds) then
        st ← disagree st s!"kind=fmt in={inh} fmtUlong and Nat.repr differ"
    -- oracle on the implementation's trace
    let toks := trace.splitOn ","
    let body := toks.dropLast
    match parseTrace body, toks.getLast? with
    | some evs, some "e0" =>
      if !(Nq.Spec.TB.cleanOK reqs scans evs) then
        st ← oracleFail st s!"kind=clean in={inh} chunk={chunk} plan={planh} scans={scansS} impl={trace} requests={reqs.length}"
      else
        if evs.any (fun e => match e with | .unlink _ => true | _ => false) then st := st.bump "clean_unlinking"
        if evs.any (fun e => match e with | .unlink p => p.take 4 == PIDDIR | _ => false) then st := st.bump "clean_pid_unlinked"
        if evs.any (fun e => e == .status stERR) then st := st.bump "clean_unlink_failed"
      if fresh && st.samples < 2 && (paths evs).length ≥ 2 then
        IO.println s!"SAMPLE kind=clean in={inh} scans={scansS} trace={trace}"
        st := { st with samples := st.samples + 1 }
    | _, _ => st ← oracleFail st s!"kind=clean in={inh} chunk={chunk} plan={planh} scans={scansS} impl={trace} (abnormal end or unparsable trace)"
    return st
  | _, _, _ => disagree st s!"unparsable C line"
end CleanD

/-! ### qmail-clean with read/write faults -/
namespace CleanIOD
open Nq.Clean Nq.CleanIO

def parseRd (tok : String) : Option Rd :=
  match tok.toList with
  | ['i'] => some .eintr
  | ['x'] => some .err
  | 'd' :: h => if h.isEmpty then some (.data []) else (unhex (String.ofList h)).map .data
  | _ => none

def parseRds (s : String) : Option (List Rd) :=
  if s == "-" then some [] else
  (s.splitOn ".").foldr (fun t acc => match parseRd t, acc with
    | some x, some l => some (x :: l)
    | _, _ => none) (some [])

def renderIO : List IOEv → List String
  | [] => []
  | .ev e :: r => CleanD.render [e] ++ renderIO r
  | .wintr b :: r => ("i" ++ hex [b]) :: renderIO r
  | .wfail b :: r => ("f" ++ hex [b]) :: renderIO r

def parseIOEv (tok : String) : Option (List IOEv) :=
  match tok.toList with
  | 'i' :: h => (unhex (String.ofList h)).map (fun bs => bs.map .wintr)
  | 'f' :: h => (unhex (String.ofList h)).map (fun bs => bs.map .wfail)
  | _ => (CleanD.parseEv tok).map (fun l => l.map .ev)

def parseIOTrace (toks : List String) : Option (List IOEv) :=
  toks.foldr (fun t acc => match parseIOEv t, acc with
    | some e, some l => some (e ++ l)
    | _, _ => none) (some [])

def handle (st : Stats) (rsS wplanh planh scansS trace : String) : IO Stats := do
  match parseRds rsS, planOf wplanh, planOf planh, CleanD.parseScans scansS with
  | some rds, some wplan, some plan, some scans =>
    let inp := arrived rds
    let h := hashBytes (inp ++ (rsS ++ " " ++ wplanh ++ " " ++ scansS).toUTF8.toList)
    let fresh := !st.seen.contains h
    let reqs := splitReqs [] inp
    let nontriv := reqs.any (fun q => q.length ≥ 7)
    let mut st := { st with cases := st.cases + 1, seen := st.seen.insert h,
                            nontrivial := st.nontrivial + (if fresh && nontriv then 1 else 0) }
    st := st.bump "cleanio"
    if rds.any (· == .eintr) then st := st.bump "cleanio_read_eintr"
    if rds.any (· == .err) then st := st.bump "cleanio_read_error_in_script"
    if (rds.filter (fun r => match r with | .data (_ :: _) => true | _ => false)).length ≥ 2 then st := st.bump "cleanio_short_reads"
    if (inp.reverse.takeWhile (· != 0)).length > 0 then st := st.bump "cleanio_request_cut_by_end_of_input"
    let code := runCode rds plan scans wplan
    let model := ",".intercalate (renderIO (runT rds plan scans wplan) ++ [if code == 0 then "e0" else "e1100"])
    let desc := s!"kind=cleanio rs={rsS} wplan={wplanh} plan={planh} scans={scansS}"
    if model != trace then
      st ← disagree st s!"{desc} impl={trace} model={model}"
    -- oracle on the implementation's trace
    let toks := trace.splitOn ","
    match parseIOTrace toks.dropLast, toks.getLast? with
    | some tr, some last =>
      let icode := if last == "e0" then 0 else if last == "e1100" then 100 else 999
      if !(Nq.Spec.TB.cleanIOOK reqs scans tr icode) then
        st ← oracleFail st s!"{desc} impl={trace} requests={reqs.length} (a request acted on twice or half / events after a failed write / wrong exit code)"
      else
        if tr.any (fun e => match e with | .wintr _ => true | _ => false) then st := st.bump "cleanio_write_eintr_retried"
        if icode == 100 then
          st := st.bump "cleanio_write_failed_exit100"
          if Nq.Spec.TB.delivered tr > 0 then st := st.bump "cleanio_write_failed_after_answers"
          if (erase tr).getLast?.any (fun e => match e with | .unlink _ => true | _ => false) then st := st.bump "cleanio_answer_lost_after_unlinks"
      if fresh && st.samples < 3 && icode == 100 && Nq.Spec.TB.delivered tr > 0 then
        IO.println s!"SAMPLE {desc} trace={trace}"
        st := { st with samples := st.samples + 1 }
    | _, _ => st ← oracleFail st s!"{desc} impl={trace} (unparsable trace)"
    return st
  | _, _, _, _ => disagree st s!"unparsable Q line"
end CleanIOD

/-! ### spawn -/
namespace SpawnD
open Nq.Spawn

def parseOp (tok : String) : Option Op :=
  match tok.toList with
  | 'c' :: h => (unhex (String.ofList h)).map .cmd
  | 'w' :: a :: b :: h => match unhex (String.ofList [a, b]), unhex (if h.isEmpty then "-" else String.ofList h) with
      | some [s], some bs => some (.out s.toNat bs)
      | _, _ => none
  | 'x' :: a :: b :: h => match unhex (String.ofList [a, b]), unhex (String.ofList h) with
      | some [s], some [w1, w0] => some (.exit s.toNat (w1.toNat * 256 + w0.toNat))
      | _, _ => none
  | 'k' :: a :: b :: h => match unhex (String.ofList [a, b]), unhex (String.ofList h) with
      | some [s], some [w1, w0] => some (.reap s.toNat (w1.toNat * 256 + w0.toNat))
      | _, _ => none
  | ['z', a, b] => match unhex (String.ofList [a, b]) with
      | some [s] => some (.peof s.toNat)
      | _ => none
  | ['e'] => some .eof
  -- the child closes its output descriptors and lives on (no EOF while the spawner holds the write end)
  | ['y', a, b] => match unhex (String.ofList [a, b]) with
      | some [s] => some (.cclose s.toNat)
      | _ => none
  -- death with the EOF on the pipe becoming visible before the SIGCHLD handler has run: impossible while the spawner
  -- holds the write end until the handler runs, so for the model it is the one-wake-up death
  | 'v' :: a :: b :: h => match unhex (String.ofList [a, b]), unhex (String.ofList h) with
      | some [s], some [w1, w0] => some (.exit s.toNat (w1.toNat * 256 + w0.toNat))
      | _, _ => none
  | _ => none

def parseScript (s : String) : Option (List Op) :=
  if s == "-" then some [] else
  (s.splitOn ".").foldr (fun t acc => match parseOp t, acc with
    | some o, some l => some (o :: l)
    | _, _ => none) (some [])

/-- render model events in the harness's format; `pend` = merged output not yet printed -/
def flushW (pend : Bytes) : List String := if pend.isEmpty then [] else ["W" ++ hexRaw pend]

def render : Bytes → List Ev → List String
  | pend, [] => flushW pend
  | pend, e :: r =>
    match e with
    | .hello n => render (pend ++ [n.toUInt8]) r
    | .report d b => render (pend ++ [d.toUInt8] ++ b ++ [0]) r
    | .openRead p => flushW pend ++ ("o" ++ hex p) :: render [] r
    | .spawnCall s sd rc a => flushW pend ++ (s!"f{hexNat2 s}:{hex sd}:{hex rc}:{a}") :: render [] r

/-- the implementation's trace as events: each W is cut into reports (the first one starts with the hello byte) -/
def parseTrace (toks : List String) : Option (List Ev × Bool) := do
  let mut evs : List Ev := []
  let mut first := true
  let mut normal := false
  for t in toks do
    match t.toList with
    | 'W' :: h =>
      let bs ← unhex (String.ofList h)
      let bs' ← (if first then (match bs with | x :: r => some (evs.length, x, r) | [] => none) else some (0, 0, bs))
      if first then evs := evs ++ [.hello bs'.2.1.toNat]
      first := false
      let reps ← Nq.Spec.TB.parseReports (bs.length + 1) bs'.2.2
      evs := evs ++ reps.map (fun (d, b) => .report d b)
    | 'o' :: h => let p ← unhex (String.ofList h); evs := evs ++ [.openRead p]
    | 'f' :: rest =>
      match (String.ofList rest).splitOn ":" with
      | [s, sd, rc, a] =>
        let s' ← unhex s; let sd' ← unhex sd; let rc' ← unhex rc; let a' ← a.toNat?
        evs := evs ++ [.spawnCall (s'.headD 0).toNat sd' rc' a']
      | _ => none
    | ['e', '0'] => normal := true
    | 'q' :: _ => pure ()          -- exit point (script events consumed): compared with the model only
    | _ => none
  return (evs, normal)

/-- the world's tokens (`b<ss>` child born, `r<ss><wwww>` child reaped with this status, `p<ss><wwww>` report() called with this
    status) are not program output: they are
    taken out of the trace — adjacent `W` tokens they had separated are merged again — before it is compared with the model -/
def isLifeTok (t : String) : Bool := t.startsWith "b" || t.startsWith "r" || t.startsWith "p"

def mergeW : List String → List String
  | a :: b :: r =>
    if a.startsWith "W" && b.startsWith "W" then mergeW ((a ++ b.drop 1) :: r) else a :: mergeW (b :: r)
  | l => l
termination_by l => l.length

def stripLife (toks : List String) : List String := mergeW (toks.filter (fun t => !isLifeTok t))

/-- the trace as the life of the children interleaved with the reports -/
def lifeOf (toks : List String) : Option (List Nq.Spec.TB.Life) := do
  let mut l : List Nq.Spec.TB.Life := []
  let mut first := true
  for t in toks do
    match t.toList with
    | 'b' :: h => let s ← unhex (String.ofList h); l := l ++ [.born (s.headD 0).toNat]
    | 'r' :: a :: b :: h =>
      let s ← unhex (String.ofList [a, b]); let w ← unhex (String.ofList h)
      match w with
      | [w1, w0] => l := l ++ [.reaped (s.headD 0).toNat (w1.toNat * 256 + w0.toNat)]
      | _ => none
    | 'p' :: a :: b :: h =>
      let s ← unhex (String.ofList [a, b]); let w ← unhex (String.ofList h)
      match w with
      | [w1, w0] => l := l ++ [.call (s.headD 0).toNat (w1.toNat * 256 + w0.toNat)]
      | _ => none
    | 'W' :: h =>
      let bs ← unhex (String.ofList h)
      let body := if first then bs.drop 1 else bs
      first := false
      let reps ← Nq.Spec.TB.parseReports (bs.length + 1) body
      l := l ++ reps.map (fun (d, b) => Nq.Spec.TB.Life.report d b)
    | _ => pure ()
  return l

def handle (st : Stats) (kindS planh scriptS rawTrace : String) : IO Stats := do
  let kind := if kindS == "l" then Kind.l else Kind.r
  let rawToks := rawTrace.splitOn ","
  let trace := ",".intercalate (stripLife rawToks)
  match planOf planh, parseScript scriptS with
  | some plan, some script =>
    -- what the program can have read: the bytes that arrive on descriptor 0 before its EOF
    let input := inputOf script
    let cmds := Nq.Spec.TB.parseCmds (input.length + 1) input
    let h := hashBytes (scriptS.toUTF8.toList ++ planh.toUTF8.toList ++ kindS.toUTF8.toList)
    let fresh := !st.seen.contains h
    let mut st := { st with cases := st.cases + 1, seen := st.seen.insert h,
                            nontrivial := st.nontrivial + (if fresh && !cmds.isEmpty then 1 else 0) }
    st := st.bump ("spawn_" ++ kindS)
    let model := ",".intercalate (render [] (run kind plan script).2 ++ [s!"q{runConsumed kind plan script}", "e0"])
    if script.any (fun o => match o with | .eof => true | _ => false) then st := st.bump "spawn_eof_midway"
    if script.any (fun o => match o with | .reap _ _ => true | _ => false) then st := st.bump "spawn_reap_then_eof"
    if script.any (fun o => match o with | .cclose _ => true | _ => false) then st := st.bump "spawn_child_closes_output_early"
    if (scriptS.splitOn ".").any (fun t => t.startsWith "v") then st := st.bump "spawn_eof_before_sigchld"
    if model != trace then
      st ← disagree st s!"kind=spawn{kindS} in={scriptS} plan={planh} impl={trace} model={model}"
    match parseTrace (trace.splitOn ",") with
    | some (evs, normal) =>
      if !normal then
        st ← oracleFail st s!"kind=spawn{kindS} in={scriptS} plan={planh} impl={trace} (abnormal end: the program was aborted while running this case)"
      else if !(Nq.Spec.TB.opensOK cmds plan evs) then
        st ← oracleFail st s!"kind=spawn{kindS} in={scriptS} plan={planh} impl={trace} (open/spawn discipline)"
      else if !(Nq.Spec.TB.reportsOK cmds (Nq.Spec.TB.reportsOf evs)) then
        st ← oracleFail st s!"kind=spawn{kindS} in={scriptS} plan={planh} impl={trace} commands={cmds.length} reports={(Nq.Spec.TB.reportsOf evs).length} (one report per command)"
      else if (match lifeOf rawToks with | some l => !(Nq.Spec.TB.lifeOK l) | none => true) then
        st ← oracleFail st s!"kind=spawn{kindS} in={scriptS} plan={planh} impl={rawTrace} (report() was called before wait() had handed over the status of the delivery's child or with another status, or a crash/non-zero exit was relayed as success: b=child born, r=child reaped with status, p=report() called with status)"
      else
        if evs.any (fun e => match e with | .spawnCall _ _ _ _ => true | _ => false) then st := st.bump "spawn_child_started"
        if rawToks.any (fun t => t.startsWith "r" && !(t.endsWith "0000")) then st := st.bump "spawn_child_ended_abnormally"
      if fresh && st.samples < 4 && cmds.length ≥ 2 && trace.length < 600 then
        IO.println s!"SAMPLE kind=spawn{kindS} script={scriptS} plan={planh} trace={trace}"
        st := { st with samples := st.samples + 1 }
    | none => st ← oracleFail st s!"kind=spawn{kindS} in={scriptS} plan={planh} impl={trace} (unparsable trace / output not a sequence of reports)"
    return st
  | _, _ => disagree st s!"unparsable S line"

/-- spawn.c with failing allocations while a command is read -/
def parseOom (s : String) : Option (List Nat) :=
  if s == "-" then some [] else
  (s.splitOn ".").foldr (fun t acc => match t.toNat?, acc with
    | some x, some l => some (x :: l)
    | _, _ => none) (some [])

def handleA (st : Stats) (kindS planh oomS scriptS rawTrace : String) : IO Stats := do
  let kind := if kindS == "l" then Kind.l else Kind.r
  let rawToks := rawTrace.splitOn ","
  let trace := ",".intercalate (stripLife rawToks)
  match planOf planh, parseScript scriptS, parseOom oomS with
  | some plan, some script, some oom =>
    let input := inputOf script
    let cmds := Nq.Spec.TB.parseCmds (input.length + 1) input
    let flags := Nq.Spec.TB.abortFlags oom 0 cmds
    let h := hashBytes (scriptS.toUTF8.toList ++ planh.toUTF8.toList ++ kindS.toUTF8.toList ++ oomS.toUTF8.toList)
    let fresh := !st.seen.contains h
    let mut st := { st with cases := st.cases + 1, seen := st.seen.insert h,
                            nontrivial := st.nontrivial + (if fresh && !cmds.isEmpty then 1 else 0) }
    st := st.bump ("spawn_oom_" ++ kindS)
    if flags.any id then st := st.bump "spawn_oom_command_aborted"
    if flags.any id && flags.any (!·) then st := st.bump "spawn_oom_aborted_and_normal_commands"
    let desc := s!"kind=spawnoom{kindS} in={scriptS} plan={planh} oom={oomS}"
    let model := ",".intercalate (render [] (Nq.SpawnOOM.runA kind oom plan script).2 ++
      [s!"q{Nq.SpawnOOM.runConsumedA kind oom plan script}", "e0"])
    if model != trace then
      st ← disagree st s!"{desc} impl={trace} model={model}"
    match parseTrace (trace.splitOn ",") with
    | some (evs, normal) =>
      if !normal then
        st ← oracleFail st s!"{desc} impl={trace} (abnormal end: the program was aborted while running this case)"
      else if !(Nq.Spec.TB.oomOK oom cmds plan evs) then
        st ← oracleFail st s!"{desc} impl={trace} commands={cmds.length} aborted={(flags.filter id).length} (a command whose parse was aborted started a delivery / was not answered by exactly one out-of-memory report, or the open/spawn/report discipline is broken)"
      else if (match lifeOf rawToks with | some l => !(Nq.Spec.TB.lifeOK l) | none => true) then
        st ← oracleFail st s!"{desc} impl={rawTrace} (report() before wait())"
      else
        if evs.any (fun e => match e with | .report _ b => b == Nq.Gen.SpawnTexts.E_NOMEM0 | _ => false) then st := st.bump "spawn_oom_reported"
      if fresh && st.samples < 5 && flags.any id && flags.any (!·) && trace.length < 500 then
        IO.println s!"SAMPLE {desc} trace={trace}"
        st := { st with samples := st.samples + 1 }
    | none => st ← oracleFail st s!"{desc} impl={trace} (unparsable trace / output not a sequence of reports)"
    return st
  | _, _, _ => disagree st s!"unparsable A line"
end SpawnD

/-! ### qmail-send report reader -/
namespace SendD
open Nq.SendReport

def parseJob (s : String) : Option Job :=
  match (s.splitOn ":").map String.toInt? with
  | [some id, some refs, some numtodo, some hiteof, some dying, some retry, some ch] =>
      some ⟨id.toNat, refs, numtodo, hiteof != 0, dying != 0, retry.toNat, ch.toNat⟩
  | _ => none

def parseSlot (s : String) : Option (Option Slot) :=
  if s == "-" then some none else
  match s.splitOn ":" with
  | [j, delid, mpos, rh] => match j.toNat?, delid.toNat?, mpos.toNat?, unhex rh with
      | some j, some d, some m, some r => some (some ⟨j, d, m, r⟩)
      | _, _, _, _ => none
  | _ => none

def parseList {α : Type} (f : String → Option α) (s : String) : Option (List α) :=
  (s.splitOn ";").foldr (fun t acc => match f t, acc with
    | some o, some l => some (o :: l)
    | _, _ => none) (some [])

/-- the pending (merged) log bytes as one `L` token; `pend` holds the log texts newest first -/
def flushL (pend : List Bytes) : List String :=
  if pend.isEmpty then [] else ["L" ++ hexRaw (pend.foldl (fun acc t => t ++ acc) [])]

def render : List Bytes → List Ev → List String
  | pend, [] => flushL pend
  | pend, e :: r =>
    match e with
    | .log t => render (t :: pend) r
    | .mark p pos b => flushL pend ++ ("O" ++ hex p) :: s!"K{pos}" :: ("D" ++ hex b) :: render [] r
    | .openWriteFail p => flushL pend ++ ("O" ++ hex p) :: render [] r
    | .stray => flushL pend ++ "?" :: render [] r
    | .openAppend p => flushL pend ++ ("A" ++ hex p) :: render [] r
    | .bounce t => flushL pend ++ ("B" ++ hex t) :: render [] r
    | .unlink p => flushL pend ++ ("U" ++ hex p) :: render [] r
    | .stat p => flushL pend ++ ("T" ++ hex p) :: render [] r
    | .pq w id dt => flushL pend ++ (s!"Q{if w == 2 then "d" else toString w}:{id}:{dt}") :: render [] r

def renderFinal (st : St) : String :=
  let flags := if st.slots.isEmpty then "-" else String.ofList (st.slots.map (fun s => if s.isSome then '1' else '0'))
  let jobs := if st.jobs.isEmpty then "-" else ";".intercalate (st.jobs.map (fun j => s!"{j.refs}/{j.numtodo}"))
  s!"E{flags}:{usedCount st}:{st.dlen}:{jobs}"

/-- the log bytes (merged by the harness) cut into lines, each with its newline -/
def logLines : Bytes → Bytes → List Bytes
  | acc, [] => if acc.isEmpty then [] else [acc.reverse]
  | acc, c :: r => if c == 10 then (c :: acc).reverse :: logLines [] r else logLines (c :: acc) r

/-- the implementation's trace as events; an `L` is one `log` per line; `O p, K pos, D b` in a row is one `mark`, an `O` alone a failed
open_write, any other `K`/`D` is `stray` -/
partial def parseTrace : List String → Option (List Ev)
  | [] => some []
  | t :: rest =>
    match t.toList with
    | 'O' :: h =>
      match rest with
      | k :: d :: rest' =>
        match k.toList, d.toList with
        | 'K' :: kh, 'D' :: dh => do
            let p ← unhex (String.ofList h); let pos ← (String.ofList kh).toNat?; let b ← unhex (String.ofList dh)
            let l ← parseTrace rest'
            pure (.mark p pos b :: l)
        | _, _ => do let p ← unhex (String.ofList h); let l ← parseTrace rest; pure (.openWriteFail p :: l)
      | _ => do let p ← unhex (String.ofList h); let l ← parseTrace rest; pure (.openWriteFail p :: l)
    | 'L' :: h => do let b ← unhex (String.ofList h); let l ← parseTrace rest; pure ((logLines [] b).map .log ++ l)
    | 'K' :: _ => do let l ← parseTrace rest; pure (.stray :: l)
    | 'D' :: _ => do let l ← parseTrace rest; pure (.stray :: l)
    | 'A' :: h => do let b ← unhex (String.ofList h); let l ← parseTrace rest; pure (.openAppend b :: l)
    | 'B' :: h => do let b ← unhex (String.ofList h); let l ← parseTrace rest; pure (.bounce b :: l)
    | 'U' :: h => do let b ← unhex (String.ofList h); let l ← parseTrace rest; pure (.unlink b :: l)
    | 'T' :: h => do let b ← unhex (String.ofList h); let l ← parseTrace rest; pure (.stat b :: l)
    | 'Q' :: _ => do let l ← parseTrace rest; pure (.pq 0 0 0 :: l)
    | _ => none

def handle (st : Stats) (cS jobsS slotsS planh chunk inh trace : String) : IO Stats := do
  match cS.toNat?, (if jobsS == "-" then some [] else parseList parseJob jobsS), parseList parseSlot slotsS, planOf planh, unhex inh with
  | some c, some jobs, some slots0, some plan, some inp =>
    let slots := slots0     -- "-" alone is one unused slot (concurrency 1)
    let h := hashBytes (inp ++ slotsS.toUTF8.toList ++ jobsS.toUTF8.toList ++ planh.toUTF8.toList)
    let fresh := !st.seen.contains h
    let inflightN := (slots.filter Option.isSome).length
    let mut st := { st with cases := st.cases + 1, seen := st.seen.insert h,
                            nontrivial := st.nontrivial + (if fresh && inp.contains 0 && inp.length ≥ 2 then 1 else 0) }
    st := st.bump (if inflightN > 0 then "send_inflight" else "send_idle")
    let env : Env := { chan := c, now := 1000000, otherUsed := 0, otherConc := 7 }
    let r := feed env { slots := slots, jobs := jobs, plan := plan } inp
    let model := ",".intercalate (render [] r.2 ++ [renderFinal r.1])
    if model != trace then
      st ← disagree st s!"kind=send in={inh} c={cS} jobs={jobsS} slots={slotsS} plan={planh} chunk={chunk} impl={trace} model={model}"
    let toks := trace.splitOn ","
    match parseTrace toks.dropLast, (toks.getLast?.getD "").splitOn ":" with
    | some evs, [flagsE, _, dlenS, _] =>
      let flags := String.ofList (flagsE.toList.drop 1)
      let okFlags := flags == "-" || (flags.length == slots.length &&
        (flags.toList.zip slots).all (fun (f, s) => f == '0' || s.isSome))
      let freed := inflightN - (flags.toList.filter (· == '1')).length
      let ok := Nq.Spec.TB.sendOK c jobs slots evs && Nq.Spec.TB.sendStrictDecl c jobs slots inp evs && Nq.Spec.TB.sendStrict c jobs slots inp evs && okFlags && (dlenS.toNat?.getD (Nq.Gen.REPORTMAX + 1)) ≤ Nq.Gen.REPORTMAX &&
                (Nq.Spec.TB.marksOf evs).length ≤ freed
      if !(Nq.Spec.TB.truncOK evs) then
        let longest := (evs.filterMap (fun e => match e with | .log t => (Nq.Spec.TB.reportTextOf t).map (·.length - 1) | _ => none)).foldl max 0
        st ← oracleFail st s!"kind=send in={inh} c={cS} jobs={jobsS} slots={slotsS} plan={planh} chunk={chunk} accepted_text={longest} textmax={Nq.Spec.TB.TEXTMAX} (oversized report not truncated) impl={trace.take 300}…"
      else if !ok then
        st ← oracleFail st s!"kind=send in={inh} c={cS} jobs={jobsS} slots={slotsS} plan={planh} chunk={chunk} impl={trace}"
      else
        if !(Nq.Spec.TB.marksOf evs).isEmpty then st := st.bump "send_marked_done"
        if inp.length > Nq.Gen.REPORTMAX then st := st.bump "send_oversized_stream"
      if fresh && st.samples < 6 && (Nq.Spec.TB.marksOf evs).length ≥ 2 && trace.length < 900 then
        IO.println s!"SAMPLE kind=send c={cS} slots={slotsS} in={inh} trace={trace}"
        st := { st with samples := st.samples + 1 }
    | _, _ => st ← oracleFail st s!"kind=send in={inh} c={cS} jobs={jobsS} slots={slotsS} plan={planh} chunk={chunk} impl={trace} (unparsable trace)"
    return st
  | _, _, _, _, _ => disagree st s!"unparsable D line"
end SendD

def handle (st : Stats) (line : String) : IO Stats := do
  match fields line with
  | ["C", chunk, plan, inh, scans, trace] => CleanD.handle st chunk plan inh scans trace
  | ["S", kind, plan, script, trace] => SpawnD.handle st kind plan script trace
  | ["D", c, jobs, slots, plan, chunk, inh, trace] => SendD.handle st c jobs slots plan chunk inh trace
  | ["A", kind, plan, oom, script, trace] => SpawnD.handleA st kind plan oom script trace
  | ["A", kind, plan, oom, script] => oracleFail st s!"kind=spawnoom{kind} in={script} plan={plan} oom={oom} impl=(no output: the program crashed on this input)"
  | ["Q", rs, wplan, plan, scans, trace] => CleanIOD.handle st rs wplan plan scans trace
  | ["Q", rs, wplan, plan, scans] => oracleFail st s!"kind=cleanio rs={rs} wplan={wplan} plan={plan} scans={scans} impl=(no output: the program crashed on this input)"
  | ["C", chunk, plan, inh, scans] => oracleFail st s!"kind=clean in={inh} chunk={chunk} plan={plan} scans={scans} impl=(no output: the program crashed on this input)"
  | ["S", kind, plan, script] => oracleFail st s!"kind=spawn{kind} in={script} plan={plan} impl=(no output: the program crashed on this input)"
  | ["D", c, jobs, slots, plan, chunk, inh] => oracleFail st s!"kind=send in={inh} c={c} jobs={jobs} slots={slots} plan={plan} chunk={chunk} impl=(no output: the program crashed on this input)"
  | _ => disagree st s!"unparsable line {line.take 400}"

def main : IO Unit := runDriver handle
