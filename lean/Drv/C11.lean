/- Driver for C11: the real qmail-newu / cdb_seek / qmail-getpw / docmd()+spawn() child (harness/c11_users.c)
   vs the model `Nq.Users`; oracle = `Nq.Spec.Users` evaluated on the implementation's outputs.
   Input lines: see the header of harness/c11_users.c. -/
import Drv.Util
import Nq.Users
import Nq.Spec.Users

open Nq Nq.Users Nq.Spec.Users Nq.Gen.Lspawn Drv

structure DS where
  st : Stats := {}
  env : Env := { cdb := none, pw := { pws := [], dirs := [] }, uidp := 0, gidn := 0, aliasempty := [], autoQmail := [] }
  assign : Bytes := []
  /-- what the source table says, when the current cdb was compiled from it by qmail-newu -/
  tbl : Option (List Asg) := none
  /-- the current cdb was installed raw (corrupted / truncated copies) -/
  raw : Bool := false
  /-- the last cdb qmail-newu compiled, and the independent reading of its source -/
  lastCdb : Bytes := []
  lastTbl : Option (List Asg) := none
  /-- the current raw cdb is a prefix of `lastCdb` (a truncated copy): `C11_cdb_truncated`, `C11_truncated_defers` -/
  trunc : Bool := false
  pwtext : Bytes := []
  /-- report() first bytes as observed on the implementation: code ↦ byte -/
  rbytes : List (Nat × Nat) := []
  /-- hash of the current table + passwd db (for counting distinct cases) -/
  ctx : UInt64 := 0

def nat? (s : String) : Option Nat := s.toNat?

/-- errno values the harness scripts for stat(): EIO is error_temp, the others are not -/
def statOf (err owner : Nat) : StatRes := if err = 0 then .ok owner else if err = 5 then .temp else .gone

def splitB (sep : Byte) (b : Bytes) : List Bytes := Nq.Spec.Users.splitOn sep b

def parsePw (t : Bytes) : PwDb :=
  let lines := (splitB LF t).filter (fun l => !l.isEmpty)
  let num (b : Bytes) : Nat := decVal (b.takeWhile isDigit)
  lines.foldl (fun (db : PwDb) l =>
    match splitB COLON l with
    | f0 :: f1 :: f2 :: rest =>
      if f0.head? == some AT then
        { db with dirs := db.dirs ++ [(f0.drop 1, statOf (num f1) (num f2))] }
      else match rest with
        | dir :: flag :: _ => { db with pws := db.pws ++ [⟨f0, num f1, num f2, dir, num flag == 1⟩] }
        | _ => db
    | _ => db) { pws := [], dirs := [] }

def faultOf : Nat → Fault
  | 1 => .chdir | 2 => .setgroups | 3 => .setgid | 4 => .setuid | 5 => .execHard | 6 => .execSoft
  | 7 => .cdbOpen | 8 => .fork | 9 => .execPw | _ => .none

def splitC (c : Char) (s : List Char) : List (List Char) :=
  s.foldr (fun x acc => if x == c then [] :: acc else match acc with | [] => [[x]] | f :: fs => (x :: f) :: fs) [[]]

def natOfChars (s : List Char) : Option Nat := (String.ofList s).toNat?

def parseEv1 (t : List Char) : Option Ev :=
  match t with
  | 'c' :: 'd' :: ':' :: r => (unhex (String.ofList r)).map Ev.chdir
  | 'f' :: 'm' :: ':' :: r => (natOfChars r).map Ev.fdmove
  | 'f' :: 'c' :: ':' :: r => (natOfChars r).map Ev.fdcopy
  | 's' :: 'g' :: m :: r =>
    match splitC ':' r with
    | [a, b] => match natOfChars a, natOfChars b with
      | some n, some g => some (Ev.setgroups n g (m == ':'))
      | _, _ => none
    | _ => none
  | 'g' :: 'i' :: 'd' :: m :: r => (natOfChars r).map (fun g => Ev.setgid g (m == ':'))
  | 'u' :: 'i' :: 'd' :: m :: r => (natOfChars r).map (fun u => Ev.setuid u (m == ':'))
  | 'g' :: 'u' :: ':' :: r => (natOfChars r).map Ev.getuid
  | 'x' :: ':' :: r =>
    match (splitC '.' r).map (fun h => unhex (String.ofList h)) with
    | some p :: args => if args.all Option.isSome then some (Ev.execv p (args.filterMap id)) else none
    | _ => none
  | _ => none

def parseEv (t : List Char) : Option Ev :=
  match t with
  | 'g' :: 'i' :: 'd' :: _ => parseEv1 t
  | 'g' :: 'u' :: ':' :: _ => parseEv1 t
  | 'g' :: r => (parseEv1 r).map Ev.g
  | _ => parseEv1 t

def parseLog (s : String) : Option (List Ev) :=
  if s == "-" then some [] else
  let toks := (splitC ';' s.toList).filter (fun t => !t.isEmpty)
  let evs := toks.map parseEv
  if evs.all Option.isSome then some (evs.filterMap id) else none

def showOutcome : Outcome → String
  | .exec => "X 0"
  | .exit c => s!"E {c}"
  | .refused m => s!"D {hex m}"

def showLk : Lk → String
  | .found d => s!"1 {hex d}"
  | .notFound => "0 -"
  | .err => "-1 -"

def blob (ds : DS) (loc : Bytes) : String :=
  hex (ds.assign ++ [37, 10] ++ ds.pwtext ++ [37, 10] ++ loc ++ [10])

def DS.bump (ds : DS) (k : String) : DS := { ds with st := ds.st.bump k }
/-- only the first 40 reports of each kind are printed in full (they carry the whole table); all are counted -/
def DS.disagreeL (ds : DS) (msg : Unit → String) : IO DS := do
  if ds.st.disagree < 40 then IO.println s!"DISAGREE {msg ()}"
  return { ds with st := { ds.st with disagree := ds.st.disagree + 1 } }
def DS.oracleFailL (ds : DS) (msg : Unit → String) : IO DS := do
  if ds.st.oracle < 40 then IO.println s!"ORACLE {msg ()}"
  return { ds with st := { ds.st with oracle := ds.st.oracle + 1 } }

def DS.disagree (ds : DS) (msg : String) : IO DS := ds.disagreeL (fun _ => msg)
def DS.oracleFail (ds : DS) (msg : String) : IO DS := ds.oracleFailL (fun _ => msg)

def implReport (ds : DS) (code : Nat) : Option Nat := (ds.rbytes.find? (fun p => p.1 == code)).map (·.2)

def chk (c : Bool) (msg : String) : List String := if c then [] else [msg]

/-- the property predicate on one delivery attempt of the implementation; returns the list of failed clauses -/
def oracleS (ds : DS) (flt : Fault) (sender recip : Bytes) (iout : Outcome) (ievs : List Ev) : List String :=
  let isExit := match iout with | .exit _ => true | _ => false
  let g := chk (guardedAny [] ievs) "exec-not-guarded-or-root"
  -- `C11_child_defers`: exit 0 only for the null recipient, QLX_EXECHARD only when execv failed permanently, else reported `Z`
  let nullRecip := match lastAt recip with | some j => (recip.take j).isEmpty | none => false
  let e := match iout with
    | .exit c =>
      chk ((c == 0 && nullRecip) || (c == QLX_EXECHARD && flt == .execHard) || implReport ds c == some 90) s!"error-exit-{c}-not-deferred" ++
      chk (!ievs.any isExecLocal || flt == .execHard || flt == .execSoft) "exit-after-exec"
    | _ => []
  let t := match lastAt recip with
    | none => chk (match iout with | .refused _ => true | _ => false) "no-host-not-refused"
    | some j =>
      let loc := recip.take j
      let dom := recip.drop (j + 1)
      if loc.isEmpty then chk (iout == .exit 0 && noExec ievs) "null-recipient"
      else if flt == .cdbOpen || flt == .chdir then chk (noExec ievs && isExit) "db-error-not-deferred"
      else
        -- what the tables say (`specIdentity`: the assignment table, or else the password-file rules); the record is read
        -- by the spec's own `specRecord`, the argv expected is the spec's `specArgv` (inside `traceOk`/`specChild`)
        let identity (tbl : Option (List Asg)) : List String :=
          -- none = the source of the installed cdb is unknown
          let src : Option (Option (List Asg)) :=
            match ds.env.cdb, tbl with
            | some _, some tb => some (some tb)
            | none, _ => some none
            | some _, none => none
          match src with
          | none => []
          | some t =>
            let w := specIdentity t ds.env.pw loc
            -- `C11_identity_faults`: under every fault
            (match w.record? with
             | none => chk (noExec ievs && (match iout with | .exit c => c != 0 | _ => false)) "lookup-error-not-deferred"
             | some r =>
               match specRecord r with
               | none => chk (noExec ievs && iout != .exec) "exec-with-malformed-record"
               | some id =>
                 chk (traceOk ds.env id loc dom sender [] ievs) "wrong-identity-or-argv" ++
                 (if id.uid == 0 then chk (noExec ievs && iout != .exec && (flt != .none || iout == .exit QLX_ROOT)) "root-not-refused"
                  else if flt == .none then chk (iout == .exec) "assigned-user-not-run" else [])) ++
            -- `C11_identity`: no failing call ⇒ the child does EXACTLY what the tables dictate (every identity-relevant call —
            -- chdir, the qmail-getpw child's calls, setgroups, setgid, setuid, getuid, execv with argv — in order, and the outcome)
            (if flt == .none && !loc.contains NUL then chk (childAsDictated ds.env w sender loc dom ievs iout) "child-differs-from-tables"
             else [])
        if ds.raw then
          -- a raw (corrupted/truncated) cdb: if reading it fails on the way to this address the delivery must be deferred
          (match nughdeCdb ds.env.cdb loc with
           | .exit _ => chk (noExec ievs && isExit) "db-error-not-deferred"
           | _ => []) ++
          -- a TRUNCATED copy of a compiled cdb (`C11_truncated_defers`): deferred as a cdb error, or exactly what the
          -- source table says — never another identity, never silently handed to qmail-getpw
          (if ds.trunc && !loc.contains NUL then
             (if noExec ievs && iout == .exit QLX_CDB then [] else (identity ds.lastTbl).map ("truncated-cdb:" ++ ·))
           else [])
        else identity ds.tbl
  g ++ e ++ t

def handleS (ds : DS) (fltS senderH recipH oc codeS logS : String) : IO DS := do
  match nat? fltS, unhex senderH, unhex recipH, nat? codeS with
  | some fltN, some sender, some recip, some code =>
    let flt := faultOf fltN
    let mut ds := ds.bump ("S_fault" ++ fltS) |>.bump ("S_" ++ oc ++ (if oc == "E" then codeS else ""))
    let h := hashBytes (recip ++ [fltN.toUInt8]) ^^^ ds.ctx
    let fresh := !ds.st.seen.contains h
    ds := { ds with st := { ds.st with cases := ds.st.cases + 1, seen := ds.st.seen.insert h,
                                       nontrivial := ds.st.nontrivial + (if fresh then 1 else 0) } }
    let (mevs, mout) := docmd ds.env flt sender recip
    let inb := fun (_ : Unit) => match lastAt recip with
      | some j => blob ds (recip.take j)
      | none => blob ds recip
    -- implementation's outcome and trace
    let iout : Option Outcome := if oc == "X" then some .exec else if oc == "E" then some (.exit code)
                                 else if oc == "D" then (unhex logS).map Outcome.refused else none
    let ievs : Option (List Ev) := if oc == "D" then some [] else parseLog logS
    match iout, ievs with
    | some iout, some ievs =>
      -- a corrupted cdb may make the C code fail on memory where the model reports the read error: same class
      let sameOut := iout == mout ||
        (ds.raw && (iout == .exit QLX_NOMEM && mout == .exit QLX_CDB))
      if !(sameOut && (ievs == mevs || (ds.raw && iout == .exit QLX_NOMEM))) then
        ds ← ds.disagreeL (fun _ => s!"in={inb ()} kind=spawn fault={fltS} sender={senderH} recip={recipH} raw={ds.raw} impl={oc} {codeS} {logS} model={showOutcome mout} {repr mevs}")
      let bad := oracleS ds flt sender recip iout ievs
      if !bad.isEmpty then
        ds ← ds.oracleFailL (fun _ => s!"in={inb ()} kind=spawn what={",".intercalate bad} fault={fltS} sender={senderH} recip={recipH} impl={oc} {codeS} {logS}")
      if fresh && oc == "X" && ds.st.samples < 3 && recip.length > 4 then
        IO.println s!"SAMPLE S fault={fltS} recip={recipH} impl={oc} {logS}"
        ds := { ds with st := { ds.st with samples := ds.st.samples + 1 } }
      return ds
    | _, _ => ds.disagree s!"unparsable S log {logS}"
  | _, _, _, _ => ds.disagree "unparsable S line"

def handle (ds : DS) (line : String) : IO DS := do
  match fields line with
  | ["I", uidp, gidn, _uidq, aq, ae] =>
    match nat? uidp, nat? gidn, unhex aq, unhex ae with
    | some u, some g, some aq, some ae => return { ds with env := { ds.env with uidp := u, gidn := g, autoQmail := aq, aliasempty := ae } }
    | _, _, _, _ => ds.disagree "unparsable I line"
  | ["R", codeS, byteS, _fixed] =>
    let ds := { ds with st := { ds.st with cases := ds.st.cases + 1 } }
    match nat? byteS with
    | none => ds.disagree s!"kind=report code={codeS} no output"
    | some b =>
      if codeS == "c" then
        let ds ← (if b != reportCrashed.toNat then ds.disagree s!"kind=report crashed impl={b} model={reportCrashed}" else pure ds)
        if b != 90 then ds.oracleFail s!"in=- kind=report what=crash-not-deferred impl={b}" else return ds
      else match nat? codeS with
        | none => ds.disagree "unparsable R line"
        | some c =>
          let ds := { ds with rbytes := (c, b) :: ds.rbytes }
          let ds ← (if b != (reportByte c).toNat then ds.disagree s!"kind=report code={c} impl={b} model={reportByte c}" else pure ds)
          if lookupErrors.contains c && b != 90 then ds.oracleFail s!"in=- kind=report what=lookup-error-{c}-reported-as-{b}" else return ds
  | ["Q", codeS, outH] =>
    let ds := { ds with st := { ds.st with cases := ds.st.cases + 1 } }
    let wrote : Bytes := [111, 117, 116, 0, 116, 97, 105, 108]       -- "out\0tail"
    match unhex outH with
    | none => ds.disagree "unparsable Q line"
    | some o =>
      let (m, c?) : Bytes × Option Nat := if codeS == "c" then (reportCrashedText, none) else
        match nat? codeS with
        | some c => (reportFull c wrote, some c)
        | none => ([], none)
      let ds ← (if o != m then ds.disagree s!"kind=reporttext code={codeS} impl={outH} model={hex m}" else pure ds)
      -- `C11_report_text`: a lookup/identity error (and a crash) is reported as ONE line `Z…\n` that carries nothing of
      -- what the child wrote
      let must := match c? with | some c => lookupErrors.contains c | none => codeS == "c"
      if must && !(o.head? == some 90 && o.getLast? == some LF && !o.dropLast.contains LF && !o.contains NUL && o.length > 2
                   && !(o.drop 1).take 3 == [111, 117, 116]) then
        ds.oracleFail s!"in=- kind=reporttext what=lookup-error-{codeS}-report-malformed impl={outH}"
      else return ds
  | ["P", th] =>
    match unhex th with
    | some t => return { ds with pwtext := t, env := { ds.env with pw := parsePw t }, ctx := hashBytes (t ++ ds.assign) }
    | none => ds.disagree "unparsable P line"
  | ["N", ah, rcS, ch, eh] =>
    match unhex ah, nat? rcS, (if ch == "x" then some none else (unhex ch).map some) with
    | some a, some rc, some icdb =>
      let mut ds := { ds with assign := a, raw := false, env := { ds.env with cdb := icdb }, ctx := hashBytes (ds.pwtext ++ a) }
      ds := ds.bump (if rc == 0 then "newu_ok" else "newu_refused")
      ds := { ds with st := { ds.st with cases := ds.st.cases + 1 } }
      let m := newuFile a
      let agree := match m, icdb with
        | some mb, some ib => rc == 0 && mb == ib
        | none, none => rc == 111
        | _, _ => false
      if !agree then
        let ms := match m with | some mb => s!"0 len={mb.length} {(hex mb).take 200}" | none => "111"
        ds ← ds.disagreeL (fun _ => s!"in={blob ds []} kind=newu assign={ah} impl={rcS} len={(match icdb with | some b => b.length | none => 0)} err={eh} model={ms}")
      -- oracle: the file is compiled iff the independent reading accepts it
      let sp := specParse a
      ds := { ds with tbl := if rc == 0 then sp else none, trunc := false,
                      lastTbl := (if rc == 0 then sp else none), lastCdb := (match icdb with | some b => b | none => []) }
      if (rc == 0) != sp.isSome then
        ds ← ds.oracleFailL (fun _ => s!"in={blob ds []} kind=newu what={if rc == 0 then "malformed-table-compiled" else "valid-table-refused"} assign={ah} rc={rcS}")
      -- `C11_newu_parse` on the implementation's output: the records in the compiled file, read back in file order by the
      -- independent dump, are exactly the pairs of the declaratively parsed table (and the file is below the 4 GiB bound)
      match icdb, sp with
      | some ib, some t =>
        ds := ds.bump "newu_dump_checked"
        if !(ib.length < 4294967296 && cdbDump ib == some (pairsOf t)) then
          ds ← ds.oracleFailL (fun _ => s!"in={blob ds []} kind=newu what=compiled-records-differ-from-declarative-table assign={ah} rc={rcS}")
      | _, _ => pure ()
      return ds
    | _, _, _ => ds.disagree "unparsable N line"
  | ["C", ch] =>
    match (if ch == "x" then some none else (unhex ch).map some) with
    | some c =>
      let tr := match c with
        | some b => ds.lastTbl.isSome && b.isPrefixOf ds.lastCdb
        | none => false
      let ds := (if tr then ds.bump "raw_cdb_truncated" else ds).bump "raw_cdb"
      return { ds with env := { ds.env with cdb := c }, tbl := none, raw := ch != "x", trunc := tr, assign := (if ch == "x" then [] else ds.assign),
                                                ctx := hashBytes (ds.pwtext ++ (match c with | some b => b | none => [])) }
    | none => ds.disagree "unparsable C line"
  | "K" :: kh :: rS :: dh :: posL =>
    let ipos : Option Nat := match posL with | [p] => p.toNat? | _ => none
    match unhex kh, rS.toInt?, unhex dh, ds.env.cdb with
    | some k, some r, some d, some f =>
      let mut ds := ds.bump ("K_" ++ rS)
      ds := { ds with st := { ds.st with cases := ds.st.cases + 1 } }
      let m := cdbGet f k
      let impl : Lk := if r == 1 then .found d else if r == 0 then .notFound else .err
      -- r = -1 (seek error) and r = -2 (data unreadable) are both "err" for nughde_get
      if impl != m then
        ds ← ds.disagreeL (fun _ => s!"in={blob ds []} kind=seek raw={ds.raw} key={kh} impl={rS} {dh} model={showLk m}")
      -- the file position cdb_seek leaves for the data
      match ipos, cdbSeek f k with
      | some ip, .found dpos _ =>
        if r == 1 && ip != dpos then
          ds ← ds.disagreeL (fun _ => s!"in={blob ds []} kind=seekpos raw={ds.raw} key={kh} impl={ip} model={dpos}")
      | _, _ => pure ()
      match ds.tbl with
      | some t =>
        let want := assocFind (pairsOf t) k
        let st := findStruct (pairsOf t) k
        if st != want then
          ds ← ds.disagreeL (fun _ => s!"in={blob ds []} kind=struct key={kh} struct={repr st} source={repr want}")
        let ok := match want with | some w => impl == .found w | none => impl == .notFound
        if !ok then
          ds ← ds.oracleFailL (fun _ => s!"in={blob ds []} kind=cdb what=compiled-table-differs-from-source key={kh} impl={rS} {dh} source={repr want}")
      | none => pure ()
      -- any file, in particular the corrupted ones (`C11_cdb_hit_sound`): a hit must be a real record of that key
      match ipos with
      | some ip =>
        if r == 1 && (ds.raw || ds.st.cases % 8 == 0) then
          ds := ds.bump "K_hit_backed_checked"
          if !hitBacked f k d ip then
            ds ← ds.oracleFailL (fun _ => s!"in={blob ds []} kind=cdb what=hit-not-backed-by-a-record raw={ds.raw} key={kh} impl={rS} {dh} pos={ip} cdb={hex f}")
      | none => pure ()
      -- a truncated copy of a compiled file (`C11_cdb_truncated`): a read error, or what the source says
      if ds.trunc then
        match ds.lastTbl with
        | some t =>
          ds := ds.bump "K_truncated_checked"
          let ok := impl == .err || (match assocFind (pairsOf t) k with | some w => impl == .found w | none => impl == .notFound)
          if !ok then
            ds ← ds.oracleFailL (fun _ => s!"in={blob ds []} kind=cdb what=truncated-cdb-wrong-answer key={kh} impl={rS} {dh} source={repr (assocFind (pairsOf t) k)} cdb={hex f}")
        | none => pure ()
      return ds
    | _, _, _, _ => ds.disagree "unparsable K line"
  | ["G", lh, rcS, oh] =>
    match unhex lh, nat? rcS, unhex oh with
    | some l, some rc, some o =>
      let mut ds := ds.bump ("G_" ++ rcS)
      let h := hashBytes (1 :: l) ^^^ ds.ctx
      let fresh := !ds.st.seen.contains h
      ds := { ds with st := { ds.st with cases := ds.st.cases + 1, seen := ds.st.seen.insert h,
                                         nontrivial := ds.st.nontrivial + (if fresh then 1 else 0) } }
      let impl : GpwRes := if rc == 0 then .out o else .exit rc
      let m := getpwMain ds.env.pw l
      if impl != m || (rc != 0 && !o.isEmpty) then
        ds ← ds.disagreeL (fun _ => s!"in={blob { ds with assign := [] } l} kind=getpw local={lh} impl={rcS} {oh} model={repr m}")
      if impl != specGetpw ds.env.pw l then
        ds ← ds.oracleFailL (fun _ => s!"in={blob { ds with assign := [] } l} kind=getpw what=password-file-rules local={lh} impl={rcS} {oh} spec={repr (specGetpw ds.env.pw l)}")
      return ds
    | _, _, _ => ds.disagree "unparsable G line"
  | ["S", fltS, senderH, recipH, oc, codeS, logS] => handleS ds fltS senderH recipH oc codeS logS
  | [] => return ds
  | _ => ds.disagree s!"unparsable line {line.take 120}"

partial def loop11 (h : IO.FS.Stream) (ds : DS) : IO DS := do
  let line ← h.getLine
  if line.isEmpty then return ds
  let ds' ← handle ds line
  loop11 h ds'

def main : IO Unit := do
  let stdin ← IO.getStdin
  let ds ← loop11 stdin {}
  IO.println s!"STATS {ds.st.json}"
