/- Driver for C02.  Reads the traces of `harness/c02_queuesys.c` (real qmail-queue ×3, qmail-send ×2, qmail-clean under qsim,
   schedule decision before every queue-directory call).  Two channels:
   * DISAGREE: each trace is abstracted to `QueueSys.Ev` and replayed through `QueueSys.accept`; the directory contents reconstructed
     from the calls are compared with qsim's dump.
   * ORACLE: the predicates of Props/C02 evaluated on the concrete directory contents after every mutating call, independently of
     the model's control state: documented state (C02_states), documented move (C02_moves), name = inode and split directory
     (C02_inode), number taken only from S1 (C02_unique_link), removal order of bounce/info (C02_order_*), stale collection only
     after 36 h with no info/todo and no running owner (C02_stale), no queue change by a qmail-send that does not hold the lock
     (C02_mutex). -/
import Drv.Util
import Nq.QueueSys

open Nq Nq.QueueSys Drv

structure Ent where
  kind : File
  n : Nat
  path : String
  ino : Nat

structure Case where
  hdr : String := ""
  st : Option St := some {}
  nev : Nat := 0
  ents : List Ent := []
  pids : List (String × Nat) := []        -- pid/ path → inode
  atime : List (Nat × Nat) := []           -- inode → clock at creation
  clock : Nat := 0
  elim : List Nat := []                    -- info/n removed by qmail-send (elimination under way)
  owners : List (Nat × Nat) := []          -- injector index → number it linked
  live : List Nat := []                    -- injector indices still running (from their first traced call, whatever it is, to exit)
  gone : List Nat := []                    -- injector indices that have exited
  lock : Option Nat := none                -- process holding lock/sendmutex
  inc : Nat := 0
  p5daemon : Bool := false
  dump : List (String × Nat) := []
  dumpPending : Bool := true
  oracleHit : Bool := false
  pre : List (Nat × File × Nat × Nat) := []     -- leftovers present at start: number, file, inode, atime
  prePid : List (Nat × Nat) := []               -- pid files present at start: inode, atime

structure D where
  st : Stats := {}
  c : Case := {}

def kindOf (s : String) : Option File :=
  match s with
  | "mess" => some .mess | "intd" => some .intd | "todo" => some .todo | "info" => some .info
  | "local" => some .loc | "remote" => some .rem | "bounce" => some .bounce
  | _ => none

def kindName : File → String
  | .mess => "mess" | .intd => "intd" | .todo => "todo" | .info => "info" | .loc => "local" | .rem => "remote" | .bounce => "bounce"

/-- ("mess", 212) from "mess/5/212"; pid/ paths give none -/
def parsePath (p : String) : Option (File × Nat) :=
  match p.splitOn "/" with
  | k :: rest => match kindOf k, rest.getLast?.bind (·.toNat?) with
    | some f, some n => some (f, n)
    | _, _ => none
  | _ => none

def isPid (p : String) : Bool := p.startsWith "pid/"

def canonical (f : File) (n : Nat) : String :=
  match f with
  | .mess | .info | .loc | .rem => s!"{kindName f}/{n % Nq.Gen.auto_split}/{n}"
  | _ => s!"{kindName f}/{n}"

def Case.flags (c : Case) (n : Nat) : Flags :=
  let has (f : File) := c.ents.any (fun e => e.kind == f && e.n == n)
  { mess := has .mess, intd := has .intd, todo := has .todo, info := has .info, loc := has .loc, rem := has .rem, bounce := has .bounce }

def Case.atimeOf (c : Case) (ino : Nat) : Nat := ((c.atime.find? (·.1 == ino)).map (·.2)).getD 0

def kvNat (toks : List String) (key : String) : Option Nat :=
  toks.findSome? (fun t => if t.startsWith (key ++ "=") then (t.drop (key.length + 1)).toString.toNat? else none)

def procNum (p : String) : Nat := ((p.drop 1).toString.toNat?).getD 99

def oracle (d : D) (why : String) (detail : String) : IO D := do
  if d.c.oracleHit then return d
  IO.println s!"ORACLE {d.c.hdr} why={why} {detail}"
  return { d with st := { d.st with oracle := d.st.oracle + 1 }, c := { d.c with oracleHit := true } }

def disagree (d : D) (what : String) : IO D := do
  if d.c.st.isNone then return d
  IO.println s!"DISAGREE {d.c.hdr} {what}"
  return { d with st := { d.st with disagree := d.st.disagree + 1 }, c := { d.c with st := none } }

def feed (d : D) (ev : Ev) (what : String) : IO D := do
  match d.c.st with
  | none => return d
  | some s =>
    match accept s ev with
    | some s' => return { d with c := { d.c with st := some s', nev := d.c.nev + 1 }, st := d.st.bump ("ev_" ++ what) }
    | none => disagree d s!"event#{d.c.nev + 1} rejected: {what} {repr ev} mode={repr s.mode} know={repr s.k}"

/-- the daemon leaves todo_do without finishing when its next call is about something else -/
def abortTodoIfLeaving (d : D) (about : Option Nat) : IO D := do
  match d.c.st with
  | some s => match s.mode with
    | .inTodo m _ => if about == some m then return d else feed d .dAbortTodo "dAbortTodo"
    | _ => return d
  | none => return d

/-- state-shape oracles after a mutating call on a file of message n -/
def checkMove (d : D) (pre post : Flags) (n : Nat) (what : String) : IO D := do
  let mut d := d
  if !post.documented then
    d ← oracle d "undocumented_state" s!"n={n} after={what} flags={repr post}"
  else if !allowedMove pre.cls post.cls then
    d ← oracle d "undocumented_move" s!"n={n} by={what} from=S{pre.cls} to=S{post.cls}"
  return d

def addEnt (c : Case) (f : File) (n : Nat) (path : String) (ino : Nat) : Case :=
  if c.ents.any (fun e => e.path == path) then c else { c with ents := ⟨f, n, path, ino⟩ :: c.ents }
def delEnt (c : Case) (path : String) : Case := { c with ents := c.ents.filter (fun e => e.path != path) }

def mutexCheck (d : D) (pn : Nat) (what : String) : IO D := do
  if (pn == 0 || pn == 5 || pn == 1) then
    let holder := d.c.lock
    let ok := match pn with
      | 1 => true            -- qmail-clean acts on requests of whoever started it; its requests are checked at the daemon
      | _ => holder == some pn
    if !ok then return (← oracle d "queue_changed_by_a_qmail-send_that_does_not_hold_the_lock" s!"proc=P{pn} call={what}")
  return d

def compareDump (d : D) : IO D := do
  if !d.c.dumpPending then return d
  let mine := (d.c.ents.map (fun e => (e.path, e.ino))) ++ d.c.pids
  let theirs := d.c.dump
  let missing := theirs.filter (fun x => !mine.contains x)
  let extra := mine.filter (fun x => !theirs.contains x)
  let d := { d with c := { d.c with dump := [], dumpPending := false } }
  if missing.isEmpty && extra.isEmpty then return d
  disagree d s!"directory reconstruction differs from qsim's dump: only_in_dump={missing} only_in_reconstruction={extra}"

def handleT (d : D) (p : String) (toks : List String) : IO D := do
  let pn := procNum p
  let i := d.c.inc * 8 + pn
  let isInj := pn ≥ 2 && pn ≤ 4
  if d.c.p5daemon then return d
  -- observer bookkeeping, independent of the monitor: an injector is running from its first traced call on (not from its alarm() call:
  -- a qmail-queue that sets its timer late is still a running qmail-queue whose files must not be collected)
  let d := if isInj && !d.c.live.contains i && !d.c.gone.contains i then { d with c := { d.c with live := i :: d.c.live } } else d
  match toks with
  | ["alarm", dd] =>
    if isInj then
      feed d (.iStart i (dd.toNat?.getD 0)) "iStart"
    else return d
  | "exit" :: _ | "CRASH" :: _ | "KILLED" :: _ =>
    let d := if toks.head? == some "KILLED" then { d with st := d.st.bump "kill_fired" } else d
    if isInj then
      let d := { d with c := { d.c with live := d.c.live.filter (· != i), gone := i :: d.c.gone } }
      feed d (.iDie i) "iDie"
    else if d.c.lock == some pn then
      let d := { d with c := { d.c with lock := none } }
      if pn == 0 then feed d .dDie "dDie" else return d
    else return d
  | ["sleep", nn] =>
    if pn == 0 then
      let t := d.c.clock + nn.toNat?.getD 0
      feed { d with c := { d.c with clock := t } } (.tick t) "tick"
    else return d
  | _ :: "select" :: rest =>
    if pn != 0 then return d else
    let d ← abortTodoIfLeaving d none
    match kvNat rest "clock" with
    | some t => feed { d with c := { d.c with clock := t } } (.tick t) "tick"
    | none => return d
  | _ :: fl :: _ :: "->" :: r :: _ =>
    if fl == "flock" || fl == "flock_nb" then
      if pn != 0 && pn != 5 then return d else
      if r == "0" then
        if d.c.lock.isNone then
          if pn == 5 then
            -- the second instance is legitimately the only daemon (the first died before taking the lock); its qmail-clean is a
            -- stand-in, so the rest of this case is not a faithful run of the system: not judged
            return { d with c := { d.c with lock := some 5, p5daemon := true, st := none, oracleHit := true, dumpPending := false },
                            st := d.st.bump "skipped_second_instance_is_the_daemon" }
          else feed { d with c := { d.c with lock := some pn } } .dStart "dStart"
        else
          let d ← oracle d "second_qmail-send_got_the_lock_while_another_holds_it" s!"proc={p}"
          feed d .dStart "dStart"
      else if d.c.lock.isSome then feed d .dRefused "dRefused" else return d      -- a failure while nobody holds the lock is an injected fault
    else handleCall d p pn i isInj toks
  | _ => handleCall d p pn i isInj toks
where
  handleCall (d : D) (p : String) (pn i : Nat) (isInj : Bool) (toks : List String) : IO D := do
    match toks with
    | _ :: "write_pipe" :: "5" :: rest =>
      if pn != 0 then return d else
      match rest.findSome? (fun t => if t.startsWith "data=" then unhex (t.drop 5).toString else none) with
      | some bs =>
        let txt := String.ofList (bs.filter (· != 0) |>.map (fun b => Char.ofNat b.toNat))
        let isTodo := txt.startsWith "todo/"
        match (txt.drop 5).toString.toNat? with
        | some n =>
          if txt.startsWith "todo/" || txt.startsWith "foop/" then
            let d ← abortTodoIfLeaving d (some n)
            feed d (.dReq isTodo n) (if isTodo then "dReqTodo" else "dReqFoop")
          else disagree d s!"unknown request to qmail-clean: {txt}"
        | none => disagree d s!"unparseable request to qmail-clean: {txt}"
      | none => return d
    | _ :: "read" :: "6" :: "->" :: r :: rest =>
      if pn != 0 then return d else
      if r == "1" then feed d (.cDone (rest.contains "data=2b")) "cDone" else return d
    | _ :: "rename" :: a :: b :: _ =>
      if (parsePath a).isSome || (parsePath b).isSome || isPid a || isPid b then disagree d s!"unmodelled call rename {a} {b} by {p}" else return d
    | _ :: "stat" :: path :: "->" :: r :: rest =>
      if pn != 0 then return d else
      match parsePath path with
      | some (f, n) =>
        if r == "0" then
          let d ← abortTodoIfLeaving d (some n)
          feed d (.dObs n f true) "dObs"
        else if rest.head? == some "e2" then
          let d ← abortTodoIfLeaving d (some n)
          feed d (.dObs n f false) "dObs"
        else return d
      | none => return d
    | _ :: "open_read" :: path :: "->" :: r :: _ =>
      if pn != 0 || r == "-1" then return d else
      match parsePath path with
      | some (.todo, n) =>
        let d ← abortTodoIfLeaving d none
        feed d (.dOpenTodo n) "dOpenTodo"
      | _ => return d
    | _ :: op :: path :: "->" :: r :: rest =>
      if op == "open_excl" || op == "open_append" || op == "open_trunc" || op == "open_write" then
        if r == "-1" then return d else
        let ino := (kvNat rest "ino").getD 0
        if isPid path then
          if isInj && op == "open_excl" then
            let c := { d.c with pids := (path, ino) :: d.c.pids, atime := (ino, d.c.clock) :: d.c.atime.filter (·.1 != ino) }
            feed { d with c := c } (.iOpenPid i ino) "iOpenPid"
          else return d
        else match parsePath path with
          | some (f, n) =>
            let existed := d.c.ents.any (fun e => e.path == path)
            if existed then return d else      -- open of an existing file changes no name (markdone, appending to bounce)
            if op == "open_write" then disagree d s!"open_write created {path}?" else
            let pre := d.c.flags n
            let mut d := { d with c := addEnt d.c f n path ino }
            d ← mutexCheck d pn s!"{op} {path}"
            d ← checkMove d pre (d.c.flags n) n s!"{p}:{op}:{path}"
            if path != canonical f n then d ← oracle d "file_not_under_its_number" s!"path={path} expected={canonical f n}"
            if isInj then
              if f == .intd then feed d (.iCreatIntd i n) "iCreatIntd"
              else disagree d s!"qmail-queue created {path}"
            else if pn == 0 then
              d ← abortTodoIfLeaving d (some n)
              feed d (.dCreat n f) ("dCreat_" ++ kindName f)
            else disagree d s!"{p} created {path}"
          | none => return d
      else if op == "unlink" then
        if r == "0" then
          if isPid path then
            let ino := ((d.c.pids.find? (·.1 == path)).map (·.2)).getD 0
            let d := { d with c := { d.c with pids := d.c.pids.filter (·.1 != path) } }
            if isInj then feed d (.iUnlinkPid i) "iUnlinkPid"
            else if pn == 1 then
              -- the pid file must be more than 36 hours old
              let d ← if d.c.clock ≤ d.c.atimeOf ino + 129600 then oracle d "pid_file_removed_before_36_hours" s!"path={path}" else pure d
              feed d (.cUnlinkPid ino) "cUnlinkPid"
            else disagree d s!"{p} unlinked {path}"
          else match parsePath path with
            | some (f, n) =>
              let pre := d.c.flags n
              let ent := d.c.ents.find? (fun e => e.path == path)
              let mut d := { d with c := delEnt d.c path }
              let post := d.c.flags n
              d ← mutexCheck d pn s!"unlink {path}"
              d ← checkMove d pre post n s!"{p}:unlink:{path}"
              -- removal order
              if f == .bounce && (pre.loc || pre.rem) then
                d ← oracle d "bounce_record_removed_before_recipient_lists" s!"n={n}"
              if f == .info && !pre.todo && (pre.loc || pre.rem || pre.bounce) then
                d ← oracle d "info_removed_before_recipient_lists_and_bounce_record" s!"n={n}"
              if f == .mess && (post.intd || post.todo || post.info || post.loc || post.rem || post.bounce) then
                d ← oracle d "message_body_removed_before_the_rest" s!"n={n}"
              if pn == 0 && f == .info && !pre.todo then d := { d with c := { d.c with elim := n :: d.c.elim } }
              -- stale collection
              if pn == 1 && (f == .mess || (f == .intd && !pre.todo)) then    -- intd/n with todo/n present is the end of preprocessing
                let messIno := ((d.c.ents.find? (fun e => e.kind == .mess && e.n == n)).map (·.ino)).getD ((ent.map (·.ino)).getD n)
                let atm := d.c.atimeOf (if f == .mess then (ent.map (·.ino)).getD n else messIno)
                let elimOk := d.c.elim.contains n
                let staleOk := d.c.clock > atm + 129600 && !pre.info && !pre.todo
                if !(elimOk || staleOk) then
                  d ← oracle d "collected_before_36_hours_or_with_info_or_todo_present" s!"n={n} file={kindName f} clock={d.c.clock} atime={atm} info={pre.info} todo={pre.todo}"
                if d.c.owners.any (fun (j, m) => m == n && d.c.live.contains j) then
                  d ← oracle d "files_of_a_running_qmail-queue_collected" s!"n={n} file={kindName f}"
              if f == .mess then d := { d with c := { d.c with elim := d.c.elim.filter (· != n), owners := d.c.owners.filter (·.2 != n) } }
              if isInj then
                if f == .intd then feed d (.iUnIntd i n) "iUnIntd"
                else if f == .mess then feed d (.iUnMess i n) "iUnMess"
                else disagree d s!"qmail-queue unlinked {path}"
              else if pn == 0 then
                d ← abortTodoIfLeaving d (some n)
                feed d (.dUnlink n f) ("dUnlink_" ++ kindName f)
              else if pn == 1 then feed d (.cUnlink n f true) ("cUnlink_" ++ kindName f)
              else disagree d s!"{p} unlinked {path}"
            | none => return d
        else if rest.head? == some "e2" then
          match parsePath path with
          | some (f, n) =>
            if pn == 0 then
              let d ← abortTodoIfLeaving d (some n)
              feed d (.dObs n f false) "dObs"
            else if pn == 1 then feed d (.cUnlink n f false) ("cUnlinkENOENT_" ++ kindName f)
            else return d
          | none => return d
        else return d
      else return d
    | _ :: "link" :: a :: b :: "->" :: r :: _ =>
      if r != "0" then return d else
      match parsePath b with
      | some (f, n) =>
        let pre := d.c.flags n
        let srcIno : Nat :=
          if isPid a then ((d.c.pids.find? (·.1 == a)).map (·.2)).getD 0
          else ((d.c.ents.find? (fun e => e.path == a)).map (·.ino)).getD 0
        let mut d := { d with c := addEnt d.c f n b srcIno }
        d ← mutexCheck d pn s!"link {a} {b}"
        d ← checkMove d pre (d.c.flags n) n s!"{p}:link:{b}"
        if b != canonical f n then d ← oracle d "file_not_under_its_number" s!"path={b} expected={canonical f n}"
        if f == .mess then
          if srcIno != n then d ← oracle d "message_file_name_differs_from_inode" s!"path={b} inode={srcIno}"
          if pre.cls != 1 then d ← oracle d "number_taken_while_in_use" s!"n={n} state=S{pre.cls}"
          d := { d with c := { d.c with owners := (i, n) :: d.c.owners } }
          if isInj then feed d (.iLinkMess i n) "iLinkMess" else disagree d s!"{p} linked {b}"
        else if f == .todo then
          -- hand-over: with todo/n linked the message belongs to qmail-send; an injector that is still running (before its trigger
          -- pull / exit) no longer owns n, and the later removal of mess/n after delivery is not a collection of its files
          d := { d with c := { d.c with owners := d.c.owners.filter (fun (j, m) => !(j == i && m == n)) } }
          if isInj then feed d (.iLinkTodo i n) "iLinkTodo" else disagree d s!"{p} linked {b}"
        else disagree d s!"{p} linked {b}"
      | none => return d
    | _ => return d

/-- The leftovers present at start are not injected into the model state: the model reaches them from the EMPTY queue by an
accepted event sequence (an injector that stopped at the right point, plus a daemon that preprocessed and died, at the time the
files are dated), so every replayed run starts from a state that is reachable in the sense of Props/C02. -/
def synthPre (d : D) : IO D := do
  let c := d.c
  let nums := (c.pre.map (·.1)).eraseDups
  let has (n : Nat) (f : File) := c.pre.any (fun (m, g, _, _) => m == n && g == f)
  let atOf (n : Nat) := ((c.pre.find? (fun (m, g, _, _) => m == n && g == .mess)).map (fun (_, _, _, a) => a)).getD 0
  -- (time, number, kind): kind 0 pid only, 1 pid+mess, 2 mess, 3 mess+intd, 4 queued, 5 preprocessed
  let items : List (Nat × Nat × Nat) :=
    (nums.map fun n =>
      let k := if has n .info then 5 else if has n .todo then 4 else if has n .intd then 3
               else if c.prePid.any (·.1 == n) then 1 else 2
      (atOf n, n, k)) ++
    ((c.prePid.filter (fun (i, _) => !nums.contains i)).map fun (i, a) => (a, i, 0))
  let sorted := items.toArray.qsort (fun a b => a.1 < b.1 || (a.1 == b.1 && a.2.1 < b.2.1)) |>.toList
  let mut d := d
  let mut j := 100000
  for (t, n, k) in sorted do
    j := j + 1
    d ← feed d (.tick t) "pre_tick"
    d ← feed d (.iStart j Nq.Gen.DEATH) "pre_iStart"
    d ← feed d (.iOpenPid j n) "pre_iOpenPid"
    if k ≥ 1 then d ← feed d (.iLinkMess j n) "pre_iLinkMess"
    if k ≥ 2 then d ← feed d (.iUnlinkPid j) "pre_iUnlinkPid"
    if k ≥ 3 then d ← feed d (.iCreatIntd j n) "pre_iCreatIntd"
    if k ≥ 4 then d ← feed d (.iLinkTodo j n) "pre_iLinkTodo"
    else d ← feed d (.iDie j) "pre_iDie"
    if k == 5 then
      for (e, w) in [(Ev.dStart, "pre_dStart"), (.dOpenTodo n, "pre_dOpenTodo"), (.dCreat n .info, "pre_dCreat"), (.dCreat n .loc, "pre_dCreat"),
                     (.dReq true n, "pre_dReq"), (.cUnlink n .intd true, "pre_cUnlink"), (.cUnlink n .todo true, "pre_cUnlink"), (.cDone true, "pre_cDone"),
                     (.dDie, "pre_dDie")] do
        d ← feed d e w
  d ← feed d (.tick 1000000) "pre_tick"
  -- the model's files must now be exactly the concrete ones
  match d.c.st with
  | some s =>
    for n in nums do
      if s.fl n != d.c.flags n then d ← disagree d s!"synthesised start state differs from the queue at start for n={n}: model={repr (s.fl n)} concrete={repr (d.c.flags n)}"
  | none => pure ()
  return d

def handle (d : D) (line : String) : IO D := do
  let toks := fields line
  match toks with
  | "CASE" :: rest =>
    let hl := " ".intercalate rest
    let h := hashBytes hl.toUTF8.toList
    let fresh := !d.st.seen.contains h
    let mut st : Stats := { d.st with cases := d.st.cases + 1, seen := d.st.seen.insert h, nontrivial := d.st.nontrivial + (if fresh then 1 else 0) }
    if st.samples < 3 then
      IO.println s!"SAMPLE {hl}"
      st := { st with samples := st.samples + 1 }
    return { st := st, c := { hdr := hl, clock := 1000000, st := some {} } }
  | "X" :: "pre" :: rest =>
    -- leftovers in the queue at start: concrete entries now; the model reaches the same state through events at "X start" (synthPre)
    let ino := (kvNat rest "ino").getD 0
    let atm := (kvNat rest "atime").getD 0
    let c := { d.c with atime := (ino, atm) :: d.c.atime.filter (·.1 != ino) }
    match rest with
    | "pid" :: _ =>
      let path := (rest.findSome? (fun t => if t.startsWith "path=" then some (t.drop 5).toString else none)).getD "?"
      return { d with c := { c with pids := (path, ino) :: c.pids, prePid := (ino, atm) :: c.prePid } }
    | _ =>
      let n := (kvNat rest "n").getD 0
      match (rest.findSome? (fun t => if t.startsWith "file=" then kindOf (t.drop 5).toString else none)) with
      | some f => return { d with c := { (addEnt c f n (canonical f n) ino) with pre := (n, f, ino, atm) :: c.pre } }
      | none => return d
  | "X" :: "start" :: rest =>
    let d ← compareDump d
    let inc := (kvNat rest "incarnation").getD 1
    let d ← if inc == 1 then synthPre d else pure d
    return { d with c := { d.c with inc := inc } }
  | "X" :: "crash-applied" :: _ =>
    let d := { d with c := { d.c with live := [], gone := [], lock := none, elim := [] } }
    feed d .crash "crash"
  | "X" :: "end" :: _ => if d.c.p5daemon then return d else return { d with c := { d.c with dumpPending := true, dump := [] } }
  | "X" :: "dfs-summary" :: rest =>
    let cfg := (kvNat rest "cfg").getD 0
    let st := if (kvNat rest "complete").getD 0 == 1 then d.st.bump s!"dfs_cfg{cfg}_shards_enumerated_completely" else d.st.bump s!"dfs_cfg{cfg}_shards_cut_at_limit"
    return { d with st := st }
  | "X" :: "choices" :: _ => return { d with st := d.st.bump "dfs_schedules" }
  | "X" :: "stall-fired" :: _ => return { d with st := d.st.bump "stall_fired" }
  | "X" :: "budget-abort" :: _ => return { d with st := d.st.bump "budget_abort" }
  | "X" :: "second-instance-abort" :: _ => return { d with st := d.st.bump "second_instance_abort" }
  | "X" :: "horizon-abort" :: _ => return { d with st := d.st.bump "horizon_abort" }
  | "D" :: _ :: path :: rest =>
    return { d with c := { d.c with dump := (path, (kvNat rest "ino").getD 0) :: d.c.dump } }
  | "T" :: p :: rest =>
    if rest.contains "DEADLOCK" then disagree d s!"deadlock reported by qsim: {line.trimAscii.toString}" else
    handleT d p rest
  | "END" :: _ =>
    if d.c.p5daemon then return d else
    let d ← compareDump d
    -- final state: every message in a documented state (whole directory)
    let ns := (d.c.ents.map (·.n)).eraseDups
    let mut d := d
    for n in ns do
      if !(d.c.flags n).documented then d ← oracle d "undocumented_state_at_end" s!"n={n} flags={repr (d.c.flags n)}"
    return d
  | _ => return d

partial def loop2 (h : IO.FS.Stream) (d : D) : IO D := do
  let line ← h.getLine
  if line.isEmpty then return d
  let d' ← handle d line
  loop2 h d'

def main : IO Unit := do
  let stdin ← IO.getStdin
  let d ← loop2 stdin {}
  IO.println s!"STATS {d.st.json}"
