/- Driver for C08: real qmail-smtpd sessions / addrparse calls (harness/c08_session.c) vs `Nq.SmtpSession`;
   oracle = the trace predicates of `Nq.Spec.SmtpPolicy` evaluated on the implementation's replies and envelopes.
   Input lines:
     C <cfg> <me> <rh> <more> <bmf> <lip> <relay> <ipme> <qq> <now> <qp>
     A <cfg> <arg> <ok> <addr> <bmf> <allowed>
     S <cfg> <chunk> <in> <exit> <replies> <nsub> {<from> <rcptto>} D <ncalls> {<index> <arg>}
     B <sizeof ssinbuf>
     F <table> <texts,…> <bufsize> <script> <in> <ret> <ncalls> {<index> <arg>}     commands() called directly
   Framing: DISAGREE = `SmtpCmdIO.commandsIO` (F) / `SmtpCmdIO.runIO` (S) on the same buffer size and read script vs the C code;
   ORACLE = the independent splitter of `Nq.Spec.CmdLine` evaluated on the implementation's dispatch trace.                -/
import Drv.Util
import Nq.Spec.SmtpPolicy
import Nq.Spec.SmtpPolicyDoc
import Nq.Spec.SmtpAddrParse
import Nq.SmtpFlush
import Nq.Spec.CmdLine
import Nq.SmtpCmdIO

open Nq Nq.SmtpIn Nq.SmtpSession Nq.SmtpPolicy Nq.SmtpPolicyDoc Nq.CmdLineSpec Nq.SmtpCmdIO Drv

structure DState where
  cfgid : String := ""
  cfg : Cfg := {}
  qq : QQ := {}
  bufsize : Nat := 1024

def optHex (s : String) : Option (Option Bytes) := if s == "!" then some none else (unhex s).map some

def ipsOf : Bytes → List Ip
  | a :: b :: c :: d :: r => (a, b, c, d) :: ipsOf r
  | _ => []

def parseCfg : List String → Option DState
  | [id, me, rh, more, bmf, lip, relay, ipme, qq, now, qp] => do
    let me ← unhex me
    let rh ← optHex rh
    let more ← optHex more
    let bmf ← optHex bmf
    let lip ← optHex lip
    let relay ← optHex relay
    let ipme ← unhex ipme
    let qqm ← qq.toNat?
    let now ← now.toNat?
    let qp ← qp.toNat?
    let q : QQ := match qqm with
      | 1 => { openFails := true }
      | 2 => { close := str "Dqq permanent problem (#5.3.0)" }
      | 3 => { close := str "Zqq temporary problem (#4.3.0)" }
      | _ => {}
    some { cfgid := id, cfg := Cfg.ofFiles me rh more bmf lip relay (ipsOf ipme) now qp, qq := q }
  | _ => none

/-! reply stream → groups (one per reply, continuation lines `ddd-` joined) -/

def replyLines : Bytes → Bytes → List Bytes
  | cur, [] => if cur.isEmpty then [] else [cur.reverse]
  | cur, c :: r => if c = LF then (c :: cur).reverse :: replyLines [] r else replyLines (c :: cur) r

def replyGroups : List Bytes → Bytes → List Bytes
  | [], cur => if cur.isEmpty then [] else [cur]
  | l :: ls, cur => if l.getD 3 0 = 45 then replyGroups ls (cur ++ l) else (cur ++ l) :: replyGroups ls []

/-- code of a group: the first three bytes of its last line -/
def groupCode (g : Bytes) : Bytes := ((replyLines [] g).getLast?.getD []).take 3

def decRcpts : Bytes → Bytes → List Bytes
  | [], cur => if cur.isEmpty then [] else [cur.reverse]
  | c :: r, cur => if c = NUL then (cur.reverse.drop 1) :: decRcpts r [] else decRcpts r (c :: cur)

/-- rebuild the implementation's trace from the input, its replies and its envelopes, cutting the input into
lines / verbs / arguments with the *independent* splitter of `Nq.Spec.CmdLine` (DATA bodies with the C05 reference
decoder).  Returns the events, the envelopes no DATA accounted for, and the (table index, argument) of every line
taken as a command. -/
partial def rebuild (cfg : Cfg) (inp : Bytes) (gs : List Bytes) (envs : List (Bytes × Bytes)) (acc : List Ev)
    (calls : List (Nat × Bytes)) : List Ev × List (Bytes × Bytes) × List (Nat × Bytes) :=
  match specFirstLine inp, gs with
  | some (l, rest), g :: gs' =>
    let code := groupCode g
    let ev (c : Cmd) (r : Reply) : Ev := (c, { replies := [r] })
    let calls := calls ++ [(specIdx smtpTexts (specSplit l).1, (specSplit l).2)]
    match (specParse l).1 with
    | .helo => rebuild cfg rest gs' envs (acc ++ [ev .helo .helo]) calls
    | .ehlo => rebuild cfg rest gs' envs (acc ++ [ev .ehlo .ehlo]) calls
    | .rset => rebuild cfg rest gs' envs (acc ++ [ev .rset .flushed]) calls
    | .help => rebuild cfg rest gs' envs (acc ++ [ev .help .help]) calls
    | .noop => rebuild cfg rest gs' envs (acc ++ [ev .noop .noop]) calls
    | .vrfy => rebuild cfg rest gs' envs (acc ++ [ev .vrfy .vrfy]) calls
    | .unimpl => rebuild cfg rest gs' envs (acc ++ [ev .unimpl .unimpl]) calls
    | .quit => (acc ++ [(.quit, { replies := [.quit], halt := true })], envs, calls)
    | .mail => rebuild cfg rest gs' envs (acc ++ [ev (.mail (specParse l).2) (if code = str "250" then .mailok else .syntax)]) calls
    | .rcpt =>
      let r : Reply := if code = str "250" then .rcptok else if code = str "503" then .wantmail
        else if code = str "555" then .syntax else if g = render cfg .bmf then .bmf else .nogateway
      rebuild cfg rest gs' envs (acc ++ [ev (.rcpt (specParse l).2) r]) calls
    | .data =>
      if code = str "354" then
        match rfcDecode rest with
        | .accepted _ rest' =>
          match gs' with
          | g2 :: gs'' =>
            let qqx := if groupCode g2 = str "250" then [] else g2
            let (sub, envs') := match envs with
              | (f, r) :: es => (some (Submit.mk f (decRcpts r []) qqx), es)
              | [] => (none, [])
            rebuild cfg rest' gs'' envs' (acc ++ [(.data { close := qqx }, { replies := [.go, closeReply qqx], submit := sub })]) calls
          | [] => (acc ++ [(.data {}, { replies := [.go], halt := true })], envs, calls)
        | .stray => (acc ++ [(.data { blast := .stray }, { replies := [.go, .stray], halt := true })], envs, calls)
        | .incomplete => (acc ++ [(.data { blast := .eof }, { replies := [.go], halt := true })], envs, calls)
      else
        let r : Reply := if g = render cfg .wantrcpt then .wantrcpt else if code = str "503" then .wantmail else .qqt
        rebuild cfg rest gs' envs (acc ++ [ev (.data { openFails := r == .qqt }) r]) calls
  | _, _ => (acc, envs, calls)

def parseCalls : List String → Option (List (Nat × Bytes))
  | [] => some []
  | i :: a :: r => do
    let i ← i.toNat?
    let a ← unhex a
    let t ← parseCalls r
    some ((i, a) :: t)
  | _ => none

def showCalls (cs : List (Nat × Bytes)) : String := ",".intercalate (cs.map (fun c => s!"{c.1}:{hex c.2}"))

def showOpt (o : Option Bytes) : String := match o with | some b => hex b | none => "!"

def handleA (ds : DState) (st : Stats) (cfgid argh okS addrh bmfS allowedS : String) : IO Stats := do
  match unhex argh, unhex addrh with
  | some arg, some addr =>
    let cfg := ds.cfg
    let h := hashBytes (arg ++ [0] ++ ds.cfgid.toUTF8.toList)
    let fresh := !st.seen.contains h
    let model := addrparse cfg arg
    let nontriv := arg.contains AT || arg.contains LTc
    let mut st := { st with cases := st.cases + 1, seen := st.seen.insert h,
                            nontrivial := st.nontrivial + (if fresh && nontriv then 1 else 0) }
    st := st.bump ("A_ok" ++ okS)
    let agree := match okS, model with
      | "1", some a => a == addr && bmfS == (if bmfcheck cfg a then "1" else "0") &&
                       allowedS == (if rcpthostsMatch cfg a then "1" else "0")
      | "0", none => true
      | _, _ => false
    if !agree then
      let ms := match model with
        | some a => s!"1 {hex a} {if bmfcheck cfg a then 1 else 0} {if rcpthostsMatch cfg a then 1 else 0}"
        | none => "0"
      IO.println s!"DISAGREE mode=A cfg={cfgid} in={argh} impl={okS} {addrh} {bmfS} {allowedS} model={ms}"
      st := { st with disagree := st.disagree + 1 }
    -- oracle on the implementation's answers
    -- "the parsed address" is the SPEC's reading (path grammar of Nq.Spec.SmtpAddr, lipSpec, literal limit), not the model's
    let sstart := Nq.SmtpAddrSpec.specStart arg
    let srest := Nq.SmtpAddrSpec.specRoute sstart.2
    let slex := Nq.SmtpAddrSpec.lexTop sstart.1 srest.length srest
    let expected := lipSpec cfg (Nq.SmtpAddrSpec.specPath arg)
    if fresh then
      st := st.bump (if sstart.1 == GTc then "A_spec_bracketed" else "A_spec_bracketless")
      if srest != sstart.2 then st := st.bump "A_spec_route_stripped"
      if slex.1.any (fun i => match i with | .quoted _ => true | _ => false) then st := st.bump "A_spec_quoted_string"
      if slex.1.any (fun i => match i with | .esc _ => true | _ => false) then st := st.bump "A_spec_quoted_pair"
      match slex.2 with
      | .eos => st := st.bump "A_spec_end_eos"
      | .term r => st := st.bump (if r.isEmpty then "A_spec_end_term" else "A_spec_end_term_junk")
      | .bsl => st := st.bump "A_spec_end_lone_backslash"
      | .openq _ d => st := st.bump (if d then "A_spec_end_open_quote_backslash" else "A_spec_end_open_quote")
    let bad : Option String :=
      if okS == "1" then
        if addr.length + 1 > addrLimit then some "address longer than the limit was accepted"
        else if addr != expected then some s!"address left by addrparse (quoting, source route, localiphost replacement): expected {hex expected}"
        else if (bmfS == "1") != badSenderB cfg addr then some s!"bad-sender verdict, spec={badSenderB cfg addr}"
        else if (allowedS == "1") != matchSpecB cfg addr then some s!"rcpthosts verdict, spec={matchSpecB cfg addr}"
        else if (bmfS == "1") != badSenderDocB cfg addr then some s!"bad-sender verdict, documented rule={badSenderDocB cfg addr}"
        else if (allowedS == "1") != rcptHostOKB cfg addr then some s!"rcpthosts verdict, documented rule={rcptHostOKB cfg addr}"
        else none
      else if okS == "0" then
        if expected.length + 1 > addrLimit then none else some "address within the limit was refused"
      else some "addrparse/addrallowed did not return"
    if let some why := bad then
      IO.println s!"ORACLE mode=A cfg={cfgid} in={argh} impl={okS} addr={addrh} bmf={bmfS} allowed={allowedS} why={why.replace " " "_"}"
      st := { st with oracle := st.oracle + 1 }
    if fresh && st.samples < 2 && okS == "1" && arg.length ≥ 12 && arg.contains DQ then
      IO.println s!"SAMPLE mode=A cfg={cfgid} arg={argh} addr={addrh} bmf={bmfS} allowed={allowedS}"
      st := { st with samples := st.samples + 1 }
    return st
  | _, _ => IO.println s!"DISAGREE unparsable A line"; return { st with disagree := st.disagree + 1 }

def pairs : List String → Option (List (Bytes × Bytes))
  | [] => some []
  | a :: b :: r => do
    let x ← unhex a
    let y ← unhex b
    let t ← pairs r
    some ((x, y) :: t)
  | _ => none

/-- the event log of a session (`E` field): G<n>,W<n>,R<p>,C<i>,F<0>; `none` = unparsable.  Second component: some read
found bytes sitting in ssout's buffer. -/
def parseEvents (t : String) : Option (List Nq.SmtpFlush.FEv × Bool) :=
  if t == "-" then some ([], false) else
  (t.splitOn ",").foldl (fun acc tok =>
    match acc with
    | none => none
    | some (l, bad) =>
      match (tok.drop 1).toNat? with
      | none => none
      | some v =>
        match tok.front with
        | 'G' => some (l ++ [.gen v], bad)
        | 'W' => some (l ++ [.wr v], bad)
        | 'R' => some (l ++ [.rd], bad || v != 0)
        | 'C' => some (l ++ [.cmd v], bad)
        | 'F' => some (l ++ [.fl], bad)
        | _ => none) (some ([], false))

def smtpFlag (i : Nat) : Bool :=
  match Gen.smtpCommands[i]? with
  | some e => e.2.2
  | none => Gen.smtpDefault.2

/-- the handlers of qmail-smtpd as `SmtpFlush.Handler`: next state, number of reply bytes, exits? -/
def smtpHandler (cfg : Cfg) (qq : QQ) : Nq.SmtpFlush.Handler Sess := fun s call =>
  let c := lineCmd qq (verbAt call.1) call.2
  let r := sstep cfg s c
  (r.1, (r.2.replies.flatMap (render cfg)).length, r.2.halt)

def showMarks (ms : List Nq.SmtpFlush.Mark) : String :=
  ",".intercalate (ms.map (fun m => match m with | .rd w => s!"R@{w}" | .fl w => s!"F@{w}" | .cmd i => s!"C{i}"))

/-- some handler returned while reply bytes were still buffered (pipelined replies) -/
def deferred : Nat → List Nq.SmtpFlush.FEv → Bool
  | _, [] => false
  | out, .gen n :: r => deferred (out + n) r
  | out, .wr n :: r => deferred (out - n) r
  | _, .rd :: r => deferred 0 r
  | _, .fl :: r => deferred 0 r
  | out, .cmd _ :: r => out > 0 || deferred out r

def handleS (ds : DState) (st : Stats) (cfgid chunk inh exitS replyh nsubS : String) (rest0 : List String) : IO Stats := do
  let (rest, dpart0) := rest0.span (· != "D")
  let (dpart, epart) := dpart0.span (· != "E")
  let ievs : Option (List Nq.SmtpFlush.FEv × Bool) := match epart with
    | [_, t] => parseEvents t
    | _ => none
  let icalls : Option (List (Nat × Bytes)) := match dpart with
    | _ :: n :: cs => (parseCalls cs).bind (fun l => if n.toNat? == some l.length then some l else none)
    | _ => none
  match unhex inh, unhex replyh, pairs rest, icalls, ievs with
  | some inp, some replies, some envs, some icalls, some (ievs, readWithPending) =>
    let cfg := ds.cfg
    let h := hashBytes (inp ++ [0] ++ ds.cfgid.toUTF8.toList)
    let fresh := !st.seen.contains h
    let tr := run cfg ds.qq inp
    let mreply := replyStream cfg tr
    let msubs := tr.filterMap (fun x => x.2.submit)
    let mexit := match tr.getLast? with
      | some (.quit, _) => "0"
      | _ => "1"
    let nontriv := tr.any (fun x => x.2.replies == [.rcptok] || x.2.replies == [.nogateway] || x.2.replies == [.bmf])
    let mut st := { st with cases := st.cases + 1, seen := st.seen.insert h,
                            nontrivial := st.nontrivial + (if fresh && nontriv then 1 else 0) }
    st := st.bump ("S_chunk" ++ chunk)
    st := st.bump ("S_submits" ++ (if envs.length ≥ 3 then "3+" else toString envs.length))
    st := { st with counters := st.counters }
    let agree := mreply == replies && mexit == exitS && nsubS.toNat? == some msubs.length &&
      msubs.map (fun s => (s.sender, encRcpts s.rcpts)) == envs
    if !agree then
      let ms := " ".intercalate (msubs.map (fun s => s!"{hex s.sender} {hex (encRcpts s.rcpts)}"))
      IO.println s!"DISAGREE mode=S cfg={cfgid} chunk={chunk} in={inh} impl={exitS} {replyh} {nsubS} {" ".intercalate rest} model={mexit} {hex mreply} {msubs.length} {ms}"
      st := { st with disagree := st.disagree + 1 }
    -- the session over substdio: same buffer size, same read sizes as the harness's timeoutread
    let rs : List Nat := match chunk.toNat? with
      | some 0 => []
      | some k => List.replicate (inp.length + 2) k
      | none => []
    let trIO := runIO cfg ds.qq (SmtpIO.istart ds.bufsize inp rs)
    if trIO != tr then
      IO.println s!"DISAGREE mode=S cfg={cfgid} chunk={chunk} in={inh} what=runIO_over_substdio_differs_from_the_C_session events={trIO.length} vs {tr.length}"
      st := { st with disagree := st.disagree + 1 }
    -- flush discipline: the model's reads / flush callbacks / handler returns, each read and flush with the bytes written so far
    let reachesBlast := tr.any (fun x => x.2.replies.contains .go)
    if reachesBlast then st := st.bump "S_flush_skipped_data_354"
    else
      let mevs := Nq.SmtpFlush.cmdsEv smtpTexts smtpFlag (smtpHandler cfg ds.qq) 512 ({} : Sess) (SmtpIO.istart ds.bufsize inp rs) (banner cfg).length
      st := st.bump "S_flush_compared"
      let nrd := (mevs.filter (· == .rd)).length
      st := st.bump ("S_flush_reads_" ++ (if nrd ≤ 1 then "1" else if nrd ≤ 4 then "2to4" else "5plus"))
      if deferred 0 mevs then st := st.bump "S_flush_reply_deferred_past_handler"
      if Nq.SmtpFlush.marks 0 mevs != Nq.SmtpFlush.marks 0 ievs then
        IO.println s!"DISAGREE mode=S cfg={cfgid} chunk={chunk} in={inh} what=flush_events impl={showMarks (Nq.SmtpFlush.marks 0 ievs)} model={showMarks (Nq.SmtpFlush.marks 0 mevs)}"
        st := { st with disagree := st.disagree + 1 }
    -- oracle: the sequencing and gating predicates on the implementation's own trace
    let gs := replyGroups (replyLines [] replies) []
    let (itr, left, scalls) := match gs with
      | _banner :: gs' => rebuild cfg inp gs' envs [] []
      | [] => ([], envs, [])
    let bad : Option String :=
      if readWithPending then some "a read of the connection was issued while reply bytes were still in the output buffer"
      else if !Nq.SmtpFlush.disciplinedB 0 ievs then
        some s!"reply bytes withheld: at a read of the connection or after a flush callback not everything generated so far had been written (events {showMarks (Nq.SmtpFlush.marks 0 ievs)})"
      else if !left.isEmpty then some s!"{left.length} envelope(s) handed to the queue without a DATA answered 354"
      else if icalls != scalls then
        some s!"commands() dispatched {showCalls icalls} but the lines of the input (message bodies skipped) split by the spec are {showCalls scalls}"
      else if let some i := traceBadDoc cfg [] itr 0 then
        some s!"command #{i} RCPT: the answer is not the one the documented badmailfrom/rcpthosts/RELAYCLIENT rules give"
      else match traceBadS cfg [] itr 0 with
        | some i =>
          match itr[i]? with
          | some (.rcpt arg, o) => some s!"command #{i} RCPT arg={hex arg} answered250={o.replies == [.rcptok]} but the gate predicate (parsed address = the path grammar's) says {gateOKBS cfg (itr.take i) arg}"
          | some (_, o) =>
            match o.submit with
            | some sub => some s!"command #{i} DATA submitted sender={hex sub.sender} rcpts={hex (encRcpts sub.rcpts)}, which is not the open transaction"
            | none => some s!"command #{i}"
          | none => some s!"command #{i}"
        | none => none
    if let some why := bad then
      IO.println s!"ORACLE mode=S cfg={cfgid} chunk={chunk} in={inh} replies={replyh} nsub={nsubS} env={",".intercalate rest} why={why.replace " " "_"}"
      st := { st with oracle := st.oracle + 1 }
    if fresh && st.samples < 4 && envs.length ≥ 1 && tr.length ≥ 5 && nontriv then
      IO.println s!"SAMPLE mode=S cfg={cfgid} chunk={chunk} in={inh} replies={replyh} envelopes={",".intercalate rest}"
      st := { st with samples := st.samples + 1 }
    return st
  | _, _, _, _, _ => IO.println s!"DISAGREE unparsable S line"; return { st with disagree := st.disagree + 1 }

/-- bytes the scripted descriptor hands over before its first failing read (`none`: no failing read is reached) -/
def deliveredBeforeError (total req : Nat) : List Nat → Nat → Option Nat
  | [], _ => none
  | 0 :: _, acc => some acc
  | k :: rs, acc => if acc ≥ total then none else deliveredBeforeError total req rs (acc + min (min k req) (total - acc))

def handleF (st : Stats) (tbl textsS bufS scriptS inh retS ncS : String) (rest : List String) : IO Stats := do
  let texts? : Option (List Bytes) := (textsS.splitOn ",").mapM unhex
  match texts?, bufS.toNat?, unhex scriptS, unhex inh, parseCalls rest with
  | some texts, some buf, some script, some inp, some calls =>
    let rs := script.map (·.toNat)
    let h := hashBytes (inp ++ [0] ++ script ++ [0] ++ (tbl ++ bufS).toUTF8.toList)
    let fresh := !st.seen.contains h
    let nontriv := calls.length ≥ 1
    let mut st := { st with cases := st.cases + 1, seen := st.seen.insert h,
                            nontrivial := st.nontrivial + (if fresh && nontriv then 1 else 0) }
    st := st.bump ("F_table" ++ tbl)
    st := st.bump ("F_buf" ++ (if buf ≤ 1 then "1" else if buf ≤ 16 then "2-16" else "big"))
    st := st.bump ("F_ret" ++ retS)
    if inp.length ≥ 1000 then st := st.bump "F_long"
    let m := commandsIO texts (SmtpIO.istart buf inp rs)
    let mret := match m.2 with | .eof => "0" | .err => "-1"
    let mut dis : Option String := none
    if tbl == "0" && texts != smtpTexts then dis := some "the texts of smtpcommands[] are not those of Gen.smtpCommands"
    else if m.1 != calls || mret != retS || ncS.toNat? != some calls.length then
      dis := some s!"model={mret} {showCalls m.1}"
    if let some why := dis then
      IO.println s!"DISAGREE mode=F table={tbl} buf={bufS} script={scriptS} in={inh} impl={retS} {showCalls calls} {why.replace " " "_"}"
      st := { st with disagree := st.disagree + 1 }
    -- oracle: the independent splitter on what the descriptor delivered
    let req := if buf ≤ 1 then 1 else buf
    let bad : Option String :=
      match deliveredBeforeError inp.length req rs 0 with
      | none =>
        if calls != specCalls texts inp then some s!"calls are not the LF-terminated lines split as the spec says: expected {showCalls (specCalls texts inp)}"
        else if retS != "0" then some "end of input must return 0"
        else none
      | some k =>
        if calls != specCalls texts (inp.take k) then
          some s!"calls are not the complete lines among the {k} bytes read before the failing read: expected {showCalls (specCalls texts (inp.take k))}"
        else if retS != "-1" then some "a failing read must return -1"
        else none
    if let some why := bad then
      IO.println s!"ORACLE mode=F table={tbl} buf={bufS} script={scriptS} in={inh} ret={retS} calls={showCalls calls} why={why.replace " " "_"}"
      st := { st with oracle := st.oracle + 1 }
    if fresh && st.samples < 6 && st.samples ≥ 4 && calls.length ≥ 3 && script.length ≥ 2 && inp.contains NUL then
      IO.println s!"SAMPLE mode=F table={tbl} buf={bufS} script={scriptS} in={inh} ret={retS} calls={showCalls calls}"
      st := { st with samples := st.samples + 1 }
    return st
  | _, _, _, _, _ => IO.println s!"DISAGREE unparsable F line"; return { st with disagree := st.disagree + 1 }

def handle (ref : IO.Ref DState) (st : Stats) (line : String) : IO Stats := do
  match fields line with
  | "C" :: rest =>
    match parseCfg rest with
    | some ds => ref.set { ds with bufsize := (← ref.get).bufsize }; return st.bump "configs"
    | none => IO.println s!"DISAGREE unparsable C line {line}"; return { st with disagree := st.disagree + 1 }
  | ["A", cfgid, argh, okS, addrh, bmfS, allowedS] =>
    let ds ← ref.get
    if ds.cfgid != cfgid then
      IO.println s!"DISAGREE case for configuration {cfgid} without its C line"; return { st with disagree := st.disagree + 1 }
    handleA ds st cfgid argh okS addrh bmfS allowedS
  | "S" :: cfgid :: chunk :: inh :: exitS :: replyh :: nsubS :: rest =>
    let ds ← ref.get
    if ds.cfgid != cfgid then
      IO.println s!"DISAGREE case for configuration {cfgid} without its C line"; return { st with disagree := st.disagree + 1 }
    handleS ds st cfgid chunk inh exitS replyh nsubS rest
  | ["B", n] =>
    match n.toNat? with
    | some k => ref.modify (fun ds => { ds with bufsize := k }); return st
    | none => IO.println s!"DISAGREE unparsable B line"; return { st with disagree := st.disagree + 1 }
  | "F" :: tbl :: texts :: buf :: script :: inh :: ret :: nc :: rest => handleF st tbl texts buf script inh ret nc rest
  | [] => return st
  | _ => IO.println s!"DISAGREE unparsable line {line.take 200}"; return { st with disagree := st.disagree + 1 }

def main : IO Unit := do
  let ref ← IO.mkRef ({} : DState)
  runDriver (handle ref)
