/- C20 driver, token822 part: the two passes of token822_parse (Nq.TokPass) and the two walks of
   token822_unparse / token822_unquote (Nq.TokFill) against what harness/c20_parse.c observed on the real code. -/
import Drv.Util
import Nq.TokPass
import Nq.TokFill
import Nq.Token822

open Nq Drv

namespace Drv.C20Tok

/-- (isDisagree, message) -/
abbrev Finding := Bool × String

def natOf (s : String) : Nat := s.toNat?.getD 0

/-- "p=1,2,3" → [1,2,3]; "p=-" → none -/
def numsAfter (pre s : String) : Option (List Nat) :=
  if s.startsWith pre then
    let r := (s.drop pre.length).toString
    if r == "-" then none else some ((r.splitOn ",").map natOf)
  else none

/-- token of C17's model (a second, independently tied transcription of the parser) → (type, bytes) -/
def tkOf : Nq.Token822.Tok → Nq.TokFill.Tk
  | .atom s => ⟨1, s⟩ | .quote s => ⟨2, s⟩ | .literal s => ⟨3, s⟩ | .comment s => ⟨4, s⟩
  | .left => ⟨5, []⟩ | .right => ⟨6, []⟩ | .at => ⟨7, []⟩ | .comma => ⟨8, []⟩
  | .semi => ⟨9, []⟩ | .colon => ⟨10, []⟩ | .dot => ⟨11, []⟩

/-- fields larger than this are compared on the tail-recursive functions only (`run1`, `cnt2`) -/
def bigLimit : Nat := 20000

open Nq.TokPass Nq.TokFill in
/-- one `T tok` line.  Returns the findings and the statistics keys to bump. -/
def checkTok (inp : Bytes) (rcS : String) (used : Nat) (pS uS qS : String) : List Finding × List String := Id.run do
  let mut fs : List Finding := []
  let mut ks : List String := []
  let p1 := pass1 inp
  let mrc := if p1.isSome then "1" else "0"
  if mrc != rcS then
    fs := fs ++ [(true, s!"pass1 impl-rc={rcS} model-rc={mrc}")]
  match p1, numsAfter "p=" pS with
  | some (nt, nc), some [ta, ba, nstored] =>
    ks := ks ++ ["T.tok.accepted"]
    if nt > 0 then ks := ks ++ ["T.tok.pass2-stores-compared"]
    let (t2, cb2, oob) := cnt2 .top 0 0 0 inp
    -- DISAGREE: the model's pass-1 counts against the sizes of the fresh blocks, the model's pass-2 cursors against
    -- the token records really written and the buffer bytes really used
    if nt != ta || nc != ba then
      fs := fs ++ [(true, s!"pass1-counts impl={ta},{ba} model={nt},{nc}")]
    if t2 != nstored || cb2 != used || oob then
      fs := fs ++ [(true, s!"pass2-stores impl={nstored},{used} model={t2},{cb2} oob={oob}")]
    -- ORACLE (C20_tok_parse_two_pass on the implementation's numbers): pass 2 stored exactly what pass 1 counted
    if !(nstored == ta && used == ba) then
      fs := fs ++ [(false, s!"pass2-stores({nstored},{used})≠pass1-counts({ta},{ba})")]
    if inp.length ≤ bigLimit then
      -- the event list itself: every index inside the counted sizes (executable form of the theorem)
      let r := pass2 inp
      if !(r.ev.all (fun e => decide (e.ok nt nc))) || bufStores r.ev != List.range nc then
        fs := fs ++ [(true, s!"model-internal: an index of pass2's trace is outside pass1's counts")]
      match Nq.Token822.parse inp with
      | none => fs := fs ++ [(true, "Nq.Token822.parse rejects what Nq.TokPass.pass1 accepts")]
      | some toks =>
        let ts := toks.map tkOf
        if ts.length != nt || (ts.map (·.s.length)).foldl (· + ·) 0 != nc then
          fs := fs ++ [(true, s!"Nq.Token822.parse gives {ts.length} tokens, Nq.TokPass.pass1 counts {nt}")]
        match numsAfter "u=" uS, numsAfter "q=" qS with
        | some [a0, l0, a72, l72, a1, l1, ar, lr], some [qa, ql, qar, qlr] =>
          ks := ks ++ ["T.tok.unparse-compared"]
          if ts.any (·.typ == 8) then ks := ks ++ ["T.tok.unparse-with-fold"]
          let rts := ts.reverse
          let m := [ulen1 ts, (unparseFill 0 ts).len, ulen1 ts, (unparseFill 72 ts).len, ulen1 ts, (unparseFill 1 ts).len,
                    ulen1 rts, (unparseFill 72 rts).len]
          if m != [a0, l0, a72, l72, a1, l1, ar, lr] then
            fs := fs ++ [(true, s!"unparse impl={uS} model={m}")]
          let mq := [qlen1 ts, (qFill ts 0).1, qlen1 rts, (qFill rts 0).1]
          if mq != [qa, ql, qar, qlr] then
            fs := fs ++ [(true, s!"unquote impl={qS} model={mq}")]
          -- ORACLE (C20_tok_unparse_within_count / C20_tok_unquote_exact on the implementation's numbers)
          if !(1 ≤ l0 && l0 < a0 && 1 ≤ l72 && l72 < a72 && 1 ≤ l1 && l1 < a1 && 1 ≤ lr && lr < ar) then
            fs := fs ++ [(false, s!"unparse: final len not inside the counted length {uS}")]
          if !(ql == qa && qlr == qar) then
            fs := fs ++ [(false, s!"unquote: second walk ≠ counted length {qS}")]
        | _, _ => fs := fs ++ [(true, s!"unparsable u=/q= fields {uS} {qS}")]
    else ks := ks ++ ["T.tok.big-counts-only"]
  | none, none => ks := ks ++ ["T.tok.refused"]
  | _, _ => fs := fs ++ [(true, s!"pass1 accept/refuse differs or p= unparsable: {pS}")]
  return (fs, ks)

/-- `spec` of a `T utok` line: (type byte, length byte, bytes)* ; a truncated last item is dropped, as in the harness -/
def decodeSpec : Nat → Bytes → List Nq.TokFill.Tk
  | 0, _ => []
  | fuel + 1, ty :: ln :: r =>
      if r.length < ln.toNat then [] else ⟨ty.toNat, r.take ln.toNat⟩ :: decodeSpec fuel (r.drop ln.toNat)
  | _, _ => []

open Nq.TokFill in
def checkUtok (spec : Bytes) (linelen ua ul qa ql : Nat) : List Finding × List String := Id.run do
  let ts := decodeSpec (spec.length + 1) spec
  let mut fs : List Finding := []
  let mut ks : List String := ["T.utok.tokens" ++ (if ts.length ≥ 4 then "4+" else toString ts.length)]
  if ts.any (fun t => t.typ == 0 || t.typ > 11) then ks := ks ++ ["T.utok.foreign-type"]
  let u := unparseFill linelen ts
  if u.ix.any (fun i => match i with | .rd _ => true | _ => false) then ks := ks ++ ["T.utok.fold-shifted-back"]
  if [ulen1 ts, u.len, qlen1 ts, (qFill ts 0).1] != [ua, ul, qa, ql] then
    fs := fs ++ [(true, s!"utok impl={ua},{ul},{qa},{ql} model={ulen1 ts},{u.len},{qlen1 ts},{(qFill ts 0).1}")]
  if !(u.ix.all (fun i => i.idx < ulen1 ts)) then
    fs := fs ++ [(true, "model-internal: an offset of the fill walk is outside the counted length")]
  -- ORACLE: the theorems' predicates on the implementation's numbers
  if !(1 ≤ ul && ul < ua && ql == qa) then
    fs := fs ++ [(false, s!"unparse/unquote second walk outside the counted length: {ua},{ul},{qa},{ql}")]
  return (fs, ks)

end Drv.C20Tok
