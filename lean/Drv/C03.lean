/- Driver for C03/C04 (and the daemon legs of C02/C14): abstracts the qsim traces of the real
   qmail-send + qmail-clean (harness/qsend.c) into `Nq.Daemon.Ev` events, replays them through the
   monitor `Daemon.accept2` (= `Daemon.accept` plus the list of completion marks that are due, which
   survives clean restarts), and evaluates the property oracles on the concrete observations. -/
import Drv.Util
import Nq.DaemonOwed

open Nq Nq.Daemon Drv

def kvOf (toks : List String) (k : String) : String :=
  match toks.find? (fun t => t.startsWith (k ++ "=")) with
  | some t => (t.drop (k.length + 1)).toString
  | none => ""

def kvAll (toks : List String) (k : String) : List String :=
  (toks.filter (fun t => t.startsWith (k ++ "="))).map (fun t => (t.drop (k.length + 1)).toString)

inductive FdKind
  | info (m : Nat) | chanNew (m : Nat) (c : Ch) | chanMark (m : Nat) (c : Ch) | bounce (m : Nat) | other
  deriving Repr

/-- "local/6/213" → (loc, 213) etc. -/
def pathMsg (p : String) : Option (String × Nat) :=
  match p.splitOn "/" with
  | [d, _, n] => n.toNat?.map (fun k => (d, k))
  | [d, n] => n.toNat?.map (fun k => (d, k))
  | _ => none

def fdKind (c : List (String × FdKind)) (fd : String) : Option FdKind := (c.find? (·.1 == fd)).map (·.2)

def chOf (d : String) : Option Ch := if d == "local" then some .loc else if d == "remote" then some .rem else none

abbrev Key := Nat × Nat × Nat × Nat     -- (message, channel 0|1, byte offset of the record in its channel file, generation of the message number)

structure Obs where   -- what the oracle needs, gathered independently of the monitor
  msgs : List (Nat × Bytes × List Bytes) := []          -- accepted messages (id, sender, rcpts), newest first
  cmds : List (Nat × Nat × Nat × Nat × Bytes × Nat) := []   -- attempt, chan, m, mpos, recip, generation
  kAttempts : List Nat := []                             -- attempts answered K by the spawner
  dAttempts : List Nat := []                             -- attempts answered D/B
  zAttempts : List Nat := []
  failAtt : List Nat := []                               -- attempts answered D, or Z while the message was past its queue lifetime (clock > birth + life at report time)
  pendPara : List Nat := []                              -- … whose bounce paragraph has not been seen yet, oldest first (volatile: emptied at every start)
  paraText : List (Key × Bytes) := []                    -- the paragraph (`<addr>:` LF report LF LF, as written by `addbounce`) last appended for a record
  inFile : List Key := []                                -- records whose paragraph was appended to the *current* bounce/<m>
  noted : List Key := []                                 -- records whose paragraph was appended, ever
  bounced : List Key := []                               -- records named in a bounce of their message that qmail-queue accepted with the right envelope
  dropped : List Key := []                               -- records whose paragraph was in bounce/<m> of a `#@[]` message when that file was unlinked
  lost : List Key := []                                  -- records whose paragraph was in bounce/<m> before a machine crash and is not in it afterwards
  marks : List Key := []                                 -- D bytes on disk (written, and not reverted by a machine crash; file not unlinked)
  active : List (Nat × Nat × Nat) := []                  -- (chan, delnum, attempt) in flight
  dl0 : Bytes × Nat := ([], 0)                           -- report line buffers of the observer (reversed, length)
  dl1 : Bytes × Nat := ([], 0)
  gen : List (Nat × Nat) := []                           -- message id → generation counter
  reported : List Key := []                              -- K/D report read by the daemon (or Z of an expired message whose paragraph was appended), completion mark not yet seen
                                                         -- (emptied by a crash; one entry is excused by a failing system call of ITS `markdone`)
  markQueue : List Key := []                             -- K/D reports of the current read whose `markdone` has not been seen, oldest first (volatile)
  todoThere : List Nat := []                             -- messages whose todo/<m> exists (linked by qmail-queue, not yet removed by qmail-clean)
  clock : Nat := 0                                       -- virtual clock as of the last select
  birth : List (Nat × Nat) := []                         -- message id → clock when info/<m> was last written

structure Case where
  hdr : String := ""
  cfg : Cfg := { conc := fun _ => 0, lifetime := 0, route := fun a => (.rem, a), doublebounceto := [] }
  st : Option St2 := some {}
  nev : Nat := 0
  fds0 : List (String × FdKind) := []
  bounceAcc : List (String × Bytes) := []       -- bytes written to a bounce fd, until close
  chanAcc : List (String × Bytes) := []         -- bytes of an incomplete record written to a new channel file (short write)
  reqAcc : Bytes := []
  lastBounceStat : Nat := 0
  firstRead : List String := []                 -- report fds whose concurrency byte was read
  obs : Obs := {}
  finalDump : List (String × Bytes) := []
  dumpTag : String := ""
  pendingCrashMode : Option Nat := none
  bad : Bool := false
  concLoc : Nat := 0
  concRem : Nat := 0
  lastIdleSelect : Nat := 0                    -- call number of the last `select(timeout=0) -> 0`
  spin : Nat := 0
  slow : Bool := false                         -- scenario with slow deliveries (`slow=`): STATS counters of the slow-delivery fault sweep

def routeSimple (a : Bytes) : Ch × Bytes :=
  -- harness configuration: me = locals = h.example, no virtualdomains, no percenthack
  let dom := "@h.example".toUTF8.toList
  if a.length ≥ dom.length ∧ (lower (a.drop (a.length - dom.length))) == dom then (.loc, a) else (.rem, a)

def genOf (o : Obs) (m : Nat) : Nat := ((o.gen.find? (fun g => g.1 == m)).map (·.2)).getD 0

def birthOf (o : Obs) (m : Nat) : Nat := ((o.birth.find? (fun g => g.1 == m)).map (·.2)).getD 0

def keyOfAtt (o : Obs) (att : Nat) : Option Key :=
  (o.cmds.find? (fun (a, _) => a == att)).map (fun (_, c3, m3, mpos3, _, g3) => (m3, c3, mpos3, g3))

def recipOfKey (o : Obs) (k : Key) : Bytes :=
  ((o.cmds.find? (fun (_, c3, m3, mpos3, _, g3) => (m3, c3, mpos3, g3) == k)).map (fun (_, _, _, _, r, _) => r)).getD []

/-- the whole paragraph last appended for record `k` (header line, report, empty line); a record counts as named in a text only
if this whole paragraph occurs in it — not if merely its header line occurs somewhere (inside another report, …).  After a
machine crash that left garbage in `bounce/<m>` a later paragraph follows the garbage directly, so "at a paragraph start" cannot
be required; the complete paragraph can. -/
def paraOf (o : Obs) (k : Key) : Option Bytes := (o.paraText.find? (fun x => x.1 == k)).map (·.2)
def namedIn (o : Obs) (k : Key) (text : Bytes) : Bool :=
  match paraOf o k with
  | some p => isInfix p text
  | none => false

/-- first line of the bounce paragraph of a recipient (`addbounce`) -/
def paraHdr (recip : Bytes) : Bytes := [60] ++ sanitizeLF recip ++ [62, 58, 10]

/-- the text before the first occurrence of `pat` (the whole text if there is none) -/
def cutAt (pat : Bytes) : Bytes → Bytes
  | [] => []
  | x :: xs => if pat.isPrefixOf (x :: xs) then [] else x :: cutAt pat xs

/-- the part of a bounce notice that holds the content of `bounce/<m>` (`injectbounce`: preamble, the file, then — after the
empty line that ends the last paragraph — the line `--- Below this line is a copy of the message.` / `… the original bounce.`
and the original message, in which anything may occur) -/
def noticeHead (body : Bytes) : Bytes :=
  let h := cutAt ([10, 10] ++ "--- Below this line is ".toUTF8.toList) body
  if h.length < body.length then h ++ [10, 10] else h     -- the empty line belongs to the last paragraph

/-- the observer's own reading of the report stream: which in-flight attempt got which letter
(line buffers kept reversed with their length) -/
def observeReports (life : Nat) (o : Obs) (cn : Nat) : Bytes → Obs
  | [] => o
  | b :: bs =>
    let (rev, len) := if cn == 0 then o.dl0 else o.dl1
    let full := len ≥ Gen.REPORTMAX
    let rev := if full then rev else b :: rev
    let len := if full then len else len + 1
    if b = 0 ∧ len > 1 then
      let line := rev.reverse
      let delnum := (line.headD 0).toNat
      let letter := line.getD 1 0
      let o := if cn == 0 then { o with dl0 := ([], 0) } else { o with dl1 := ([], 0) }
      match o.active.find? (fun (c2, dn2, _) => c2 == cn && dn2 == delnum) with
      | some (_, _, att) =>
        let o := { o with active := o.active.filter (fun (c2, dn2, _) => !(c2 == cn && dn2 == delnum)) }
        let key := keyOfAtt o att
        let expired := match key with
          | some k => decide (o.clock > birthOf o k.1 + life)
          | none => false
        let o := if letter = 75 ∨ letter = 68 then { o with reported := key.toList ++ o.reported, markQueue := o.markQueue ++ key.toList } else o
        -- a permanent failure: `D`, or `Z` for a message past its queue lifetime (the daemon may turn it into `D`)
        let o := if letter = 68 ∨ (letter = 90 ∧ expired = true) then { o with failAtt := att :: o.failAtt, pendPara := o.pendPara ++ [att] } else o
        let o := if letter = 75 then { o with kAttempts := att :: o.kAttempts }
                 else if letter = 68 then { o with dAttempts := att :: o.dAttempts }
                 else { o with zAttempts := att :: o.zAttempts }
        observeReports life o cn bs
      | none => observeReports life o cn bs
    else
      observeReports life (if cn == 0 then { o with dl0 := (rev, len) } else { o with dl1 := (rev, len) }) cn bs

structure D where
  st : Stats := {}
  c : Case := {}

def reject (d : D) (why : String) : IO D := do
  if d.c.bad then return d
  IO.println s!"DISAGREE {d.c.hdr} {why}"
  return { d with st := { d.st with disagree := d.st.disagree + 1 }, c := { d.c with st := none, bad := true } }

def feed2 (d : D) (ev : Ev2) (what : String) : IO D := do
  match d.c.st with
  | none => return d
  | some s =>
    match accept2 d.c.cfg s ev with
    | some s' => return { d with c := { d.c with st := some s', nev := d.c.nev + 1 }, st := d.st.bump ("ev_" ++ (what.takeWhile (· != ' ')).toString) }
    | none => reject d s!"event#{d.c.nev + 1} rejected: {what}"

def feed (d : D) (ev : Ev) (what : String) : IO D := feed2 d (.ev ev) what

def oracleFail (d : D) (prop why : String) : IO D := do
  IO.println s!"ORACLE prop={prop} {d.c.hdr} why={why.replace " " "_"}"
  return { d with st := { d.st with oracle := d.st.oracle + 1 } }

/-- recipient records `T addr NUL` / `D addr NUL` in a channel-file dump -/
def dumpRecs (b : Bytes) : List (Bool × Bytes) :=
  let rec go (cur : Bytes) : Bytes → List (Bool × Bytes)
    | [] => []
    | x :: rest => if x = 0 then
        (match cur.reverse with | m :: a => [(m == 68, a)] | [] => []) ++ go [] rest
      else go (x :: cur) rest
  go [] b

def envRcpts (b : Bytes) : List Bytes :=
  -- todo/<m>: u..\0 p..\0 F sender \0 (T rcpt \0)*
  let rec go (cur : Bytes) : Bytes → List Bytes
    | [] => []
    | x :: rest => if x = 0 then (match cur.reverse with | 84 :: a => [a] | _ => []) ++ go [] rest else go (x :: cur) rest
  go [] b

/-- records of a channel-file dump with their byte offsets: (offset, done, address) -/
def dumpRecsPos (b : Bytes) : List (Nat × Bool × Bytes) :=
  let rec go (start off : Nat) (cur : Bytes) : Bytes → List (Nat × Bool × Bytes)
    | [] => []
    | x :: rest => if x = 0 then
        (match cur.reverse with | m :: a => [(start, m == 68, a)] | [] => []) ++ go (off + 1) (off + 1) [] rest
      else go start (off + 1) (x :: cur) rest
  go 0 0 [] b

/-- end of a case: recipient accounting on the concrete run (C03).  Every accepted recipient is identified by its record
(message, channel, byte offset — the harness's recipients are routed as they are, in order) and must be: reported `K`; named
in a bounce of ITS message that qmail-queue accepted with the envelope `bounceEnvelope` of the accepted sender; still `T` at
its offset in a channel file that exists together with `info/<m>` and `mess/<m>`; still in `todo/<m>` (with `mess/<m>`); its whole
paragraph in `bounce/<m>`, which exists together with `info/<m>` and `mess/<m>`; or exempt — *its own* paragraph was
in the bounce file of a `#@[]` message when that was discarded, or in `bounce/<m>` before a machine crash and not after. -/
def finishCase (d0 : D) : IO D := do
  let mut d := d0
  let o := d.c.obs
  let dump := d.c.finalDump
  for (m, sender, rcpts) in o.msgs do
    -- only the newest generation of a reused number is still in the dump; older ones were removed after completion
    let g := genOf o m
    let mut posL := 0
    let mut posR := 0
    for r in rcpts do
      let addr := (routeSimple r).2
      let ch := if (routeSimple r).1 == .loc then 0 else 1
      let mpos := if ch == 0 then posL else posR
      if ch == 0 then posL := posL + addr.length + 2 else posR := posR + addr.length + 2
      let key : Key := (m, ch, mpos, g)
      let myCmds := o.cmds.filter (fun (_, c, mm, mp, _, gg) => (mm, c, mp, gg) == key)
      let delivered := myCmds.any (fun (a, _) => o.kAttempts.contains a)
      let bounced := o.bounced.contains key
      let fileOf (dir : String) : Option Bytes := (dump.find? (fun (p, _) => p == s!"{dir}/{m % Gen.auto_split}/{m}")).map (·.2)
      -- "still queued" / "bounce pending" need the files the theorem's disjuncts name (`Fate`: info.isSome ∧ mess; while
      -- todo/<m> exists: mess): a `T` record or a paragraph without info/<m> and mess/<m> is not a queued recipient
      let infoThere := (fileOf "info").isSome
      let messThere := (fileOf "mess").isSome
      let stillT := ((fileOf (if ch == 0 then "local" else "remote")).map
                      (fun b => (dumpRecsPos b).any (fun (off, dn, a) => off == mpos && !dn && a == addr))).getD false
                    && infoThere && messThere
      let inTodo := ((dump.find? (fun (p, _) => p == s!"todo/{m}")).map (fun (_, b) => (envRcpts b).contains r)).getD false && messThere
      let inBounceFile := o.inFile.contains key &&
        ((dump.find? (fun (p, _) => p == s!"bounce/{m}")).map (fun (_, b) => namedIn o key b)).getD false
      let exemptDouble := sender == "#@[]".toUTF8.toList && o.dropped.contains key
      let exemptCrash := o.lost.contains key
      let ok := delivered || bounced || stillT || inTodo || (inBounceFile && infoThere && messThere) || exemptDouble || exemptCrash
      if !ok then
        d ← oracleFail d "C03" s!"recipient {hex r} (record at offset {mpos} of chan {ch}) of message {m} is neither delivered, bounced nor still queued"
  return d

/-- the observer's reading of one line of the queue dump taken after a crash (independent of the monitor):
the `D` bytes that are on disk now (C04 oracle), and the bounce paragraphs that were in `bounce/<m>` before a MACHINE crash and
are not — whole — in it afterwards (C03 exemption, per record) -/
def observeCrashDump (o : Obs) (mode : Nat) (path : String) (cur : Bytes) : Obs :=
  match pathMsg path with
  | some (dir, m) =>
    let g := genOf o m
    match chOf dir with
    | some ch =>
      let cn := if ch == .loc then 0 else 1
      let onDisk : List Key := (dumpRecsPos cur).filterMap (fun (off, dn, _) => if dn then some (m, cn, off, g) else none)
      { o with marks := onDisk ++ o.marks.filter (fun k => !(k.1 == m && k.2.1 == cn && k.2.2.2 == g)) }
    | none =>
      if dir == "bounce" && mode != 0 then
        let gone := o.inFile.filter (fun k => k.1 == m && k.2.2.2 == g && !namedIn o k cur)
        { o with lost := gone ++ o.lost, inFile := o.inFile.filter (fun k => !gone.contains k) }
      else o
  | none => o

/-- after a crash every file the monitor has must still exist (qsim keeps directory entries across crashes) -/
def missingAfterCrash (s : St) (dump : List (String × Bytes)) : List String :=
  let has (p : String) : Bool := dump.any (fun (q, _) => q == p)
  s.tab.foldl (fun acc (k, ms) =>
    acc ++ (if ms.bounce.isSome && !has s!"bounce/{k}" then [s!"bounce/{k}"] else [])
        ++ (if ms.info.isSome && !has s!"info/{k % Gen.auto_split}/{k}" then [s!"info/{k % Gen.auto_split}/{k}"] else [])
        ++ (if ms.loc.isSome && !has s!"local/{k % Gen.auto_split}/{k}" then [s!"local/{k % Gen.auto_split}/{k}"] else [])
        ++ (if ms.rem.isSome && !has s!"remote/{k % Gen.auto_split}/{k}" then [s!"remote/{k % Gen.auto_split}/{k}"] else [])) []

/-- the crash dump is complete: check it for files the monitor has and the dump lacks -/
def endCrashDump (d : D) : IO D := do
  match d.c.pendingCrashMode, d.c.st with
  | some _, some s2 =>
    let d := { d with c := { d.c with pendingCrashMode := none } }
    match missingAfterCrash s2.base d.c.finalDump with
    | [] => return d
    | p :: _ => reject d s!"after the crash {p} is gone but the monitor has it"
  | _, _ => return { d with c := { d.c with pendingCrashMode := none } }

def handle (d : D) (line : String) : IO D := do
  let toks := fields line
  match toks with
  | "CASE" :: rest =>
    let num := fun (k : String) (dflt : Nat) => ((kvOf rest k).toNat?).getD dflt
    let cl := num "cl" 2; let cr := num "cr" 2; let sl := num "sl" 5; let sr := num "sr" 5
    let life := num "life" 604800
    let concL := min cl sl; let concR := min cr sr
    let cfg : Cfg := { conc := fun c => match c with | .loc => concL | .rem => concR, lifetime := life, route := routeSimple,
                       doublebounceto := "postmaster@h.example".toUTF8.toList }
    let hl := " ".intercalate rest
    let h := hashBytes hl.toUTF8.toList
    let fresh := !d.st.seen.contains h
    let mut st : Stats := { d.st with cases := d.st.cases + 1, seen := d.st.seen.insert h, nontrivial := d.st.nontrivial + (if fresh then 1 else 0) }
    if st.samples < 3 then
      IO.println s!"SAMPLE {hl}"
      st := { st with samples := st.samples + 1 }
    -- the slow-delivery fault sweep (scenarios with `slow=`): how many histories, how many of them with a failing call
    let slow := kvOf rest "slow" != "" && kvOf rest "slow" != "0"
    if slow then
      st := st.bump "fam_slow"
      if (kvOf rest "fault").startsWith "0:" then st := st.bump "fam_slow_fault"
    return { st := st, c := { hdr := hl, cfg := cfg, concLoc := concL, concRem := concR, slow := slow } }
  | "X" :: "newmsg" :: rest =>
    let m := (kvOf rest "id").toNat!
    let sender := (unhex (kvOf rest "sender")).getD []
    let rcpts := (kvAll rest "rcpt").map (fun h => (unhex h).getD [])
    let o := d.c.obs
    let g := genOf o m + 1
    let o := { o with msgs := (m, sender, rcpts) :: o.msgs.filter (fun x => x.1 != m), gen := (m, g) :: o.gen.filter (fun x => x.1 != m),
                      todoThere := m :: o.todoThere.filter (· != m) }
    feed { d with c := { d.c with obs := o } } (.newmsg m sender rcpts) s!"newmsg {m}"
  | "X" :: "cmd" :: rest =>
    let c := if kvOf rest "chan" == "0" then Ch.loc else Ch.rem
    let cn := (kvOf rest "chan").toNat!
    let delnum := (kvOf rest "delnum").toNat!
    let att := (kvOf rest "attempt").toNat!
    let mpos := (kvOf rest "mpos").toNat!
    let m := (((kvOf rest "messid").splitOn "/").getLast?.getD "0").toNat!
    let recip := (unhex (kvOf rest "recip")).getD []
    let o := d.c.obs
    let g := genOf o m
    let mut dd := d
    -- C04 oracle: never start a record whose D byte is on disk (`marks` is re-read from the dump after every crash, so a mark
    -- reverted by a machine crash does not count and one written after the crash does); bounded concurrency
    if o.marks.contains (m, cn, mpos, g) then
      dd ← oracleFail dd "C04" s!"delivery started for message {m} chan {cn} mpos {mpos} after its completion mark was written"
    else if o.reported.contains (m, cn, mpos, g) then
      -- reported K or D in this run or before a clean stop; no crash and no failing call of its markdone since the report was read
      dd ← oracleFail dd "C04" s!"delivery started for message {m} chan {cn} mpos {mpos} (recipient {hex recip}) although it was already reported K/D (no crash, no failing call of its markdone in between; its completion mark was never written)"
    -- a delivery starts only for a completely preprocessed message: while todo/<m> exists the message will be preprocessed
    -- (again) and the marks in local|remote/<m> wiped
    if o.todoThere.contains m then
      dd ← oracleFail dd "C04" s!"delivery started for message {m} chan {cn} mpos {mpos} while todo/{m} still exists"
    -- at most one attempt per recipient in flight
    if o.active.any (fun (_, _, a2) => keyOfAtt o a2 == some (m, cn, mpos, g)) then
      dd ← oracleFail dd "C04" s!"second delivery started for message {m} chan {cn} mpos {mpos} while an attempt for the same recipient is in flight"
    if o.active.any (fun (c2, dn2, _) => c2 == cn && dn2 == delnum) then
      dd ← oracleFail dd "C04" s!"delivery slot {delnum} of chan {cn} reused while in flight"
    let lim := if cn == 0 then d.c.concLoc else d.c.concRem
    if (o.active.filter (fun (c2, _, _) => c2 == cn)).length ≥ lim then
      dd ← oracleFail dd "C04" s!"more than {lim} deliveries in flight on chan {cn}"
    let o := { o with cmds := (att, cn, m, mpos, recip, g) :: o.cmds, active := (cn, delnum, att) :: o.active }
    -- the command was written to the spawner's descriptor: a system call between two selects (C16 spin oracle)
    feed { dd with c := { dd.c with obs := o, lastIdleSelect := 0, spin := 0 } } (.cmd c delnum m mpos recip) s!"cmd chan={cn} delnum={delnum} m={m} mpos={mpos}"
  | "X" :: "bounce" :: rest =>
    let ok := kvOf rest "result" == "ok"
    let env := (unhex (kvOf rest "env")).getD []
    let body := (unhex (kvOf rest "body")).getD []
    let o := d.c.obs
    let m := d.c.lastBounceStat
    let g := genOf o m
    let mut dd := d
    if ok then
      -- C03 oracle: a bounce goes to the envelope sender the message was accepted with (never for `#@[]`), and counts only
      -- for the records of THIS message whose paragraph is in its text
      match o.msgs.find? (fun x => x.1 == m) with
      | some (_, sender, _) =>
        if sender == "#@[]".toUTF8.toList || env != bounceEnvelope d.c.cfg sender then
          dd ← oracleFail dd "C03" s!"bounce of message {m} (sender {hex sender}) was queued with envelope {hex env}"
        else
          -- named = its whole paragraph, as appended, is in the part of the notice that holds the bounce file (not: its header
          -- line occurs anywhere, e.g. inside a report text or inside the copy of the original message)
          let named := o.inFile.filter (fun k => k.1 == m && k.2.2.2 == g && namedIn o k (noticeHead body))
          dd := { dd with c := { dd.c with obs := { o with bounced := named ++ o.bounced } } }
      | none => dd ← oracleFail dd "C03" s!"bounce queued for message {m}, which was never accepted"
    feed dd (.bounceInject m ok env body) s!"bounceInject m={m} ok={ok}"
  | "X" :: "start" :: rest =>
    let inc := (kvOf rest "incarnation").toNat!
    let c := { d.c with fds0 := [], bounceAcc := [], chanAcc := [], reqAcc := [], firstRead := [] }
    let c := { c with obs := { c.obs with active := [], dl0 := ([], 0), dl1 := ([], 0), pendPara := [], markQueue := [] } }
    endCrashDump { d with c := c }
  | "X" :: "crash-applied" :: rest =>
    -- a CRASH: `.restart` opens the monitor's crash window (`St.crashed`); the crash-damage events the `D` lines of the dump
    -- below give rise to are accepted only in it, and the first event of the restarted daemon closes it (`X newmsg` lines that
    -- announce messages qmail-queue had linked before the crash may come in between: arrivals keep the window open)
    let mode := (kvOf rest "mode").toNat!
    let o := d.c.obs
    feed { d with c := { d.c with pendingCrashMode := some mode, obs := { o with reported := [], pendPara := [], markQueue := [] } } } .restart "restart"
  | "X" :: "dump" :: tag :: _ =>
    -- a new queue dump begins (it may be empty: then no `D` line follows and the oracle must not judge an older dump)
    return { d with c := { d.c with dumpTag := tag, finalDump := [] } }
  | "X" :: "clean-restart" :: _ =>
    -- the daemon exited 0 after TERM and is started again on the same queue: volatile state is gone, every file stays;
    -- no crash: `cleanRestart` opens no crash window (a crash-damage event after it would be refused)
    feed2 d .cleanRestart "cleanRestart"
  | "X" :: "end" :: rest =>
    -- C04 oracle: after TERM qmail-send waits for every outstanding report before it exits 0; a delivery in flight at a clean
    -- exit is a lost report: no mark is written and the recipient is attempted again by the next qmail-send
    if kvOf rest "exit" == "0" && kvOf rest "crashed" == "0" && !d.c.obs.active.isEmpty then
      oracleFail d "C04" s!"qmail-send exited 0 while {d.c.obs.active.length} deliveries were in flight (attempts {d.c.obs.active.map (·.2.2)}): their reports are lost, the recipients will be attempted again"
    else return d
  | "X" :: "signal" :: sg :: _ =>
    if d.c.slow && sg != "T" && !d.c.obs.active.isEmpty then return { d with st := d.st.bump "slow_signal_in_flight" } else return d
  | "X" :: _ => return d
  | "D" :: tag :: path :: rest =>
    -- queue dump lines; the last dump of the case is what the oracle judges; after a crash they resync the monitor
    let cur := (unhex (kvOf rest "cur")).getD []
    let c := if tag != d.c.dumpTag then { d.c with dumpTag := tag, finalDump := [] } else d.c
    let c := { c with finalDump := (path, cur) :: c.finalDump }
    let c := match c.pendingCrashMode with
      | some mode => { c with obs := observeCrashDump c.obs mode path cur }
      | none => c
    let mut dd := { d with c := c }
    match c.pendingCrashMode, c.st with
    | some mode, some s2 =>
      let s := s2.base
      match pathMsg path with
      | some (dir, m) =>
        let ms := s.msg m
        match chOf dir with
        | some ch =>
          let marks := (dumpRecs cur).map (·.1)
          match ms.chan ch with
          | some rs =>
            if ms.todo.isSome then
              if (dumpRecs cur) != rs.map (fun r => (r.done, r.addr)) then dd ← feed dd (.crashTodoFiles m) s!"crashTodoFiles {m}"
            else if marks != rs.map (·.done) || (dumpRecs cur).map (·.2) != rs.map (·.addr) then
              if mode == 0 then dd ← reject dd s!"after a process crash {path} differs from the model"
              else dd ← feed dd (.crashMarks m ch marks) s!"crashMarks {m}"
          | none => dd ← reject dd s!"after the crash {path} exists but not in the model"
        | none =>
          if dir == "bounce" then
            if ms.bounce != some cur then
              -- a process crash loses nothing: the file may only have grown, by an `addbounce` that was cut short
              if mode == 0 && !((ms.bounce.getD []).isPrefixOf cur && s.cut.contains m) then
                dd ← reject dd s!"after a process crash {path} differs from the model (no interrupted addbounce explains it)"
              else dd ← feed dd (.crashBounce m cur) s!"crashBounce {m}"
          else if dir == "info" then
            if ms.todo.isSome && ms.info != some cur then dd ← feed dd (.crashTodoFiles m) s!"crashTodoFiles {m}"
      | none => pure ()
    | _, _ => pure ()
    return dd
  | "T" :: "P0" :: rest =>
    let d ← endCrashDump d
    -- STATS of the slow-delivery fault sweep: the failing call fired; it was the open/fstat/read of a pass opening (open_read of
    -- local|remote/<m>, then getinfo: open_read, fstat, read of info/<m>); it fired while deliveries were in flight
    let d := if d.c.slow && rest.getLast? == some "FAULT" then
        let st := d.st.bump "slow_fault_fired"
        let st := if !d.c.obs.active.isEmpty then st.bump "slow_fault_fired_in_flight" else st
        let st := match rest with
          | _ :: "open_read" :: path :: _ =>
            (match pathMsg path with
             | some (dir, _) => if dir == "info" || dir == "local" || dir == "remote" then st.bump "slow_fault_open_read_info_or_chan" else st
             | none => st)
          | _ :: "stat" :: path :: _ =>
            (match pathMsg path with
             | some (dir, _) => if dir == "info" || dir == "todo" || dir == "local" || dir == "remote" then st.bump "slow_fault_stat" else st
             | none => st)
          | _ => st
        { d with st := st }
      else d
    -- … and how many passes were opened (open_read of local|remote/<m>, failing or not) while deliveries were in flight
    let d := if d.c.slow && !d.c.obs.active.isEmpty then
        match rest with
        | _ :: "open_read" :: path :: _ =>
          (match pathMsg path with
           | some (dir, _) => if dir == "local" || dir == "remote" then { d with st := d.st.bump "slow_pass_open_in_flight" } else d
           | none => d)
        | _ => d
      else d
    -- a failing system call of `markdone` (open_write / fstat / write on local|remote/<m>) excuses the mark of the record it was
    -- called for — the oldest report of the current read whose mark is still outstanding ("trouble marking …; message will be
    -- delivered twice") — and nothing else
    let failedMark : Option (Nat × Ch) :=
      if rest.getLast? != some "FAULT" then none else
      match rest with
      | _ :: "open_write" :: path :: _ => (pathMsg path).bind (fun (dir, m) => (chOf dir).map (fun ch => (m, ch)))
      | _ :: op :: fd :: _ =>
        if op == "fstat" || op == "write" then
          (match fdKind d.c.fds0 fd with
           | some (FdKind.chanMark m ch) => some (m, ch)
           | _ => none)
        else none
      | _ => none
    let d ← (match failedMark with
      | some (m, ch) =>
        let o := d.c.obs
        let cn := if ch == .loc then 0 else 1
        let g := genOf o m
        (match o.markQueue.find? (fun k => k.1 == m && k.2.1 == cn && k.2.2.2 == g) with
         | some key =>
           let o := { o with markQueue := o.markQueue.erase key, reported := o.reported.filter (· != key) }
           feed2 { d with c := { d.c with obs := o } } (.markFail m ch key.2.2.1) s!"markFail {m} chan={cn} off={key.2.2.1}"
         | none => pure d)
      | none => pure d)
    match rest with
    | _ :: "open_excl" :: path :: "->" :: r :: _ =>
      if r == "-1" then return d else
      match pathMsg path with
      | some ("info", m) =>
        let o := d.c.obs
        let o := { o with birth := (m, o.clock) :: o.birth.filter (·.1 != m) }
        feed { d with c := { d.c with obs := o, fds0 := (r, .info m) :: d.c.fds0.filter (·.1 != r) } } (.creatInfo m) s!"creatInfo {m}"
      | some (dir, m) => match chOf dir with
        | some ch => feed { d with c := { d.c with fds0 := (r, .chanNew m ch) :: d.c.fds0.filter (·.1 != r) } } (.creatChan m ch) s!"creatChan {m} {dir}"
        | none => return d
      | none => return d
    | _ :: "open_write" :: path :: "->" :: r :: _ =>
      if r == "-1" then return d else
      match pathMsg path with
      | some (dir, m) => match chOf dir with
        | some ch => return { d with c := { d.c with fds0 := (r, .chanMark m ch) :: d.c.fds0.filter (·.1 != r) } }
        | none => return { d with c := { d.c with fds0 := d.c.fds0.filter (·.1 != r) } }
      | none => return { d with c := { d.c with fds0 := d.c.fds0.filter (·.1 != r) } }
    | _ :: "open_append" :: path :: "->" :: r :: _ =>
      if r == "-1" then return d else
      match pathMsg path with
      | some ("bounce", m) => return { d with c := { d.c with fds0 := (r, .bounce m) :: d.c.fds0.filter (·.1 != r), bounceAcc := (r, []) :: d.c.bounceAcc.filter (·.1 != r) } }
      | _ => return d
    | _ :: "open_read" :: _ :: "->" :: r :: _ => return { d with c := { d.c with fds0 := d.c.fds0.filter (·.1 != r) } }
    | _ :: "write" :: fd :: more =>
      if more.contains "-1" then return d else
      let data := (unhex (kvOf more "data")).getD []
      let off := (kvOf more "off").toNat!
      match fdKind d.c.fds0 fd with
      | some (FdKind.info m) =>
        let o := d.c.obs
        let o := { o with birth := (m, o.clock) :: o.birth.filter (·.1 != m) }
        feed { d with c := { d.c with obs := o } } (.writeInfo m data) s!"writeInfo {m}"
      | some (FdKind.chanNew m ch) =>
        -- a short write may end inside a record; allwrite() continues with the rest
        let acc := (((d.c.chanAcc.find? (·.1 == fd)).map (·.2)).getD []) ++ data
        if acc.getLast? == some 0 then
          feed { d with c := { d.c with chanAcc := d.c.chanAcc.filter (·.1 != fd) } } (.writeChan m ch acc) s!"writeChan {m}"
        else return { d with c := { d.c with chanAcc := (fd, acc) :: d.c.chanAcc.filter (·.1 != fd) } }
      | some (FdKind.chanMark m ch) =>
        if data == [68] then
          let cn := if ch == .loc then 0 else 1
          let o := d.c.obs
          let key : Key := (m, cn, off, genOf o m)
          let mut d := d
          -- C03 oracle: a completion mark is written only for a recipient that was reported delivered or whose bounce
          -- paragraph has been appended — never after a temporary failure, and never before the paragraph
          let hadK := o.cmds.any (fun (a, c3, m3, mp3, _, g3) => (m3, c3, mp3, g3) == key && o.kAttempts.contains a)
          if !hadK && !o.noted.contains key then
            d ← oracleFail d "C03" s!"completion mark written for message {m} chan {cn} mpos {off} although that recipient was neither reported delivered nor has a bounce paragraph"
          let o2 := { o with marks := key :: o.marks, reported := o.reported.filter (fun k => k != key), markQueue := o.markQueue.filter (fun k => k != key) }
          d := { d with c := { d.c with obs := o2 } }
          feed d (.markD m ch off) s!"markD {m} chan={cn} off={off}"
        else reject d s!"unexpected write to a channel file of {m}: {line.trimAscii.toString.take 100}"
      | some (FdKind.bounce _) =>
        return { d with c := { d.c with bounceAcc := d.c.bounceAcc.map (fun (f, b) => if f == fd then (f, b ++ data) else (f, b)) } }
      | _ => return d
    | "close" :: fd :: _ =>
      match fdKind d.c.fds0 fd with
      | some (FdKind.bounce m) =>
        let bs := ((d.c.bounceAcc.find? (·.1 == fd)).map (·.2)).getD []
        let d := { d with c := { d.c with fds0 := d.c.fds0.filter (·.1 != fd), bounceAcc := d.c.bounceAcc.filter (·.1 != fd) } }
        if bs.isEmpty then return d else
        -- observer: whose paragraph is this?  the oldest permanent-failure report of message m still waiting for one
        let o := d.c.obs
        let g := genOf o m
        let cand := o.pendPara.find? (fun a => match o.cmds.find? (fun (a2, _) => a2 == a) with
          | some (_, _, m3, _, recip, g3) => m3 == m && g3 == g && (paraHdr recip).isPrefixOf bs
          | none => false)
        let mut d := d
        match cand.bind (fun a => (keyOfAtt o a).map (fun k => (a, k))) with
        | some (a, key) =>
          let rep2 := if o.reported.contains key then o.reported else key :: o.reported
          let mq2 := if o.markQueue.contains key then o.markQueue else key :: o.markQueue
          let o2 := { o with pendPara := o.pendPara.erase a, inFile := key :: o.inFile, noted := key :: o.noted, reported := rep2, markQueue := mq2,
                             paraText := (key, bs) :: o.paraText }
          d := { d with c := { d.c with obs := o2 } }
        | none =>
          -- C03 oracle: a temporary failure (or no report at all) never produces a bounce paragraph
          d ← oracleFail d "C03" s!"bounce paragraph {hex (bs.takeWhile (· != 10))} appended to bounce/{m} without a D report (or a Z past the queue lifetime) for that recipient"
        feed d (.appendBounce m bs) s!"appendBounce {m}"
      | _ => return { d with c := { d.c with fds0 := d.c.fds0.filter (·.1 != fd) } }
    | _ :: "fsync" :: fd :: more =>
      if more.contains "-1" then return d else
      match fdKind d.c.fds0 fd with
      | some (FdKind.info m) => feed d (.fsyncInfo m) s!"fsyncInfo {m}"
      | some (FdKind.chanNew m ch) => feed d (.fsyncChan m ch) s!"fsyncChan {m}"
      | _ => return d
    | _ :: "unlink" :: path :: "->" :: r :: _ =>
      if r != "0" then return d else
      match pathMsg path with
      | some ("info", m) => feed d (.unlinkInfo m) s!"unlinkInfo {m}"
      | some ("bounce", m) =>
        -- observer: the paragraphs of a `#@[]` message are discarded with the file (documented); of any other message they
        -- must have been queued before (`bounced`), otherwise the final accounting flags them
        let o := d.c.obs
        let g := genOf o m
        let mine := o.inFile.filter (fun k => k.1 == m && k.2.2.2 == g)
        let isDouble := ((o.msgs.find? (fun x => x.1 == m)).map (fun x => x.2.1 == "#@[]".toUTF8.toList)).getD false
        let o := { o with inFile := o.inFile.filter (fun k => !(k.1 == m && k.2.2.2 == g)), dropped := if isDouble then mine ++ o.dropped else o.dropped }
        feed { d with c := { d.c with obs := o } } (.unlinkBounce m) s!"unlinkBounce {m}"
      | some (dir, m) => match chOf dir with
        | some ch =>
          -- the file is gone: its marks and due marks are history
          let o := d.c.obs
          let cn := if ch == .loc then 0 else 1
          let g := genOf o m
          let gonek := fun (k : Key) => k.1 == m && k.2.1 == cn && k.2.2.2 == g
          let o := { o with marks := o.marks.filter (fun k => !gonek k), reported := o.reported.filter (fun k => !gonek k),
                            markQueue := o.markQueue.filter (fun k => !gonek k) }
          feed { d with c := { d.c with obs := o } } (.unlinkChan m ch) s!"unlinkChan {m} {dir}"
        | none => reject d s!"qmail-send unlinked {path}"
      | none => reject d s!"qmail-send unlinked {path}"
    | _ :: "stat" :: path :: _ =>
      match pathMsg path with
      | some ("bounce", m) => return { d with c := { d.c with lastBounceStat := m } }
      | _ => return d
    | _ :: "utimes" :: path :: t :: "->" :: r :: _ =>
      if r != "0" then return d else
      match pathMsg path with
      | some (dir, m) => match chOf dir with
        | some ch => feed d (.utimes m ch t.toNat!) s!"utimes {m}"
        | none => return d
      | none => return d
    | _ :: "write_pipe" :: "5" :: more =>
      if more.contains "-1" then return d else
      let data := (unhex (kvOf more "data")).getD []
      let acc := d.c.reqAcc ++ data
      if acc.getLast? == some 0 then feed { d with c := { d.c with reqAcc := [] } } (.cleanReq acc) s!"cleanReq {String.fromUTF8! (ByteArray.mk acc.dropLast.toArray)}"
      else return { d with c := { d.c with reqAcc := acc } }
    | _ :: "read" :: "6" :: "->" :: r :: more =>
      -- a failed or empty read is `cleandied()`: the request is abandoned
      if r == "-1" || r == "0" then
        (match d.c.st with
         | some s => if s.base.clean.isSome then feed d (.cleanResp 0) "cleanResp(lost)" else return d
         | none => return d)
      else
      let data := (unhex (kvOf more "data")).getD []
      feed d (.cleanResp (data.headD 0)) "cleanResp"
    | _ :: "read" :: fd :: "->" :: r :: more =>
      if fd != "2" && fd != "4" then return d else
      if r == "-1" || r == "0" then return d else
      if !d.c.firstRead.contains fd then return { d with c := { d.c with firstRead := fd :: d.c.firstRead } } else
      let data := (unhex (kvOf more "data")).getD []
      let cn := if fd == "2" then 0 else 1
      -- a new read: the marks of the previous read's reports have all been attempted
      let d := { d with c := { d.c with obs := observeReports d.c.cfg.lifetime { d.c.obs with markQueue := [] } cn data } }
      feed d (.rbytes (if fd == "2" then .loc else .rem) data) s!"rbytes fd={fd}"
    | callno :: "select" :: more =>
      -- C16 (no busy loop): two selects with timeout 0 that found nothing ready, with no system call in between
      let k := ((callno.drop 1).toString.toNat?).getD 0
      let idle := kvOf more "timeout" == "0" && more.contains "0" && (more.getD 2 "") == "0"
      let spinning := idle && d.c.lastIdleSelect != 0 && k == d.c.lastIdleSelect + 1
      let mut d := { d with c := { d.c with lastIdleSelect := if idle then k else 0, spin := if spinning then d.c.spin + 1 else 0 } }
      -- a pass steps over one finished (`D`) record of its (already buffered) channel file per iteration: with n marks in one
      -- file up to n zero-timeout selects in a row are progress; the threshold is the original 3 unless a file has more marks
      if spinning && d.c.spin ≥ 3 then
       let marksOf := fun (x : Nat × Nat × Nat × Nat) => (d.c.obs.marks.filter (fun y => y.1 == x.1 && y.2.1 == x.2.1 && y.2.2.2 == x.2.2.2)).length
       let maxDone := d.c.obs.marks.foldl (fun acc x => max acc (marksOf x)) 0
       if d.c.spin == max 3 maxDone then
        d ← oracleFail d "C16" s!"busy loop: select(timeout=0) returned 0 {d.c.spin + 1} times in a row with no other system call (call #{k})"
      if d.c.slow && !d.c.obs.active.isEmpty then
        match (kvOf more "clock").toNat? with
        | some t => if t > d.c.obs.clock then d := { d with st := d.st.bump "slow_clock_advanced_in_flight" }
        | none => pure ()
      match (kvOf more "clock").toNat? with
      | some t => feed { d with c := { d.c with obs := { d.c.obs with clock := max d.c.obs.clock t } } } (.tick t) "tick"
      | none => return d
    | _ => return d
  | "T" :: "P1" :: rest =>
    match rest with
    | _ :: "unlink" :: path :: "->" :: r :: more =>
      if path.startsWith "pid/" then return d else
      let attempted := r == "0" || more.contains "e2"
      if !attempted then return d else
      match pathMsg path with
      | some ("intd", m) => feed d (.cUnlinkIntd m) s!"cUnlinkIntd {m}"
      | some ("todo", m) =>
        if r == "0" then feed { d with c := { d.c with obs := { d.c.obs with todoThere := d.c.obs.todoThere.filter (· != m) } } } (.cUnlinkTodo m) s!"cUnlinkTodo {m}"
        else return d
      | some ("mess", m) => if r == "0" then feed d (.cUnlinkMess m) s!"cUnlinkMess {m}" else return d
      | _ => reject d s!"qmail-clean unlinked {path}"
    | _ => return d
  | "END" :: _ => do
    let d ← endCrashDump d
    finishCase d
  | _ => return d

partial def loop2 (h : IO.FS.Stream) (d : D) : IO D := do
  let line ← h.getLine
  if line.isEmpty then return d
  let d' ← handle d line
  loop2 h d'

def main : IO Unit := do
  let stdin ← IO.getStdin
  let d ← loop2 stdin {}
  IO.println s!"STATS {d.st.json}"
