/- Driver for C12: replays the system-call traces of the real qmail-local (maildir parent + child,
   mbox deliveries alone and concurrent, recorded under qsim) through the acceptors of
   `Nq.LocalDeliver`, compares gfrom()/myctime() with their models, and evaluates the property oracle
   on the concrete crash states / final mbox files the harness reports. -/
import Drv.Util
import Nq.LocalDeliver
import Nq.MaildirSys

open Nq Nq.LocalDeliver Drv

def kvOf (toks : List String) (k : String) : String :=
  match toks.find? (fun t => t.startsWith (k ++ "=")) with
  | some t => (t.drop (k.length + 1)).toString
  | none => ""

def hash16 (b : Bytes) : String :=
  let h := hashBytes b
  String.ofList ((List.range 16).map (fun i => hexDigit ((h >>> (60 - 4 * i.toUInt64)) &&& 15).toUInt8))

def bytesOf (s : String) : Bytes := s.toUTF8.toList

def isPre (a b : Bytes) : Bool := a.length ≤ b.length && b.take a.length == a

/-- all permutations of a short list -/
def perms : List Nat → List (List Nat)
  | [] => [[]]
  | l => l.flatMap (fun x => (perms (l.erase x)).map (x :: ·))
termination_by l => l.length
decreasing_by
  simp_wf
  rename_i h
  have := List.length_erase_of_mem h
  have : 0 < l.length := List.length_pos_of_mem h
  omega

structure Deliv where
  msg : Bytes := []
  sender : Bytes := []
  started : Bool := false       -- the delivery function has been entered (fork / open_append seen)
  fd : String := "?"
  exit : Nat := 999
  sawTruncFault : Bool := false
  sawLockFault : Bool := false
  sawOpenRead : Bool := false
  pendingJump : Nat := 0
  deriving Inhabited

structure Case where
  kind : String := ""
  hdr : String := ""
  loc : Bytes := []
  host : Bytes := []
  time : Nat := 0
  faults : String := "-"
  -- maildir
  mdSt : Option Md.St := some {}
  content : Bytes := []
  dirOk : Bool := true
  dir : String := ""
  pid : String := ""
  hn : Bytes := []
  pre : List String := []
  naps : Nat := 0
  signalled : Bool := false
  ncalls : Nat := 0
  childExit : Int := -1
  errText : Bytes := []
  -- mbox
  box : Bytes := []
  ds : Array Deliv := #[]
  sys : Option Mb.Sys := none
  nev : Nat := 0
  bad : Bool := false
  -- several deliveries into one maildir (kind mm)
  msys : Option MdSys.Sys := none
  pids : Array Nat := #[]
  contents : Array Bytes := #[]
  sig : Array Bool := #[]              -- a signal hit the child of delivery j
  inNew : List String := []            -- new/ names linked successfully by the implementation and not yet taken by the reader
  relinked : Bool := false

structure D where
  st : Stats := {}
  c : Case := {}

/-- case description for report lines: the (first) message is called `in=` so that the shared verdict code picks the
smallest failing input; the reason comes first so that truncation of long lines cannot cut it off -/
def hdrFor (c : Case) : String := (c.hdr.replace " msg0=" " in=").replace " msg=" " in="

def disagree (d : D) (why : String) : IO D := do
  if d.c.bad then return d
  IO.println s!"DISAGREE what={(why.take 300).toString.replace " " "_"} {hdrFor d.c}"
  return { d with st := { d.st with disagree := d.st.disagree + 1 }, c := { d.c with bad := true } }

def oracleFail (d : D) (why : String) : IO D := do
  IO.println s!"ORACLE why={why.replace " " "_"} {hdrFor d.c}"
  return { d with st := { d.st with oracle := d.st.oracle + 1 } }

/-! ### maildir -/

def baseName (c : Case) (k : Nat) : String :=
  String.ofList ((maildirName (c.time + 2 * k) c.pid.toNat! c.hn).map (fun b => Char.ofNat b.toNat))

def mdFeed (d : D) (ev : Md.Ev) (what : String) : IO D := do
  match d.c.mdSt with
  | none => return d
  | some s =>
    match Md.accept { content := d.c.content, dirOk := d.c.dirOk } s ev with
    | some s' => return { d with c := { d.c with mdSt := some s', nev := d.c.nev + 1 }, st := d.st.bump ("md_" ++ what) }
    | none =>
      let d ← disagree d s!"event#{d.c.nev + 1}={what} rejected_at_pc={repr s.pc}"
      return { d with c := { d.c with mdSt := none } }

def errOf (rest : List String) : String := (rest.find? (fun t => t.startsWith "e" && t.length > 1 && (t.drop 1).toString.toNat?.isSome)).getD ""

def mdLine (d : D) (toks : List String) (raw : String) : IO D := do
  let c := d.c
  let forked := c.ds[0]!.started
  match toks with
  | ["T", "P0", "fork", "->", _, _] => mdFeed { d with c := { c with ds := c.ds.set! 0 { c.ds[0]! with started := true } } } .fork "fork"
  | ["T", "P0", "exit", code] => mdFeed d (.parentExit code.toNat!) s!"parentExit{code}"
  | ["T", "P0", "clockjump", n] => return { d with c := { c with time := if forked then c.time else c.time + n.toNat! } }
  | ["T", "P1", "clockjump", _] => return d
  | "T" :: "P0" :: _ => return d                       -- prelude of main(), waitpid: not part of the delivery
  | ["T", "P1", "alarm", n] => mdFeed d (.alarm n.toNat!) "alarm"
  | ["T", "P1", "sleep", n] => mdFeed { d with c := { c with naps := c.naps + 1 } } (.sleep n.toNat!) "sleep"
  | "T" :: "P1" :: "KILLED" :: _ => mdFeed { d with c := { c with signalled := true } } .childKilled "childKilled"
  | ["T", "P1", "signal", "14"] => mdFeed { d with c := { c with signalled := true } } .sigAlarm "sigAlarm"
  | ["T", "P1", "exit", code] => mdFeed { d with c := { c with childExit := code.toNat! } } (.childExit code.toNat!) s!"childExit{code}"
  | "T" :: "P1" :: _ :: "open_excl" :: path :: "->" :: r :: rest =>
    if path != s!"{c.dir}/tmp/{baseName c c.naps}" then disagree d s!"open_excl of unexpected name {path} (expected tmp/{baseName c c.naps})" else
    if r != "-1" then mdFeed { d with c := { c with ds := c.ds.set! 0 { c.ds[0]! with fd := r } } } (.openExcl true false) "openExcl"
    else mdFeed d (.openExcl false (errOf rest == "e17")) (if errOf rest == "e17" then "openExclEEXIST" else "openExcl!")
  | "T" :: "P1" :: _ :: "read" :: "0" :: "->" :: r :: rest =>
    if r == "-1" then mdFeed d (.readErr (errOf rest == "e4")) (if errOf rest == "e4" then "readEINTR" else "read!")
    else mdFeed d (.read r.toNat!) "read"
  | "T" :: "P1" :: _ :: "write" :: fd :: rest =>
    if fd != c.ds[0]!.fd then disagree d s!"write to unexpected descriptor {fd}" else
    if rest.contains "-1" then mdFeed d (.writeErr (errOf rest == "e4")) (if errOf rest == "e4" then "writeEINTR" else "write!")
    else match unhex (kvOf rest "data") with
      | some bs => mdFeed d (.write bs) "write"
      | none => disagree d "unparsed write"
  | "T" :: "P1" :: _ :: "fsync" :: fd :: rest =>
    if fd != c.ds[0]!.fd then disagree d s!"fsync of unexpected descriptor {fd}" else
    mdFeed d (.fsync (!rest.contains "-1")) (if rest.contains "-1" then "fsync!" else "fsync")
  | ["T", "P1", "close", fd] => if fd == c.ds[0]!.fd then mdFeed d (.close true) "close" else return d
  | "T" :: "P1" :: _ :: "close" :: fd :: "->" :: "-1" :: _ => if fd == c.ds[0]!.fd then mdFeed d (.close false) "close!" else return d
  | "T" :: "P1" :: _ :: "link" :: a :: b :: "->" :: r :: _ =>
    let nm := baseName c c.naps
    if a != s!"{c.dir}/tmp/{nm}" || b != s!"{c.dir}/new/{nm}" then disagree d s!"link of unexpected names {a} {b}" else
    mdFeed d (.link (r != "-1")) (if r != "-1" then "link" else "link!")
  | "T" :: "P1" :: _ :: "unlink" :: a :: "->" :: r :: _ =>
    if a != s!"{c.dir}/tmp/{baseName c c.naps}" then disagree d s!"unlink of unexpected name {a}" else
    mdFeed d (.unlinkTmp (r != "-1")) "unlinkTmp"
  | _ => let _ := forked; disagree d s!"unparsed_call={raw.trimAscii.toString.take 140}"

/-- the property on one concrete crash state -/
def mdOracle (c : Case) (k : Nat) (toks : List String) : Option String :=
  let listOf := fun (key : String) => let v := kvOf toks key; if v == "-" || v == "" then [] else v.splitOn ","
  let news := listOf "new"
  let tmps := listOf "tmp"
  let preNew := (c.pre.filter (·.startsWith "new/")).map (fun s => (s.drop 4).toString)
  let preTmp := (c.pre.filter (·.startsWith "tmp/")).map (fun s => (s.drop 4).toString)
  -- a delivered message (new/) must never be touched; a stale tmp/ file carrying this very (time,pid,host) name may be
  -- removed by the alarm handler's tryunlinktmp() (it can belong to no live delivery), never otherwise
  if !(preNew.all news.contains) || (!c.signalled && !(preTmp.all tmps.contains)) then some "a file that existed before the delivery was changed or removed"
  else
    let own := news.filter (fun s => !preNew.contains s)
    let want := s!"{c.content.length}:{hash16 c.content}"
    let okNames := [0, 1, 2].map (fun j => s!"{baseName c j}:{want}")
    let linked := kvOf toks "linked"
    if own.length > 1 then some "more than one new file"
    -- `C12_maildir_crash_every_index`, on the implementation's own results: the message is in new/ iff a link() had returned 0
    else if linked == "1" && own.isEmpty then some "link() had succeeded but the message is not in new/"
    else if linked == "0" && !own.isEmpty then some "a message is in new/ although no link() has succeeded"
    else if !(own.all okNames.contains) then some s!"new/ holds an incomplete, wrong or misnamed file: {own}"
    else
      let final := k == c.ncalls + 1
      let exit := c.ds[0]!.exit
      if final && exit == 0 && own.isEmpty then some "success reported but no complete message in new/"
      else if final && exit != 0 && !own.isEmpty && !c.signalled then some "failure reported but the message is in new/"
      else none

/-! ### several maildir deliveries into one maildir (kind mm): replay through `MdSys.step` -/

def mmCfg (c : Case) : MdSys.Cfg := { host := c.hn, pid := fun i => c.pids.getD i 0, content := fun i => c.contents.getD i [] }

def strOf (b : Bytes) : String := String.ofList (b.map (fun x => Char.ofNat x.toNat))

def mmFeed (d : D) (ev : MdSys.Ev) (what : String) : IO D := do
  match d.c.msys with
  | none => return d
  | some y =>
    match MdSys.step (mmCfg d.c) y ev with
    | some y' => return { d with c := { d.c with msys := some y', nev := d.c.nev + 1 }, st := d.st.bump ("mm_" ++ what) }
    | none =>
      let where_ := match ev with
        | .proc i _ => s!"delivery={i} pc={repr (y.st i).pc} name={strOf (MdSys.nameOf (mmCfg d.c) y i)} clock={y.clock}"
        | _ => ""
      let d ← disagree d s!"event#{d.c.nev + 1}={what} rejected by MdSys.step {where_}"
      return { d with c := { d.c with msys := none } }

def procNum (p : String) : Option Nat := if p.startsWith "P" then (p.drop 1).toString.toNat? else none

def mmLine (d : D) (toks : List String) (raw : String) : IO D := do
  let c := d.c
  match toks with
  | ["T", "TICK", n] => mmFeed d (.tick n.toNat!) "tick"
  | ["T", "MUA", nm] => mmFeed { d with c := { c with inNew := c.inNew.filter (· != nm) } } (.mua (bytesOf nm)) "reader_takes_message"
  | "T" :: p :: rest =>
    match procNum p with
    | none => disagree d s!"unexpected process {p}"
    | some k =>
      let j := k / 2
      if j ≥ c.ds.size then disagree d s!"unexpected process {p}" else
      if rest == ["clockjump", "100000"] then mmFeed d (.tick 100000) "tick" else
      if k % 2 == 0 then
        match rest with
        | ["fork", "->", _, _] => mmFeed d (.proc j .fork) "fork"
        | ["exit", code] => mmFeed d (.proc j (.parentExit code.toNat!)) s!"parentExit{code}"
        | _ => return d
      else
        let nm := match c.msys with | some y => strOf (MdSys.nameOf (mmCfg c) y j) | none => "?"
        let fd := c.ds[j]!.fd
        let ev := fun (e : Md.Ev) (w : String) => mmFeed d (.proc j e) w
        match rest with
        | ["alarm", n] => ev (.alarm n.toNat!) "alarm"
        | ["sleep", n] => do
          let d ← ev (.sleep n.toNat!) "sleep"
          mmFeed d (.tick n.toNat!) "tick"
        | "KILLED" :: _ => mmFeed { d with c := { c with sig := c.sig.set! j true } } (.proc j .childKilled) "childKilled"
        | ["signal", "14"] => mmFeed { d with c := { c with sig := c.sig.set! j true } } (.proc j .sigAlarm) "sigAlarm"
        | ["exit", code] => ev (.childExit code.toNat!) s!"childExit{code}"
        | _ :: "open_excl" :: path :: "->" :: r :: more =>
          if path != s!"{c.dir}/tmp/{nm}" then disagree d s!"open_excl of unexpected name {path} (expected tmp/{nm})" else
          if r != "-1" then mmFeed { d with c := setFd c j r } (.proc j (.openExcl true false)) "openExcl"
          else ev (.openExcl false (errOf more == "e17")) (if errOf more == "e17" then "openExclEEXIST" else "openExcl!")
        | _ :: "read" :: "0" :: "->" :: r :: more =>
          if r == "-1" then ev (.readErr (errOf more == "e4")) "read!" else ev (.read r.toNat!) "read"
        | _ :: "write" :: wfd :: more =>
          if wfd != fd then disagree d s!"write to unexpected descriptor {wfd}" else
          if more.contains "-1" then ev (.writeErr (errOf more == "e4")) "write!"
          else match unhex (kvOf more "data") with
            | some bs => ev (.write bs) "write"
            | none => disagree d "unparsed write"
        | _ :: "fsync" :: ffd :: more =>
          if ffd != fd then disagree d s!"fsync of unexpected descriptor {ffd}" else ev (.fsync (!more.contains "-1")) "fsync"
        | ["close", cfd] => if cfd == fd then ev (.close true) "close" else return d
        | _ :: "close" :: cfd :: "->" :: "-1" :: _ => if cfd == fd then ev (.close false) "close!" else return d
        | _ :: "link" :: a :: b :: "->" :: r :: more =>
          if a != s!"{c.dir}/tmp/{nm}" || b != s!"{c.dir}/new/{nm}" then disagree d s!"link of unexpected names {a} {b}" else
          if r != "-1" then
            -- the implementation's own result: the same new/ name linked again while it is still there?
            let again := c.inNew.contains nm
            let d := { d with c := { c with inNew := nm :: c.inNew, relinked := c.relinked || again } }
            mmFeed d (.proc j (.link true)) "link"
          else ev (.link false) (if errOf more == "e17" then "linkEEXIST" else "link!")
        | _ :: "unlink" :: a :: "->" :: r :: _ =>
          if a != s!"{c.dir}/tmp/{nm}" then disagree d s!"unlink of unexpected name {a}" else ev (.unlinkTmp (r != "-1")) "unlinkTmp"
        | _ => disagree d s!"unparsed_call={raw.trimAscii.toString.take 140}"
  | _ => return d
where
  setFd (c : Case) (j : Nat) (r : String) : Case := { c with ds := c.ds.set! j { c.ds[j]! with fd := r } }

/-- "time.pid.host" → (pid, host) -/
def splitName (nm : String) : Option (Nat × Nat × String) :=
  match nm.splitOn "." with
  | t :: p :: rest => match t.toNat?, p.toNat? with
    | some tn, some pn => some (tn, pn, ".".intercalate rest)
    | _, _ => none
  | _ => none

/-- the property on the final directories of a multi-delivery case (implementation's listing only) -/
def mmOracle (c : Case) (toks : List String) : Option String :=
  let listOf := fun (key : String) => let v := kvOf toks key; if v == "-" || v == "" then [] else v.splitOn ","
  let news := listOf "new"
  let tmps := listOf "tmp"
  let curs := listOf "cur"
  let preNew := (c.pre.filter (·.startsWith "new/")).map (fun s => (s.drop 4).toString)
  let preTmp := (c.pre.filter (·.startsWith "tmp/")).map (fun s => (s.drop 4).toString)
  let anySig := c.sig.toList.any id
  if !(preNew.all news.contains) || (!anySig && !(preTmp.all tmps.contains)) then some "a file that existed before the deliveries was changed or removed"
  else if c.relinked then some "two deliveries linked the same new/ name while the first message was still there"
  else
    let own := news.filter (fun s => !preNew.contains s) ++ curs
    let host := strOf ((c.hn.take 64).takeWhile (fun b => b != 0))
    let idx := List.range c.ds.size
    -- key of a file / of a delivery: pid and "len:hash" of the content
    let keyOfFile := fun (s : String) => match s.splitOn ":" with
      | nm :: len :: h :: _ => match splitName nm with
        | some (_, p, hs) => if hs == host then some (p, s!"{len}:{h}") else none
        | none => none
      | _ => none
    let keyOf := fun (j : Nat) => (c.pids.getD j 0, s!"{(c.contents.getD j []).length}:{hash16 (c.contents.getD j [])}")
    if own.any (fun s => (keyOfFile s).isNone) then some s!"new/ holds a misnamed file: {own}"
    else
      let keys := own.filterMap keyOfFile
      let bad := idx.find? (fun j =>
        let k := keyOf j
        let nOk := (idx.filter (fun i => keyOf i == k && c.ds[i]!.exit == 0)).length
        let nMay := (idx.filter (fun i => keyOf i == k && (c.ds[i]!.exit == 0 || c.sig.getD i false))).length
        let nFiles := (keys.filter (· == k)).length
        nFiles < nOk || nFiles > nMay)
      match bad with
      | some j => some s!"delivery {j}: the number of complete messages in new/ (and cur/) does not match the deliveries that reported success (lost, duplicated or overwritten)"
      | none =>
        if keys.any (fun k => !(idx.any (fun j => keyOf j == k))) then some s!"new/ holds an incomplete or wrong file: {own}"
        else if idx.any (fun j => c.ds[j]!.started && c.ds[j]!.exit != 0 && c.ds[j]!.exit != 111) then some "a failed delivery is not reported as a temporary failure (111)"
        else none

/-! ### mbox -/

def procIdx (p : String) : Option Nat :=
  match p with | "P0" => some 0 | "P2" => some 1 | "P4" => some 2 | _ => none

def entryOf (c : Case) (i : Nat) : Bytes :=
  let dl := c.ds[i]!
  mboxEntry (ufline dl.sender c.time) (Local.rpline dl.sender) (Local.dtline c.loc c.host) dl.msg

def mbFeed (d : D) (i : Nat) (ev : Mb.Ev) (what : String) : IO D := do
  match d.c.sys with
  | none => return d
  | some y =>
    match Mb.sysStep (entryOf d.c) y i ev with
    | some y' => return { d with c := { d.c with sys := some y', nev := d.c.nev + 1 }, st := d.st.bump ("mb_" ++ what) }
    | none =>
      let d ← disagree d s!"event#{d.c.nev + 1}=P{2 * i}:{what} rejected_at_pc={repr (y.st i).pc} holder={y.holder}"
      return { d with c := { d.c with sys := none } }

def setD (c : Case) (i : Nat) (f : Deliv → Deliv) : Case := { c with ds := c.ds.set! i (f c.ds[i]!) }

def mbLine (d : D) (toks : List String) (raw : String) : IO D := do
  let c := d.c
  match toks with
  | "T" :: p :: rest =>
    match procIdx p with
    | none => disagree d s!"unexpected process {p}"
    | some i =>
      if i ≥ c.ds.size then disagree d s!"unexpected process {p}" else
      let dl := c.ds[i]!
      let flen := match c.sys with | some y => y.file.length | none => 0
      match rest with
      | ["clockjump", n] =>
        -- virtual time jumps (fault kind -3) just before the call traced next; `starttime = now()` is taken after
        -- bouncexf()'s reads and before the first open_read of main()
        return { d with c := setD c i (fun x => { x with pendingJump := n.toNat! }) }
      | _ :: "open_read" :: _ => return { d with c := setD c i (fun x => { x with sawOpenRead := true, pendingJump := 0 }) }
      | _ :: "stat" :: _ =>
        return { d with c := if dl.sawOpenRead then c else setD { c with time := c.time + dl.pendingJump } i (fun x => { x with pendingJump := 0 }) }
      | ["exit", code] => mbFeed { d with c := setD c i (fun x => { x with exit := code.toNat! }) } i (.exit code.toNat!) s!"exit{code}"
      | _ :: "open_append" :: _ :: "->" :: r :: _ =>
        mbFeed { d with c := setD c i (fun x => { x with started := true, fd := r }) } i (.openAppend (r != "-1")) (if r != "-1" then "openAppend" else "openAppend!")
      | _ =>
        if !dl.started then
          -- prelude of main(): only a clock jump before `now()` matters
          return { d with c := if dl.sawOpenRead then c else setD { c with time := c.time + dl.pendingJump } i (fun x => { x with pendingJump := 0 }) }
        else
        match rest with
        | ["alarm", n] => mbFeed d i (.alarm n.toNat!) "alarm"
        | ["signal", "14"] => mbFeed d i .sigAlarm "sigAlarm"
        | _ :: "flock" :: r =>
          if r.contains "-1" then mbFeed { d with c := setD c i (fun x => { x with sawLockFault := true }) } i (.flock false) "flock!"
          else mbFeed d i (.flock true) "flock"
        -- the implementation's own lseek results: seek_end (whence 2) must return the length the file has now
        -- (checked by sysStep against the model's file, which the write offsets and the final file tie to the real one),
        -- seek_cur (whence 1) the same offset; both must come after the lock
        | ["lseek", fd, "0", "2", "->", r] =>
          if fd != dl.fd then return d else
          match r.toNat? with
          | some n => mbFeed d i (.seekEnd n) "seekEnd"
          | none => disagree d s!"seek_end failed: {r}"
        | ["lseek", fd, "0", "1", "->", r] =>
          if fd != dl.fd then return d else
          match r.toNat? with
          | some n => mbFeed d i (.seekCur n) "seekCur"
          | none => disagree d s!"seek_cur failed: {r}"
        | "lseek" :: fd :: _ => if fd != dl.fd then return d else disagree d s!"unexpected lseek on the mbox descriptor: {raw.trimAscii.toString.take 100}"
        | _ :: "read" :: "0" :: "->" :: r :: more =>
          if r == "-1" then mbFeed d i (.readErr (errOf more == "e4")) (if errOf more == "e4" then "readEINTR" else "read!")
          else mbFeed d i (.read r.toNat!) "read"
        | _ :: "write" :: fd :: more =>
          if fd != dl.fd then disagree d s!"write to unexpected descriptor {fd}" else
          if more.contains "-1" then mbFeed d i (.writeErr (errOf more == "e4")) (if errOf more == "e4" then "writeEINTR" else "write!")
          else
            if kvOf more "off" != toString flen then disagree d s!"append at offset {kvOf more "off"} but the file has {flen} bytes" else
            match unhex (kvOf more "data") with
            | some bs => mbFeed d i (.write bs) "write"
            | none => disagree d "unparsed write"
        | _ :: "fsync" :: fd :: more =>
          if fd != dl.fd then disagree d s!"fsync of unexpected descriptor {fd}" else
          mbFeed d i (.fsync (!more.contains "-1")) (if more.contains "-1" then "fsync!" else "fsync")
        | _ :: "ftruncate" :: fd :: more =>
          if fd != dl.fd then disagree d s!"ftruncate of unexpected descriptor {fd}" else
          if more.contains "-1" then mbFeed { d with c := setD c i (fun x => { x with sawTruncFault := true }) } i (.ftrunc (match c.sys with | some y => (y.st i).pos | none => 0) false) "ftrunc!"
          else mbFeed d i (.ftrunc (kvOf more "len").toNat! true) "ftrunc"
        | ["close", fd] => if fd == dl.fd then mbFeed d i .close "close" else return d
        | _ :: "close" :: fd :: "->" :: "-1" :: _ => if fd == dl.fd then mbFeed d i .close "close!" else return d
        | _ => disagree d s!"unparsed_call={raw.trimAscii.toString.take 140}"
  | _ => return d

/-- the From_ line mbox(5) prescribes for this sender: "From " word " " 24 characters LF -/
def fromLineOk (fl sender : Bytes) : Bool :=
  let w := ufSender sender
  isPre ([70, 114, 111, 109, 32] ++ w ++ [SP]) fl && fl.length == 5 + w.length + 1 + 24 + 1 &&
  fl.getLast? == some LF && !(fl.dropLast.contains LF) && Mbox.envSender fl == w

/-- the property on the final mbox file -/
def mbOracle (c : Case) (file : Bytes) : Option String :=
  let n := c.ds.size
  let idx := List.range n
  let attempted := idx.filter (fun i => c.ds[i]!.started)
  let okIdx := idx.filter (fun i => c.ds[i]!.exit == 0)
  let unlocked := idx.any (fun i => c.ds[i]!.sawLockFault || c.ds[i]!.sawTruncFault)
  if attempted.any (fun i => c.ds[i]!.exit != 0 && c.ds[i]!.exit != 111) then some "a failed delivery is not reported as a temporary failure (111)"
  else if !isPre c.box file then some "the previous content of the mbox file was changed"
  else if okIdx.isEmpty && !unlocked && file != c.box then some "every delivery failed but the file was not restored to its previous length"
  else if unlocked then none       -- outside the hypotheses (lock_ex or ftruncate failed): reported as a counter
  else if !Mbox.AtBoundary c.box then
    -- the old file ends inside a line: only append-only-ness and the length of what was added can be judged
    none
  else
    let got := Mbox.mboxRead file
    let old := Mbox.mboxRead c.box
    if !isPre' old got then some "messages already in the mbox are no longer read back unchanged"
    else
      let added := got.drop old.length
      if added.length != okIdx.length then some s!"{okIdx.length} deliveries reported success but the reader finds {added.length} new messages"
      else
        let want := fun (i : Nat) => Mbox.completeLastLine (Local.rpline c.ds[i]!.sender ++ Local.dtline c.loc c.host ++ c.ds[i]!.msg)
        let fits := fun (p : List Nat) => (p.zip added).all (fun (i, m) => m.2 == want i && fromLineOk m.1 c.ds[i]!.sender)
        if (perms okIdx).any fits then none
        else some "the reader does not split and unquote the appended entries back to the delivered messages (interleaved or wrongly quoted)"
where
  isPre' (a b : List (Bytes × Bytes)) : Bool := a.length ≤ b.length && b.take a.length == a

/-! ### line dispatch -/

def newCase (d : D) (rest : List String) : IO D := do
  let kind := kvOf rest "kind"
  let hl := " ".intercalate rest
  let h := hashBytes (bytesOf hl)
  let fresh := !d.st.seen.contains h
  let mut st : Stats := { d.st with cases := d.st.cases + 1, seen := d.st.seen.insert h, nontrivial := d.st.nontrivial + (if fresh then 1 else 0) }
  st := st.bump ("kind_" ++ kind)
  if st.samples < 4 && hl.length < 400 && (st.cases % 7 == 1) then
    IO.println s!"SAMPLE {hl}"
    st := { st with samples := st.samples + 1 }
  let loc := (unhex (kvOf rest "local")).getD []
  let host := (unhex (kvOf rest "host")).getD []
  let time := (kvOf rest "time").toNat!
  if kind == "mm" then
    let n := (kvOf rest "n").toNat!
    let pre := kvOf rest "pre"
    let preL := if pre == "-" then [] else pre.splitOn ","
    let nameOnly := fun (s : String) => bytesOf ((s.splitOn ":").headD "")
    let ds := (List.range n).map (fun i => ({ msg := (unhex (kvOf rest s!"msg{i}")).getD [], sender := (unhex (kvOf rest s!"sender{i}")).getD [] } : Deliv))
    let pids := (List.range n).map (fun i => (kvOf rest s!"pid{i}").toNat!)
    if (kvOf rest "faults") != "-" then st := st.bump "with_fault"
    if (List.range n).any (fun i => (kvOf rest s!"at{i}") != "0") then st := st.bump "mm_two_live_children"
    if (List.range n).any (fun i => i > 0 && (kvOf rest s!"at{i}") == "0" && (pids.take i).contains (pids.getD i 0)) then st := st.bump "mm_restart_reusing_a_pid"
    let sys : MdSys.Sys := { clock := time,
                             tmp := (preL.filter (·.startsWith "tmp/")).map (fun s => nameOnly (s.drop 4).toString),
                             new := (preL.filter (·.startsWith "new/")).map (fun s => nameOnly (s.drop 4).toString) }
    let c : Case := { kind := kind, hdr := hl, loc := loc, host := host, time := time, faults := (kvOf rest "faults"), dir := kvOf rest "dir",
                      hn := (unhex (kvOf rest "hn")).getD [], pre := preL, ds := ds.toArray, pids := pids.toArray,
                      contents := (ds.map (fun dl => maildirContent (Local.rpline dl.sender) (Local.dtline loc host) dl.msg)).toArray,
                      sig := (ds.map (fun _ => false)).toArray, msys := some sys }
    return { st := st, c := c }
  else if kind == "md" then
    let msg := (unhex (kvOf rest "msg")).getD []
    let sender := (unhex (kvOf rest "sender")).getD []
    let pre := kvOf rest "pre"
    let col := kvOf rest "collide"
    if (kvOf rest "faults") != "-" then st := st.bump "with_fault"
    let c : Case := { kind := kind, hdr := hl, loc := loc, host := host, time := time, faults := (kvOf rest "faults"),
                      content := maildirContent (Local.rpline sender) (Local.dtline loc host) msg, dirOk := col != "9", dir := kvOf rest "dir",
                      pid := kvOf rest "pid", hn := (unhex (kvOf rest "hn")).getD [], pre := (if pre == "-" then [] else pre.splitOn ","),
                      ds := #[{ msg := msg, sender := sender }] }
    return { st := st, c := c }
  else
    let n := (kvOf rest "n").toNat!
    let bx := kvOf rest "box"
    let box := if bx == "absent" then [] else (unhex bx).getD []
    let ds := (List.range n).map (fun i => ({ msg := (unhex (kvOf rest s!"msg{i}")).getD [], sender := (unhex (kvOf rest s!"sender{i}")).getD [] } : Deliv))
    if (kvOf rest "faults") != "-" then st := st.bump "with_fault"
    let c : Case := { kind := kind, hdr := hl, loc := loc, host := host, time := time, faults := (kvOf rest "faults"),
                      box := box, ds := ds.toArray, sys := some { file := box } }
    return { st := st, c := c }

def handle (d : D) (line : String) : IO D := do
  let toks := fields line
  match toks with
  | ["G", hx, r] =>
    let l := (unhex hx).getD []
    let mut st := { d.st with cases := d.st.cases + 1, nontrivial := d.st.nontrivial + 1 }
    st := st.bump (if r == "1" then "gfrom_true" else "gfrom_false")
    let m := gfrom l
    if (r == "1") != m then
      IO.println s!"DISAGREE kind=gf in={hx} impl={r} model={m}"
      st := { st with disagree := st.disagree + 1 }
    if (r == "1") != (Mbox.isFromLine l || Mbox.isQuoted l) then
      IO.println s!"ORACLE kind=gf in={hx} why=gfrom_differs_from_the_documented_From_/>From_line_test impl={r}"
      st := { st with oracle := st.oracle + 1 }
    return { d with st := st }
  | ["C", t, hx] =>
    let txt := (unhex hx).getD []
    let mut st := { d.st with cases := d.st.cases + 1, nontrivial := d.st.nontrivial + 1 }
    st := st.bump "myctime"
    let m := myctime t.toNat!
    if m != txt then
      IO.println s!"DISAGREE kind=ct time={t} impl={hx} model={hex m}"
      st := { st with disagree := st.disagree + 1 }
    if !(txt.length == 25 && txt.getLast? == some LF && !(txt.dropLast.contains LF)) then
      IO.println s!"ORACLE kind=ct time={t} why=date_is_not_24_characters_and_a_newline impl={hx}"
      st := { st with oracle := st.oracle + 1 }
    return { d with st := st }
  | "CASE" :: rest => newCase d rest
  | "T" :: _ =>
    if d.c.bad then return d
    if toks.contains "CRASH" then return d
    if d.c.kind == "md" then mdLine d toks line else if d.c.kind == "mm" then mmLine d toks line else mbLine d toks line
  | "EXIT" :: rest =>
    let c := d.c
    if c.kind == "md" then
      let code := (rest.head?.getD "999").toNat!
      let c := { c with ds := c.ds.set! 0 { c.ds[0]! with exit := code }, ncalls := (kvOf rest "ncalls").toNat!, errText := (unhex (kvOf rest "err")).getD [] }
      let mut d := { d with c := c }
      match c.mdSt with
      | some s =>
        match s.pc with
        | .done _ => pure ()
        | _ => d ← disagree d s!"trace ended at pc={repr s.pc}"
        -- the message printed for the user: text of the `switch` in maildir(), regenerated from the source
        if s.forked && code != 0 then
          let want := match s.pc with
            | .done _ => if s.interrupted && c.childExit < 0 then bytesOf Gen.LocalExit.childCrashedText else bytesOf (parentText c.childExit.toNat)
            | _ => []
          if c.errText != want ++ [LF] then d ← disagree d s!"diagnostic={hex c.errText} expected={hex (want ++ [LF])}"
        if s.forked && code != 0 && code != 111 then d ← oracleFail d s!"maildir failure reported with exit code {code}, not the temporary failure 111"
      | none => pure ()
      return d
    else
      let codes := rest.takeWhile (fun t => !t.contains '=')
      let ds := (List.range c.ds.size).map (fun i => { c.ds[i]! with exit := (codes.getD i "999").toNat! })
      let mut d := { d with c := { c with ds := ds.toArray } }
      match c.sys with
      | some y =>
        for i in List.range c.ds.size do
          match (y.st i).pc with
          | .done _ => pure ()
          | pc => d ← disagree d s!"trace of P{2 * i} ended at pc={repr pc}"
      | none => pure ()
      return d
  | "X" :: j :: code :: rest =>
    let c := d.c
    let j := j.toNat!
    if j ≥ c.ds.size then return d
    let started := kvOf rest "started" == "1"
    let c := { c with ds := c.ds.set! j { c.ds[j]! with exit := code.toInt!.toNat, started := started } }
    let mut d := { d with c := c, st := d.st.bump "mm_deliveries" }
    match c.msys with
    | some y =>
      if started then
        match (y.st j).pc with
        | .done cd => if cd != code.toInt!.toNat then d ← disagree d s!"delivery {j} exit code {code}, model {cd}"
        | pc => d ← disagree d s!"trace of delivery {j} ended at pc={repr pc}"
    | none => pure ()
    return d
  | "L" :: rest =>
    let mut d := d
    let c := d.c
    let listOf := fun (key : String) => let v := kvOf rest key; if v == "-" || v == "" then [] else (v.splitOn ",").map (fun s => (s.splitOn ":").headD "")
    match c.msys with
    | some y =>
      let srt := fun (l : List String) => l.toArray.qsort (· < ·) |>.toList
      if srt (y.new.map strOf) != srt (listOf "new") then d ← disagree d s!"new/ differs from the model's: impl={listOf "new"} model={y.new.map strOf}"
      if srt (y.tmp.map strOf) != srt (listOf "tmp") then d ← disagree d s!"tmp/ differs from the model's: impl={listOf "tmp"} model={y.tmp.map strOf}"
      let names := y.log.map (MdSys.logName (mmCfg c))
      if names.eraseDups.length != names.length then d := { d with st := d.st.bump "mm_same_name_linked_twice_after_reader_took_the_first" }
    | none => pure ()
    d := { d with st := d.st.bump "mm_final_states" }
    match mmOracle c rest with
    | none => return d
    | some why => oracleFail d why
  | "S" :: k :: mode :: rest =>
    let st := (d.st.bump "crash_states").bump (if kvOf rest "linked" == "1" then "crash_states_after_link" else "crash_states_before_link")
    match mdOracle d.c k.toNat! rest with
    | none => return { d with st := st }
    | some why => oracleFail { d with st := st } s!"{why} crash_before_call={k} resolution={mode}"
  | ["F", hx] =>
    let file := if hx == "absent" then [] else (unhex hx).getD []
    let mut d := d
    match d.c.sys with
    | some y => if y.file != file then d ← disagree d s!"final file differs from the model's: impl={hx.take 300} model={(hex y.file).take 300}"
    | none => pure ()
    let c := d.c
    if (List.range c.ds.size).any (fun i => c.ds[i]!.sawLockFault || c.ds[i]!.sawTruncFault) then d := { d with st := d.st.bump "outside_hypotheses_lock_or_truncate_failed" }
    if !Mbox.AtBoundary c.box then d := { d with st := d.st.bump "old_box_not_at_line_boundary" }
    match mbOracle c file with
    | none => return d
    | some why => oracleFail d why
  | _ => return d

partial def loop2 (h : IO.FS.Stream) (d : D) : IO D := do
  let line ← h.getLine
  if line.isEmpty then return d
  let d' ← handle d line
  loop2 h d'

def main : IO Unit := do
  let stdin ← IO.getStdin
  let d ← loop2 stdin {}
  IO.println s!"STATS {d.st.json}"
