/-
  Nq.RemoteSmtp — model of the SMTP client conversation of qmail-remote.c:
  `get()`, `smtpcode()`, `outsmtptext()`, `quit()`, `dropped()`, `smtp()` (with `blast()` taken from
  `Nq.SmtpOut.rblast`) and `ip.c ip_fmt`.

  The remote server is a *script*:
    * `stream` — every byte the server ever sends, in order.  A read past its end fails
      (`timeoutread` returns 0 on disconnect or -1 on a stall/timeout: `saferead` calls `dropped()` in
      both cases).  The client is deterministic and reads one byte at a time, so an adaptive server is
      covered: its behaviour against this client *is* one such stream.
    * `wfail`  — the write (flush of `smtpto`) that fails, if any (`safewrite` → `dropped()`).
                 For a write inside `blast()` the script says on which side of the statement
                 `flagcritical = 1` it happens (`body` before, `final` after).  This file does not model the
                 1024-byte buffering of `smtpto`; `Nq.RemoteBuf` does (blast() over `Nq.Substdio`): there the
                 label is *computed* from the write script (`blastLabel (bblast ws msg err)`), `smtpRunB` is
                 `smtp()` with it, and `Props.C09.C09_buffered_reports` says it prints what `smtpRun` prints
                 under the computed label (`toScript`).  The driver runs `smtpRunB`.

  Two layers:
    * `frames`  — how `smtpcode()` delimits replies in the stream (byte automaton `cnext`, one state
                  per `get()` call site), `codeOf` — the number it computes (`unsigned long`
                  arithmetic on `ch - '0'`, no digit check), `textOf` — what `get()` keeps in `smtptext`.
    * `run`     — the control flow of `smtp()` over the list of delimited replies.
-/
import Nq.Basic
import Nq.SmtpOut
import Nq.Gen.Consts

namespace Nq.RemoteSmtp
open Nq Nq.SmtpOut

/-- ASCII literal as bytes (reduces by `decide`/`simp`, unlike `String.toUTF8`) -/
def lit (s : String) : Bytes := s.toList.map (fun c => c.toNat.toUInt8)

@[reducible] def DASH : Byte := 45
@[reducible] def QM : Byte := 63

/-! ### smtpcode(): framing -/

/-- the `get()` call sites of `smtpcode()`:
    d1 d2 d3 — the three code bytes; sep — the byte after a code; cont — inside a `-` line;
    c1 c2 c3 — the three bytes skipped after a `-` line; tail — inside the last line -/
inductive CSt | d1 | d2 | d3 | sep | cont | c1 | c2 | c3 | tail
  deriving DecidableEq, Repr

/-- one byte read at a call site; `none` = `smtpcode()` returns after this byte -/
def cnext : CSt → Byte → Option CSt
  | .d1, _ => some .d2
  | .d2, _ => some .d3
  | .d3, _ => some .sep
  | .sep, c => if c = DASH then some .cont else if c = LF then none else some .tail
  | .cont, c => if c = LF then some .c1 else some .cont
  | .c1, _ => some .c2
  | .c2, _ => some .c3
  | .c3, _ => some .sep
  | .tail, c => if c = LF then none else some .tail

/-- the replies as successive `smtpcode()` calls delimit them; `cur` = bytes of the reply being read,
    most recent first. A trailing incomplete reply is not a reply: the read fails there. -/
def frames : CSt → Bytes → Bytes → List Bytes
  | _, _, [] => []
  | s, cur, c :: r =>
    match cnext s c with
    | none => (c :: cur).reverse :: frames .d1 [] r
    | some s' => frames s' (c :: cur) r

/-- `code = ch - '0'` in `unsigned long` -/
def dig (c : Byte) : UInt64 := c.toUInt64 - 48

/-- the value `smtpcode()` returns for a delimited reply (its first three bytes, no digit check) -/
def codeOf : Bytes → UInt64
  | a :: b :: c :: _ => (dig a * 10 + dig b) * 10 + dig c
  | _ => 0

/-- the same value as a natural number (`unsigned long` is 64 bits here; the comparisons the client
    makes — `!= 220`, `!= 250`, `>= 500`, `>= 400` — come out the same for any width ≥ 16 bits,
    see `Nq.Lemmas.RemoteSmtp`) -/
def codeNat (raw : Bytes) : Nat := (codeOf raw).toNat

/-- `smtptext` after `smtpcode()`: CR dropped, at most HUGESMTPTEXT bytes -/
def textOf (raw : Bytes) : Bytes := (raw.filter (· ≠ CR)).take Nq.Gen.HUGESMTPTEXT

/-- `outsmtptext()`: NUL bytes become `?`; nothing at all for an empty text -/
def said (t : Bytes) : Bytes :=
  if t = [] then [] else lit "Remote host said: " ++ t.map (fun c => if c = NUL then QM else c)

/-! ### reports -/

/-- the writes of the conversation. `body` / `final`: a flush inside `blast()` while `flagcritical` is
    still 0 / after it was set to 1 (the flush after the terminating dot is always `final`) -/
inductive WPoint | helo | mail | rcpt (i : Nat) | data | body | final | quit
  deriving DecidableEq, Repr

structure Args where
  host : Bytes            -- `ip_fmt(partner)`
  helo : Bytes
  sender : Bytes
  rcpts : List Bytes
  msg : Bytes             -- the message on descriptor 0
  msgErr : Bool           -- a read error follows the message bytes

structure Script where
  stream : Bytes
  wfail : Option WPoint

/-- outcome: per-recipient reports (in emission order), the final report, what the server received.
    `wireOpen`: `wire` may be followed by a prefix of the encoded body (buffer-full flushes of `smtpto`
    before the run stopped; exact in `Nq.RemoteBuf.ResB.wire`).
    `quit`: `quit()` was reached (a verdict was announced; QUIT was written unless that write failed). -/
structure Res where
  rcpt : List Bytes
  msg : Bytes
  wire : Bytes
  wireOpen : Bool := false
  quit : Bool := false

def dupMark : Bytes := lit "Possible duplicate! "

/-- `dropped()` -/
def droppedRep (host : Bytes) (crit : Bool) : Bytes :=
  lit "ZConnected to " ++ host ++ lit " but connection died. " ++
    ((if crit then dupMark else []) ++ lit "(#4.4.2)\n")

def tempReadRep : Bytes := lit "ZUnable to read message. (#4.3.0)\n"
def permPartialRep : Bytes := lit "DSMTP cannot transfer messages with partial final lines. (#5.6.2)\n"
def tempNoconnRep : Bytes := lit "ZSorry, I wasn't able to establish an SMTP connection. (#4.4.1)\n"

def notLike : Bytes := lit " does not like recipient.\n"

/-- `quit(prepend,append)`: QUIT is written with `timeoutwrite` directly, *not* through `safewrite`
    (commit 7dc98ec): when that write fails the server just does not get the QUIT; the verdict
    `prepend … append` that had been decided is printed all the same. (Before 7dc98ec a failing QUIT
    write ran `dropped()` and replaced the verdict by "connection died": mutant M22 in notes/C09.md.) -/
def quitWith (a : Args) (wf : Option WPoint) (rs : List Bytes) (w : Bytes) (pre app txt : Bytes) : Res :=
  { rcpt := rs, msg := pre ++ a.host ++ app ++ lit ".\n" ++ said txt,
    wire := if wf = some .quit then w else w ++ lit "QUIT\r\n", quit := true }

def lost (a : Args) (rs : List Bytes) (w : Bytes) (crit : Bool) (wopen : Bool := false) : Res :=
  { rcpt := rs, msg := droppedRep a.host crit, wire := w, wireOpen := wopen }

/-- `smtp()` from the DATA command on. `fs` = replies not yet consumed, `txt` = current `smtptext`. -/
def dataPhase (a : Args) (wf : Option WPoint) (rs : List Bytes) (w : Bytes) (bother : Bool) (txt : Bytes)
    (fs : List Bytes) : Res :=
  if bother = false then quitWith a wf rs w (lit "DGiving up on ") [] txt else
  if wf = some .data then lost a rs w false else
  let w1 := w ++ lit "DATA\r\n"
  match fs with
  | [] => lost a rs w1 false
  | d :: fs =>
    if codeNat d ≥ 500 then quitWith a wf rs w1 (lit "D") (lit " failed on DATA command") (textOf d) else
    if codeNat d ≥ 400 then quitWith a wf rs w1 (lit "Z") (lit " failed on DATA command") (textOf d) else
    -- blast()
    if wf = some .body then lost a rs w1 false true else
    if a.msgErr then { rcpt := rs, msg := tempReadRep, wire := w1, wireOpen := true } else
    match rblast a.msg with
    | none => { rcpt := rs, msg := permPartialRep, wire := w1, wireOpen := true }
    | some enc =>
      if wf = some .final then lost a rs w1 true true else
      let w2 := w1 ++ enc
      match fs with
      | [] => lost a rs w2 true
      | f :: _ =>
        if codeNat f ≥ 500 then quitWith a wf rs w2 (lit "D") (lit " failed after I sent the message") (textOf f) else
        if codeNat f ≥ 400 then quitWith a wf rs w2 (lit "Z") (lit " failed after I sent the message") (textOf f) else
        quitWith a wf rs w2 (lit "K") (lit " accepted message") (textOf f)

/-- the RCPT loop: `i` = index of the next recipient -/
def rcptLoop (a : Args) (wf : Option WPoint) : Nat → List Bytes → List Bytes → Bytes → Bool → Bytes →
    List Bytes → Res
  | _, [], rs, w, bother, txt, fs => dataPhase a wf rs w bother txt fs
  | i, r :: more, rs, w, bother, txt, fs =>
    if wf = some (.rcpt i) then lost a rs w false else
    let w1 := w ++ (lit "RCPT TO:<" ++ r ++ lit ">\r\n")
    match fs with
    | [] => lost a rs w1 false
    | p :: fs =>
      if codeNat p ≥ 500 then
        rcptLoop a wf (i + 1) more (rs ++ [[104] ++ a.host ++ notLike ++ said (textOf p)]) w1 bother [] fs
      else if codeNat p ≥ 400 then
        rcptLoop a wf (i + 1) more (rs ++ [[115] ++ a.host ++ notLike ++ said (textOf p)]) w1 bother [] fs
      else
        rcptLoop a wf (i + 1) more (rs ++ [[114]]) w1 true (textOf p) fs

/-- `smtp()` over the delimited replies -/
def run (a : Args) (wf : Option WPoint) (fs : List Bytes) : Res :=
  match fs with
  | [] => lost a [] [] false
  | g :: fs =>
    if codeNat g ≠ 220 then quitWith a wf [] [] (lit "ZConnected to ") (lit " but greeting failed") (textOf g) else
    if wf = some .helo then lost a [] [] false else
    let w1 := lit "HELO " ++ a.helo ++ lit "\r\n"
    match fs with
    | [] => lost a [] w1 false
    | h :: fs =>
      if codeNat h ≠ 250 then quitWith a wf [] w1 (lit "ZConnected to ") (lit " but my name was rejected") (textOf h) else
      if wf = some .mail then lost a [] w1 false else
      let w2 := w1 ++ (lit "MAIL FROM:<" ++ a.sender ++ lit ">\r\n")
      match fs with
      | [] => lost a [] w2 false
      | m :: fs =>
        if codeNat m ≥ 500 then quitWith a wf [] w2 (lit "DConnected to ") (lit " but sender was rejected") (textOf m) else
        if codeNat m ≥ 400 then quitWith a wf [] w2 (lit "ZConnected to ") (lit " but sender was rejected") (textOf m) else
        rcptLoop a wf 0 a.rcpts [] w2 false (textOf m) fs

def smtpRun (a : Args) (sc : Script) : Res := run a sc.wfail (frames .d1 [] sc.stream)

/-- qmail-remote's standard output: NUL-terminated reports -/
def render (r : Res) : Bytes := (r.rcpt ++ [r.msg]).flatMap (· ++ [NUL])

/-- `ip_fmt` -/
def ipFmt (a b c d : Byte) : Bytes :=
  fmtNat a.toNat ++ [DOT] ++ fmtNat b.toNat ++ [DOT] ++ fmtNat c.toNat ++ [DOT] ++ fmtNat d.toNat

end Nq.RemoteSmtp
