/-
  Nq.Clean — model of qmail-clean.c `main`: the helper that removes queue files on behalf of
  qmail-send.  One request is a NUL-terminated line read with `getln(subfdinsmall,&line,&match,'\0')`;
  `handleReq` transcribes the body of the `for (;;)` loop for one such line (terminator included,
  as `line.s[0..line.len)` is in the C code), `run` folds it over a whole input stream.

  The only effects of the loop body are `unlink(fnbuf)` and `respond(<one byte>)`; they are the
  events `Ev.unlink path` / `Ev.status b`.  The outcome of each `unlink` is an input of the model
  (`plan`): 0 = success, 1 = fails with ENOENT (treated as success by the code), anything else =
  fails with another errno (the code answers '!' and abandons the request).

  `cleanuppid()` — the program's second source of `unlink` calls — is `cleanuppid`: what `now()`,
  `opendir("pid")`, `readdir` and `stat` present is an input (`Scan`, one per call); the events are
  `cleanup` (the `opendir`), one `unlink "pid/<name>"` per entry that is not `.`/`..`, whose `stat`
  succeeds and whose atime is at least OSSIFIED seconds old (`time < st_atime + OSSIFIED` ⇒ skip),
  and `cleanupEnd` (the `closedir`; absent when `opendir` failed).  The result of these unlinks is
  ignored by the code.

  Core Lean only.
-/
import Nq.Basic
import Nq.Gen.Consts

namespace Nq.Clean
open Nq

/-! ### `fmt_ulong` / `scan_ulong` / `fmtqfn` -/

def digitByte (n : Nat) : Byte := (48 + n % 10).toUInt8

/-- decimal digits of `n`, least significant first; `fuel > n` is always enough -/
def revDigits : Nat → Nat → Bytes
  | 0, _ => []
  | f + 1, n => if n < 10 then [digitByte n] else digitByte n :: revDigits f (n / 10)

/-- `fmt_ulong(s,u)`: canonical decimal spelling (no leading zero, "0" for zero) -/
def fmtUlong (n : Nat) : Bytes := (revDigits (n + 1) n).reverse

@[reducible] def ULONG : Nat := 18446744073709551616   -- 2^64 (LP64 `unsigned long`)

/-- `scan_ulong` on a string of digits: `result = result * 10 + c` in 64-bit arithmetic -/
def scanUlong (ds : Bytes) : Nat := ds.foldl (fun acc d => (acc * 10 + (d.toNat - 48)) % ULONG) 0

/-- `fmtqfn(fnbuf,dirslash,id,flagsplit)` without the terminating NUL -/
def fmtqfn (dirslash : Bytes) (id : Nat) (split : Bool) : Bytes :=
  dirslash ++ (if split then fmtUlong (id % Nq.Gen.auto_split) ++ [47] else []) ++ fmtUlong id

/-! ### byte strings of the protocol (written out so that `decide`/`simp` can see them) -/

@[reducible] def FOOP : Bytes := [102, 111, 111, 112, 47]   -- "foop/"
@[reducible] def TODO : Bytes := [116, 111, 100, 111, 47]   -- "todo/"
@[reducible] def INTD : Bytes := [105, 110, 116, 100, 47]   -- "intd/"
@[reducible] def MESS : Bytes := [109, 101, 115, 115, 47]   -- "mess/"
@[reducible] def stX : Byte := 120    -- 'x'  request rejected
@[reducible] def stOK : Byte := 43    -- '+'  done
@[reducible] def stERR : Byte := 33   -- '!'  unlink failed

@[reducible] def PIDDIR : Bytes := [112, 105, 100, 47]   -- "pid/"
@[reducible] def DOT1 : Bytes := [46]                     -- "."
@[reducible] def DOT2 : Bytes := [46, 46]                 -- ".."

/-- `#define OSSIFIED 129600` of qmail-clean.c (translator: `Gen/Consts`) -/
def OSSIFIED : Nat := Nq.Gen.OSSIFIED_clean

inductive Ev
  | unlink (path : Bytes)
  | status (b : Byte)
  | cleanup                 -- `cleanuppid()`: opendir("pid")
  | cleanupEnd              -- `cleanuppid()`: closedir (only if the opendir succeeded)
  deriving DecidableEq, Repr

/-- one entry of `pid/` as `readdir` + `stat("pid/<name>")` present it: its name and, if `stat`
succeeds, its access time -/
structure PidEnt where
  name : Bytes
  atime : Option Nat
  deriving DecidableEq, Repr

/-- what one call of `cleanuppid()` sees: `now()` and the directory (`none`: `opendir` fails) -/
structure Scan where
  now : Nat := 0
  ents : Option (List PidEnt) := none
  deriving DecidableEq, Repr

/-- the `while ((d = readdir(dir)))` loop of `cleanuppid()`: the paths it unlinks, in order -/
def pidUnlinks (now : Nat) : List PidEnt → List Bytes
  | [] => []
  | e :: r =>
      if e.name = DOT1 ∨ e.name = DOT2 then pidUnlinks now r
      else match e.atime with
        | none => pidUnlinks now r                       -- `if (stat(line.s,&st) == -1) continue;`
        | some t =>
            if now < t + OSSIFIED then pidUnlinks now r  -- `if (time < st.st_atime + OSSIFIED) continue;`
            else (PIDDIR ++ e.name) :: pidUnlinks now r

/-- `cleanuppid()` -/
def cleanuppid (sc : Scan) : List Ev :=
  .cleanup :: (match sc.ents with
    | none => []
    | some es => (pidUnlinks sc.now es).map .unlink ++ [.cleanupEnd])

/-- the `U(prefix,flag)` macro applied to a list of file names: unlink each in turn; an `unlink`
failing with anything but ENOENT answers '!' and skips the rest (`continue`); after the last one
answer '+'.  Returns the events and the unused part of the plan. -/
def unlinks : List Bytes → List Nat → List Ev × List Nat
  | [], plan => ([.status stOK], plan)
  | p :: ps, plan =>
      let r := plan.headD 0
      if r = 0 ∨ r = 1 then
        let res := unlinks ps plan.tail
        (.unlink p :: res.1, res.2)
      else ([.unlink p, .status stERR], plan.tail)

/-- the files named by a request that passed validation -/
def targets (pfx : Bytes) (id : Nat) : Option (List Bytes) :=
  if pfx = FOOP then some [fmtqfn INTD id false, fmtqfn MESS id true]
  else if pfx = TODO then some [fmtqfn INTD id false, fmtqfn TODO id false]
  else none

/-- body of the request loop for one line (`line` includes its final byte, normally NUL) -/
def handleReq (line : Bytes) (plan : List Nat) : List Ev × List Nat :=
  if line.length < 7 then ([.status stX], plan)
  else if line.length > 100 then ([.status stX], plan)
  else if line.getLast? ≠ some 0 then ([.status stX], plan)
  else
    let ds := (line.drop 5).dropLast
    if !ds.all isDigit then ([.status stX], plan)
    else
      let id := scanUlong ds
      if fmtUlong id ≠ ds then ([.status stX], plan)
      else match targets (line.take 5) id with
        | some ps => unlinks ps plan
        | none => ([.status stX], plan)

/-- split the stream at NULs as `getln` does: complete lines (terminator included); an
unterminated tail is dropped (`if (!match) break`) -/
def splitReqs : Bytes → Bytes → List Bytes
  | _, [] => []
  | cur, c :: rest => if c = 0 then (cur ++ [0]) :: splitReqs [] rest else splitReqs (cur ++ [c]) rest

/-- `if (cleanuploop) --cleanuploop; else { cleanuppid(); cleanuploop = 30; }`; `scans` = what the
calls of `cleanuppid()` still to come will see (none left: `opendir` fails) -/
def housekeeping (cl : Nat) (scans : List Scan) : List Ev := if cl = 0 then cleanuppid (scans.headD {}) else []
def nextScans (cl : Nat) (scans : List Scan) : List Scan := if cl = 0 then scans.tail else scans
def nextLoop (cl : Nat) : Nat := if cl = 0 then 30 else cl - 1

/-- the whole program on the list of complete requests; the last iteration is the `getln` that
meets end of input -/
def runReqs : Nat → List Bytes → List Nat → List Scan → List Ev
  | cl, [], _, scans => housekeeping cl scans
  | cl, l :: ls, plan, scans =>
      housekeeping cl scans ++ (handleReq l plan).1 ++ runReqs (nextLoop cl) ls (handleReq l plan).2 (nextScans cl scans)

def run (input : Bytes) (plan : List Nat) (scans : List Scan := []) : List Ev :=
  runReqs 0 (splitReqs [] input) plan scans

def statuses : List Ev → Bytes
  | [] => []
  | .status b :: r => b :: statuses r
  | _ :: r => statuses r

def paths : List Ev → List Bytes
  | [] => []
  | .unlink p :: r => p :: paths r
  | _ :: r => paths r

end Nq.Clean
