/-
  Nq.Pop3 — executable model of qmail-pop3d.c (with maildir.c, prioq.c, commands.c) and of
  qmail-popup.c.  Core Lean only.

  Correspondence with the C (function by function):

    scanUlong        scan_ulong.c            (unsigned long arithmetic wraps modulo 2^64)
    pqInsert/pqDelmin prioq.c                (array heap; ties are broken by the heap shape)
    cleanTmp         maildir.c maildir_clean (tmp/ files not accessed for 36 hours are removed)
    scanDir/scanAll  maildir.c append/maildir_scan (readdir order; dot files skipped; mtime < now)
    getlist          qmail-pop3d.c getlist   (heap drained into m[0..numm))
    getlns           getln.c iterated over one file: (line without LF, match flag)
    blastLoop/blast  qmail-pop3d.c blast
    msgno            qmail-pop3d.c msgno (with or without the test of what follows the digits)
    exec             the handler table pop3commands[] and the handlers pop3_*
    parseLine        commands.c: one command line -> (verb, argument)
    feed/run         commands.c byte loop over descriptor 0, and main()
    Popup.*          qmail-popup.c
-/
import Nq.Basic
import Nq.Gen.Pop3Tab

namespace Nq.Pop3
open Nq

/-! ### small helpers -/

@[reducible] def COLON : Byte := 58

def U64 : Nat := 18446744073709551616
def INT_MAX : Nat := 2147483647
def U32 : Nat := 4294967296

def okLine : Bytes := [43, 79, 75, 32, 13, 10]                      -- "+OK \r\n"
def okSp : Bytes := [43, 79, 75, 32]                               -- "+OK "
def errSp : Bytes := [45, 69, 82, 82, 32]                          -- "-ERR "
def errLine (s : String) : Bytes := errSp ++ str s ++ [CR, LF]
def newSl : Bytes := [110, 101, 119, 47]                           -- "new/"
def curSl : Bytes := [99, 117, 114, 47]                            -- "cur/"
def tmpSl : Bytes := [116, 109, 112, 47]                           -- "tmp/"
def seenSuffix : Bytes := [58, 50, 44]                             -- ":2,"

/-- the verbs of the two command tables, as bytes -/
def vQuit : Bytes := [113, 117, 105, 116]
def vStat : Bytes := [115, 116, 97, 116]
def vList : Bytes := [108, 105, 115, 116]
def vUidl : Bytes := [117, 105, 100, 108]
def vDele : Bytes := [100, 101, 108, 101]
def vRetr : Bytes := [114, 101, 116, 114]
def vRset : Bytes := [114, 115, 101, 116]
def vLast : Bytes := [108, 97, 115, 116]
def vTop  : Bytes := [116, 111, 112]
def vNoop : Bytes := [110, 111, 111, 112]
def vUser : Bytes := [117, 115, 101, 114]
def vPass : Bytes := [112, 97, 115, 115]
def vApop : Bytes := [97, 112, 111, 112]

/-- the number scanner used by msgno() and pop3_top(): (value, number of digits consumed).
`scan_ulong` computes in unsigned long, i.e. modulo 2^64; the repaired source uses a scanner that
saturates at ULONG_MAX instead. Which one the current source calls is read from it by the
translator (`Gen.Pop3Tab.scanSaturates`). -/
def scanWith (saturates : Bool) (s : Bytes) : Nat × Nat :=
  let ds := s.takeWhile isDigit
  (if saturates then min (decVal ds) (U64 - 1) else decVal ds % U64, ds.length)

def scanUlong (s : Bytes) : Nat × Nat := scanWith Gen.Pop3Tab.scanSaturates s

/-- `case_equals(text, verb)` for a lower-case table entry without NUL -/
def verbIs (text : Bytes) (verb : Bytes) : Bool := lower verb == text

/-! ### prioq.c — array heap over (dt, id) -/

structure Elt where
  dt : Nat
  id : Nat
  deriving DecidableEq, Repr, Inhabited

def eltAt (a : List Elt) (i : Nat) : Elt := a.getD i ⟨0, 0⟩

/-- the `while (j)` loop of prioq_insert; `a` already has length len+1 -/
def siftUp : Nat → List Elt → Nat → Elt → List Elt
  | 0, a, j, pe => a.set j pe
  | f + 1, a, j, pe =>
    if j = 0 then a.set 0 pe
    else
      let i := (j - 1) / 2
      if (eltAt a i).dt ≤ pe.dt then a.set j pe
      else siftUp f (a.set j (eltAt a i)) i pe

def pqInsert (pq : List Elt) (pe : Elt) : List Elt :=
  siftUp (pq.length + 1) (pq ++ [pe]) pq.length pe

/-- the `for (;;)` loop of prioq_delmin; `n` = new length, returns the final hole index -/
def siftDown : Nat → List Elt → Nat → Nat → List Elt × Nat
  | 0, a, i, _ => (a, i)
  | f + 1, a, i, n =>
    let j := i + i + 2
    if j > n then (a, i)
    else
      let j := if (eltAt a (j - 1)).dt ≤ (eltAt a j).dt then j - 1 else j
      if (eltAt a n).dt ≤ (eltAt a j).dt then (a, i)
      else siftDown f (a.set i (eltAt a j)) j n

def pqDelmin (pq : List Elt) : List Elt :=
  match pq.length with
  | 0 => pq
  | n + 1 =>
    let r := siftDown (n + 2) pq 0 n
    (r.1.set r.2 (eltAt pq n)).take n

/-- drain the heap in prioq_min / prioq_delmin order -/
def pqDrain : Nat → List Elt → List Elt
  | 0, _ => []
  | f + 1, pq =>
    match pq with
    | [] => []
    | e :: _ => e :: pqDrain f (pqDelmin pq)

/-! ### the maildir on disk -/

/-- a directory entry. `path` is relative to the maildir ("new/x", "cur/x:2,S", "tmp/y") -/
structure File where
  path : Bytes
  data : Bytes
  mtime : Nat
  atime : Nat
  deriving DecidableEq, Repr

/-- the maildir: entries in `readdir` order (new/, cur/, tmp/ interleaved arbitrarily; only the
relative order inside one directory matters) -/
abbrev FS := List File

def fsFind (fs : FS) (p : Bytes) : Option File := fs.find? (fun f => f.path == p)
def fsUnlink (fs : FS) (p : Bytes) : FS := fs.filter (fun f => f.path != p)
/-- rename(2): replaces an existing target; a missing source is an error without effect -/
def fsRename (fs : FS) (a b : Bytes) : FS :=
  match fsFind fs a with
  | none => fs
  | some f => if a == b then fs else (fsUnlink fs b).map (fun g => if g.path == a then { f with path := b } else g)

def inDir (dir : Bytes) (f : File) : Bool := f.path.take 4 == dir
def baseName (f : File) : Bytes := f.path.drop 4

/-- maildir_clean: tmp/ entries not starting with '.' whose atime is older than 36 hours -/
def cleanTmp (now : Nat) (fs : FS) : FS :=
  fs.filter (fun f => !(inDir tmpSl f && (baseName f).head? != some DOT && now > f.atime + Gen.Pop3Tab.tmpMaxAge))

/-- maildir.c append(): every non-dot entry is appended to `filenames`; those with
`st_mtime < time` enter the heap with id = index into `filenames` -/
def scanDir (now : Nat) : List File → List Bytes → List Elt → List Bytes × List Elt
  | [], names, pq => (names, pq)
  | f :: rest, names, pq =>
    if (baseName f).head? = some DOT then scanDir now rest names pq
    else
      let pq' := if f.mtime < now then pqInsert pq ⟨f.mtime, names.length⟩ else pq
      scanDir now rest (names ++ [f.path]) pq'

structure Msg where
  fn : Bytes
  size : Nat
  del : Bool
  deriving DecidableEq, Repr

/-- maildir_scan(&pq,&filenames,1,1) followed by the loop of getlist() -/
def getlist (now : Nat) (fs : FS) : List Msg :=
  let r1 := scanDir now (fs.filter (inDir newSl)) [] []
  let r2 := scanDir now (fs.filter (inDir curSl)) r1.1 r1.2
  (pqDrain r2.2.length r2.2).map (fun e =>
    let fn := r2.1.getD e.id []
    { fn := fn, size := match fsFind fs fn with | some f => f.data.length | none => 0, del := false })

/-! ### blast() -/

/-- getln(ss,&line,&match,'\n') iterated to the end of the file: each line without its LF and
whether it was terminated (`match`). `cur` is the current line, reversed. -/
def getlns : Bytes → Bytes → List (Bytes × Bool)
  | cur, [] => if cur = [] then [] else [(cur.reverse, false)]
  | cur, c :: rest => if c = LF then (cur.reverse, true) :: getlns [] rest else getlns (c :: cur) rest

/-- the `for (;;)` loop of blast() over the lines getln returns -/
def blastLoop : Nat → Bool → List (Bytes × Bool) → Bytes
  | _, _, [] => []
  | limit, inh, (l, mt) :: rest =>
    if limit ≠ 0 ∧ inh = false ∧ limit = 1 then []
    else
      let limit' := if limit ≠ 0 ∧ inh = false then limit - 1 else limit
      let inh' := if l = [] then false else inh
      (if l.head? = some DOT then [DOT] else []) ++ l ++ [CR, LF] ++
        (if mt then blastLoop limit' inh' rest else [])

def blastEnd : Bytes := [CR, LF, DOT, CR, LF]

def blast (limit : Nat) (data : Bytes) : Bytes := blastLoop limit true (getlns [] data) ++ blastEnd

/-! ### session state and handlers -/

structure Sess where
  msgs : List Msg
  last : Nat
  fs : FS
  deriving Repr

inductive MsgNo
  | ok (i : Nat)
  | err (reply : Bytes)

/-- msgno(): is the digit run followed by something other than the end of the argument or a space?
(`arg[len] && arg[len] != ' '`; the argument is a C string, it holds no NUL.) The source before the
repair ignored what follows the digits; which one the current source does is read from it by the
translator (`Gen.Pop3Tab.msgnoStrict`). -/
def junkAfterWith (strict : Bool) (arg : Bytes) (pos : Nat) : Bool :=
  strict && (match arg.drop pos with
    | [] => false
    | c :: _ => c != SP)

def junkAfter (arg : Bytes) (pos : Nat) : Bool := junkAfterWith Gen.Pop3Tab.msgnoStrict arg pos

def msgno (s : Sess) (arg : Bytes) : MsgNo :=
  let (u, pos) := scanUlong arg
  if pos = 0 ∨ junkAfter arg pos = true then .err (errLine "syntax error")
  else if u = 0 then .err (errLine "messages are counted from 1")
  else if u - 1 ≥ s.msgs.length ∨ u - 1 ≥ INT_MAX then .err (errLine "not that many messages")
  else match s.msgs[u - 1]? with
    | some m => if m.del then .err (errLine "already deleted") else .ok (u - 1)
    | none => .err (errLine "not that many messages")

/-- printfn(): the file name after "new/" or "cur/" up to the first ':' -/
def uidOf (fn : Bytes) : Bytes := (fn.drop 4).takeWhile (· ≠ COLON)

def listLine (i : Nat) (m : Msg) (uidl : Bool) : Bytes :=
  fmtNat (i + 1) ++ [SP] ++ (if uidl then uidOf m.fn else fmtNat m.size) ++ [CR, LF]

def listAll (uidl : Bool) : Nat → List Msg → Bytes
  | _, [] => []
  | i, m :: rest => (if m.del then [] else listLine i m uidl) ++ listAll uidl (i + 1) rest

/-- m[i].flagdeleted = 1 -/
def setDel : List Msg → Nat → List Msg
  | [], _ => []
  | m :: rest, 0 => { m with del := true } :: rest
  | m :: rest, i + 1 => m :: setDel rest i

/-- pop3_quit's loop: (file system, replies written) -/
def quitLoop : List Msg → FS → Bytes → FS × Bytes
  | [], fs, out => (fs, out)
  | m :: rest, fs, out =>
    if m.del then
      match fsFind fs m.fn with
      | some _ => quitLoop rest (fsUnlink fs m.fn) out
      | none => quitLoop rest fs (out ++ errLine "unable to unlink all deleted messages")
    else if m.fn.take 4 == newSl then
      quitLoop rest (fsRename fs m.fn (curSl ++ m.fn.drop 4 ++ seenSuffix)) out
    else quitLoop rest fs out

/-- the limit pop3_top hands to blast(): second number + 1 (wrapping), 0 when absent -/
def topLimit (arg : Bytes) : Nat :=
  let a2 := (arg.drop (scanUlong arg).2).dropWhile (· = SP)
  if (scanUlong a2).2 ≠ 0 then ((scanUlong a2).1 + 1) % U64 else 0

/-- the limit dotop() hands to blast(): RETR (flagtop = 0) never limits; TOP as `topLimit`. Before the
repair RETR shared pop3_top() with TOP (`Gen.Pop3Tab.retrWhole = false`). -/
def limitWith (retrWhole : Bool) (verb arg : Bytes) : Nat :=
  if retrWhole = true ∧ verbIs vTop verb = false then 0 else topLimit arg

def limitFor (verb arg : Bytes) : Nat := limitWith Gen.Pop3Tab.retrWhole verb arg

/-- one dispatched command: new state, bytes written to descriptor 1, exit code if the process ends -/
def exec (s : Sess) (verb arg : Bytes) : Sess × Bytes × Option Nat :=
  if verbIs vQuit verb then
    let r := quitLoop s.msgs s.fs []
    ({ s with fs := r.1 }, r.2 ++ okLine, some 0)
  else if verbIs vStat verb then
    let total := (s.msgs.foldl (fun t m => if m.del then t else (t + m.size) % U64) 0)
    (s, okSp ++ fmtNat (s.msgs.length % U32) ++ [SP] ++ fmtNat total ++ [CR, LF], none)
  else if verbIs vList verb ∨ verbIs vUidl verb then
    let uidl := verbIs vUidl verb
    if arg ≠ [] then
      match msgno s arg with
      | .err r => (s, r, none)
      | .ok i => match s.msgs[i]? with
        | some m => (s, okSp ++ listLine i m uidl, none)
        | none => (s, [], none)
    else (s, okLine ++ listAll uidl 0 s.msgs ++ [DOT, CR, LF], none)
  else if verbIs vDele verb then
    match msgno s arg with
    | .err r => (s, r, none)
    | .ok i => ({ s with msgs := setDel s.msgs i, last := if i + 1 > s.last then i + 1 else s.last }, okLine, none)
  else if verbIs vRetr verb ∨ verbIs vTop verb then
    match msgno s arg with
    | .err r => (s, r, none)
    | .ok i => match s.msgs[i]? with
      | none => (s, [], none)
      | some m => match fsFind s.fs m.fn with
        | none => (s, errLine "unable to open that message", none)
        | some f => (s, okLine ++ blast (limitFor verb arg) f.data, none)
  else if verbIs vRset verb then
    ({ s with msgs := s.msgs.map (fun m => { m with del := false }), last := 0 }, okLine, none)
  else if verbIs vLast verb then
    (s, okSp ++ fmtNat s.last ++ [CR, LF], none)
  else if verbIs vNoop verb then (s, okLine, none)
  else (s, errLine "unimplemented", none)

/-- commands.c: the line (without its LF) → (verb, argument). One trailing CR is dropped; the C
string operations stop at the first NUL. -/
def parseLine (line : Bytes) : Bytes × Bytes :=
  let l1 := if line.getLast? = some CR then line.dropLast else line
  let l2 := l1.takeWhile (· ≠ NUL)
  (l2.takeWhile (· ≠ SP), (l2.dropWhile (· ≠ SP)).dropWhile (· = SP))

/-! ### the byte loop of commands() and main() -/

/-- what happens outside the server during a session -/
inductive Ev
  | data (b : Bytes)      -- bytes arriving on descriptor 0
  | vanish (p : Bytes)    -- somebody else removes a file from the maildir
  deriving Repr

structure Run where
  s : Sess
  cmd : Bytes := []          -- the current command line, reversed
  out : Bytes := []          -- everything written to descriptor 1, reversed chunks appended
  exit : Option Nat := none
  deriving Repr

def feedByte (r : Run) (c : Byte) : Run :=
  match r.exit with
  | some _ => r
  | none =>
    if c = LF then
      let (verb, arg) := parseLine r.cmd.reverse
      let (s', o, e) := exec r.s verb arg
      { s := s', cmd := [], out := r.out ++ o, exit := e }
    else { r with cmd := c :: r.cmd }

def feedEv (r : Run) : Ev → Run
  | .data b => b.foldl feedByte r
  | .vanish p => match r.exit with
    | some _ => r
    | none => { r with s := { r.s with fs := fsUnlink r.s.fs p } }

theorem feedEv_data (r : Run) (b : Bytes) : feedEv r (.data b) = b.foldl feedByte r := rfl
theorem feedEv_vanish (r : Run) (p : Bytes) : feedEv r (.vanish p) =
    match r.exit with
    | some _ => r
    | none => { r with s := { r.s with fs := fsUnlink r.s.fs p } } := rfl

/-- the result of a whole run of main(): bytes on descriptor 1, bytes on descriptor 2, exit code,
maildir afterwards -/
structure Result where
  out : Bytes
  err : Bytes
  code : Nat
  fs : FS
  deriving Repr

def rootMsg : Bytes := str "qmail-pop3d invoked as uid 0, terminating\n"

/-- main(): `uid` = getuid(), `havedir` = argv[1] names a directory we can chdir to -/
def main (uid : Nat) (havedir : Bool) (now : Nat) (fs : FS) (evs : List Ev) : Result :=
  if uid = 0 then { out := [], err := rootMsg, code := 1, fs := fs }
  else if !havedir then { out := errLine "this user has no $HOME/Maildir", err := [], code := 0, fs := fs }
  else
    let fs1 := cleanTmp now fs
    let s0 : Sess := { msgs := getlist now fs1, last := 0, fs := fs1 }
    let r := evs.foldl feedEv { s := s0, out := okLine }
    -- end of input: commands() returns, die() = _exit(0)
    { out := r.out, err := [], code := 0, fs := r.s.fs }

/-! ### qmail-popup.c -/

namespace Popup

structure PSt where
  seenuser : Bool := false
  username : Bytes := []
  deriving Repr

/-- what doanddie() is called with -/
structure Auth where
  user : Bytes
  pass : Bytes
  deriving Repr, DecidableEq

/-- `unique` = "<pid>.<now>@" -/
def unique (pid now : Nat) : Bytes := fmtNat pid ++ [DOT] ++ fmtNat now ++ [AT]

def greeting (pid now : Nat) (host : Bytes) : Bytes :=
  okSp ++ [60] ++ unique pid now ++ host ++ [62, CR, LF]

/-- the bytes doanddie() writes to the pipe that is the checker's descriptor 3 -/
def fd3 (pid now : Nat) (host : Bytes) (a : Auth) : Bytes :=
  a.user ++ [NUL] ++ a.pass ++ [NUL] ++ [60] ++ unique pid now ++ host ++ [62, NUL]

/-- one dispatched command: state, reply, and either an exit or a doanddie() call -/
inductive Act
  | cont
  | exit (code : Nat)
  | auth (a : Auth)
  deriving Repr

def pexec (s : PSt) (verb arg : Bytes) : PSt × Bytes × Act :=
  if verbIs vUser verb then
    if arg = [] then (s, errLine "syntax error", .cont)
    else ({ seenuser := true, username := arg }, okLine, .cont)
  else if verbIs vPass verb then
    if !s.seenuser then (s, errLine "USER first", .cont)
    else if arg = [] then (s, errLine "syntax error", .cont)
    else (s, [], .auth ⟨s.username, arg⟩)
  else if verbIs vApop verb then
    let u := arg.takeWhile (· ≠ SP)
    let rest := arg.dropWhile (· ≠ SP)
    match rest with
    | [] => (s, errLine "syntax error", .cont)
    | _ :: p => (s, [], .auth ⟨u, p⟩)
  else if verbIs vQuit verb then (s, okLine, .exit 1)
  else if verbIs vNoop verb then (s, okLine, .cont)
  else (s, errLine "authorization first", .cont)

structure PRun where
  s : PSt := {}
  cmd : Bytes := []
  out : Bytes := []
  act : Act := .cont

def pfeedByte (r : PRun) (c : Byte) : PRun :=
  match r.act with
  | .cont =>
    if c = LF then
      let (verb, arg) := parseLine r.cmd.reverse
      let (s', o, a) := pexec r.s verb arg
      { s := s', cmd := [], out := r.out ++ o, act := a }
    else { r with cmd := c :: r.cmd }
  | _ => r

/-- how the subprogram ended -/
inductive Child
  | exited (code : Nat)
  | crashed
  deriving Repr

structure PResult where
  out : Bytes
  fd3 : Option Bytes      -- `none`: the subprogram was never started
  code : Nat
  deriving Repr

/-- what happens once the command loop has stopped. After doanddie() the process always exits 1. -/
def pfinish (pid now : Nat) (host : Bytes) (child : Child) (r : PRun) : PResult :=
  match r.act with
  | .cont => { out := r.out, fd3 := none, code := 1 }
  | .exit c => { out := r.out, fd3 := none, code := c }
  | .auth a =>
    { out := r.out ++ (match child with
        | .crashed => errLine "aack, child crashed"
        | .exited 0 => []
        | .exited _ => errLine "authorization failed"),
      fd3 := some (fd3 pid now host a), code := 1 }

/-- main() with both arguments present -/
def pmain (pid now : Nat) (host : Bytes) (child : Child) (input : Bytes) : PResult :=
  pfinish pid now host child (input.foldl pfeedByte { out := greeting pid now host })

end Popup

end Nq.Pop3
