/-
  Nq.HopCount — the hop count of a message header, specified line by line, independently of the
  `pos / flagmaybex / flagmaybey / flagmaybez / flaginheader` scanner inside qmail-smtpd.c `blast()`
  (that scanner is `Nq.SmtpIn.hstep`, a Mealy machine over the bytes `blast()` consumes).

  Specification (qmail-smtpd.8 "counts hops"; DESIGN.md C05_hops): split the text at LF; the header is
  every line before the first empty line (a line consisting of CR only, i.e. "\r\n" on the wire); a line is
  a hop if its first 8 bytes are "received" or its first 9 bytes are "delivered", ignoring ASCII case.
  Only qmail-smtpd counts hops (qmail-qmtpd and qmail-qmqpd do not: no occurrence of `hops`/`MAXHOPS`).

  Core Lean only.
-/
import Nq.Basic
import Nq.SmtpIn

namespace Nq.HopCount
open Nq

/-- the lines of a text: the maximal LF-free pieces, without their LF; `k` LFs give `k+1` lines (the last
one is what follows the last LF and may be empty) -/
def lines : Bytes → List Bytes
  | [] => [[]]
  | c :: r =>
    if c = LF then [] :: lines r
    else match lines r with
      | [] => [[c]]
      | l :: ls => (c :: l) :: ls

def kwReceived : Bytes := [114, 101, 99, 101, 105, 118, 101, 100]          -- "received"
def kwDelivered : Bytes := [100, 101, 108, 105, 118, 101, 114, 101, 100]   -- "delivered"

/-- the first `|kw|` bytes of the line equal `kw` (a lower-case word) ignoring ASCII case -/
def startsCI (kw line : Bytes) : Bool := lower (line.take kw.length) == kw

def isHop (line : Bytes) : Bool := startsCI kwReceived line || startsCI kwDelivered line

/-- the header: the lines before the first empty line (`CR` alone between two LFs) -/
def header (ls : List Bytes) : List Bytes := ls.takeWhile (fun l => l != [CR])

/-- **the hop count of a text** -/
def hopSpec (text : Bytes) : Nat := ((header (lines text)).filter isHop).length

end Nq.HopCount
