/-
  Nq.Trigger — the wake-up protocol between qmail-queue (`link todo/<n>`, then `triggerpull()`:
  open the FIFO for writing non-blocking, write one byte, close) and qmail-send (`todo_do`:
  `trigger_set()` = close and reopen the FIFO for reading, *then* `opendir("todo")`, `readdir`…).

  An acceptor over the interleaved system calls of any number of injectors and the daemon.
  FIFO semantics as in DESIGN.md §1.4: opening for writing fails (ENXIO) iff no reader has it open;
  a write with no reader fails (EPIPE); a written byte makes the FIFO readable until the last
  descriptor is closed; qmail-send never reads the byte.  The periodic 25-minute rescan is *not* part
  of the model, so that "noticed without waiting for it" can be stated.
-/
import Nq.Basic

namespace Nq.Trigger

/-- control point of the injector of message `n` -/
inductive IPc
  | start                 -- before `link(intd/n, todo/n)`
  | linked                -- todo/n exists; about to open the trigger
  | opened                -- has the FIFO open for writing
  | wrote                 -- wrote its byte (or got EPIPE); about to close
  | finished              -- done (closed, or the open failed with ENXIO)
  deriving DecidableEq, Repr

/-- control point of the daemon -/
inductive DPc
  | idle                  -- outside a todo scan (in or around `select`)
  | closed                -- inside `trigger_set()`: old descriptor closed, not yet reopened
  | reopened              -- `trigger_set()` done, before `opendir("todo")`
  | scanning (rem : List Nat)   -- directory stream open; `rem` = entries it will still return
  deriving DecidableEq, Repr

structure St where
  todo : List Nat := []            -- entries in todo/ not yet processed
  pc : Nat → IPc := fun _ => .start
  dOpen : Bool := false            -- the daemon has the FIFO open for reading
  writers : Nat := 0               -- injectors that have it open for writing
  buf : Bool := false              -- the FIFO is readable
  d : DPc := .closed               -- at start-up the daemon has not opened the FIFO yet

def upd (f : Nat → IPc) (n : Nat) (v : IPc) : Nat → IPc := fun k => if k = n then v else f k

inductive Ev
  | iLink (n : Nat)
  | iOpen (n : Nat) (ok : Bool)
  | iWrite (n : Nat) (ok : Bool)
  | iClose (n : Nat)
  | dClose | dOpen | dOpendir
  | dSeeNew (n : Nat)              -- readdir reports an entry linked after opendir (POSIX leaves this open)
  | dRead (n : Nat)                -- readdir returns n and todo_do processes it
  | dEnd                           -- readdir returns NULL, closedir
  deriving DecidableEq, Repr

def accept (s : St) : Ev → Option St
  | .iLink n =>
    if s.pc n = .start ∧ n ∉ s.todo then some { s with pc := upd s.pc n .linked, todo := n :: s.todo } else none
  | .iOpen n ok =>
    if s.pc n = .linked ∧ ok = s.dOpen then
      some (if ok then { s with pc := upd s.pc n .opened, writers := s.writers + 1 } else { s with pc := upd s.pc n .finished })
    else none
  | .iWrite n ok =>
    if s.pc n = .opened ∧ ok = s.dOpen then
      some { s with pc := upd s.pc n .wrote, buf := s.buf || ok }
    else none
  | .iClose n =>
    if s.pc n = .wrote ∧ 0 < s.writers then
      some { s with pc := upd s.pc n .finished, writers := s.writers - 1,
                    buf := if s.writers = 1 ∧ !s.dOpen then false else s.buf }
    else none
  | .dClose =>
    match s.d with
    | .idle | .reopened => if s.dOpen then some { s with d := .closed, dOpen := false, buf := if s.writers = 0 then false else s.buf } else none
    | _ => none
  | .dOpen => if s.d = .closed then some { s with d := .reopened, dOpen := true } else none
  | .dOpendir => if s.d = .reopened then some { s with d := .scanning s.todo } else none
  | .dSeeNew n =>
    match s.d with
    | .scanning rem => if n ∈ s.todo ∧ n ∉ rem then some { s with d := .scanning (n :: rem) } else none
    | _ => none
  | .dRead n =>
    match s.d with
    | .scanning rem => if n ∈ rem then some { s with d := .scanning (rem.erase n), todo := s.todo.erase n } else none
    | _ => none
  | .dEnd =>
    match s.d with
    | .scanning rem => if rem = [] then some { s with d := .idle } else none
    | _ => none

def acceptAll : St → List Ev → Option St
  | s, [] => some s
  | s, e :: es => match accept s e with
    | some s' => acceptAll s' es
    | none => none

/-- the injector of `n` has completed its publish-then-signal sequence -/
def pulled (p : IPc) : Bool := p == .wrote || p == .finished

/-! ## the daemon's own steps (bounded-steps liveness, `C16_bounded`)

  `accept` is an acceptor: it also accepts a `dClose` that the 25-minute timer would cause.  The functions
  below single out the steps the daemon takes *on its own*: `trigger_set()`'s close happens only when select
  reported the FIFO readable (`idle` with `buf`), or once at start-up, where `todo_init()` has just opened
  the FIFO and the first `todo_do()` re-arms it before its first scan (`boot`). -/

def dAllowed (boot : Bool) (s : St) : Ev → Bool
  | .dClose => match s.d with
    | .idle => s.buf
    | .reopened => boot
    | _ => false
  | .dOpen => true
  | .dOpendir => true
  | .dSeeNew _ => true
  | .dRead _ => true
  | .dEnd => true
  | _ => false                      -- injector events are not the daemon's

/-- the start-up re-arm happens at most once -/
def bootAfter (boot : Bool) : Ev → Bool
  | .dClose => false
  | _ => boot

/-- a run of the daemon alone: no injector step, no timer -/
def drun : Bool → St → List Ev → Option St
  | _, s, [] => some s
  | boot, s, e :: es =>
    if dAllowed boot s e then
      match accept s e with
      | some s' => drun (bootAfter boot e) s' es
      | none => none
    else none

/-- the decreasing measure: an upper bound on the number of daemon steps before entry `n` is processed.
In a scan: one step per entry still to be read (`|todo|`), one per entry the stream has not reported yet
(`dSeeNew`), and — if `n` is not in the stream — closedir, the re-arm (close, open) and opendir of the next scan,
whose reads are already paid for by `|todo|`. -/
def phi (boot : Bool) (s : St) (n : Nat) : Nat :=
  match s.d with
  | .idle => 2 * s.todo.length + 2
  | .closed => 2 * s.todo.length + (if boot then 3 else 1)
  | .reopened => 2 * s.todo.length + (if boot then 2 else 0)
  | .scanning rem => s.todo.length + (s.todo.filter (fun x => !rem.contains x)).length + (if rem.contains n then 0 else 3)

/-- the step the code takes next (readdir order: head of the stream) -/
def dnext (s : St) : Option Ev :=
  match s.d with
  | .idle => if s.buf then some .dClose else none        -- otherwise it sleeps in select
  | .closed => some .dOpen
  | .reopened => some .dOpendir
  | .scanning [] => some .dEnd
  | .scanning (x :: _) => some (.dRead x)

/-- `k` steps of the daemon running alone -/
def dauto : Nat → St → St
  | 0, s => s
  | k + 1, s =>
    match dnext s with
    | none => s
    | some e =>
      match accept s e with
      | some s' => dauto k s'
      | none => s

end Nq.Trigger
