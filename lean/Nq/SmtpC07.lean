/-
  Nq.SmtpC07 — the whole qmail-smtpd connection for property C07: the command loop of C08
  (`Nq.SmtpSession`: `readLine`, `parseLine`, `sstep` = commands() + smtp_helo/ehlo/rset/mail/rcpt/quit/… with
  addrparse, badmailfrom, rcpthosts/RELAYCLIENT) composed with C07's model of smtp_data() (`Nq.Netstring.Smtp.data`:
  received(), blast(), put(), hop test, qmail_from / qmail_put(rcptto) / qmail_close) running on the model of qmail.c
  (`Nq.QmailC.QQ`, 1024-byte buffer, write faults) and the verdict switch of qmail_close.

    qmail-smtpd.c main(): commands(&ssin,&smtpcommands)        → `runFuel` / `run`
       smtp_helo / smtp_ehlo:  seenmail = 0; dohelo(arg)       → `sstep` + the `helo` argument threaded here
       smtp_mail / smtp_rcpt / smtp_rset / quit / help / …     → `sstep` (C08)
       smtp_data: the two 503 gates                            → `sstep` (.data, gates fail)
                  past the gates: qmail_open … qmail_close     → a `Txn`: `Smtp.data` on everything that follows the
                                                                  DATA line, `QQ.opened w` running its calls, the k-th
                                                                  scripted end of the queue program, `Smtp.reply`
       saferead → die_read on end of input, straynewline()     → the list of steps ends; `exitCode`
  One `Step` per command line; `out` is the reply stream.  Core Lean only.
-/
import Nq.Netstring
import Nq.SmtpSession
import Nq.Lemmas.C07Qq

namespace Nq.SmtpC07
open Nq Nq.QmailC Nq.Received Nq.Netstring Nq.SmtpSession

structure Cfg where
  pol : SmtpSession.Cfg            -- rcpthosts, morercpthosts, badmailfrom, localiphost, ipme, RELAYCLIENT, greeting, clock
  databytes : Nat := 0
  peer : Peer

/-- what smtp_data() sees of the configuration -/
def dcfg (cfg : Cfg) : Smtp.Cfg :=
  { databytes := cfg.databytes, relay := cfg.pol.relay, rcpthosts := none, peer := cfg.peer, now := cfg.pol.now }

/-- one run of the queue program: everything smtp_data() works with once it is past its two gates -/
structure Txn where
  helo : Option Bytes      -- argument of the last HELO/EHLO (`none`: setup()'s dohelo(remotehost))
  mailfrom : Bytes         -- `mailfrom` (without the final NUL)
  rcpts : List Bytes       -- the addresses in `rcptto`, in order
  stream : Bytes           -- every byte that follows the DATA line
  w : Option Nat           -- write-fault counter at qmail_open
  e : QEnd                 -- how this run of the queue program ends
  pid : Nat
  deriving Repr

def Txn.d (cfg : Cfg) (t : Txn) : Smtp.Data := Smtp.data (dcfg cfg) t.helo t.mailfrom (entries t.rcpts) t.stream
def Txn.q (cfg : Cfg) (t : Txn) : QmailC.QQ := (QmailC.QQ.opened t.w).run (t.d cfg).ops
/-- what qmail_close() returns -/
def Txn.qqx (cfg : Cfg) (t : Txn) : Bytes := (t.q cfg).verdict t.e
/-- the reply after the end of DATA -/
def Txn.reply (cfg : Cfg) (t : Txn) : Bytes := Smtp.reply (t.d cfg) (t.qqx cfg) cfg.pol.now t.pid

/-- how `blast()` ended, in C08's vocabulary -/
def Txn.blast (cfg : Cfg) (t : Txn) : BlastOut :=
  match (t.d cfg).stop with
  | none => .ok
  | some _ => if (t.d cfg).stray then .stray else .eof

/-- the DATA command of this transaction as C08's `sstep` sees it -/
def Txn.cmd (cfg : Cfg) (t : Txn) : Cmd := .data { openFails := false, blast := t.blast cfg, close := t.qqx cfg }

/-- everything written between "DATA" and the next command -/
def Txn.bytes (cfg : Cfg) (t : Txn) : Bytes :=
  Gen.txt_data_go ++
  (match (t.d cfg).stop with
   | none => t.reply cfg
   | some _ => if (t.d cfg).stray then Gen.txt_straynewline else [])

structure Step where
  ev : Cmd × Out              -- the command and its outcome in C08's vocabulary
  txn : Option Txn := none    -- the queue run, for a DATA that passed the gates
  deriving Repr

/-- a line that is not a DATA passing the gates (qmail_open is assumed to succeed) -/
def plainCmd (v : Verb) (arg : Bytes) : Cmd :=
  match v with
  | .rcpt => .rcpt arg
  | .mail => .mail arg
  | .quit => .quit
  | .helo => .helo
  | .ehlo => .ehlo
  | .rset => .rset
  | .help => .help
  | .noop => .noop
  | .vrfy => .vrfy
  | .unimpl => .unimpl
  | .data => .data {}

def nextEnds (ends : List QEnd) : List QEnd := if ends.length > 1 then ends.tail else ends

/-- the command loop.  `helo`: dohelo()'s argument in force; `w`: writes to the queue pipes that still succeed;
    `ends` / `pids`: the coming runs of the queue program (last entry of `ends` repeats). -/
def runFuel (cfg : Cfg) : Nat → Sess → Option Bytes → Option Nat → List QEnd → List Nat → Bytes → List Step
  | 0, _, _, _, _, _, _ => []
  | n + 1, s, helo, w, ends, pids, inp =>
    match readLine inp with
    | none => []
    | some (l, rest) =>
      if (parseLine l).1 = .data ∧ dataGate s = true then
        let t : Txn := ⟨helo, s.mailfrom, s.rcptto, rest, w, ends.headD {}, pids.headD 0⟩
        ⟨(t.cmd cfg, (sstep cfg.pol s (t.cmd cfg)).2), some t⟩ ::
          (if (sstep cfg.pol s (t.cmd cfg)).2.halt then []
           else runFuel cfg n (sstep cfg.pol s (t.cmd cfg)).1 helo (t.q cfg).ss.wleft (nextEnds ends) pids.tail (t.d cfg).rest)
      else
        let c := plainCmd (parseLine l).1 (parseLine l).2
        let helo' := if (parseLine l).1 = .helo ∨ (parseLine l).1 = .ehlo then some (parseLine l).2 else helo
        ⟨(c, (sstep cfg.pol s c).2), none⟩ ::
          (if (sstep cfg.pol s c).2.halt then [] else runFuel cfg n (sstep cfg.pol s c).1 helo' w ends pids rest)

/-- the whole connection: every command consumes at least its LF -/
def run (cfg : Cfg) (w : Option Nat) (ends : List QEnd) (pids : List Nat) (inp : Bytes) : List Step :=
  runFuel cfg (inp.length + 1) {} none w ends pids inp

/-- the bytes one step writes -/
def Step.bytes (cfg : Cfg) (st : Step) : Bytes :=
  match st.txn with
  | some t => t.bytes cfg
  | none => st.ev.2.replies.flatMap (render cfg.pol)

/-- everything the client receives -/
def out (cfg : Cfg) (steps : List Step) : Bytes := banner cfg.pol ++ steps.flatMap (Step.bytes cfg)

/-- the queue runs of the connection, in order -/
def txns (steps : List Step) : List Txn := steps.filterMap (·.txn)

/-- exit status of the daemon: 0 after QUIT, 1 from die_read() / straynewline() -/
def exitCode (steps : List Step) : Nat :=
  match steps.getLast? with
  | some st => if st.ev.1 = .quit then 0 else 1
  | none => 1

/-- `250 ok <now> qp <pid>` -/
def ackLine (now pid : Nat) : Bytes := Smtp.sOk250 ++ fmtU now ++ Qmtp.sQp ++ fmtU pid ++ Smtp.crlf

/-- the transaction was acknowledged: DATA was terminated and the reply is the acknowledgement -/
def Txn.acked (cfg : Cfg) (t : Txn) : Bool := (t.d cfg).stop.isNone && (t.qqx cfg).isEmpty

end Nq.SmtpC07
