/-
  Nq.Users — executable model of the code that chooses the identity of a local delivery (property C11):

  * `newuLine` / `newuFile`  — qmail-newu.c main(): the per-line compiler of users/assign
  * `cdbMake`                — cdbmss.c + cdbmake_add.c: the bytes of users/cdb
  * `cdbSeek` / `cdbGet`     — cdb_seek.c (+ the cdb_bread of the data that follows it)
  * `findStruct`             — the same lookup on the structured (un-serialised) tables
  * `wildLoop` / `nughdeCdb` — qmail-lspawn.c nughde_get(): exact key, shrinking prefixes, empty prefix
  * `userext` / `getpwMain`  — qmail-getpw.c
  * `spawnChild`             — spawn.c docmd() split at the last '@' + qmail-lspawn.c spawn() child:
                               the list of privileged calls and the way the child ends
  * `reportByte`             — qmail-lspawn.c report() (table regenerated from the source on every run)
  Core Lean only.
-/
import Nq.Basic
import Nq.Gen.Consts
import Nq.Gen.LspawnReport

namespace Nq.Users
open Nq Nq.Gen.Lspawn

@[reducible] def BANG : Byte := 33
@[reducible] def COLON : Byte := 58
@[reducible] def PLUS : Byte := 43

/-! ## cdb: hashing, packing -/

/-- cdb_hash.c / cdbmake_hash.c: `h = (h + (h << 5)) ^ c`, 32 bits, from 5381 -/
def hashStep (h : UInt32) (c : Byte) : UInt32 := (h + (h <<< 5)) ^^^ c.toUInt32
def hashKey (k : Bytes) : UInt32 := k.foldl hashStep (UInt32.ofNat CDB_HASHSTART)

/-- cdbmake_pack.c: four bytes, little endian, of `n mod 2^32` -/
def pack (n : Nat) : Bytes :=
  [(n % 256).toUInt8, (n / 256 % 256).toUInt8, (n / 65536 % 256).toUInt8, (n / 16777216 % 256).toUInt8]

/-- cdb_unpack.c -/
def le32 (a b c d : Byte) : Nat := a.toNat + 256 * b.toNat + 65536 * c.toNat + 16777216 * d.toNat

/-! ## cdb: the writer (cdbmss_add / cdbmake_split / cdbmake_throw / cdbmss_finish) -/

/-- one record as the writer remembers it: hash, file position, and (for the structured view) key and data -/
structure Ent where
  h : UInt32
  pos : Nat
  key : Bytes
  data : Bytes
deriving Repr, BEq, DecidableEq

/-- the probe order of a table of `t.length` slots starting at slot `s`: `s, s+1, …, len-1, 0, …, s-1` -/
def rot {α} (t : List α) (s : Nat) : List α := t.drop s ++ t.take s
def unrot {α} (r : List α) (s : Nat) : List α := r.drop (r.length - s) ++ r.take (r.length - s)

/-- `while (hash[where].p) if (++where == len) where = 0; hash[where] = *hp`: fill the first free slot
    (in probe order; the caller rotates) -/
def fillFirst : List (Option Ent) → Ent → List (Option Ent)
  | [], _ => []
  | none :: r, e => some e :: r
  | some x :: r, e => some x :: fillFirst r e

/-- slot where probing starts: `(h >> 8) % len` -/
def home (h : UInt32) (len : Nat) : Nat := (h.toNat / 256) % len

def insertEnt (t : List (Option Ent)) (e : Ent) : List (Option Ent) :=
  unrot (fillFirst (rot t (home e.h t.length)) e) (home e.h t.length)

/-- cdbmake_throw for one of the 256 tables: `2*count` slots, records inserted in file order -/
def buildTable (l : List Ent) : List (Option Ent) :=
  l.foldl insertEnt (List.replicate (2 * l.length) none)

def bucket (h : UInt32) : Nat := h.toNat % 256

/-- cdbmss_add: records are laid out from offset 2048 on -/
def mkEnts : List (Bytes × Bytes) → Nat → List Ent
  | [], _ => []
  | (k, d) :: r, pos => ⟨hashKey k, pos, k, d⟩ :: mkEnts r (pos + 8 + k.length + d.length)

def recBytes (e : Ent) : Bytes := pack e.key.length ++ pack e.data.length ++ e.key ++ e.data

def slotBytes : Option Ent → Bytes
  | none => pack 0 ++ pack 0
  | some e => pack e.h.toNat ++ pack e.pos

def tableOf (ents : List Ent) (b : Nat) : List (Option Ent) :=
  buildTable (ents.filter (fun e => bucket e.h == b))

/-- header and tables for buckets `b, b+1, …` (`n` of them), the first table starting at `pos` -/
def finishFrom (ents : List Ent) : Nat → Nat → Nat → Bytes × Bytes
  | 0, _, _ => ([], [])
  | n + 1, b, pos =>
    let t := tableOf ents b
    let (hd, tb) := finishFrom ents n (b + 1) (pos + 8 * t.length)
    (pack pos ++ pack t.length ++ hd, t.flatMap slotBytes ++ tb)

/-- the bytes of the cdb file for the given (key, data) list (sizes assumed below 2^32) -/
def cdbMake (es : List (Bytes × Bytes)) : Bytes :=
  let ents := mkEnts es 2048
  let recs := ents.flatMap recBytes
  let (hd, tb) := finishFrom ents 256 0 (2048 + recs.length)
  hd ++ recs ++ tb

/-! ## cdb: the reader (cdb_seek.c) -/

inductive SeekRes
  | found (dpos dlen : Nat)
  | notFound
  | err
deriving Repr, BEq, DecidableEq

/-- `lseek` + `cdb_bread(fd,buf,8)`: fails when fewer than 8 bytes remain -/
def read8 (f : Bytes) (o : Nat) : Option (Nat × Nat) :=
  match f.drop o with
  | a :: b :: c :: d :: a' :: b' :: c' :: d' :: _ => some (le32 a b c d, le32 a' b' c' d')
  | _ => none

inductive MatchRes | yes | no | err
deriving Repr, BEq, DecidableEq

/-- `match()`: the key is compared in chunks of 32 bytes; a short chunk is a read error -/
def matchAt (f : Bytes) : Nat → Nat → Bytes → MatchRes
  | 0, _, _ => .yes
  | fuel + 1, off, key =>
    if key.isEmpty then .yes else
    let n := min 32 key.length
    let c := (f.drop off).take n
    if c.length = n then
      if c == key.take n then matchAt f fuel (off + n) (key.drop n) else .no
    else .err

def probe (f : Bytes) (key : Bytes) (h : Nat) (pos lenhash : Nat) : Nat → Nat → SeekRes
  | 0, _ => .notFound
  | fuel + 1, h2 =>
    match read8 f ((pos + 8 * h2) % 4294967296) with
    | none => .err
    | some (sh, poskd) =>
      if poskd = 0 then .notFound else
      let h2' := if h2 + 1 = lenhash then 0 else h2 + 1
      if sh = h then
        match read8 f poskd with
        | none => .err
        | some (kl, dl) =>
          if kl = key.length then
            match matchAt f (key.length + 1) (poskd + 8) key with
            | .err => .err
            | .yes => .found (poskd + 8 + key.length) dl
            | .no => probe f key h pos lenhash fuel h2'
          else probe f key h pos lenhash fuel h2'
      else probe f key h pos lenhash fuel h2'

def cdbSeek (f : Bytes) (key : Bytes) : SeekRes :=
  let h := (hashKey key).toNat
  match read8 f (8 * (h % 256)) with
  | none => .err
  | some (pos, lenhash) =>
    if lenhash = 0 then .notFound else probe f key h pos lenhash lenhash ((h / 256) % lenhash)

/-- result of looking a key up and reading its data -/
inductive Lk
  | found (d : Bytes)
  | notFound
  | err
deriving Repr, BEq, DecidableEq

/-- cdb_seek followed by cdb_bread of `dlen` bytes -/
def cdbGet (f : Bytes) (key : Bytes) : Lk :=
  match cdbSeek f key with
  | .found dpos dlen =>
    let d := (f.drop dpos).take dlen
    if d.length = dlen then .found d else .err
  | .notFound => .notFound
  | .err => .err

/-! ## the structured view of the same lookup (what `C11_cdb_roundtrip` is stated on) -/

def scan (k : Bytes) (h : UInt32) : List (Option Ent) → Option Bytes
  | [] => none
  | none :: _ => none
  | some e :: r => if e.h = h ∧ e.key = k then some e.data else scan k h r

/-- cdb_seek on the tables `cdbMake` serialises: select the table by `h & 255`, probe from `(h>>8) % len` -/
def findEnts (ents : List Ent) (k : Bytes) : Option Bytes :=
  let h := hashKey k
  let t := tableOf ents (bucket h)
  if t.length = 0 then none else scan k h (rot t (home h t.length))

def findStruct (es : List (Bytes × Bytes)) (k : Bytes) : Option Bytes := findEnts (mkEnts es 2048) k

/-- what the source list says: the data of the first pair with that key -/
def assocFind (es : List (Bytes × Bytes)) (k : Bytes) : Option Bytes :=
  match es with
  | [] => none
  | (k', d) :: r => if k' = k then some d else assocFind r k

/-! ## qmail-newu.c -/

/-- index of the first occurrence (`byte_chr`), `s.length` if absent -/
def byteChr (s : Bytes) (c : Byte) : Nat :=
  match s with
  | [] => 0
  | x :: r => if x = c then 0 else byteChr r c + 1

/-- the data loop: colons become NUL; stop at the 6th colon; `none` if there are fewer than six.
    `k` = colons still to be seen -/
def dataCut : Bytes → Nat → Option Bytes
  | _, 0 => some []
  | [], _ + 1 => none
  | c :: r, k + 1 =>
    if c = COLON then (if k = 0 then some [] else (dataCut r k).map (NUL :: ·))
    else (dataCut r (k + 1)).map (c :: ·)

structure Asg where
  wild : Bool
  /-- lower-cased address (simple) or prefix (wildcard) -/
  name : Bytes
  /-- user NUL uid NUL gid NUL home NUL dash NUL pre -/
  data : Bytes
deriving Repr, BEq, DecidableEq

/-- the cdb key of an assignment: `'!' name NUL` (simple), `'!' prefix` (wildcard) -/
def Asg.key (a : Asg) : Bytes := BANG :: (if a.wild then a.name else a.name ++ [NUL])

/-- one line of users/assign (without its LF): `none` = "bad format" -/
def newuLine (line : Bytes) : Option Asg :=
  if line.contains NUL then none else
  let i := byteChr line COLON
  if i = line.length then none else
  if i = 0 then none else
  match dataCut (line.drop (i + 1)) 6 with
  | none => none
  | some d => some ⟨line.head? == some PLUS, lower ((line.take i).drop 1), d⟩

/-- split off the first line: (line, found LF, rest) -/
def getln : Bytes → Bytes → Bytes × Bool × Bytes
  | [], acc => (acc.reverse, false, [])
  | c :: r, acc => if c = LF then (acc.reverse, true, r) else getln r (c :: acc)

/-- the main loop: `none` = die_format; otherwise the assignments before the dot line.
    `fuel` ≥ number of lines. -/
def newuLoop : Nat → Bytes → List Asg → Option (List Asg)
  | 0, _, _ => none
  | fuel + 1, inp, acc =>
    let (line, m, rest) := getln inp []
    if line.head? == some DOT then some acc.reverse else
    if !m then none else
    match newuLine line with
    | none => none
    | some a => newuLoop fuel rest (a :: acc)

def newuParse (assign : Bytes) : Option (List Asg) := newuLoop (assign.length + 1) assign []

/-- the wildcard break characters: last byte of every non-empty wildcard prefix (as stored, i.e.
    lower-cased), first occurrence order -/
def wildOf : List Asg → Bytes → Bytes
  | [], w => w
  | a :: r, w =>
    match (if a.wild then a.name.getLast? else none) with
    | some c => if w.contains c then wildOf r w else wildOf r (w ++ [c])
    | none => wildOf r w

def pairsOf (tbl : List Asg) : List (Bytes × Bytes) :=
  tbl.map (fun a => (a.key, a.data)) ++ [([], wildOf tbl [])]

/-- qmail-newu: users/assign ↦ users/cdb (`none`: fatal "bad format", no cdb is installed) -/
def newuFile (assign : Bytes) : Option Bytes := (newuParse assign).map (fun t => cdbMake (pairsOf t))

/-! ## qmail-lspawn.c nughde_get: the cdb part -/

inductive NgRes
  | hit (nughde : Bytes)
  | miss
  | exit (code : Nat)
deriving Repr, BEq, DecidableEq

/-- the do-while loop after the exact lookup; `n` = length of the prefix of `loc` being tried -/
def wildLoop (lk : Bytes → Lk) (wild : Bytes) (loc : Bytes) : Nat → NgRes
  | 0 =>
    match lk [BANG] with
    | .err => .exit QLX_CDB
    | .found d => .hit (d ++ loc ++ [NUL])
    | .notFound => .miss
  | n + 1 =>
    if wild.contains ((lower loc).getD n 0) then
      match lk (BANG :: (lower loc).take (n + 1)) with
      | .err => .exit QLX_CDB
      | .found d => .hit (d ++ loc.drop (n + 1) ++ [NUL])
      | .notFound => wildLoop lk wild loc n
    else wildLoop lk wild loc n

def nughdeLoop (lk : Bytes → Lk) (wild : Bytes) (loc : Bytes) : NgRes :=
  match lk (BANG :: lower loc ++ [NUL]) with
  | .err => .exit QLX_CDB
  | .found d => .hit (d ++ [NUL])
  | .notFound => wildLoop lk wild loc loc.length

/-- with users/cdb = `f` (`none`: the file does not exist) -/
def nughdeCdb (f : Option Bytes) (loc : Bytes) : NgRes :=
  match f with
  | none => .miss
  | some f =>
    match cdbGet f [] with
    | .found w => nughdeLoop (cdbGet f) w loc
    | _ => .exit QLX_CDB

/-! ## qmail-getpw.c -/

structure PwEnt where
  name : Bytes
  uid : Nat
  gid : Nat
  dir : Bytes
  /-- getpwnam fails with ETXTBSY -/
  busy : Bool
deriving Repr, BEq, DecidableEq

inductive StatRes
  | ok (owner : Nat)
  | gone        -- ENOENT, EACCES, …
  | temp        -- error_temp(errno)
deriving Repr, BEq, DecidableEq

structure PwDb where
  pws : List PwEnt
  dirs : List (Bytes × StatRes)
deriving Repr

def PwDb.getpwnam (db : PwDb) (n : Bytes) : Option PwEnt := db.pws.find? (fun e => e.name == n)
def PwDb.stat (db : PwDb) (p : Bytes) : StatRes :=
  match db.dirs.find? (fun e => e.1 == p) with
  | some e => e.2
  | none => .gone

inductive Ux
  | user (pw : PwEnt) (dash ext : Bytes)
  | exit (code : Nat)
  | none
deriving Repr, BEq, DecidableEq

def breakByte : Byte := (Nq.Gen.auto_break).toUInt8

/-- one iteration of the `for(;;)` in userext() with `extension = local + n`;
    `Ux.none` = fall through to the next (shorter) candidate -/
def userextAt (db : PwDb) (loc : Bytes) (n : Nat) : Ux :=
  if n < GETPW_USERLEN ∧ (n = loc.length ∨ loc.getD n 0 = breakByte) then
    match db.getpwnam (lower (loc.take n)) with
    | none => .none
    | some pw =>
      if pw.busy then .exit QLX_SYS else
      if pw.uid = 0 then .none else
      match db.stat pw.dir with
      | .ok owner =>
        if owner = pw.uid then
          (if n = loc.length then .user pw [] [] else .user pw [breakAscii] (loc.drop (n + 1)))
        else .none
      | .temp => .exit QLX_NFS
      | .gone => .none
  else .none
where breakAscii : Byte := 45

def userext (db : PwDb) (loc : Bytes) : Nat → Ux
  | 0 => userextAt db loc 0
  | n + 1 =>
    match userextAt db loc (n + 1) with
    | .none => userext db loc n
    | r => r

inductive GpwRes
  | out (b : Bytes)
  | exit (code : Nat)
deriving Repr, BEq, DecidableEq

/-- fmt_ulong: decimal digits, most significant first (`fuel` > number of digits) -/
def fmtDecAux : Nat → Nat → Bytes → Bytes
  | 0, _, acc => acc
  | fuel + 1, n, acc =>
    if n < 10 then (48 + n).toUInt8 :: acc else fmtDecAux fuel (n / 10) ((48 + n % 10).toUInt8 :: acc)
def fmtDec (n : Nat) : Bytes := fmtDecAux (n + 1) n []

def pwLine (pw : PwEnt) (dash ext : Bytes) : Bytes :=
  pw.name ++ [NUL] ++ fmtDec pw.uid ++ [NUL] ++ fmtDec pw.gid ++ [NUL] ++ pw.dir ++ [NUL] ++ dash ++ [NUL] ++ ext ++ [NUL]

def getpwMain (db : PwDb) (loc : Bytes) : GpwRes :=
  match userext db loc loc.length with
  | .exit c => .exit c
  | .user pw dash ext => .out (pwLine pw dash ext)
  | .none =>
    match db.getpwnam auto_usera with
    | none => .exit QLX_NOALIAS
    | some pw => if pw.busy then .exit QLX_NOALIAS else .out (pwLine pw [45] loc)

/-! ## spawn.c docmd() + qmail-lspawn.c spawn(): the delivery child -/

inductive Ev
  | chdir (path : Bytes)
  | fdmove (n : Nat)
  | fdcopy (n : Nat)
  | setgroups (n g : Nat) (ok : Bool)
  | setgid (g : Nat) (ok : Bool)
  | setuid (u : Nat) (ok : Bool)
  | getuid (u : Nat)
  | execv (path : Bytes) (argv : List Bytes)
  /-- an event of the forked qmail-getpw child -/
  | g (e : Ev)
deriving Repr, BEq, DecidableEq

/-- which call is made to fail (the harness's fault plan) -/
inductive Fault
  | none | chdir | setgroups | setgid | setuid | execHard | execSoft | cdbOpen | fork | execPw
deriving Repr, BEq, DecidableEq

inductive Outcome
  | exec                      -- execv of bin/qmail-local succeeded
  | exit (code : Nat)
  | refused (msg : Bytes)     -- docmd() answered by itself
deriving Repr, BEq, DecidableEq

structure Env where
  cdb : Option Bytes
  pw : PwDb
  uidp : Nat
  gidn : Nat
  aliasempty : Bytes
  autoQmail : Bytes
deriving Repr

/-- scan_ulong: leading decimal digits, arithmetic modulo 2^64 -/
def scanUlong : Bytes → Nat → Nat
  | [], acc => acc
  | c :: r, acc => if isDigit c then scanUlong r ((acc * 10 + (c.toNat - 48)) % 18446744073709551616) else acc

/-- split at the first NUL: `n = byte_chr(x,xlen,0); if (n++ == xlen) _exit(QLX_USAGE); x += n` -/
def splitNul : Bytes → Option (Bytes × Bytes)
  | [] => none
  | c :: r => if c = NUL then some ([], r) else (splitNul r).map (fun p => (c :: p.1, p.2))

structure Ident where
  user : Bytes
  uid : Nat
  gid : Nat
  home : Bytes
  dash : Bytes
  ext : Bytes
deriving Repr, BEq, DecidableEq

/-- the six NUL-terminated fields of nughde; uid and gid as the C code converts them (`uid_t`, 32 bits) -/
def parseNughde (x : Bytes) : Option Ident :=
  match splitNul x with
  | none => none
  | some (user, x) =>
  match splitNul x with
  | none => none
  | some (uids, x) =>
  match splitNul x with
  | none => none
  | some (gids, x) =>
  match splitNul x with
  | none => none
  | some (home, x) =>
  match splitNul x with
  | none => none
  | some (dash, x) =>
  match splitNul x with
  | none => none
  | some (ext, _) =>
    some ⟨user, scanUlong uids 0 % 4294967296, scanUlong gids 0 % 4294967296, home, dash, ext⟩

def localPath : Bytes := [98, 105, 110, 47, 113, 109, 97, 105, 108, 45, 108, 111, 99, 97, 108]       -- bin/qmail-local
def getpwPath : Bytes := [98, 105, 110, 47, 113, 109, 97, 105, 108, 45, 103, 101, 116, 112, 119]     -- bin/qmail-getpw

def argvOf (env : Env) (id : Ident) (loc dom sender : Bytes) : List Bytes :=
  [localPath, [45, 45], id.user, id.home, loc, id.dash, id.ext, dom, sender, env.aliasempty]

/-- prot_gid, prot_uid, the root check and execv — the tail of spawn() -/
def dropAndExec (env : Env) (flt : Fault) (id : Ident) (loc dom sender : Bytes) : List Ev × Outcome :=
  if flt = .setgroups then ([.setgroups 1 id.gid false], .exit QLX_USAGE) else
  if flt = .setgid then ([.setgroups 1 id.gid true, .setgid id.gid false], .exit QLX_USAGE) else
  if flt = .setuid then ([.setgroups 1 id.gid true, .setgid id.gid true, .setuid id.uid false], .exit QLX_USAGE) else
  let pre := [Ev.setgroups 1 id.gid true, .setgid id.gid true, .setuid id.uid true, .getuid id.uid]
  if id.uid = 0 then (pre, .exit QLX_ROOT) else
  let x := Ev.execv localPath (argvOf env id loc dom sender)
  if flt = .execHard then (pre ++ [x], .exit QLX_EXECHARD) else
  if flt = .execSoft then (pre ++ [x], .exit QLX_EXECSOFT) else
  (pre ++ [x], .exec)

/-- the forked child that runs qmail-getpw: events, and its exit status / output -/
def getpwChild (env : Env) (flt : Fault) (loc : Bytes) : List Ev × GpwRes :=
  if flt = .setgroups then ([.g (.setgroups 1 env.gidn false)], .exit QLX_USAGE) else
  if flt = .setgid then ([.g (.setgroups 1 env.gidn true), .g (.setgid env.gidn false)], .exit QLX_USAGE) else
  if flt = .setuid then ([.g (.setgroups 1 env.gidn true), .g (.setgid env.gidn true), .g (.setuid env.uidp false)], .exit QLX_USAGE) else
  let evs := [Ev.g (.setgroups 1 env.gidn true), .g (.setgid env.gidn true), .g (.setuid env.uidp true),
              .g (.execv getpwPath [getpwPath, loc])]
  if flt = .execPw then (evs, .exit QLX_EXECPW) else (evs, getpwMain env.pw loc)

/-- nughde_get as a whole: events of the getpw child (if any) and the record or the exit code -/
def nughdeGet (env : Env) (flt : Fault) (loc : Bytes) : List Ev × NgRes :=
  if flt = .cdbOpen then ([], .exit QLX_CDB) else
  match nughdeCdb env.cdb loc with
  | .hit x => ([], .hit x)
  | .exit c => ([], .exit c)
  | .miss =>
    if flt = .fork then ([], .exit QLX_SYS) else
    match getpwChild env flt loc with
    | (evs, .exit c) => (evs, if c = 0 then .hit [] else .exit c)
    | (evs, .out b) => (evs, .hit b)

/-- index of the last occurrence (`byte_rchr`), `none` if absent -/
def lastAt (s : Bytes) : Option Nat :=
  s.foldl (fun (p : Option Nat × Nat) c => (if c = AT then some p.2 else p.1, p.2 + 1)) (none, 0) |>.1

def noHostMsg : Bytes :=
  (0 : Byte) :: [68, 83, 111, 114, 114, 121, 44, 32, 97, 100, 100, 114, 101, 115, 115, 32, 109, 117, 115, 116, 32, 105, 110, 99,
   108, 117, 100, 101, 32, 104, 111, 115, 116, 32, 110, 97, 109, 101, 46, 32, 40, 35, 53, 46, 49, 46, 51, 41, 10, 0]

/-- spawn() in the child, given the local part and the domain -/
def spawnChild (env : Env) (flt : Fault) (sender loc dom : Bytes) : List Ev × Outcome :=
  if loc.isEmpty then ([], .exit 0) else
  if flt = .chdir then ([.chdir env.autoQmail], .exit QLX_USAGE) else
  match nughdeGet env flt loc with
  | (evs, .exit c) => (.chdir env.autoQmail :: evs, .exit c)
  | (evs, .miss) => (.chdir env.autoQmail :: evs, .exit QLX_USAGE)
  | (evs, .hit x) =>
    match parseNughde x with
    | none => (.chdir env.autoQmail :: evs, .exit QLX_USAGE)
    | some id =>
      let r := dropAndExec env flt id loc dom sender
      (.chdir env.autoQmail :: (evs ++ [.fdmove 0, .fdmove 1, .fdcopy 2] ++ r.1), r.2)

/-- docmd(): the recipient is split at its last '@' -/
def docmd (env : Env) (flt : Fault) (sender recip : Bytes) : List Ev × Outcome :=
  match lastAt recip with
  | none => ([], .refused noHostMsg)
  | some j => spawnChild env flt sender (recip.take j) (recip.drop (j + 1))

/-! ## qmail-lspawn.c report() -/

/-- first byte of the report for a child that exited with `code` -/
def reportByte (code : Nat) : Byte :=
  match reportCases.find? (fun c => c.1 == code) with
  | some c => c.2.1
  | none => reportDefault

/-- the whole report: a fixed text for the codes that have one; otherwise the class byte followed by what the
    child wrote, up to its first NUL (`for (i = 0;i < len;++i) if (!s[i]) break; substdio_put(ss,s,i)`) -/
def reportFull (code : Nat) (s : Bytes) : Bytes :=
  match reportTexts.find? (fun c => c.1 == code) with
  | some c => c.2
  | none => reportByte code :: s.takeWhile (· != NUL)

end Nq.Users
