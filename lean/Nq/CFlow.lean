/-
  Nq.CFlow — a second deep embedding, for byte loops with SEVERAL read points (qmail-remote.c `blast()`):
  `for (;;)`, `while`, `if/else`, `break`, `r = substdio_get(&ssin,&ch,1)`, tests of `r` and of the current
  byte against constants, `substdio_put(&smtpto, "lit"/&ch, n)`, `substdio_flush`, `flagcritical = 1`, calls
  that do not return.

  The meaning is small-step with an explicit continuation `K`; `advance` runs a statement until the next
  read point (or the end, or an exit) and returns the continuation there.  A continuation at a read point
  is a *control point*: the table (control point, read result) -> (control point, bytes put, end) is finite.

  Read results: `r = 1` a byte, `r = 0` end of input, `r = 2` stands for the C value -1 (read error); the
  translator maps the constant -1 in tests of `r` to 2.  The byte is its unsigned value and is only
  compared with `==` / `!=` against ASCII constants (enforced by the translator).
-/
namespace Nq.CFlow

inductive Expr
  | ch | r | lit (n : Nat)
  | eq (a b : Expr) | ne (a b : Expr)
  deriving DecidableEq, Repr

inductive Stmt
  | skip
  | seq (a b : Stmt)
  | ite (c : Expr) (t e : Stmt)
  | while (c : Expr) (body : Stmt)
  | forever (body : Stmt)
  | brk
  | get                         -- r = substdio_get(&ssin,&ch,1)
  | putch                       -- substdio_put(&smtpto,&ch,1)
  | puts (bs : List Nat)        -- substdio_put(&smtpto,"literal",n) with n = the literal's length
  | flush                       -- substdio_flush(&smtpto)
  | crit                        -- flagcritical = 1
  | noret (f : Nat)
  deriving DecidableEq, Repr

/-- continuations: what remains to be done after the current statement -/
inductive K
  | done
  | seqK (s : Stmt) (k : K)
  | loopK (c : Option Expr) (body : Stmt) (k : K)     -- inside a loop (`none`: `for (;;)`)
  deriving DecidableEq, Repr

inductive Ev | put (b : Nat) | flush | crit
  deriving DecidableEq, Repr

inductive Stop
  | atGet (k : K) (evs : List Ev)      -- waiting for the result of a read; `k` is the control point
  | finished (evs : List Ev)           -- the function returned
  | exited (f : Nat) (evs : List Ev)   -- a routine that does not return was called
  | fuel                               -- (never, for a fuel larger than the program: checked by the tables)
  deriving DecidableEq, Repr

def b2n (b : Bool) : Nat := if b then 1 else 0

def eval (c r : Nat) : Expr → Nat
  | .ch => c | .r => r | .lit n => n
  | .eq a b => b2n (eval c r a == eval c r b)
  | .ne a b => b2n (eval c r a != eval c r b)

/-- leave the innermost loop -/
def popLoop : K → K
  | .done => .done
  | .seqK _ k => popLoop k
  | .loopK _ _ k => k

mutual
/-- run statement `s` with continuation `k` until the next read point -/
def advance : Nat → Stmt → K → Nat → Nat → List Ev → Stop
  | 0, _, _, _, _, _ => .fuel
  | n + 1, s, k, c, r, evs =>
    match s with
    | .skip => cont n k c r evs
    | .seq a b => advance n a (.seqK b k) c r evs
    | .ite cnd t e => if eval c r cnd != 0 then advance n t k c r evs else advance n e k c r evs
    | .while cnd body => if eval c r cnd != 0 then advance n body (.loopK (some cnd) body k) c r evs else cont n k c r evs
    | .forever body => advance n body (.loopK none body k) c r evs
    | .brk => cont n (popLoop k) c r evs
    | .get => .atGet k evs
    | .putch => cont n k c r (evs ++ [.put c])
    | .puts bs => cont n k c r (evs ++ bs.map Ev.put)
    | .flush => cont n k c r (evs ++ [.flush])
    | .crit => cont n k c r (evs ++ [.crit])
    | .noret f => .exited f evs
/-- the current statement is finished: go on with the continuation -/
def cont : Nat → K → Nat → Nat → List Ev → Stop
  | 0, _, _, _, _ => .fuel
  | n + 1, k, c, r, evs =>
    match k with
    | .done => .finished evs
    | .seqK s k' => advance n s k' c r evs
    | .loopK (some cnd) body k' => advance n (.while cnd body) k' c r evs
    | .loopK none body k' => advance n (.forever body) k' c r evs
end

/-- resume at a control point with the result of the read: `r` and (if `r = 1`) the byte -/
def resume (fuel : Nat) (k : K) (c r : Nat) : Stop := cont fuel k c r []

end Nq.CFlow
