/-
  Nq.Inject — model of qmail-inject.c (with hfield.c and headerbody.c): how a message read from
  standard input becomes an envelope (sender, recipients) and a rewritten message.

  Function by function:
    hfield.c        hmatch / hfield_known / hfield_valid          → `hmatch` `hfieldKnown` `hfieldValid`
    headerbody.c    getsa / headerbody                            → `splitLines` `headerbody`
    qmail-inject.c  rwroute rwextraat rwextradot rwnoat rwnodot rwplus rwgeneric (on REVERSED token lists,
                    as in C, because token822_addrlist hands the callback the address right-to-left)
                    doheaderfield, dodefaultreturnpath, defaultfrommake, finishheader, dorecip, the -f
                    option, exitnicely                            → same names
  Not modelled: QMAILMFTFILE / Mail-Followup-To (the harness never sets it), out-of-memory paths,
  qmail-queue's own verdict (the stand-in queue accepts).
-/
import Nq.Basic
import Nq.Quote
import Nq.Token822
import Nq.Gen.Hfield

namespace Nq.Inject
open Nq Nq.Quote Nq.Token822

/-! ### hfield.c -/

/-- `hmatch(s,len,t)`: case-insensitive name `t` (lower case, '-' exact), then spaces/tabs, then ':' -/
def hmatchName : Bytes → Bytes → Option Bytes
  | s, [] => some s
  | [], _ :: _ => none
  | x :: s, ch :: t =>
    if ch = x ∨ (ch ≠ 45 ∧ ch - 32 = x) then hmatchName s t else none

def hmatchTail : Bytes → Bool
  | [] => false
  | c :: r => if c = 58 then true else if c = SP ∨ c = TAB then hmatchTail r else false

def hmatch (s t : Bytes) : Bool :=
  match hmatchName s t with
  | some rest => hmatchTail rest
  | none => false

/-- `hfield_known`: index of the first matching name (from 1), 0 if none -/
def hfieldKnownFrom (s : Bytes) : Nat → List Bytes → Nat
  | _, [] => 0
  | i, t :: ts => if hmatch s t then i else hfieldKnownFrom s (i + 1) ts

def hfieldKnown (s : Bytes) : Nat := hfieldKnownFrom s 1 (Gen.hname.drop 1)

/-- `hfield_valid`: a colon, and before it (minus trailing blanks) a non-empty run of bytes 33..126 -/
def hfieldValid (s : Bytes) : Bool :=
  if !s.contains 58 then false else
  let name := s.takeWhile (· ≠ 58)
  let name' := (name.reverse.dropWhile (fun c => c = SP ∨ c = TAB)).reverse
  !name'.isEmpty && name'.all (fun c => decide (32 < c.toNat) && decide (c.toNat < 127))

/-! ### headerbody.c -/

/-- `getln` repeatedly: lines including their LF; a non-empty unterminated last line gets a LF -/
def splitLinesAux : Bytes → Bytes → List Bytes
  | [], cur => if cur.isEmpty then [] else [cur ++ [LF]]
  | c :: r, cur => if c = LF then (cur ++ [LF]) :: splitLinesAux r [] else splitLinesAux r (cur ++ [c])

def splitLines (inp : Bytes) : List Bytes := splitLinesAux inp []

def mboxPrefix : Bytes := str "From "

/-- result of `headerbody`: the header fields handed to `dohf` (in order), and the body pieces handed
to `dobl` after `hdone` -/
structure HB where
  fields : List Bytes
  body : List Bytes
  deriving Repr, DecidableEq

/-- the first loop of `headerbody()`; `cur` = `line` when `flaglineok` -/
def headerbodyAux : List Bytes → Option Bytes → List Bytes → HB
  | [], cur, acc => { fields := acc ++ cur.toList, body := [] }
  | nl :: rest, cur, acc =>
    let isCont : Bool := match nl with | c :: _ => c == SP || c == TAB | [] => false
    match cur with
    | some line =>
      if isCont then headerbodyAux rest (some (line ++ nl)) acc
      else
        let acc' := acc ++ [line]
        if nl.length = 1 then { fields := acc', body := nl :: rest }
        else if mboxPrefix.isPrefixOf nl then headerbodyAux rest (some (str "MBOX-Line: " ++ nl)) acc'
        else if hfieldValid nl then headerbodyAux rest (some nl) acc'
        else { fields := acc', body := [LF] :: nl :: rest }
    | none =>
      if nl.length = 1 then { fields := acc, body := nl :: rest }
      else if mboxPrefix.isPrefixOf nl then headerbodyAux rest (some (str "MBOX-Line: " ++ nl)) acc
      else if hfieldValid nl then headerbodyAux rest (some nl) acc
      else { fields := acc, body := [LF] :: nl :: rest }

def headerbody (inp : Bytes) : HB := headerbodyAux (splitLines inp) none []

/-! ### the rewriting functions (on reversed token lists) -/

structure RwCfg where
  defaulthost : List Tok      -- token822_parse("@" ++ defaulthost)
  defaultdomain : List Tok    -- token822_parse("." ++ defaultdomain)
  plusdomain : List Tok       -- token822_parse("." ++ plusdomain)
  deriving Repr, DecidableEq

def dropThroughColon : List Tok → List Tok
  | [] => []
  | t :: r => if t = .colon then r else dropThroughColon r

/-- `rwroute`: if the address begins with '@' remove everything up to and including the first ':' -/
def rwroute (a : List Tok) : List Tok :=
  if a.getLast? = some .at then (dropThroughColon a.reverse).reverse else a

def rwextraat (a : List Tok) : List Tok :=
  match a with
  | .at :: r => r
  | _ => a

def rwextradot (a : List Tok) : List Tok :=
  match a with
  | .dot :: r => r
  | _ => a

def rwnoat (c : RwCfg) (a : List Tok) : List Tok :=
  if a.contains .at then a else c.defaulthost.reverse ++ a

def rwplus (c : RwCfg) (a : List Tok) : List Tok :=
  match a with
  | .atom s :: r => if s.getLast? = some 43 then c.plusdomain.reverse ++ (.atom s.dropLast :: r) else a
  | _ => a

/-- does a token satisfying `p` occur before the first '@' (scanning from the right end of the address)? -/
def beforeAt (p : Tok → Bool) : List Tok → Bool
  | [] => false
  | t :: r => if p t then true else if t = .at then false else beforeAt p r

def isLiteral : Tok → Bool
  | .literal _ => true
  | _ => false

def rwnodot (c : RwCfg) (a : List Tok) : List Tok :=
  if beforeAt (· = .dot) a then a
  else if beforeAt isLiteral a then a
  else c.defaultdomain.reverse ++ a

def rwgeneric (c : RwCfg) (a : List Tok) : List Tok :=
  match a with
  | [] => []
  | .literal [] :: .at :: _ => a
  | _ =>
    let a1 := rwroute a
    if a1.isEmpty then a1 else
    let a2 := rwextradot a1
    if a2.isEmpty then a2 else
    let a3 := rwextraat a2
    if a3.isEmpty then a3 else
    rwnodot c (rwplus c (rwnoat c a3))

/-- `rwappend`: what is stored in a recipient list for a (reversed, rewritten) address -/
def addrString (a : List Tok) : Bytes := unquote a.reverse

/-! ### configuration, arguments, result -/

structure Env where
  flags : Bytes := []                 -- QMAILINJECT
  mailhost : Option Bytes := none     -- QMAILHOST
  shost : Option Bytes := none        -- QMAILSHOST
  mailuser : Bytes := str "anonymous" -- QMAILUSER …
  suser : Option Bytes := none        -- QMAILSUSER
  fullname : Option Bytes := none     -- QMAILNAME …
  defaultdomain : Bytes := str "defaultdomain"
  defaulthost : Bytes := str "defaulthost"
  plusdomain : Bytes := str "plusdomain"
  idhost : Bytes := str "idhost"
  date : Bytes := []                  -- newfield_date for `starttime` ("Date: …\n")
  stamp : Bytes := []                 -- "YYYYMMDDhhmmss.pid" of newfield_msgid
  starttime : Nat := 0
  pid : Nat := 0
  deriving Repr

structure Args where
  strategy : Nat := 1                 -- RECIP_DEFAULT 1, RECIP_ARGS 2, RECIP_HEADER 3, RECIP_AH 4
  queue : Bool := true                -- -N (true) / -n (false)
  fsender : Option Bytes := none      -- -f
  recips : List Bytes := []
  deriving Repr

structure Result where
  exit : Nat
  sender : Bytes := []
  recips : List Bytes := []
  msg : Bytes := []
  deriving Repr, DecidableEq

def hasFlag (e : Env) (c : Char) : Bool := e.flags.contains c.toNat.toUInt8

/-- state threaded through `doheaderfield` -/
structure ISt where
  seen : List Nat := []               -- htypeseen
  savedh : List Bytes := []
  hrlist : List Bytes := []
  hrrlist : List Bytes := []
  sender : Option Bytes := none
  dead : Option Nat := none           -- exit code of a die_*()
  deriving Repr

/-- which callback a header type gets: 1 rwtocc/rwhr (→ hrlist), 2 rwhrr (→ hrrlist), 3 rwreturn,
4 rwsender, 0 none; and `rwmayfail` -/
def fieldClass (htype : Nat) : Nat × Bool :=
  if htype = Gen.H_TO ∨ htype = Gen.H_CC ∨ htype = Gen.H_BCC ∨ htype = Gen.H_APPARENTLYTO then (1, true)
  else if htype = Gen.H_R_TO ∨ htype = Gen.H_R_CC ∨ htype = Gen.H_R_BCC then (2, true)
  else if htype = Gen.H_RETURNPATH then (3, false)
  else if htype = Gen.H_SENDER ∨ htype = Gen.H_FROM ∨ htype = Gen.H_REPLYTO ∨ htype = Gen.H_RETURNRECEIPTTO
       ∨ htype = Gen.H_ERRORSTO ∨ htype = Gen.H_R_SENDER ∨ htype = Gen.H_R_FROM ∨ htype = Gen.H_R_REPLYTO then (4, false)
  else (0, false)

/-- fields that are parsed but not copied to the output -/
def fieldDropped (htype : Nat) : Bool :=
  htype = Gen.H_BCC || htype = Gen.H_R_BCC || htype = Gen.H_RETURNPATH || htype = Gen.H_CONTENTLENGTH

/-- `setreturn` for the first address seen -/
def setReturn (e : Env) (st : ISt) (got : List (List Tok)) : ISt :=
  match st.sender, got with
  | none, a :: _ => { st with sender := some (addrString a ++ (if hasFlag e 'r' then str "-@[]" else [])) }
  | _, _ => st

/-- parse + addrlist + unparse of one address-bearing field; returns the new field text (or the old
one when a `rwmayfail` field does not parse), the callback results, and whether `doordie` fires -/
def rewriteField (c : RwCfg) (mayfail : Bool) (h : Bytes) : Bytes × List (List Tok) × Bool :=
  match parse h with
  | none => (h, [], !mayfail)
  | some ts =>
    let r := addrlist (rwgeneric c) ts
    if r.ok then (unparse Gen.LINELEN r.out, r.got, false)
    else (h, r.got, !mayfail)

def doheaderfield (e : Env) (c : RwCfg) (st : ISt) (h : Bytes) : ISt :=
  if st.dead.isSome then st else
  let htype := hfieldKnown h
  if hasFlag e 'f' && htype = Gen.H_FROM then st
  else if hasFlag e 'i' && htype = Gen.H_MESSAGEID then st
  else if hasFlag e 's' && htype = Gen.H_RETURNPATH then st
  else if htype = 0 && !hfieldValid h then { st with dead := some 100 }
  else
    let st1 : ISt := if htype ≠ 0 then { st with seen := htype :: st.seen } else st
    let cls := fieldClass htype
    if cls.1 = 0 then
      (if fieldDropped htype then st1 else { st1 with savedh := st1.savedh ++ [h] })
    else
      let r := rewriteField c cls.2 h
      let got := r.2.1
      let st2 : ISt :=
        if cls.1 = 1 then { st1 with hrlist := st1.hrlist ++ got.map addrString }
        else if cls.1 = 2 then { st1 with hrrlist := st1.hrrlist ++ got.map addrString }
        else if cls.1 = 3 then setReturn e st1 got
        else st1
      if r.2.2 then { st2 with dead := some 100 }
      else if fieldDropped htype then st2
      else { st2 with savedh := st2.savedh ++ [r.1] }

/-- `dodefaultreturnpath`: the envelope sender when neither -f nor Return-Path gave one -/
def defaultReturnPath (e : Env) (c : RwCfg) (st : ISt) : ISt :=
  let ruser := e.suser.getD e.mailuser
  let hacked := ruser
    ++ (if hasFlag e 'm' then [45] ++ fmtNat e.starttime ++ [46] ++ fmtNat e.pid else [])
    ++ (if hasFlag e 'r' then [45] else [])
  let rhost := match e.shost with | some h => some h | none => e.mailhost
  let toks : List Tok := [.atom (str "Return-Path"), .colon, .quote hacked]
    ++ (match rhost with | some h => [.at, .atom h] | none => [])
  let text := unparse Gen.LINELEN toks
  match parse text with
  | none => { st with dead := some 100 }
  | some ts =>
    let r := addrlist (rwgeneric c) ts
    let st1 := setReturn e st r.got
    if r.ok then st1 else { st1 with dead := some 100 }

/-- `defaultfrommake`: the text of the generated From field, `none` = doordie -/
def defaultFrom (e : Env) (c : RwCfg) : Option Bytes :=
  let nc := hasFlag e 'c'
  let utok : Tok := if quoteNeed e.mailuser then .quote e.mailuser else .atom e.mailuser
  let toks : List Tok := [.atom (str "From"), .colon]
    ++ (match e.fullname with | some n => if !nc then [.quote n, .left] else [] | none => [])
    ++ [utok]
    ++ (match e.mailhost with | some h => [.at, .atom h] | none => [])
    ++ (match e.fullname with | some n => if !nc then [.right] else [.comment n] | none => [])
  let text := unparse Gen.LINELEN toks
  match parse text with
  | none => none
  | some ts =>
    let r := addrlist (rwgeneric c) ts
    if r.ok then some (unparse Gen.LINELEN r.out) else none

def msgid (e : Env) : Bytes := str "Message-ID: <" ++ e.stamp ++ str ".qmail@" ++ e.idhost ++ str ">\n"

def seenAny (st : ISt) (l : List Nat) : Bool := l.any (fun h => st.seen.contains h)

def isResent (st : ISt) : Bool :=
  seenAny st [Gen.H_R_SENDER, Gen.H_R_FROM, Gen.H_R_REPLYTO, Gen.H_R_TO, Gen.H_R_CC, Gen.H_R_BCC,
              Gen.H_R_DATE, Gen.H_R_MESSAGEID]

/-- the fields `finishheader` adds in front of the saved header; `none` = doordie in defaultfrommake -/
def generatedFields (e : Env) (c : RwCfg) (st : ISt) : Option Bytes :=
  if isResent st then
    let d := if !seenAny st [Gen.H_R_DATE] then str "Resent-" ++ e.date else []
    let m := if !seenAny st [Gen.H_R_MESSAGEID] then str "Resent-" ++ msgid e else []
    let f : Option Bytes := if !seenAny st [Gen.H_R_FROM] then (defaultFrom e c).map (str "Resent-" ++ ·) else some []
    let cc := if !seenAny st [Gen.H_R_TO, Gen.H_R_CC] then str "Resent-Cc: recipient list not shown: ;\n" else []
    f.map (fun f => d ++ m ++ f ++ cc)
  else
    let d := if !seenAny st [Gen.H_DATE] then e.date else []
    let m := if !seenAny st [Gen.H_MESSAGEID] then msgid e else []
    let f : Option Bytes := if !seenAny st [Gen.H_FROM] then defaultFrom e c else some []
    let cc := if !seenAny st [Gen.H_TO, Gen.H_CC] then str "Cc: recipient list not shown: ;\n" else []
    f.map (fun f => d ++ m ++ f ++ cc)

/-- the -f option and `dorecip`: quote2, parse, rewrite, unquote; `none` = parse failure (exit 100) -/
def argAddress (c : RwCfg) (s : Bytes) : Option Bytes :=
  match parse (quote2 s) with
  | none => none
  | some ts => some (addrString (rwgeneric c ts.reverse))

def mapOpt (f : Bytes → Option Bytes) : List Bytes → Option (List Bytes)
  | [] => some []
  | x :: r => match f x, mapOpt f r with
    | some y, some ys => some (y :: ys)
    | _, _ => none

/-- C strings handed to `qmail_from` / `qmail_to` stop at the first NUL -/
def cstr (s : Bytes) : Bytes := s.takeWhile (· ≠ 0)

/-- `recipstrategy` after `if (recipstrategy == RECIP_DEFAULT) recipstrategy = (*argv ? RECIP_ARGS : RECIP_HEADER)` -/
def effStrategy (a : Args) : Nat := if a.strategy = 1 then (if a.recips.isEmpty then 3 else 2) else a.strategy

/-- `exitnicely`: the recipients handed to `qmail_to`, in order -/
def envelopeRecips (strategy : Nat) (reciplist : List Bytes) (st : ISt) : List Bytes :=
  reciplist ++ (if strategy ≠ 2 then (if isResent st then st.hrrlist else st.hrlist) else [])

/-- the whole program -/
def inject (e : Env) (a : Args) (inp : Bytes) : Result :=
  -- getcontrols
  match parse ([46] ++ e.defaultdomain), parse ([AT] ++ e.defaulthost), parse ([46] ++ e.plusdomain) with
  | some dd, some dh, some pd =>
    let c : RwCfg := { defaulthost := dh, defaultdomain := dd, plusdomain := pd }
    -- options
    let sender0 : Option (Option Bytes) := match a.fsender with
      | none => some none
      | some s => (argAddress c s).map some
    match sender0 with
    | none => { exit := 100 }
    | some sender0 =>
    let strategy := effStrategy a
    match (if strategy ≠ 3 then mapOpt (argAddress c) a.recips else some []) with
    | none => { exit := 100 }
    | some reciplist =>
    let hb := headerbody inp
    let st := hb.fields.foldl (doheaderfield e c) { sender := sender0 }
    match st.dead with
    | some x => { exit := x }
    | none =>
    -- finishheader
    let st := if st.sender.isNone then defaultReturnPath e c st else st
    match st.dead with
    | some x => { exit := x }
    | none =>
    match generatedFields e c st with
    | none => { exit := 100 }
    | some gen =>
    let sender := st.sender.getD []
    let rp := if a.queue then [] else str "Return-Path: <" ++ quote2 (cstr sender) ++ str ">\n"
    let msg := rp ++ gen ++ st.savedh.flatten ++ hb.body.flatten
    let recips := envelopeRecips strategy reciplist st
    if a.queue then { exit := 0, sender := cstr sender, recips := recips.map cstr, msg := msg }
    else { exit := 0, msg := msg }
  | _, _, _ => { exit := 100 }

end Nq.Inject
