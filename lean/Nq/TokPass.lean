/-
  Nq.TokPass — index-level model of the "count, allocate, fill" pattern of token822.c (property C20).

  `token822_parse` runs over the field twice.  Pass 1 (`run1`) only counts: `numtoks`, `numchars`, and
  returns 0 on a misplaced / unterminated delimiter.  Then `token822_ready(ta,numtoks)` and
  `stralloc_ready(buf,numchars)` allocate, and pass 2 (`run2`) walks the bytes again, this time WITHOUT the
  end-of-input checks inside `( )`, `" "`, `[ ]` ("assert: < salen" in the source) and without the
  `case ')': case ']'` of the outer switch, storing to `ta->t[..]` and `buf->s[..]`.  The two passes are
  transcribed separately (their own outer dispatch `top1` / `top2` and inner loops `step1` / `step2`);
  only `atomok()` is shared, as in the C.  Pass 2 logs every index it stores to / reads from:

    Ev.tok k   a store to `ta->t[k]`  (`t->type = …`, `t->s = cbuf`, `t->slen = 0`, `++t->slen`, atomcheck's retyping)
    Ev.buf j   the store `*cbuf++ = sa->s[i]` at `buf->s[j]`
    Ev.rd j    atomcheck()'s read of `t->s[..]` = `buf->s[j]`

  and `oob` = pass 2 reached the end of the field inside a delimited token, i.e. read `sa->s[salen]`.
  One automaton state per place where the C looks at the next byte.  Core Lean only.
-/
import Nq.Basic
import Nq.Gen.AtomOk

namespace Nq.TokPass
open Nq

@[reducible] def DQ   : Byte := 34
@[reducible] def BSL  : Byte := 92
@[reducible] def LPAR : Byte := 40
@[reducible] def RPAR : Byte := 41
@[reducible] def LBRK : Byte := 91
@[reducible] def RBRK : Byte := 93

/-- `atomok(ch)`: one C function, called by both passes -/
def atomok (c : Byte) : Bool := !Gen.atomNotOk.contains c

inductive St
  | top
  | atm (esc : Bool)                -- the `do … while (atomok(…))` loop; esc = a backslash was just read
  | com (lvl : Nat) (esc : Bool)    -- `( … )`, lvl = level − 1
  | quo (esc : Bool)
  | lit (esc : Bool)
  | fail                            -- pass 1 only: `return 0`
  deriving DecidableEq, Repr

/-- 1 while a token has been started and not yet counted (`++numtoks` / `++t` comes at its end) -/
def St.inTok : St → Nat
  | .top => 0 | .fail => 0 | _ => 1

/-! ### pass 1: counting -/

/-- `case '.': case ',': case '@': case '<': case '>': case ':': case ';'` of the FIRST switch -/
def special1 (c : Byte) : Bool := c == 46 || c == 44 || c == 64 || c == 60 || c == 62 || c == 58 || c == 59
/-- `case ' ': case '\t': case '\r': case '\n'` of the first switch -/
def ws1 (c : Byte) : Bool := c == 32 || c == 9 || c == 13 || c == 10

structure O1 where
  st : St
  n : Nat      -- numtoks
  m : Nat      -- numchars

/-- the outer `switch(sa->s[i])` of pass 1 -/
def top1 (n m : Nat) (c : Byte) : O1 :=
  if special1 c then ⟨.top, n + 1, m⟩
  else if ws1 c then ⟨.top, n, m⟩
  else if c = RPAR ∨ c = RBRK then ⟨.fail, n, m⟩
  else if c = LPAR then ⟨.com 0 false, n, m⟩
  else if c = DQ then ⟨.quo false, n, m⟩
  else if c = LBRK then ⟨.lit false, n, m⟩
  else if c = BSL then ⟨.atm true, n, m⟩         -- `if (sa->s[i] == '\\') if (++i >= salen) break;`
  else ⟨.atm false, n, m + 1⟩                     -- `++numchars`

def step1 (st : St) (n m : Nat) (c : Byte) : O1 :=
  match st with
  | .top => top1 n m c
  | .atm true => ⟨.atm false, n, m + 1⟩
  | .atm false =>
      if atomok c then (if c = BSL then ⟨.atm true, n, m⟩ else ⟨.atm false, n, m + 1⟩)
      else top1 (n + 1) m c                       -- `--i; ++numtoks;` and the byte is looked at again
  | .com lvl true => ⟨.com lvl false, n, m + 1⟩
  | .com lvl false =>
      if c = LPAR then ⟨.com (lvl + 1) false, n, m⟩
      else if c = RPAR then (match lvl with | 0 => ⟨.top, n + 1, m⟩ | l + 1 => ⟨.com l false, n, m⟩)
      else if c = BSL then ⟨.com lvl true, n, m⟩
      else ⟨.com lvl false, n, m + 1⟩
  | .quo true => ⟨.quo false, n, m + 1⟩
  | .quo false =>
      if c = DQ then ⟨.top, n + 1, m⟩
      else if c = BSL then ⟨.quo true, n, m⟩
      else ⟨.quo false, n, m + 1⟩
  | .lit true => ⟨.lit false, n, m + 1⟩
  | .lit false =>
      if c = RBRK then ⟨.top, n + 1, m⟩
      else if c = BSL then ⟨.lit true, n, m⟩
      else ⟨.lit false, n, m + 1⟩
  | .fail => ⟨.fail, n, m⟩

/-- end of the field in pass 1: `none` = `return 0` (`if (++i >= salen) return 0;`) -/
def fin1 (st : St) (n m : Nat) : Option (Nat × Nat) :=
  match st with
  | .top => some (n, m)
  | .atm _ => some (n + 1, m)        -- both `break`s of the atom loop, then `++numtoks`
  | _ => none

def run1 : St → Nat → Nat → Bytes → Option (Nat × Nat)
  | st, n, m, [] => fin1 st n m
  | st, n, m, c :: r => run1 (step1 st n m c).st (step1 st n m c).n (step1 st n m c).m r

/-- pass 1 of `token822_parse`: `some (numtoks, numchars)`, or `none` for `return 0` -/
def pass1 (s : Bytes) : Option (Nat × Nat) := run1 .top 0 0 s

/-! ### pass 2: filling -/

inductive Ev
  | tok (k : Nat) | buf (j : Nat) | rd (j : Nat)
  deriving DecidableEq, Repr

/-- the index is inside the blocks allocated for `nt` tokens and `nc` bytes -/
def Ev.ok (nt nc : Nat) : Ev → Prop
  | .tok k => k < nt
  | .buf j => j < nc
  | .rd j => j < nc

instance (nt nc : Nat) (e : Ev) : Decidable (e.ok nt nc) := by
  cases e <;> unfold Ev.ok <;> infer_instance

/-- the single-character cases of the SECOND switch (each stores its own `t->type`) -/
def special2 (c : Byte) : Bool := c == 46 || c == 44 || c == 64 || c == 60 || c == 62 || c == 58 || c == 59
def ws2 (c : Byte) : Bool := c == 32 || c == 9 || c == 13 || c == 10

structure O2 where
  st : St
  t : Nat       -- t − ta->t
  cb : Nat      -- cbuf − buf->s
  ts : Nat      -- t->s − buf->s of the token being filled
  ev : List Ev

/-- the outer switch of pass 2 (no `case ')': case ']'`: those bytes would start an atom) -/
def top2 (t cb ts : Nat) (c : Byte) : O2 :=
  if special2 c then ⟨.top, t + 1, cb, ts, [.tok t]⟩
  else if ws2 c then ⟨.top, t, cb, ts, []⟩
  else if c = LPAR then ⟨.com 0 false, t, cb, cb, [.tok t]⟩
  else if c = DQ then ⟨.quo false, t, cb, cb, [.tok t]⟩
  else if c = LBRK then ⟨.lit false, t, cb, cb, [.tok t]⟩
  else if c = BSL then ⟨.atm true, t, cb, cb, [.tok t]⟩
  else ⟨.atm false, t, cb + 1, cb, [.tok t, .buf cb, .tok t]⟩      -- `*cbuf++ = sa->s[i]; ++t->slen;`

/-- `atomcheck(t)`: reads `t->s[0..slen)`, may store `t->type` -/
def atomcheckEv (t cb ts : Nat) : List Ev := (List.range' ts (cb - ts)).map .rd ++ [.tok t]

def step2 (st : St) (t cb ts : Nat) (c : Byte) : O2 :=
  match st with
  | .top => top2 t cb ts c
  | .atm true => ⟨.atm false, t, cb + 1, ts, [.buf cb, .tok t]⟩
  | .atm false =>
      if atomok c then (if c = BSL then ⟨.atm true, t, cb, ts, []⟩ else ⟨.atm false, t, cb + 1, ts, [.buf cb, .tok t]⟩)
      else
        let o := top2 (t + 1) cb ts c                -- `atomcheck(t); --i; ++t;`
        { o with ev := atomcheckEv t cb ts ++ o.ev }
  | .com lvl true => ⟨.com lvl false, t, cb + 1, ts, [.buf cb, .tok t]⟩
  | .com lvl false =>
      if c = LPAR then ⟨.com (lvl + 1) false, t, cb, ts, []⟩
      else if c = RPAR then (match lvl with | 0 => ⟨.top, t + 1, cb, ts, []⟩ | l + 1 => ⟨.com l false, t, cb, ts, []⟩)
      else if c = BSL then ⟨.com lvl true, t, cb, ts, []⟩
      else ⟨.com lvl false, t, cb + 1, ts, [.buf cb, .tok t]⟩
  | .quo true => ⟨.quo false, t, cb + 1, ts, [.buf cb, .tok t]⟩
  | .quo false =>
      if c = DQ then ⟨.top, t + 1, cb, ts, []⟩
      else if c = BSL then ⟨.quo true, t, cb, ts, []⟩
      else ⟨.quo false, t, cb + 1, ts, [.buf cb, .tok t]⟩
  | .lit true => ⟨.lit false, t, cb + 1, ts, [.buf cb, .tok t]⟩
  | .lit false =>
      if c = RBRK then ⟨.top, t + 1, cb, ts, []⟩
      else if c = BSL then ⟨.lit true, t, cb, ts, []⟩
      else ⟨.lit false, t, cb + 1, ts, [.buf cb, .tok t]⟩
  | .fail => ⟨.fail, t, cb, ts, []⟩

structure R2 where
  t : Nat
  cb : Nat
  ev : List Ev
  oob : Bool      -- pass 2 read `sa->s[salen]` (it has no check of its own inside delimited tokens)
  deriving Repr

/-- end of the field in pass 2 -/
def fin2 (st : St) (t cb ts : Nat) : R2 :=
  match st with
  | .top => ⟨t, cb, [], false⟩
  | .atm _ => ⟨t + 1, cb, atomcheckEv t cb ts, false⟩     -- pass 2 keeps both `>= salen` checks of the atom loop
  | .fail => ⟨t, cb, [], false⟩
  | _ => ⟨t, cb, [], true⟩

def run2 : St → Nat → Nat → Nat → Bytes → R2
  | st, t, cb, ts, [] => fin2 st t cb ts
  | st, t, cb, ts, c :: r =>
      let o := step2 st t cb ts c
      let x := run2 o.st o.t o.cb o.ts r
      { x with ev := o.ev ++ x.ev }

/-- pass 2 of `token822_parse` on the whole field -/
def pass2 (s : Bytes) : R2 := run2 .top 0 0 0 s

/-- the final counters of `run2` without the event list (tail recursive: what the driver evaluates on 500 kB fields;
`cnt2_eq` in Nq.Lemmas.C20TokPass) -/
def cnt2 : St → Nat → Nat → Nat → Bytes → Nat × Nat × Bool
  | st, t, cb, ts, [] => ((fin2 st t cb ts).t, (fin2 st t cb ts).cb, (fin2 st t cb ts).oob)
  | st, t, cb, ts, c :: r => cnt2 (step2 st t cb ts c).st (step2 st t cb ts c).t (step2 st t cb ts c).cb (step2 st t cb ts c).ts r

/-- the offsets of the `Ev.buf` stores, in order -/
def bufStores (ev : List Ev) : List Nat := ev.filterMap (fun e => match e with | .buf j => some j | _ => none)

end Nq.TokPass
