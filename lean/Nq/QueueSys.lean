/-
  Nq.QueueSys — the queue directory under any number of concurrently running qmail-queue
  instances ("injectors"), one qmail-send with its qmail-clean ("the daemon"), further qmail-send
  instances that find the lock taken, the clock, and crashes (C02).

  State per message number `n`: which of mess/intd/todo/info/local/remote/bounce exist
  (INTERNALS.md section 2), the inode that `mess/n` names, pid/ files (identified by their inode),
  the access time of inode `n`.  Every event is ONE system call (directory operations are atomic),
  so every interleaving of the actors at system-call granularity is an event sequence.

  `accept s e = none` means: the code may not do `e` in `s`.  Guards are of two kinds only:
    * facts the operating system guarantees about a call that succeeded / about its result
      (an `open_excl` that succeeded did not find the file; `stat` reports what is there; a new
      inode number is not in use; `alarm(DEATH)` lets no call happen `DEATH` seconds later);
    * what the *code* has established by its own control flow and observations when it issues
      the call: the daemon's knowledge `Know` is exactly the set of `stat`/`unlink` results it saw
      since it last turned to another message or slept (qmail-send.c `messdone`, `cleanup_do`,
      `todo_do`, `pqadd`), `known n` = "n is registered as preprocessed".
  No guard mentions the documented states: that they always hold is the theorem (Props/C02).
-/
import Nq.Basic
import Nq.Gen.Consts

namespace Nq.QueueSys

inductive File | mess | intd | todo | info | loc | rem | bounce
  deriving DecidableEq, Repr

structure Flags where
  mess : Bool := false
  intd : Bool := false
  todo : Bool := false
  info : Bool := false
  loc : Bool := false
  rem : Bool := false
  bounce : Bool := false
  deriving DecidableEq, Repr

def Flags.get (f : Flags) : File → Bool
  | .mess => f.mess | .intd => f.intd | .todo => f.todo | .info => f.info
  | .loc => f.loc | .rem => f.rem | .bounce => f.bounce

def Flags.set (f : Flags) (x : File) (b : Bool) : Flags :=
  match x with
  | .mess => { f with mess := b } | .intd => { f with intd := b } | .todo => { f with todo := b }
  | .info => { f with info := b } | .loc => { f with loc := b } | .rem => { f with rem := b }
  | .bounce => { f with bounce := b }

/-! The table of INTERNALS.md section 2, transcribed. -/
def Flags.isS1 (f : Flags) : Bool := !f.mess && !f.intd && !f.todo && !f.info && !f.loc && !f.rem && !f.bounce
def Flags.isS2 (f : Flags) : Bool := f.mess && !f.intd && !f.todo && !f.info && !f.loc && !f.rem && !f.bounce
def Flags.isS3 (f : Flags) : Bool := f.mess && f.intd && !f.todo && !f.info && !f.loc && !f.rem && !f.bounce
def Flags.isS4 (f : Flags) : Bool := f.mess && f.todo && !f.bounce
def Flags.isS5 (f : Flags) : Bool := f.mess && !f.intd && !f.todo && f.info
def Flags.documented (f : Flags) : Bool := f.isS1 || f.isS2 || f.isS3 || f.isS4 || f.isS5

/-- state class 1..5 of a documented flag pattern (0 if none) -/
def Flags.cls (f : Flags) : Nat :=
  if f.isS1 then 1 else if f.isS2 then 2 else if f.isS3 then 3 else if f.isS4 then 4 else if f.isS5 then 5 else 0

/-- the moves between state classes that INTERNALS.md sections 3-6 describe (plus staying put) -/
def allowedMove (a b : Nat) : Bool :=
  (a == b && a != 0) ||
  (a == 1 && b == 2) || (a == 2 && b == 3) || (a == 3 && b == 4) || (a == 4 && b == 5) ||
  (a == 5 && b == 2) || (a == 3 && b == 2) || (a == 2 && b == 1)

/-- control point of one qmail-queue instance -/
inductive IPc
  | idle                          -- not started
  | started (t0 : Nat)            -- alarm(DEATH) set at time t0; no file touched yet
  | opened (t0 n : Nat)           -- pid/ file created, its inode number is n
  | linked (t0 n : Nat)           -- link(pid, mess/n) done
  | s2 (t0 n : Nat)               -- pid/ file unlinked (flagmademess)
  | s3 (t0 n : Nat)               -- intd/n created (flagmadeintd)
  | clean1 (t0 n : Nat)           -- cleanup(): intd/n unlinked, mess/n still to go
  | fin                           -- exited or killed; takes no further step
  deriving DecidableEq, Repr

/-- where the daemon (qmail-send + its qmail-clean) is -/
inductive DMode
  | none
  | inTodo (n : Nat) (madeInfo : Bool)   -- todo_do on n; info/n (re)created yet?
  | todoC1 (n : Nat) | todoC2 (n : Nat) | todoC3 (n : Nat)   -- qmail-clean on "todo/n": before unlink intd / todo / answer
  | foopC1 (n : Nat) | foopC2 (n : Nat) | foopC3 (n : Nat)   -- qmail-clean on "foop/n": before unlink intd / mess / answer
  deriving DecidableEq, Repr

/-- what the daemon has seen about message `cur` since it last turned to another message or slept -/
structure Know where
  cur : Nat := 0
  messPres : Bool := false
  infoPres : Bool := false
  infoAbs : Bool := false
  todoAbs : Bool := false
  locAbs : Bool := false
  remAbs : Bool := false
  bounceAbs : Bool := false
  unlinkedInfo : Bool := false     -- it has itself unlinked info/cur (messdone)
  deriving DecidableEq, Repr

def Know.at (k : Know) (n : Nat) : Know := if k.cur = n then k else { cur := n }

def Know.see (k : Know) (f : File) (present : Bool) : Know :=
  match f, present with
  | .mess, true => { k with messPres := true }
  | .info, true => { k with infoPres := true, infoAbs := false }
  | .info, false => { k with infoAbs := true, infoPres := false }
  | .todo, false => { k with todoAbs := true }
  | .loc, false => { k with locAbs := true }
  | .rem, false => { k with remAbs := true }
  | .bounce, false => { k with bounceAbs := true }
  | _, _ => k

structure St where
  fl : Nat → Flags := fun _ => {}
  messIno : Nat → Nat := fun _ => 0      -- inode named by mess/n (meaningful when it exists)
  pidf : Nat → Bool := fun _ => false    -- a pid/ file with inode n exists
  atime : Nat → Nat := fun _ => 0        -- access time of inode n (set when the pid/ file is created)
  inj : Nat → IPc := fun _ => .idle
  up : Bool := false                     -- an instance of qmail-send holds lock/sendmutex
  mode : DMode := .none
  k : Know := {}
  known : Nat → Bool := fun _ => false   -- registered by this qmail-send as preprocessed
  now : Nat := 0

def upd {α : Type} (f : Nat → α) (n : Nat) (v : α) : Nat → α := fun x => if x = n then v else f x

@[simp] theorem upd_same {α : Type} (f : Nat → α) (n : Nat) (v : α) : upd f n v n = v := by simp [upd]
theorem upd_other {α : Type} (f : Nat → α) (n m : Nat) (v : α) (h : m ≠ n) : upd f n v m = f m := by simp [upd, h]

def St.setF (s : St) (n : Nat) (x : File) (b : Bool) : St := { s with fl := upd s.fl n ((s.fl n).set x b) }

def DEATH : Nat := Nq.Gen.DEATH
def OSSIFIED : Nat := Nq.Gen.OSSIFIED_send

/-- alarm(DEATH) was set at t0: the process may still issue calls -/
def St.alive (s : St) (t0 : Nat) : Bool := decide (s.now < t0 + DEATH)
/-- inode n was last created more than 36 hours ago -/
def St.stale (s : St) (n : Nat) : Bool := decide (s.atime n + OSSIFIED < s.now)

def DMode.cleaning : DMode → Bool
  | .none | .inTodo _ _ => false
  | _ => true

inductive Ev
  | tick (t : Nat)
  | iStart (i d : Nat)                 -- alarm(d)
  | iOpenPid (i n : Nat)               -- open_excl(pid/…) succeeded, fstat says inode n
  | iLinkMess (i m : Nat)              -- link(pid/…, mess/m) succeeded
  | iUnlinkPid (i : Nat)
  | iCreatIntd (i m : Nat)             -- open_excl(intd/m) succeeded
  | iLinkTodo (i m : Nat)              -- link(intd/m, todo/m) succeeded
  | iUnIntd (i m : Nat)                -- cleanup(): unlink(intd/m) succeeded
  | iUnMess (i m : Nat)                -- cleanup(): unlink(mess/m) succeeded
  | iDie (i : Nat)                     -- exit (any status), kill, SIGALRM
  | dStart                             -- lock_exnb(lock/sendmutex) succeeded
  | dRefused                           -- lock_exnb failed: this instance exits without touching the queue
  | dDie
  | dObs (n : Nat) (f : File) (present : Bool)   -- stat, or unlink failing with ENOENT
  | dOpenTodo (n : Nat)                -- todo_do: open_read(todo/n) succeeded
  | dAbortTodo                         -- todo_do gives up (`goto fail`): no system call, todo/n stays
  | dUnlink (n : Nat) (f : File)       -- unlink succeeded
  | dCreat (n : Nat) (f : File)        -- open_excl (info, local, remote) / open_append (bounce) succeeded
  | dReq (todoReq : Bool) (n : Nat)    -- "todo/n" or "foop/n" written to qmail-clean
  | cUnlink (n : Nat) (f : File) (ok : Bool)     -- qmail-clean: unlink succeeded / ENOENT
  | cDone (plus : Bool)                -- qmail-clean's answer read by qmail-send
  | cUnlinkPid (n : Nat)               -- qmail-clean removes an old pid/ file
  | crash                              -- every process dies
  deriving DecidableEq, Repr

def crashPc : IPc → IPc
  | .idle => .idle
  | _ => .fin

def accept (s : St) : Ev → Option St
  | .tick t => if s.now ≤ t then some { s with now := t, k := { cur := s.k.cur } } else none
  | .iStart i d =>
    if s.inj i = .idle ∧ d = DEATH then some { s with inj := upd s.inj i (.started s.now) } else none
  | .iOpenPid i n =>
    match s.inj i with
    | .started t0 =>
      if s.alive t0 ∧ s.pidf n = false ∧ (s.fl n).mess = false then
        some { s with pidf := upd s.pidf n true, atime := upd s.atime n s.now, inj := upd s.inj i (.opened t0 n) }
      else none
    | _ => none
  | .iLinkMess i m =>
    match s.inj i with
    | .opened t0 n =>
      if s.alive t0 ∧ m = n ∧ s.pidf n = true ∧ (s.fl n).mess = false then
        some { (s.setF n .mess true) with messIno := upd s.messIno n n, inj := upd s.inj i (.linked t0 n) }
      else none
    | _ => none
  | .iUnlinkPid i =>
    match s.inj i with
    | .linked t0 n =>
      if s.alive t0 ∧ s.pidf n = true then some { s with pidf := upd s.pidf n false, inj := upd s.inj i (.s2 t0 n) } else none
    | _ => none
  | .iCreatIntd i m =>
    match s.inj i with
    | .s2 t0 n =>
      if s.alive t0 ∧ m = n ∧ (s.fl n).intd = false then some { (s.setF n .intd true) with inj := upd s.inj i (.s3 t0 n) } else none
    | _ => none
  | .iLinkTodo i m =>
    match s.inj i with
    | .s3 t0 n =>
      if s.alive t0 ∧ m = n ∧ (s.fl n).todo = false ∧ (s.fl n).intd = true then
        some { (s.setF n .todo true) with inj := upd s.inj i .fin }
      else none
    | _ => none
  | .iUnIntd i m =>
    match s.inj i with
    | .s3 t0 n =>
      if s.alive t0 ∧ m = n ∧ (s.fl n).intd = true then some { (s.setF n .intd false) with inj := upd s.inj i (.clean1 t0 n) } else none
    | _ => none
  | .iUnMess i m =>
    match s.inj i with
    | .s2 t0 n | .clean1 t0 n =>
      if s.alive t0 ∧ m = n ∧ (s.fl n).mess = true then some { (s.setF n .mess false) with inj := upd s.inj i .fin } else none
    | _ => none
  | .iDie i => some { s with inj := upd s.inj i .fin }
  | .dStart =>
    if s.up = false then some { s with up := true, mode := .none, k := {}, known := fun _ => false } else none
  | .dRefused => if s.up = true then some s else none
  | .dDie => if s.up = true then some { s with up := false, mode := .none, k := {}, known := fun _ => false } else none
  | .dObs n f present =>
    if s.up = true ∧ s.mode.cleaning = false ∧ (s.fl n).get f = present then
      match s.mode with
      | .inTodo m mi => if m = n then some s else
          let k' := (s.k.at n).see f present
          some { s with mode := .none, k := k', known := upd s.known n (s.known n || (k'.infoPres && k'.todoAbs)) }
      | _ =>
          let k' := (s.k.at n).see f present
          some { s with k := k', known := upd s.known n (s.known n || (k'.infoPres && k'.todoAbs)) }
    else none
  | .dOpenTodo n =>
    if s.up = true ∧ s.mode.cleaning = false ∧ (s.fl n).todo = true then
      some { s with mode := .inTodo n false, k := { cur := n } }
    else none
  | .dAbortTodo =>
    match s.mode with
    | .inTodo _ _ => some { s with mode := .none }
    | _ => none
  | .dUnlink n f =>
    if s.up = true ∧ (s.fl n).get f = true then
      match s.mode, f with
      | .inTodo m false, .loc | .inTodo m false, .rem | .inTodo m false, .info =>
        if m = n then some (s.setF n f false) else none
      | .none, .loc =>
        if s.known n = true then some { (s.setF n .loc false) with k := { (s.k.at n) with locAbs := true } } else none
      | .none, .rem =>
        if s.known n = true then some { (s.setF n .rem false) with k := { (s.k.at n) with remAbs := true } } else none
      | .none, .bounce =>
        if s.k.cur = n ∧ s.k.locAbs ∧ s.k.remAbs ∧ s.k.todoAbs ∧ s.k.infoPres then
          some { (s.setF n .bounce false) with k := { s.k with bounceAbs := true } }
        else none
      | .none, .info =>
        if s.k.cur = n ∧ s.k.locAbs ∧ s.k.remAbs ∧ s.k.todoAbs ∧ s.k.infoPres ∧ s.k.bounceAbs then
          some { (s.setF n .info false) with
                 k := { s.k with infoPres := false, infoAbs := true, unlinkedInfo := true },
                 known := upd s.known n false }
        else none
      | _, _ => none
    else none
  | .dCreat n f =>
    if s.up = true then
      match s.mode, f with
      | .inTodo m false, .info =>
        if m = n ∧ (s.fl n).info = false then some { (s.setF n .info true) with mode := .inTodo n true } else none
      | .inTodo m true, .loc | .inTodo m true, .rem =>
        if m = n ∧ (s.fl n).get f = false then some (s.setF n f true) else none
      | .none, .bounce =>
        if s.known n = true then some { (s.setF n .bounce true) with k := { (s.k.at n) with bounceAbs := false } } else none
      | _, _ => none
    else none
  | .dReq true n =>
    match s.mode with
    | .inTodo m true => if m = n ∧ s.up = true then some { s with mode := .todoC1 n, k := { cur := n } } else none
    | _ => none
  | .dReq false n =>
    match s.mode with
    | .none =>
      if s.up = true ∧ s.k.cur = n ∧
         (s.k.unlinkedInfo ∨ (s.k.messPres ∧ s.k.infoAbs ∧ s.k.todoAbs ∧ s.stale n)) then
        some { s with mode := .foopC1 n, k := { cur := n } }
      else none
    | _ => none
  | .cUnlink n f ok =>
    match s.mode, f with
    | .todoC1 m, .intd => if m = n ∧ ok = (s.fl n).intd then some { (s.setF n .intd false) with mode := .todoC2 n } else none
    | .todoC2 m, .todo => if m = n ∧ ok = (s.fl n).todo then some { (s.setF n .todo false) with mode := .todoC3 n } else none
    | .foopC1 m, .intd => if m = n ∧ ok = (s.fl n).intd then some { (s.setF n .intd false) with mode := .foopC2 n } else none
    | .foopC2 m, .mess => if m = n ∧ ok = (s.fl n).mess then some { (s.setF n .mess false) with mode := .foopC3 n } else none
    | _, _ => none
  | .cDone plus =>
    match s.mode with
    | .todoC3 n => some { s with mode := .none, known := upd s.known n (s.known n || plus) }
    | .foopC3 _ => some { s with mode := .none }
    | .todoC1 _ | .todoC2 _ | .foopC1 _ | .foopC2 _ => if plus = false then some { s with mode := .none } else none
    | _ => none
  | .cUnlinkPid n =>
    if s.pidf n = true ∧ s.stale n then some { s with pidf := upd s.pidf n false } else none
  | .crash =>
    some { s with inj := fun i => crashPc (s.inj i), up := false, mode := .none, k := {}, known := fun _ => false }

def acceptAll : St → List Ev → Option St
  | s, [] => some s
  | s, e :: es => match accept s e with
    | some s' => acceptAll s' es
    | none => none

end Nq.QueueSys
