/-
  Nq.SmtpAddr — the two ends of an envelope address on an SMTP connection:

    qmail-remote.c  `addrmangle()`  and the `MAIL FROM:<…>\r\n` / `RCPT TO:<…>\r\n` lines of `smtp()`
    commands.c      `commands()`    (one command line: up to LF, one trailing CR removed, verb/arg split)
    qmail-smtpd.c   `addrparse()`   (find `<`, strip a source route, remove quoting, localiphost, 900 limit)

  C strings are `Bytes` without NUL.
-/
import Nq.Basic
import Nq.Quote

namespace Nq.SmtpAddr
open Nq Nq.Quote

/-- qmail-remote.c `addrmangle(saout,s)` -/
def addrmangle (s : Bytes) : Bytes :=
  match splitLast AT s with
  | none => s
  | some (box, rest) => quote box ++ rest

/-- "MAIL" -/
def verbMail : Bytes := [77, 65, 73, 76]
/-- "RCPT" -/
def verbRcpt : Bytes := [82, 67, 80, 84]
/-- "FROM:" / "TO:" -/
def argFrom : Bytes := [70, 82, 79, 77, 58]
def argTo : Bytes := [84, 79, 58]

/-- the line `smtp()` sends: `MAIL FROM:<` mangled sender `>` CR LF -/
def mailFromLine (a : Bytes) : Bytes := verbMail ++ SP :: argFrom ++ 60 :: addrmangle a ++ [62, CR, LF]
def rcptToLine (a : Bytes) : Bytes := verbRcpt ++ SP :: argTo ++ 60 :: addrmangle a ++ [62, CR, LF]

/-! ### commands.c -/

/-- bytes up to (excluding) the first LF, and what follows it; `none` if there is no LF (EOF) -/
def readLine : Bytes → Option (Bytes × Bytes)
  | [] => none
  | c :: r => if c = LF then some ([], r) else
      match readLine r with
      | some (l, rest) => some (c :: l, rest)
      | none => none

def dropLastCR (l : Bytes) : Bytes := if l.getLast? = some CR then l.dropLast else l

def dropSpaces : Bytes → Bytes
  | [] => []
  | c :: r => if c = SP then dropSpaces r else c :: r

/-- verb and argument of one command line (LF already removed) -/
def splitCmd (line : Bytes) : Bytes × Bytes :=
  let l := dropLastCR line
  (l.takeWhile (· ≠ SP), dropSpaces (l.dropWhile (· ≠ SP)))

/-! ### qmail-smtpd.c addrparse -/

/-- the copy loop: `esc` = flagesc, `q` = flagquoted -/
def copyAddr (term : Byte) : Bool → Bool → Bytes → Bytes
  | _, _, [] => []
  | true, q, c :: r => c :: copyAddr term false q r
  | false, q, c :: r =>
      if !q && c == term then []
      else if c = BSL then copyAddr term true q r
      else if c = DQ then copyAddr term false (!q) r
      else c :: copyAddr term false q r

/-- everything after the first occurrence of `c`, if any -/
def afterFirst (c : Byte) : Bytes → Option Bytes
  | [] => none
  | x :: r => if x = c then some r else afterFirst c r

/-- `if (*arg == '@') while (*arg) if (*arg++ == ':') break;` -/
def stripRoute (s : Bytes) : Bytes :=
  match s with
  | [] => []
  | c :: _ => if c = AT then (match afterFirst 58 s with | some r => r | none => []) else s

/-- `scan_ulong`: value (mod 2^64) and number of digits consumed -/
def scanUlong : Bytes → Nat → Nat → Nat × Nat × Bytes
  | [], v, n => (v, n, [])
  | c :: r, v, n => if isDigit c then scanUlong r ((v * 10 + (c.toNat - 48)) % 18446744073709551616) (n + 1)
                    else (v, n, c :: r)

/-- `ip_scan`: four dot-separated numbers, each truncated to a byte; returns them and the rest -/
def ipScan (s : Bytes) : Option (List Nat × Bytes) :=
  match scanUlong s 0 0 with
  | (_, 0, _) => none
  | (a, _, r1) => match r1 with
    | 46 :: r1' => match scanUlong r1' 0 0 with
      | (_, 0, _) => none
      | (b, _, r2) => match r2 with
        | 46 :: r2' => match scanUlong r2' 0 0 with
          | (_, 0, _) => none
          | (c, _, r3) => match r3 with
            | 46 :: r3' => match scanUlong r3' 0 0 with
              | (_, 0, _) => none
              | (d, _, r4) => some ([a % 256, b % 256, c % 256, d % 256], r4)
            | _ => none
        | _ => none
    | _ => none

/-- `ip_scanbracket` consuming the WHOLE string `s`: `[a.b.c.d]` -/
def ipBracketAll (s : Bytes) : Option (List Nat) :=
  match s with
  | 91 :: r => match ipScan r with
    | some (ip, [93]) => some ip
    | _ => none
  | _ => none

/-- what `addrparse` needs of qmail-smtpd's configuration -/
structure Cfg where
  liphost : Option Bytes := none        -- control/localiphost (`liphostok`)
  ipme : List (List Nat) := []          -- this host's addresses (`ipme_is`)

/-- the `if (liphostok)` block -/
def localIp (cfg : Cfg) (addr : Bytes) : Bytes :=
  match cfg.liphost with
  | none => addr
  | some lh =>
    match splitLast AT addr with
    | none => addr
    | some (box, rest) =>
      match ipBracketAll (rest.drop 1) with
      | some ip => if cfg.ipme.contains ip then box ++ [AT] ++ lh else addr
      | none => addr

/-- `addrparse(arg)`: `none` = return 0 (address longer than 899 bytes) -/
def addrparse (cfg : Cfg) (arg : Bytes) : Option Bytes :=
  let a : Bytes :=
    match afterFirst 60 arg with
    | some r => copyAddr 62 false false (stripRoute r)
    | none =>
      let r := match afterFirst 58 arg with
        | some r => r
        | none => []
      copyAddr SP false false (stripRoute (dropSpaces r))
  let a' := localIp cfg a
  if a'.length + 1 > 900 then none else some a'

end Nq.SmtpAddr
