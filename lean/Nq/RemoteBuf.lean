/-
  Nq.RemoteBuf — qmail-remote.c `blast()` *over the 1024-byte `smtpto` buffer* and `smtp()` with it.

  `Nq.RemoteSmtp.dataPhase` is told by its script on which side of the statement `flagcritical = 1` a
  failing write of `blast()` falls (`WPoint.body` / `WPoint.final`).  Here that label is *computed*:
  `blast()` is run over the substdio output model (`Nq.Substdio.OSt`: `substdio_put` / `substdio_flush`
  over `allwrite`, write script `ws`: `0` = this `write()` fails, `k+1` = it takes at most `k+1` bytes,
  exhausted = takes everything), with the individual `substdio_put(&smtpto,…)` calls in source order
  (`Nq.SmtpIO.rputs`).  A failing write ends the run (`safewrite` → `dropped()` → `_exit`); the outcome
  records
    * whether the statement `flagcritical = 1` had been executed (`crit`),
    * the bytes handed to the `write()` call that failed (`tried`),
    * everything the socket has taken (`OSt.out`).

  C (qmail-remote.c)                                   Lean
  ---------------------------------------------------  ------------------------------------------
  `substdio_put(&smtpto,…)` calls for one input byte   `putAllT o (rputs st c)`
  the failing `write()` inside `substdio_flush`        `flushTry`
  `flagcritical = 1; put(".\r\n",3); flush`            `bfinish`
  `blast()`                                            `bloop`, `bblast`
  `smtp()` from DATA on / RCPT loop / start            `dataPhaseB`, `rcptLoopB`, `runB`, `smtpRunB`

  The message on descriptor 0 is `msg` followed by end of file or (`err`) by a read error, as in
  `Nq.RemoteSmtp.Args`.  The writes of the *commands* stay atomic as in `Nq.RemoteSmtp` (each command is
  one `write()`; true while a command is shorter than the buffer).  Core Lean only.
-/
import Nq.RemoteSmtp
import Nq.SmtpIO

namespace Nq.RemoteBuf
open Nq Nq.Substdio Nq.SmtpOut Nq.SmtpIO Nq.RemoteSmtp

/-- size of `smtptobuf` -/
def SMTPTO : Nat := 1024

/-- `substdio_flush(s)` fails: the bytes handed to the `write()` call that returned -1 — what `allwrite`
    had not yet got rid of (each `op(fd,buf,len)` call is given everything that remains) -/
def flushTry (s : OSt) : Bytes := s.buf.drop (allwrite s.ws s.buf).2.1.length

/-- successive `substdio_put(&smtpto,d,len)` calls with `len ≤ s->n` (no direct writes: a put can fail
    only in its `substdio_flush`); `some t` = one failed, `t` = the bytes of the failing `write()` -/
def putAllT : OSt → List Bytes → OSt × Option Bytes
  | o, [] => (o, none)
  | o, d :: ds =>
      let r := put o d
      if r.2 then putAllT r.1 ds else (r.1, some (flushTry o))

inductive BRes
  | sent (o : OSt)                                    -- `blast()` returned
  | partialLine (o : OSt)                             -- `perm_partialline()`
  | tempRead (o : OSt)                                -- `temp_read()`
  | dropped (o : OSt) (crit : Bool) (tried : Bytes)   -- a write failed: `dropped()` with `flagcritical = crit`
  deriving Repr, DecidableEq

def BRes.ost : BRes → OSt
  | .sent o => o
  | .partialLine o => o
  | .tempRead o => o
  | .dropped o _ _ => o

/-- `flagcritical = 1; substdio_put(&smtpto,".\r\n",3); substdio_flush(&smtpto);` -/
def bfinish (o : OSt) : BRes :=
  match putAllT o [[DOT, CR, LF]] with
  | (o1, some t) => .dropped o1 true t
  | (o1, none) =>
      let f := flush o1
      if f.2 then .sent f.1 else .dropped f.1 true (flushTry o1)

/-- the loop of `blast()`: one iteration per message byte, `st` = the `substdio_get` site; at the end of
    the bytes the next `substdio_get` returns -1 (`err`) or 0 -/
def bloop (err : Bool) : OSt → RSt → Bytes → BRes
  | o, st, c :: m =>
      match putAllT o (rputs st c) with
      | (o1, some t) => .dropped o1 false t
      | (o1, none) => bloop err o1 (rstep st c).1 m
  | o, st, [] =>
      if err then .tempRead o else
      match st with
      | .top => bfinish o                              -- `if (r == 0) break;`
      | .mid => .partialLine o                         -- `if (r == 0) perm_partialline();`
      | .cr =>                                         -- `if (r == 0) break;` (inner), put("\r\n",2), top again
          match putAllT o [[CR, LF]] with
          | (o1, some t) => .dropped o1 false t
          | (o1, none) => bfinish o1

/-- `blast()` with `smtpto` empty (it always is: `substdio_putsflush(&smtpto,"DATA\r\n")` precedes) -/
def bblast (ws : List Nat) (msg : Bytes) (err : Bool) : BRes := bloop err (ostart SMTPTO ws) .top msg

/-- the label `Nq.RemoteSmtp.dataPhase` was given as an input, computed -/
def blastLabel : BRes → Option WPoint
  | .dropped _ false _ => some .body
  | .dropped _ true _ => some .final
  | _ => none

/-! ### `smtp()` with the buffered `blast()` -/

/-- which write fails.  `cmd w`: a command write (`helo | mail | rcpt i | data | quit`; `body`/`final` are
    not commands and count as "none"), every write of `blast()` succeeds in one piece;
    `blast ws`: every command write succeeds, `ws` is the write script of `smtpto` during `blast()`
    (short writes, failure at any `write()` call) -/
inductive WB
  | cmd (w : Option WPoint)
  | blast (ws : List Nat)
  deriving Repr, DecidableEq

def WB.cmdWf : WB → Option WPoint
  | .cmd (some .body) => none
  | .cmd (some .final) => none
  | .cmd w => w
  | .blast _ => none

def WB.ws : WB → List Nat
  | .cmd _ => []
  | .blast ws => ws

structure ScriptB where
  stream : Bytes
  wb : WB

/-- outcome; `wire` is exact (no `wireOpen`), `tried` = the bytes of a failing write of `blast()` -/
structure ResB where
  rcpt : List Bytes
  msg : Bytes
  wire : Bytes
  quit : Bool := false
  tried : Option Bytes := none

def ofRes (r : Res) : ResB := { rcpt := r.rcpt, msg := r.msg, wire := r.wire, quit := r.quit }

/-- `smtp()` from the DATA command on -/
def dataPhaseB (a : Args) (wb : WB) (rs : List Bytes) (w : Bytes) (bother : Bool) (txt : Bytes)
    (fs : List Bytes) : ResB :=
  let wf := wb.cmdWf
  if bother = false then ofRes (quitWith a wf rs w (lit "DGiving up on ") [] txt) else
  if wf = some .data then ofRes (lost a rs w false) else
  let w1 := w ++ lit "DATA\r\n"
  match fs with
  | [] => ofRes (lost a rs w1 false)
  | d :: fs =>
    if codeNat d ≥ 500 then ofRes (quitWith a wf rs w1 (lit "D") (lit " failed on DATA command") (textOf d)) else
    if codeNat d ≥ 400 then ofRes (quitWith a wf rs w1 (lit "Z") (lit " failed on DATA command") (textOf d)) else
    match bblast wb.ws a.msg a.msgErr with
    | .dropped o crit t =>
        { rcpt := rs, msg := droppedRep a.host crit, wire := w1 ++ o.out, tried := some t }
    | .tempRead o => { rcpt := rs, msg := tempReadRep, wire := w1 ++ o.out }
    | .partialLine o => { rcpt := rs, msg := permPartialRep, wire := w1 ++ o.out }
    | .sent o =>
      let w2 := w1 ++ o.out
      match fs with
      | [] => ofRes (lost a rs w2 true)
      | f :: _ =>
        if codeNat f ≥ 500 then ofRes (quitWith a wf rs w2 (lit "D") (lit " failed after I sent the message") (textOf f)) else
        if codeNat f ≥ 400 then ofRes (quitWith a wf rs w2 (lit "Z") (lit " failed after I sent the message") (textOf f)) else
        ofRes (quitWith a wf rs w2 (lit "K") (lit " accepted message") (textOf f))

def rcptLoopB (a : Args) (wb : WB) : Nat → List Bytes → List Bytes → Bytes → Bool → Bytes →
    List Bytes → ResB
  | _, [], rs, w, bother, txt, fs => dataPhaseB a wb rs w bother txt fs
  | i, r :: more, rs, w, bother, txt, fs =>
    if wb.cmdWf = some (.rcpt i) then ofRes (lost a rs w false) else
    let w1 := w ++ (lit "RCPT TO:<" ++ r ++ lit ">\r\n")
    match fs with
    | [] => ofRes (lost a rs w1 false)
    | p :: fs =>
      if codeNat p ≥ 500 then
        rcptLoopB a wb (i + 1) more (rs ++ [[104] ++ a.host ++ notLike ++ said (textOf p)]) w1 bother [] fs
      else if codeNat p ≥ 400 then
        rcptLoopB a wb (i + 1) more (rs ++ [[115] ++ a.host ++ notLike ++ said (textOf p)]) w1 bother [] fs
      else
        rcptLoopB a wb (i + 1) more (rs ++ [[114]]) w1 true (textOf p) fs

def runB (a : Args) (wb : WB) (fs : List Bytes) : ResB :=
  let wf := wb.cmdWf
  match fs with
  | [] => ofRes (lost a [] [] false)
  | g :: fs =>
    if codeNat g ≠ 220 then ofRes (quitWith a wf [] [] (lit "ZConnected to ") (lit " but greeting failed") (textOf g)) else
    if wf = some .helo then ofRes (lost a [] [] false) else
    let w1 := lit "HELO " ++ a.helo ++ lit "\r\n"
    match fs with
    | [] => ofRes (lost a [] w1 false)
    | h :: fs =>
      if codeNat h ≠ 250 then ofRes (quitWith a wf [] w1 (lit "ZConnected to ") (lit " but my name was rejected") (textOf h)) else
      if wf = some .mail then ofRes (lost a [] w1 false) else
      let w2 := w1 ++ (lit "MAIL FROM:<" ++ a.sender ++ lit ">\r\n")
      match fs with
      | [] => ofRes (lost a [] w2 false)
      | m :: fs =>
        if codeNat m ≥ 500 then ofRes (quitWith a wf [] w2 (lit "DConnected to ") (lit " but sender was rejected") (textOf m)) else
        if codeNat m ≥ 400 then ofRes (quitWith a wf [] w2 (lit "ZConnected to ") (lit " but sender was rejected") (textOf m)) else
        rcptLoopB a wb 0 a.rcpts [] w2 false (textOf m) fs

def smtpRunB (a : Args) (sb : ScriptB) : ResB := runB a sb.wb (frames .d1 [] sb.stream)

def renderB (r : ResB) : Bytes := (r.rcpt ++ [r.msg]).flatMap (· ++ [NUL])

/-- the script of the unbuffered model that this run corresponds to: the label of a failing write of
    `blast()` is the one computed by `bblast` -/
def effWf (a : Args) (wb : WB) : Option WPoint :=
  match wb with
  | .cmd _ => wb.cmdWf
  | .blast ws => blastLabel (bblast ws a.msg a.msgErr)

def toScript (a : Args) (sb : ScriptB) : Script := { stream := sb.stream, wfail := effWf a sb.wb }

/-- the write script "the `k`-th `write()` of `blast()` (counted from 0) fails, the others take all they are given" -/
def failAt (k : Nat) : List Nat := List.replicate k SMTPTO ++ [0]

end Nq.RemoteBuf
