import Nq.Lemmas.Pop3Walk4
namespace Nq.Lemmas.Pop3
open Nq Nq.Pop3 Nq.Pop3Ref Nq.Lemmas.Pop3Fmt

theorem mem_of_getElem? {α} (l : List α) (i : Nat) (x : α) (h : l[i]? = some x) : x ∈ l := by
  exact List.mem_of_getElem? h

theorem step_list_core (s : Sess) (rs : RSt) (h : Sim s rs) (verb arg : Bytes) (uidl : Bool)
    (x1 : arg = [] → exec s verb arg = (s, okLine ++ listAll uidl 0 s.msgs ++ [DOT, CR, LF], none))
    (x2 : ∀ e, arg ≠ [] → msgno s arg = .err e → exec s verb arg = (s, e, none))
    (x3 : ∀ i m, arg ≠ [] → msgno s arg = .ok i → s.msgs[i]? = some m → exec s verb arg = (s, okSp ++ listLine i m uidl, none))
    (href : refStep rs (lower verb) arg =
      (if arg = [] then (rs, .multi (listing rs (listText uidl)))
       else match rs.valid arg with
         | some i => match rs.msgs[i]? with
           | some m => (rs, .okText (fmtNat (i + 1) ++ [SP] ++ listText uidl m))
           | none => (rs, .err)
         | none => (rs, .err))) :
    StepOk s rs verb arg := by
  by_cases ha : arg = []
  · have e1 := x1 ha
    have e2 : refStep rs (lower verb) arg = (rs, .multi (listing rs (listText uidl))) := by
      rw [href]; simp [ha]
    have hdec := fun w => listing_decode rs.marked uidl w s.msgs 0 rs.msgs h.rel h.noLF
    refine ⟨fun w => ?_, by rw [e1, e2]; exact h, by rw [e1], fun hh => by rw [e2] at hh; cases hh⟩
    rw [e1, e2]
    have : okLine ++ listAll uidl 0 s.msgs ++ [DOT, CR, LF] ++ w = okLine ++ (listAll uidl 0 s.msgs ++ [DOT, CR, LF]) ++ w := by simp
    rw [this]
    apply match_multi
    unfold popDecode
    rw [hdec w]
    rfl
  · have hv := valid_msgno s rs h arg
    cases hm : msgno s arg with
    | err e =>
      rw [hm] at hv
      obtain ⟨hval, t, he, ht⟩ := hv
      have e1 := x2 e ha hm
      have e2 : refStep rs (lower verb) arg = (rs, .err) := by
        rw [href]; simp [ha, hval]
      exact ⟨fun w => by rw [e1, e2, he]; exact match_err t w ht, by rw [e1, e2]; exact h, by rw [e1],
        fun hh => by rw [e2] at hh; cases hh⟩
    | ok i =>
      rw [hm] at hv
      obtain ⟨hval, m, r, hmi, hri, hd, hp, hs⟩ := hv
      have e1 := x3 i m ha hm hmi
      have e2 : refStep rs (lower verb) arg = (rs, .okText (fmtNat (i + 1) ++ [SP] ++ listText uidl r)) := by
        rw [href]; simp [ha, hval, hri]
      have hr : r ∈ rs.msgs := List.mem_of_getElem? hri
      refine ⟨fun w => ?_, by rw [e1, e2]; exact h, by rw [e1], fun hh => by rw [e2] at hh; cases hh⟩
      rw [e1, e2, listLine_eq i m r uidl hp hs]
      have : okSp ++ (fmtNat (i + 1) ++ [SP] ++ listText uidl r ++ [CR, LF]) ++ w =
          okSp ++ (fmtNat (i + 1) ++ [SP] ++ listText uidl r) ++ [CR, LF] ++ w := by simp
      rw [this]
      exact match_okText _ w (listline_noLF i uidl r (h.noLF r hr))

theorem step_list (s : Sess) (rs : RSt) (h : Sim s rs) (verb arg : Bytes) (hL : lower verb = vList) :
    StepOk s rs verb arg := by
  apply step_list_core s rs h verb arg false
  · intro ha; simp [exec, verbIs, hL, ha, vQuit, vStat, vList, vUidl]
  · intro e ha hm; simp [exec, verbIs, hL, ha, hm, vQuit, vStat, vList, vUidl]
  · intro i m ha hm hmi; simp [exec, verbIs, hL, ha, hm, hmi, vQuit, vStat, vList, vUidl]
  · rw [hL]; simp [refStep, vList]; rfl

theorem step_uidl (s : Sess) (rs : RSt) (h : Sim s rs) (verb arg : Bytes) (hL : lower verb = vUidl) :
    StepOk s rs verb arg := by
  apply step_list_core s rs h verb arg true
  · intro ha; simp [exec, verbIs, hL, ha, vQuit, vStat, vList, vUidl]
  · intro e ha hm; simp [exec, verbIs, hL, ha, hm, vQuit, vStat, vList, vUidl]
  · intro i m ha hm hmi; simp [exec, verbIs, hL, ha, hm, hmi, vQuit, vStat, vList, vUidl]
  · rw [hL]; simp [refStep, vUidl]; rfl

theorem step_retr_core (s : Sess) (rs : RSt) (h : Sim s rs) (verb arg : Bytes) (top : Bool)
    (x1 : ∀ e, msgno s arg = .err e → exec s verb arg = (s, e, none))
    (x2 : ∀ i m, msgno s arg = .ok i → s.msgs[i]? = some m → fsFind s.fs m.fn = none →
            exec s verb arg = (s, errLine "unable to open that message", none))
    (x3 : ∀ i m f, msgno s arg = .ok i → s.msgs[i]? = some m → fsFind s.fs m.fn = some f →
            exec s verb arg = (s, okLine ++ blast (if top then topLimit arg else 0) f.data, none))
    (href : refStep rs (lower verb) arg =
      (match rs.valid arg with
       | none => (rs, .err)
       | some i => match rs.msgs[i]? with
         | none => (rs, .err)
         | some m =>
           if rs.gone.contains m.path then (rs, .err)
           else if top then
             match rs.num (((leadNumber arg).2).dropWhile (· = SP)) with
             | some k => (rs, .multi (topLines k (lines m.data) ++ [[]]))
             | none => (rs, .multiOrErr (lines m.data ++ [[]]))
           else (rs, .multi (lines m.data ++ [[]])))) :
    StepOk s rs verb arg := by
  have hnum : rs.num (((leadNumber arg).2).dropWhile (· = SP)) = topCount arg := by
    rw [num_eq rs h.modz]
    unfold topCount leadNumber
    simp only
  rw [hnum] at href
  have hv := valid_msgno s rs h arg
  cases hm : msgno s arg with
  | err e =>
    rw [hm] at hv
    obtain ⟨hval, t, he, ht⟩ := hv
    have e1 := x1 e hm
    have e2 : refStep rs (lower verb) arg = (rs, .err) := by
      rw [href]; simp [hval]
    exact ⟨fun w => by rw [e1, e2, he]; exact match_err t w ht, by rw [e1, e2]; exact h, by rw [e1],
      fun hh => by rw [e2] at hh; cases hh⟩
  | ok i =>
    rw [hm] at hv
    obtain ⟨hval, m, r, hmi, hri, hd, hp, hs⟩ := hv
    have hr : r ∈ rs.msgs := List.mem_of_getElem? hri
    obtain ⟨fgone, fhere⟩ := h.file r hr
    by_cases hg : r.path ∈ rs.gone
    · have hfs : fsFind s.fs m.fn = none := by rw [← hp]; exact fgone hg
      have e1 := x2 i m hm hmi hfs
      have e2 : refStep rs (lower verb) arg = (rs, .err) := by
        rw [href]; simp [hval, hri, hg]
      exact ⟨fun w => by rw [e1, e2, errLine_eq]; exact match_err _ w noLF_open, by rw [e1, e2]; exact h, by rw [e1],
        fun hh => by rw [e2] at hh; cases hh⟩
    · obtain ⟨f, hf, hdata⟩ := fhere hg
      have hfs : fsFind s.fs m.fn = some f := by rw [← hp]; exact hf
      have e1 := x3 i m f hm hmi hfs
      have hlen : f.data.length < U64 - 1 := by
        rw [hdata]
        have := mem_le_sum rs.msgs r hr
        have := h.total
        omega
      have hdec := fun w => top_decoded arg f.data w hlen
      cases top with
      | false =>
        have e2 : refStep rs (lower verb) arg = (rs, .multi (lines r.data ++ [[]])) := by
          rw [href]; simp [hval, hri, hg]
        refine ⟨fun w => ?_, by rw [e1, e2]; exact h, by rw [e1], fun hh => by rw [e2] at hh; cases hh⟩
        rw [e1, e2]
        apply match_multi
        simp only [Bool.false_eq_true, if_false]
        rw [retr_decoded, hdata]
      | true =>
        simp only [if_true] at e1
        cases hc : topCount arg with
        | some k =>
          have e2 : refStep rs (lower verb) arg = (rs, .multi (topLines k (lines r.data) ++ [[]])) := by
            rw [href]; simp [hval, hri, hg, hc]
          refine ⟨fun w => ?_, by rw [e1, e2]; exact h, by rw [e1], fun hh => by rw [e2] at hh; cases hh⟩
          rw [e1, e2]
          apply match_multi
          rw [hdec w, hc, hdata]
        | none =>
          have e2 : refStep rs (lower verb) arg = (rs, .multiOrErr (lines r.data ++ [[]])) := by
            rw [href]; simp [hval, hri, hg, hc]
          refine ⟨fun w => ?_, by rw [e1, e2]; exact h, by rw [e1], fun hh => by rw [e2] at hh; cases hh⟩
          rw [e1, e2]
          apply match_multiOrErr
          rw [hdec w, hc, hdata]

theorem step_retr (s : Sess) (rs : RSt) (h : Sim s rs) (verb arg : Bytes) (hL : lower verb = vRetr) :
    StepOk s rs verb arg := by
  have hlim : limitFor verb arg = 0 := limitFor_retr verb arg (by simp [verbIs, hL, vRetr, vTop])
  apply step_retr_core s rs h verb arg false
  · intro e hm; simp [exec, verbIs, hL, hm, vQuit, vStat, vList, vUidl, vDele, vRetr, vTop]
  · intro i m hm hmi hf; simp [exec, verbIs, hL, hm, hmi, hf, vQuit, vStat, vList, vUidl, vDele, vRetr, vTop]
  · intro i m f hm hmi hf
    simp only [exec, hlim]
    simp [verbIs, hL, hm, hmi, hf, vQuit, vStat, vList, vUidl, vDele, vRetr, vTop]
  · rw [hL]; simp [refStep, vRetr]; rfl

theorem step_top (s : Sess) (rs : RSt) (h : Sim s rs) (verb arg : Bytes) (hL : lower verb = vTop) :
    StepOk s rs verb arg := by
  have hlim : limitFor verb arg = topLimit arg := limitFor_top verb arg (by simp [verbIs, hL])
  apply step_retr_core s rs h verb arg true
  · intro e hm; simp [exec, verbIs, hL, hm, vQuit, vStat, vList, vUidl, vDele, vRetr, vTop]
  · intro i m hm hmi hf; simp [exec, verbIs, hL, hm, hmi, hf, vQuit, vStat, vList, vUidl, vDele, vRetr, vTop]
  · intro i m f hm hmi hf
    simp only [exec, hlim]
    simp [verbIs, hL, hm, hmi, hf, vQuit, vStat, vList, vUidl, vDele, vRetr, vTop]
  · rw [hL]; simp [refStep, vTop, vRetr]; rfl

/-- **Step simulation.** For every command that is not QUIT: the model's reply, followed by anything,
is accepted by the reference as the reply to that command (with exactly the reply consumed), the
successor states are related again, and the session goes on. -/
theorem step_sim (s : Sess) (rs : RSt) (h : Sim s rs) (verb arg : Bytes) (hq : lower verb ≠ vQuit) :
    StepOk s rs verb arg := by
  by_cases h2 : lower verb = vStat
  · exact step_stat s rs h verb arg h2
  by_cases h3 : lower verb = vList
  · exact step_list s rs h verb arg h3
  by_cases h4 : lower verb = vUidl
  · exact step_uidl s rs h verb arg h4
  by_cases h5 : lower verb = vDele
  · exact step_dele s rs h verb arg h5
  by_cases h6 : lower verb = vRetr
  · exact step_retr s rs h verb arg h6
  by_cases h7 : lower verb = vTop
  · exact step_top s rs h verb arg h7
  by_cases h8 : lower verb = vRset
  · exact step_rset s rs h verb arg h8
  by_cases h9 : lower verb = vLast
  · exact step_last s rs h verb arg h9
  by_cases h10 : lower verb = vNoop
  · exact step_noop s rs h verb arg h10
  exact step_unknown s rs h verb arg hq h2 h3 h4 h5 h6 h7 h8 h9 h10

end Nq.Lemmas.Pop3
