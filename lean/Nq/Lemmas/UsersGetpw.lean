/- qmail-getpw's userext() loop against the declarative password-file rules (`specGetpw`). -/
import Nq.Users
import Nq.Spec.Users

namespace Nq.Lemmas.Users
open Nq Nq.Users Nq.Spec.Users Nq.Gen.Lspawn

/-- may the address be split at `n`? -/
def splitOk (loc : Bytes) (n : Nat) : Bool :=
  n < GETPW_USERLEN && (n == loc.length || loc.getD n 0 == breakByte)

/-- what a classified split point means for userext() -/
def toUx (loc : Bytes) : Option (Nat × Acct) → Ux
  | some (n, .user pw) => if n = loc.length then .user pw [] [] else .user pw [45] (loc.drop (n + 1))
  | some (_, .sys) => .exit QLX_SYS
  | some (_, .nfs) => .exit QLX_NFS
  | _ => .none

theorem splitOk_iff (loc : Bytes) (n : Nat) :
    splitOk loc n = true ↔ (n < GETPW_USERLEN ∧ (n = loc.length ∨ loc.getD n 0 = breakByte)) := by
  simp [splitOk]

theorem userextAt_eq (db : PwDb) (loc : Bytes) (n : Nat) :
    userextAt db loc n =
      if splitOk loc n then toUx loc (some (n, acct db (lower (loc.take n)))) else .none := by
  unfold userextAt
  by_cases hc : (n < GETPW_USERLEN ∧ (n = loc.length ∨ loc.getD n 0 = breakByte))
  · have hs : splitOk loc n = true := (splitOk_iff loc n).mpr hc
    rw [if_pos hc, hs, if_pos rfl]
    unfold acct
    cases db.getpwnam (lower (List.take n loc)) with
    | none => rfl
    | some pw =>
      simp only []
      by_cases hb : pw.busy = true
      · simp [hb, toUx]
      · simp only [hb, if_false, Bool.false_eq_true]
        by_cases hu : pw.uid = 0
        · simp [hu, toUx]
        · simp only [hu, if_false]
          cases db.stat pw.dir with
          | ok o =>
            by_cases ho : o = pw.uid
            · simp only [ho, if_true, toUx, userextAt.breakAscii]
            · simp [ho, toUx]
          | gone => simp [toUx]
          | temp => simp [toUx]
  · have hs : splitOk loc n = false := by
      cases h : splitOk loc n with
      | false => rfl
      | true => exact absurd ((splitOk_iff loc n).mp h) hc
    rw [if_neg hc, hs]; rfl

def pts (loc : Bytes) (n : Nat) : List Nat := ((List.range (n + 1)).reverse).filter (splitOk loc)

theorem pts_succ (loc : Bytes) (n : Nat) :
    pts loc (n + 1) = if splitOk loc (n + 1) then (n + 1) :: pts loc n else pts loc n := by
  unfold pts
  rw [List.range_succ, List.reverse_append]
  simp only [List.reverse_cons, List.reverse_nil, List.nil_append, List.singleton_append, List.filter_cons]

theorem pts_zero (loc : Bytes) : pts loc 0 = if splitOk loc 0 then [0] else [] := by
  unfold pts; simp [List.range_succ, List.filter_cons]

theorem userext_eq (db : PwDb) (loc : Bytes) : ∀ n,
    userext db loc n = toUx loc (((pts loc n).map (classify db loc)).find? (fun p => !p.2.isNo)) := by
  intro n
  induction n with
  | zero =>
    rw [userext, userextAt_eq, pts_zero]
    by_cases h : splitOk loc 0 = true
    · simp only [h, if_true, List.map_cons, List.map_nil, List.find?_cons, classify]
      cases ha : acct db (lower (List.take 0 loc)) <;> simp [toUx, Acct.isNo]
    · simp [h, toUx]
  | succ n ih =>
    rw [userext, userextAt_eq, pts_succ]
    by_cases h : splitOk loc (n + 1) = true
    · simp only [h, if_true, List.map_cons, List.find?_cons, classify]
      cases ha : acct db (lower (List.take (n + 1) loc)) with
      | no =>
        simp only [Acct.isNo, Bool.not_true, toUx]
        exact ih
      | user pw =>
        simp only [Acct.isNo, Bool.not_false, toUx]
        by_cases hn : n + 1 = loc.length <;> simp [hn]
      | sys => simp [toUx, Acct.isNo]
      | nfs => simp [toUx, Acct.isNo]
    · simp only [h, Bool.false_eq_true, if_false]
      exact ih

theorem getpwMain_eq_spec (db : PwDb) (loc : Bytes) : getpwMain db loc = specGetpw db loc := by
  unfold getpwMain specGetpw
  rw [userext_eq]
  have : splitPoints loc = pts loc loc.length := rfl
  rw [this]
  cases hf : ((pts loc loc.length).map (classify db loc)).find? (fun p => !p.2.isNo) with
  | none =>
    simp only [toUx]
    cases db.getpwnam auto_usera with
    | none => rfl
    | some pw => rfl
  | some p =>
    obtain ⟨n, a⟩ := p
    have hne : a.isNo = false := by
      have := List.find?_some hf
      simpa using this
    cases a with
    | no => simp [Acct.isNo] at hne
    | user pw =>
      simp only [toUx]
      by_cases hn : n = loc.length <;> simp [hn]
    | sys => rfl
    | nfs => rfl

end Nq.Lemmas.Users
