/- Nq.Lemmas.SmtpAddrParse — `addrparse = specAddrparse`, and the trace checkers built on the spec are the original ones. -/
import Nq.Lemmas.SmtpAddrPath
import Nq.Lemmas.SmtpLip
import Nq.Spec.SmtpAddrParse

namespace Nq.SmtpPolicy
open Nq Nq.SmtpSession Nq.SmtpAddrSpec

theorem addrparse_eq_spec (cfg : Cfg) (arg : Bytes) : addrparse cfg arg = specAddrparse cfg arg := by
  have hl : Gen.ADDRMAX = addrLimit := rfl
  simp only [addrparse, specAddrparse, addrCore, Nq.Lemmas.Smtp.lipSubst_eq_spec, addrRaw_eq_spec, hl]
  by_cases h : (lipSpec cfg (specPath arg)).length + 1 ≤ addrLimit
  · rw [if_pos h, if_neg (by omega)]
  · rw [if_neg h, if_pos (by omega)]

theorem addrparse_fun_eq : addrparse = specAddrparse := by
  funext cfg arg; exact addrparse_eq_spec cfg arg

theorem AddrSpec_iff (cfg : Cfg) (arg : Bytes) (res : Option Bytes) :
    AddrSpec cfg arg res ↔ res = specAddrparse cfg arg := by
  constructor
  · rintro ⟨a, hp, h⟩
    have ha := (IsPath_iff arg a).mp hp
    subst ha
    rcases h with ⟨h1, h2⟩ | ⟨h1, h2⟩
    · rw [h2, specAddrparse, if_pos h1]
    · rw [h2, specAddrparse, if_neg (by omega)]
  · intro h
    refine ⟨specPath arg, specPath_is arg, ?_⟩
    by_cases hl : (lipSpec cfg (specPath arg)).length + 1 ≤ addrLimit
    · exact Or.inl ⟨hl, by rw [h, specAddrparse, if_pos hl]⟩
    · exact Or.inr ⟨by omega, by rw [h, specAddrparse, if_neg hl]⟩

theorem acceptedRcptS_eq : acceptedRcptS = acceptedRcpt := by
  funext cfg x; simp only [acceptedRcptS, acceptedRcpt, addrparse_fun_eq]
  cases x.1 <;> rfl

theorem openTxnBS_eq : openTxnBS = openTxnB := by
  funext cfg pre; simp only [openTxnBS, openTxnB, addrparse_fun_eq]
  cases h : lastSeg discards pre with
  | none => rfl
  | some v =>
    obtain ⟨⟨c, oj⟩, mid⟩ := v
    cases c <;> rfl

theorem submitOKBS_eq : submitOKBS = submitOKB := by
  funext cfg pre sub; simp only [submitOKBS, submitOKB, openTxnBS_eq, acceptedRcptS_eq]
  cases openTxnB cfg pre with
  | none => rfl
  | some v => obtain ⟨a, b⟩ := v; rfl

theorem gateOKBS_eq : gateOKBS = gateOKB := by
  funext cfg pre arg; simp only [gateOKBS, gateOKB, openTxnBS_eq, addrparse_fun_eq]
  cases openTxnB cfg pre with
  | none => rfl
  | some v =>
    obtain ⟨a, b⟩ := v
    cases specAddrparse cfg arg <;> rfl

theorem evOKBS_eq : evOKBS = evOKB := by
  funext cfg pre x; simp only [evOKBS, evOKB, submitOKBS_eq, gateOKBS_eq]
  cases x.2.submit <;> cases x.1 <;> rfl

theorem traceBadS_eq (cfg : Cfg) : ∀ (tr pre : List Ev) (i : Nat), traceBadS cfg pre tr i = traceBad cfg pre tr i := by
  intro tr
  induction tr with
  | nil => intro pre i; rfl
  | cons x r ih =>
    intro pre i
    simp only [traceBadS, traceBad, evOKBS_eq, ih]

end Nq.SmtpPolicy
