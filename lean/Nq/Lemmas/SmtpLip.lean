/-
  Lemmas for C08: the IP-literal scanner of ip.c (`scanBracket`, with `scan_ulong`'s wrap-around and the
  truncation to `unsigned char`) recognises exactly the literals of the split-at-dots specification
  `ipLiteral`, with the same value; hence `lipSubst = lipSpec` for every address.
-/
import Nq.Lemmas.SmtpAddr

namespace Nq.Lemmas.Smtp
open Nq Nq.SmtpSession Nq.SmtpPolicy

theorem numVal_go (ds : Bytes) : ∀ (acc : UInt8) (n : Nat), acc.toNat = n % 256 → (∀ d ∈ ds, isDigit d = true) →
    (ds.foldl (fun acc d => acc * 10 + (d - 48)) acc).toNat = (ds.foldl (fun acc d => acc * 10 + (d.toNat - 48)) n) % 256 := by
  induction ds with
  | nil => intro acc n h _; simpa using h
  | cons d r ih =>
    intro acc n h hd
    simp only [List.foldl_cons]
    apply ih
    · have hdig := hd d (List.mem_cons_self ..)
      unfold isDigit at hdig
      simp only [Bool.and_eq_true, decide_eq_true_eq] at hdig
      obtain ⟨h1, h2⟩ := hdig
      have h1' : (48 : UInt8) ≤ d := h1
      rw [UInt8.le_iff_toNat_le] at h1 h2
      simp at h1 h2
      rw [UInt8.toNat_add, UInt8.toNat_mul, UInt8.toNat_sub_of_le _ _ h1', h]
      simp
    · intro x hx; exact hd x (List.mem_cons_of_mem _ hx)

theorem numVal_eq (ds : Bytes) (h : ∀ d ∈ ds, isDigit d = true) : numVal ds = UInt8.ofNat (decVal ds % 256) := by
  apply UInt8.toNat_inj.1
  have := numVal_go ds 0 0 (by simp) h
  unfold numVal decVal
  rw [this]
  simp

/-! splitOnB -/
theorem splitOnB_ne_nil (sep : Byte) : ∀ (l : Bytes), splitOnB sep l ≠ []
  | [] => by simp [splitOnB]
  | c :: r => by
    unfold splitOnB
    by_cases h : c = sep
    · simp [h]
    · simp only [h, if_false]
      cases h2 : splitOnB sep r with
      | nil => simp
      | cons p ps => simp

theorem splitOnB_nosep (sep : Byte) : ∀ (l : Bytes), sep ∉ l → splitOnB sep l = [l]
  | [], _ => rfl
  | c :: r, h => by
    have h1 : c ≠ sep := fun e => h (e ▸ List.mem_cons_self ..)
    have h2 : sep ∉ r := fun hm => h (List.mem_cons_of_mem _ hm)
    simp [splitOnB, h1, splitOnB_nosep sep r h2]

theorem splitOnB_append (sep : Byte) (r : Bytes) : ∀ (a : Bytes), sep ∉ a → splitOnB sep (a ++ sep :: r) = a :: splitOnB sep r
  | [], _ => by simp [splitOnB]
  | c :: a, h => by
    have h1 : c ≠ sep := fun e => h (e ▸ List.mem_cons_self ..)
    have h2 : sep ∉ a := fun hm => h (List.mem_cons_of_mem _ hm)
    simp [splitOnB, h1, splitOnB_append sep r a h2]

/-- the pieces contain no separator and rebuild the string -/
theorem splitOnB_four (sep : Byte) : ∀ (l a b c e : Bytes), splitOnB sep l = [a, b, c, e] →
    l = a ++ sep :: (b ++ sep :: (c ++ sep :: e)) := by
  have three : ∀ (l b c e : Bytes), splitOnB sep l = [b, c, e] → l = b ++ sep :: (c ++ sep :: e) := by
    have two : ∀ (l c e : Bytes), splitOnB sep l = [c, e] → l = c ++ sep :: e := by
      have one : ∀ (l e : Bytes), splitOnB sep l = [e] → l = e := by
        intro l
        induction l with
        | nil => intro e h; simp [splitOnB] at h; exact h.symm
        | cons x r ih =>
          intro e h
          unfold splitOnB at h
          by_cases hx : x = sep
          · simp [hx] at h; exact absurd h.2 (splitOnB_ne_nil sep r)
          · simp only [hx, if_false] at h
            cases h2 : splitOnB sep r with
            | nil => exact absurd h2 (splitOnB_ne_nil sep r)
            | cons p ps =>
              simp [h2] at h
              obtain ⟨rfl, rfl⟩ := h
              rw [ih p h2]
      intro l
      induction l with
      | nil => intro c e h; simp [splitOnB] at h
      | cons x r ih =>
        intro c e h
        unfold splitOnB at h
        by_cases hx : x = sep
        · simp [hx] at h
          obtain ⟨rfl, h3⟩ := h
          rw [one r e h3, hx]; rfl
        · simp only [hx, if_false] at h
          cases h2 : splitOnB sep r with
          | nil => exact absurd h2 (splitOnB_ne_nil sep r)
          | cons p ps =>
            simp [h2] at h
            obtain ⟨rfl, rfl⟩ := h
            rw [ih p e h2]; rfl
    intro l
    induction l with
    | nil => intro b c e h; simp [splitOnB] at h
    | cons x r ih =>
      intro b c e h
      unfold splitOnB at h
      by_cases hx : x = sep
      · simp [hx] at h
        obtain ⟨rfl, h3⟩ := h
        rw [two r c e h3, hx]; rfl
      · simp only [hx, if_false] at h
        cases h2 : splitOnB sep r with
        | nil => exact absurd h2 (splitOnB_ne_nil sep r)
        | cons p ps =>
          simp [h2] at h
          obtain ⟨rfl, rfl⟩ := h
          rw [ih p c e h2]; rfl
  intro l
  induction l with
  | nil => intro a b c e h; simp [splitOnB] at h
  | cons x r ih =>
    intro a b c e h
    unfold splitOnB at h
    by_cases hx : x = sep
    · simp [hx] at h
      obtain ⟨rfl, h3⟩ := h
      rw [three r b c e h3, hx]; rfl
    · simp only [hx, if_false] at h
      cases h2 : splitOnB sep r with
      | nil => exact absurd h2 (splitOnB_ne_nil sep r)
      | cons p ps =>
        simp [h2] at h
        obtain ⟨rfl, rfl⟩ := h
        rw [ih p b c e h2]; rfl

/-! scanBracket ⇔ ipLiteral -/

theorem allDigits_noDot (d : Bytes) (h : allDigits d = true) : DOT ∉ d := fun hm =>
  (isDigit_ne DOT ((allDigits_spec d h).2 DOT hm)).2.1 rfl

theorem ipLiteral_lit (d1 d2 d3 d4 : Bytes) (h1 : allDigits d1 = true) (h2 : allDigits d2 = true)
    (h3 : allDigits d3 = true) (h4 : allDigits d4 = true) :
    ipLiteral (ipLit d1 d2 d3 d4) = some (numVal d1, numVal d2, numVal d3, numVal d4) := by
  have e : d1 ++ DOT :: (d2 ++ DOT :: (d3 ++ DOT :: (d4 ++ [RBR]))) = (d1 ++ DOT :: (d2 ++ DOT :: (d3 ++ DOT :: d4))) ++ [RBR] := by simp
  unfold ipLiteral ipLit
  simp only [e, List.getLast?_append, List.getLast?_singleton, List.dropLast_concat, and_self, if_true,
    Option.some_or]
  rw [splitOnB_append DOT _ d1 (allDigits_noDot d1 h1), splitOnB_append DOT _ d2 (allDigits_noDot d2 h2),
    splitOnB_append DOT _ d3 (allDigits_noDot d3 h3), splitOnB_nosep DOT d4 (allDigits_noDot d4 h4)]
  simp only [h1, h2, h3, h4, Bool.and_self, if_true]
  rw [numVal_eq d1 (allDigits_spec d1 h1).2, numVal_eq d2 (allDigits_spec d2 h2).2, numVal_eq d3 (allDigits_spec d3 h3).2,
    numVal_eq d4 (allDigits_spec d4 h4).2]

theorem expect_some (b : Byte) (s r : Bytes) (h : expect b s = some r) : s = b :: r := by
  cases s with
  | nil => simp [expect] at h
  | cons c t =>
    unfold expect at h
    by_cases hc : c = b
    · simp [hc] at h; rw [hc, h]
    · simp [hc] at h

theorem mem_takeWhile_true (p : Byte → Bool) : ∀ (l : Bytes) (x : Byte), x ∈ l.takeWhile p → p x = true
  | [], _, h => by simp at h
  | c :: r, x, h => by
    by_cases hc : p c = true
    · simp only [List.takeWhile_cons, hc, if_true, List.mem_cons] at h
      rcases h with rfl | h
      · exact hc
      · exact mem_takeWhile_true p r x h
    · simp [List.takeWhile_cons, hc] at h

theorem scanNum_some (s r : Bytes) (a : Byte) (h : scanNum s = some (a, r)) :
    ∃ ds, allDigits ds = true ∧ s = ds ++ r ∧ a = numVal ds := by
  unfold scanNum at h
  by_cases he : s.takeWhile isDigit = []
  · simp [he] at h
  · simp only [he, if_false, Option.some.injEq, Prod.mk.injEq] at h
    obtain ⟨rfl, rfl⟩ := h
    refine ⟨s.takeWhile isDigit, ?_, (List.takeWhile_append_dropWhile (p := isDigit) (l := s)).symm, rfl⟩
    unfold allDigits
    simp only [Bool.and_eq_true, Bool.not_eq_true', List.all_eq_true]
    refine ⟨by simpa [List.isEmpty_iff] using he, ?_⟩
    intro x hx
    exact mem_takeWhile_true isDigit s x hx

theorem scanBracket_form (d : Bytes) (ip : Ip) (h : scanBracket d = some (ip, [])) :
    ∃ d1 d2 d3 d4, allDigits d1 = true ∧ allDigits d2 = true ∧ allDigits d3 = true ∧ allDigits d4 = true ∧
      d = ipLit d1 d2 d3 d4 ∧ ip = (numVal d1, numVal d2, numVal d3, numVal d4) := by
  unfold scanBracket at h
  cases e1 : expect LBR d with
  | none => simp [e1] at h
  | some s1 =>
  cases e2 : scanNum s1 with
  | none => simp [e1, e2] at h
  | some p2 =>
  obtain ⟨a, s2⟩ := p2
  cases e3 : expect DOT s2 with
  | none => simp [e1, e2, e3] at h
  | some s3 =>
  cases e4 : scanNum s3 with
  | none => simp [e1, e2, e3, e4] at h
  | some p4 =>
  obtain ⟨b, s4⟩ := p4
  cases e5 : expect DOT s4 with
  | none => simp [e1, e2, e3, e4, e5] at h
  | some s5 =>
  cases e6 : scanNum s5 with
  | none => simp [e1, e2, e3, e4, e5, e6] at h
  | some p6 =>
  obtain ⟨c, s6⟩ := p6
  cases e7 : expect DOT s6 with
  | none => simp [e1, e2, e3, e4, e5, e6, e7] at h
  | some s7 =>
  cases e8 : scanNum s7 with
  | none => simp [e1, e2, e3, e4, e5, e6, e7, e8] at h
  | some p8 =>
  obtain ⟨e, s8⟩ := p8
  cases e9 : expect RBR s8 with
  | none => simp [e1, e2, e3, e4, e5, e6, e7, e8, e9] at h
  | some s9 =>
  simp [e1, e2, e3, e4, e5, e6, e7, e8, e9] at h
  obtain ⟨hip, hs9⟩ := h
  subst hs9
  obtain ⟨d1, g1, rfl, rfl⟩ := scanNum_some _ _ _ e2
  obtain ⟨d2, g2, rfl, rfl⟩ := scanNum_some _ _ _ e4
  obtain ⟨d3, g3, rfl, rfl⟩ := scanNum_some _ _ _ e6
  obtain ⟨d4, g4, rfl, rfl⟩ := scanNum_some _ _ _ e8
  refine ⟨d1, d2, d3, d4, g1, g2, g3, g4, ?_, hip.symm⟩
  rw [expect_some _ _ _ e1, expect_some _ _ _ e3, expect_some _ _ _ e5, expect_some _ _ _ e7, expect_some _ _ _ e9]
  rfl

theorem ipLiteral_form (d : Bytes) (ip : Ip) (h : ipLiteral d = some ip) :
    ∃ d1 d2 d3 d4, allDigits d1 = true ∧ allDigits d2 = true ∧ allDigits d3 = true ∧ allDigits d4 = true ∧
      d = ipLit d1 d2 d3 d4 := by
  unfold ipLiteral at h
  cases d with
  | nil => simp at h
  | cons c r =>
    simp only at h
    by_cases hc : c = LBR ∧ r.getLast? = some RBR
    · simp only [hc, and_self, if_true] at h
      obtain ⟨rfl, hl⟩ := hc
      obtain ⟨r', rfl⟩ := List.getLast?_eq_some_iff.1 hl
      simp only [List.dropLast_concat] at h
      cases hsp : splitOnB DOT r' with
      | nil => simp [hsp] at h
      | cons a t1 =>
        cases t1 with
        | nil => simp [hsp] at h
        | cons b t2 =>
          cases t2 with
          | nil => simp [hsp] at h
          | cons c t3 =>
            cases t3 with
            | nil => simp [hsp] at h
            | cons e t4 =>
              cases t4 with
              | cons x t5 => simp [hsp] at h
              | nil =>
                simp only [hsp] at h
                by_cases hd : (allDigits a && allDigits b && allDigits c && allDigits e) = true
                · simp only [Bool.and_eq_true] at hd
                  obtain ⟨⟨⟨ha, hb⟩, hc⟩, he⟩ := hd
                  refine ⟨a, b, c, e, ha, hb, hc, he, ?_⟩
                  rw [splitOnB_four DOT r' a b c e hsp]
                  simp [ipLit]
                · simp [hd] at h
    · simp [hc] at h

/-- the scanner of ip.c and the split-at-dots specification recognise the same literals with the same value -/
theorem scan_eq_literal (d : Bytes) :
    (match scanBracket d with | some (ip, []) => some ip | _ => none) = ipLiteral d := by
  cases hs : scanBracket d with
  | none =>
    simp only
    cases hl : ipLiteral d with
    | none => rfl
    | some ip =>
      obtain ⟨d1, d2, d3, d4, g1, g2, g3, g4, rfl⟩ := ipLiteral_form d ip hl
      rw [scanBracket_lit d1 d2 d3 d4 g1 g2 g3 g4] at hs
      simp at hs
  | some r =>
    obtain ⟨ip, rest⟩ := r
    cases rest with
    | nil =>
      simp only
      obtain ⟨d1, d2, d3, d4, g1, g2, g3, g4, rfl, rfl⟩ := scanBracket_form d ip hs
      rw [ipLiteral_lit d1 d2 d3 d4 g1 g2 g3 g4]
    | cons x t =>
      simp only
      cases hl : ipLiteral d with
      | none => rfl
      | some ip' =>
        obtain ⟨d1, d2, d3, d4, g1, g2, g3, g4, rfl⟩ := ipLiteral_form d ip' hl
        rw [scanBracket_lit d1 d2 d3 d4 g1 g2 g3 g4] at hs
        simp at hs

theorem lipSubst_eq_spec (cfg : Cfg) (a : Bytes) : lipSubst cfg a = lipSpec cfg a := by
  unfold lipSubst lipSpec
  cases hh : cfg.liphost with
  | none => rfl
  | some h =>
    cases hs : splitLastAt a with
    | none => rfl
    | some pd =>
      obtain ⟨p, d⟩ := pd
      simp only
      rw [← scan_eq_literal d]
      cases hb : scanBracket d with
      | none => rfl
      | some r =>
        obtain ⟨ip, rest⟩ := r
        cases rest <;> rfl

end Nq.Lemmas.Smtp
