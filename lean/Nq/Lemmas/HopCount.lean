/-
  The hop scanner of qmail-smtpd.c `blast()` (`Nq.SmtpIn.hstep`) computes `Nq.HopCount.hopSpec`, for every byte stream.
  Core Lean only.
-/
import Nq.HopCount

set_option linter.unusedSimpArgs false

namespace Nq.Lemmas.HopCount
open Nq Nq.SmtpIn Nq.HopCount

/-- the scanner run over a byte string -/
def hrun (h : HSt) (bs : Bytes) : HSt := bs.foldl hstep h

/-- the state at the start of a line, `n` hops counted so far -/
def fresh (n : Nat) : HSt := { hops := n }

@[simp] theorem hrun_nil (h : HSt) : hrun h [] = h := rfl
@[simp] theorem hrun_cons (h : HSt) (c : Byte) (bs : Bytes) : hrun h (c :: bs) = hrun (hstep h c) bs := rfl
theorem hrun_append (h : HSt) (a b : Bytes) : hrun h (a ++ b) = hrun (hrun h a) b := by
  simp [hrun, List.foldl_append]

/-- case-insensitive "starts with": pattern given as (lower, upper) pairs, the way `blast()` compares -/
def pm : List (Byte × Byte) → Bytes → Bool
  | [], _ => true
  | _ :: _, [] => false
  | (p, q) :: ps, c :: cs => (c == p || c == q) && pm ps cs

def patX : List (Byte × Byte) := receivedLo.zip receivedUp
def patZ : List (Byte × Byte) := deliveredLo.zip deliveredUp

/-- hops still to be counted on the current line by the `flagmaybex` / `flagmaybez` trackers -/
def pendX (h : HSt) (l : Bytes) : Nat := if h.mx && decide (h.pos < 8) && pm (patX.drop h.pos) l then 1 else 0
def pendZ (h : HSt) (l : Bytes) : Nat := if h.mz && decide (h.pos < 9) && pm (patZ.drop h.pos) l then 1 else 0

theorem pos_cases (p : Nat) : p = 0 ∨ p = 1 ∨ p = 2 ∨ p = 3 ∨ p = 4 ∨ p = 5 ∨ p = 6 ∨ p = 7 ∨ p = 8 ∨ 9 ≤ p := by omega

/-- outside the header nothing changes -/
theorem hstep_out (h : HSt) (c : Byte) (hin : h.inHeader = false) : hstep h c = h := by
  simp [hstep, hin]

theorem hrun_out (h : HSt) (bs : Bytes) (hin : h.inHeader = false) : hrun h bs = h := by
  induction bs with
  | nil => rfl
  | cons c r ih => rw [hrun_cons, hstep_out h c hin, ih]

/-- one byte other than LF inside a header line -/
theorem hstep_line (h : HSt) (c : Byte) (cs : Bytes) (hin : h.inHeader = true) (hc : c ≠ LF) :
    (hstep h c).inHeader = true ∧
    (hstep h c).hops + pendX (hstep h c) cs + pendZ (hstep h c) cs = h.hops + pendX h (c :: cs) + pendZ h (c :: cs) ∧
    (2 ≤ h.pos → 2 ≤ (hstep h c).pos) := by
  obtain ⟨inH, pos, mx, my, mz, hops⟩ := h
  simp only at hin; subst hin
  have hc' : (c == LF) = false := by simpa using hc
  have hc'' : (c == 10) = false := hc'
  rcases pos_cases pos with rfl | rfl | rfl | rfl | rfl | rfl | rfl | rfl | rfl | h9
  all_goals try (
    simp [hstep, pendX, pendZ, pm, patX, patZ, receivedLo, receivedUp, deliveredLo, deliveredUp, hc, hc', hc'', LF, CR]
    <;> cases mx <;> cases mz <;> cases my <;> simp <;> (try split) <;> (try split) <;> simp_all <;> omega)
  · have h1 : ¬ pos < 9 := by omega
    have h2 : ¬ pos < 8 := by omega
    simp [hstep, pendX, pendZ, h1, h2, hc]

/-- the LF that ends a header line: counters reset, the header ends iff the line was exactly CR -/
theorem hstep_lf (h : HSt) (hin : h.inHeader = true) :
    hstep h LF = { inHeader := !(h.my && h.pos == 1), pos := 0, mx := true, my := true, mz := true, hops := h.hops } := by
  obtain ⟨inH, pos, mx, my, mz, hops⟩ := h
  simp only at hin; subst hin
  rcases pos_cases pos with rfl | rfl | rfl | rfl | rfl | rfl | rfl | rfl | rfl | h9
  all_goals try (
    (simp [hstep, receivedLo, receivedUp, deliveredLo, deliveredUp, LF, CR] <;> cases my <;> simp); done)
  · have h1 : ¬ pos < 9 := by omega
    have h2 : (pos == 1) = false := by simp; omega
    simp [hstep, h1, h2]

/-- a whole LF-free piece of a header line -/
theorem hrun_line (l : Bytes) (hl : LF ∉ l) : ∀ (h : HSt), h.inHeader = true →
    (hrun h l).inHeader = true ∧ (hrun h l).hops = h.hops + pendX h l + pendZ h l ∧ (2 ≤ h.pos → 2 ≤ (hrun h l).pos) := by
  induction l with
  | nil =>
    intro h hin
    refine ⟨hin, ?_, fun x => x⟩
    obtain ⟨inH, pos, mx, my, mz, hops⟩ := h
    rcases pos_cases pos with rfl | rfl | rfl | rfl | rfl | rfl | rfl | rfl | rfl | h9
    all_goals try (simp [pendX, pendZ, pm, patX, patZ, receivedLo, receivedUp, deliveredLo, deliveredUp]; done)
    · have h1 : ¬ pos < 9 := by omega
      have h2 : ¬ pos < 8 := by omega
      simp [pendX, pendZ, h1, h2]
  | cons c cs ih =>
    intro h hin
    have hc : c ≠ LF := fun e => hl (by simp [e])
    have hcs : LF ∉ cs := fun e => hl (by simp [e])
    obtain ⟨s1, s2, s3⟩ := hstep_line h c cs hin hc
    obtain ⟨i1, i2, i3⟩ := ih hcs (hstep h c) s1
    rw [hrun_cons]
    exact ⟨i1, by omega, fun x => i3 (s3 x)⟩

end Nq.Lemmas.HopCount
