/-
  The hop scanner of qmail-smtpd.c `blast()` (`Nq.SmtpIn.hstep`) computes `Nq.HopCount.hopSpec`, for every byte stream.
  Core Lean only.
-/
import Nq.HopCount

set_option linter.unusedSimpArgs false

namespace Nq.Lemmas.HopCount
open Nq Nq.SmtpIn Nq.HopCount

/-- the scanner run over a byte string -/
def hrun (h : HSt) (bs : Bytes) : HSt := bs.foldl hstep h

/-- the state at the start of a line, `n` hops counted so far -/
def fresh (n : Nat) : HSt := { hops := n }

@[simp] theorem hrun_nil (h : HSt) : hrun h [] = h := rfl
@[simp] theorem hrun_cons (h : HSt) (c : Byte) (bs : Bytes) : hrun h (c :: bs) = hrun (hstep h c) bs := rfl
theorem hrun_append (h : HSt) (a b : Bytes) : hrun h (a ++ b) = hrun (hrun h a) b := by
  simp [hrun, List.foldl_append]

/-- case-insensitive "starts with": pattern given as (lower, upper) pairs, the way `blast()` compares -/
def pm : List (Byte × Byte) → Bytes → Bool
  | [], _ => true
  | _ :: _, [] => false
  | (p, q) :: ps, c :: cs => (c == p || c == q) && pm ps cs

def patX : List (Byte × Byte) := receivedLo.zip receivedUp
def patZ : List (Byte × Byte) := deliveredLo.zip deliveredUp

/-- hops still to be counted on the current line by the `flagmaybex` / `flagmaybez` trackers -/
def pendX (h : HSt) (l : Bytes) : Nat := if h.mx && decide (h.pos < 8) && pm (patX.drop h.pos) l then 1 else 0
def pendZ (h : HSt) (l : Bytes) : Nat := if h.mz && decide (h.pos < 9) && pm (patZ.drop h.pos) l then 1 else 0

theorem pos_cases (p : Nat) : p = 0 ∨ p = 1 ∨ p = 2 ∨ p = 3 ∨ p = 4 ∨ p = 5 ∨ p = 6 ∨ p = 7 ∨ p = 8 ∨ 9 ≤ p := by omega

/-- outside the header nothing changes -/
theorem hstep_out (h : HSt) (c : Byte) (hin : h.inHeader = false) : hstep h c = h := by
  simp [hstep, hin]

theorem hrun_out (h : HSt) (bs : Bytes) (hin : h.inHeader = false) : hrun h bs = h := by
  induction bs with
  | nil => rfl
  | cons c r ih => rw [hrun_cons, hstep_out h c hin, ih]

/-- one byte other than LF inside a header line -/
theorem hstep_line (h : HSt) (c : Byte) (cs : Bytes) (hin : h.inHeader = true) (hc : c ≠ LF) :
    (hstep h c).inHeader = true ∧
    (hstep h c).hops + pendX (hstep h c) cs + pendZ (hstep h c) cs = h.hops + pendX h (c :: cs) + pendZ h (c :: cs) ∧
    (2 ≤ h.pos → 2 ≤ (hstep h c).pos) := by
  obtain ⟨inH, pos, mx, my, mz, hops⟩ := h
  simp only at hin; subst hin
  have hc' : (c == LF) = false := by simpa using hc
  have hc'' : (c == 10) = false := hc'
  rcases pos_cases pos with rfl | rfl | rfl | rfl | rfl | rfl | rfl | rfl | rfl | h9
  all_goals try (
    simp [hstep, pendX, pendZ, pm, patX, patZ, receivedLo, receivedUp, deliveredLo, deliveredUp, hc, hc', hc'', LF, CR]
    <;> cases mx <;> cases mz <;> cases my <;> simp <;> (try split) <;> (try split) <;> simp_all <;> omega)
  · have h1 : ¬ pos < 9 := by omega
    have h2 : ¬ pos < 8 := by omega
    simp [hstep, pendX, pendZ, h1, h2, hc]

/-- the LF that ends a header line: counters reset, the header ends iff the line was exactly CR -/
theorem hstep_lf (h : HSt) (hin : h.inHeader = true) :
    hstep h LF = { inHeader := !(h.my && h.pos == 1), pos := 0, mx := true, my := true, mz := true, hops := h.hops } := by
  obtain ⟨inH, pos, mx, my, mz, hops⟩ := h
  simp only at hin; subst hin
  rcases pos_cases pos with rfl | rfl | rfl | rfl | rfl | rfl | rfl | rfl | rfl | h9
  all_goals try (
    (simp [hstep, receivedLo, receivedUp, deliveredLo, deliveredUp, LF, CR] <;> cases my <;> simp); done)
  · have h1 : ¬ pos < 9 := by omega
    have h2 : (pos == 1) = false := by simp; omega
    simp [hstep, h1, h2]

/-- a whole LF-free piece of a header line -/
theorem hrun_line (l : Bytes) (hl : LF ∉ l) : ∀ (h : HSt), h.inHeader = true →
    (hrun h l).inHeader = true ∧ (hrun h l).hops = h.hops + pendX h l + pendZ h l ∧ (2 ≤ h.pos → 2 ≤ (hrun h l).pos) := by
  induction l with
  | nil =>
    intro h hin
    refine ⟨hin, ?_, fun x => x⟩
    obtain ⟨inH, pos, mx, my, mz, hops⟩ := h
    rcases pos_cases pos with rfl | rfl | rfl | rfl | rfl | rfl | rfl | rfl | rfl | h9
    all_goals try (simp [pendX, pendZ, pm, patX, patZ, receivedLo, receivedUp, deliveredLo, deliveredUp]; done)
    · have h1 : ¬ pos < 9 := by omega
      have h2 : ¬ pos < 8 := by omega
      simp [pendX, pendZ, h1, h2]
  | cons c cs ih =>
    intro h hin
    have hc : c ≠ LF := fun e => hl (by simp [e])
    have hcs : LF ∉ cs := fun e => hl (by simp [e])
    obtain ⟨s1, s2, s3⟩ := hstep_line h c cs hin hc
    obtain ⟨i1, i2, i3⟩ := ih hcs (hstep h c) s1
    rw [hrun_cons]
    exact ⟨i1, by omega, fun x => i3 (s3 x)⟩

/-! ### `pm` is "starts with, ignoring ASCII case" -/

theorem byte_cases (P : Byte → Prop) (h : ∀ n, n < 256 → P (UInt8.ofNat n)) (c : Byte) : P c := by
  have := h c.toNat (UInt8.toNat_lt c)
  simpa using this

/-- comparing with the lower-case and the upper-case letter = comparing the lower-cased byte -/
def pairOK (c : Byte) : Bool :=
  (patX ++ patZ).all (fun pq => (c == pq.1 || c == pq.2) == (lowerByte c == pq.1))

set_option maxRecDepth 100000 in
theorem pairOK_all : ∀ c : Byte, pairOK c = true := byte_cases _ (by decide)

theorem pm_eq (ps : List (Byte × Byte))
    (hps : ∀ pq ∈ ps, ∀ c : Byte, (c == pq.1 || c == pq.2) = (lowerByte c == pq.1)) :
    ∀ l : Bytes, pm ps l = (lower (l.take ps.length) == ps.map Prod.fst) := by
  induction ps with
  | nil => intro l; simp [pm, lower]
  | cons pq ps ih =>
    obtain ⟨p, q⟩ := pq
    intro l
    cases l with
    | nil => simp [pm, lower]
    | cons c cs =>
      have h1 := hps (p, q) (by simp) c
      have h2 := ih (fun pq h => hps pq (by simp [h])) cs
      simp only [pm, h2, List.length_cons, List.take_succ_cons, lower, List.map_cons] at h1 ⊢
      rw [h1]
      simp [lower]

theorem pair_of_mem (pq : Byte × Byte) (h : pq ∈ patX ++ patZ) (c : Byte) :
    (c == pq.1 || c == pq.2) = (lowerByte c == pq.1) := by
  have := pairOK_all c
  unfold pairOK at this
  rw [List.all_eq_true] at this
  simpa using this pq h

theorem pmX_eq (l : Bytes) : pm patX l = startsCI kwReceived l := by
  rw [pm_eq patX (fun pq h => pair_of_mem pq (by simp [h]))]
  rfl

theorem pmZ_eq (l : Bytes) : pm patZ l = startsCI kwDelivered l := by
  rw [pm_eq patZ (fun pq h => pair_of_mem pq (by simp [h]))]
  rfl

/-- a line cannot start with both words -/
theorem not_both (l : Bytes) : ¬ (startsCI kwReceived l = true ∧ startsCI kwDelivered l = true) := by
  cases l with
  | nil => simp [startsCI, kwReceived, lower]
  | cons c cs =>
    rintro ⟨h1, h2⟩
    simp [startsCI, kwReceived, kwDelivered, lower] at h1 h2
    have a := h1.1
    have b := h2.1
    rw [a] at b
    exact absurd b (by decide)

/-! ### lines -/

theorem lines_ne_nil (bs : Bytes) : lines bs ≠ [] := by
  cases bs with
  | nil => simp [lines]
  | cons c r =>
    unfold lines
    split
    · simp
    · split <;> simp

theorem lines_lffree (l : Bytes) (hl : LF ∉ l) : lines l = [l] := by
  induction l with
  | nil => rfl
  | cons c cs ih =>
    have hc : c ≠ LF := fun e => hl (by simp [e])
    have hcs : LF ∉ cs := fun e => hl (by simp [e])
    unfold lines
    rw [if_neg hc, ih hcs]

theorem lines_append_lf (l r : Bytes) (hl : LF ∉ l) : lines (l ++ LF :: r) = l :: lines r := by
  induction l with
  | nil => simp [lines]
  | cons c cs ih =>
    have hc : c ≠ LF := fun e => hl (by simp [e])
    have hcs : LF ∉ cs := fun e => hl (by simp [e])
    rw [List.cons_append, lines, if_neg hc, ih hcs]

/-! ### the scanner on one line, from the start of the line -/

def hopBit (l : Bytes) : Nat := if isHop l then 1 else 0

theorem fresh_line (n : Nat) (l : Bytes) (hl : LF ∉ l) :
    (hrun (fresh n) l).inHeader = true ∧ (hrun (fresh n) l).hops = n + hopBit l ∧
    (((hrun (fresh n) l).my && (hrun (fresh n) l).pos == 1) = (l == [CR])) := by
  obtain ⟨h1, h2, _⟩ := hrun_line l hl (fresh n) rfl
  refine ⟨h1, ?_, ?_⟩
  · rw [h2]
    have nb := not_both l
    simp only [pendX, pendZ, fresh, hopBit, isHop, List.drop_zero, pmX_eq, pmZ_eq]
    by_cases hx : startsCI kwReceived l = true <;> by_cases hz : startsCI kwDelivered l = true
    · exact absurd ⟨hx, hz⟩ nb
    · simp [hx, hz]
    · simp [hx, hz]
    · simp [hx, hz]
  · cases l with
    | nil => simp [fresh]
    | cons c cs =>
      have hc : c ≠ LF := fun e => hl (by simp [e])
      cases cs with
      | nil =>
        have hc' : (c == LF) = false := by simpa using hc
        simp [fresh, hstep, hc, hc', CR, LF]
      | cons d ds =>
        have hd : d ≠ LF := fun e => hl (by simp [e])
        have hds : LF ∉ ds := fun e => hl (by simp [e])
        have p2 : 2 ≤ (hstep (hstep (fresh n) c) d).pos ∧ (hstep (hstep (fresh n) c) d).inHeader = true := by
          have hc' : (c == LF) = false := by simpa using hc
          have hd' : (d == LF) = false := by simpa using hd
          have hd'' : ¬ d = 10 := hd
          simp [fresh, hstep, hc, hc', hd, hd', hd'', CR, LF]
        obtain ⟨_, _, k3⟩ := hrun_line ds hds _ p2.2
        have := k3 p2.1
        rw [hrun_cons, hrun_cons]
        have hne : ((hrun (hstep (hstep (fresh n) c) d) ds).pos == 1) = false := by simp; omega
        rw [hne]; simp

/-- the scanner after a complete header line `l LF` -/
theorem fresh_line_lf (n : Nat) (l : Bytes) (hl : LF ∉ l) :
    hrun (fresh n) (l ++ [LF]) =
      if l = [CR] then { inHeader := false, pos := 0, mx := true, my := true, mz := true, hops := n + hopBit l }
      else fresh (n + hopBit l) := by
  obtain ⟨h1, h2, h3⟩ := fresh_line n l hl
  rw [hrun_append, hrun_cons, hrun_nil, hstep_lf _ h1, h2, h3]
  by_cases e : l = [CR]
  · simp [e]
  · have : (l == [CR]) = false := by simpa using e
    simp [e, this, fresh]

/-! ### the theorem -/

theorem hopBit_cr : hopBit [CR] = 0 := by decide

theorem hopSpec_lffree (l : Bytes) (hl : LF ∉ l) : hopSpec l = hopBit l := by
  unfold hopSpec header
  rw [lines_lffree l hl]
  by_cases e : l = [CR]
  · subst e; decide
  · have : (l != [CR]) = true := by simpa using e
    simp [List.takeWhile, this, hopBit, List.filter]
    split <;> simp_all

theorem hopSpec_append_lf (l r : Bytes) (hl : LF ∉ l) :
    hopSpec (l ++ LF :: r) = if l = [CR] then 0 else hopBit l + hopSpec r := by
  unfold hopSpec header
  rw [lines_append_lf l r hl]
  by_cases e : l = [CR]
  · subst e; simp [List.takeWhile]
  · have : (l != [CR]) = true := by simpa using e
    simp only [List.takeWhile, this, if_neg e, List.filter, hopBit]
    cases isHop l <;> simp <;> omega

/-- generalised over the hops counted so far and the part of the current line already read -/
theorem hops_gen (bs : Bytes) : ∀ (n : Nat) (cur : Bytes), LF ∉ cur →
    (hrun (fresh n) (cur ++ bs)).hops = n + hopSpec (cur ++ bs) := by
  induction bs with
  | nil =>
    intro n cur hcur
    rw [List.append_nil, hopSpec_lffree cur hcur]
    exact (fresh_line n cur hcur).2.1
  | cons c r ih =>
    intro n cur hcur
    by_cases hc : c = LF
    · subst hc
      rw [hopSpec_append_lf cur r hcur]
      have e : cur ++ LF :: r = (cur ++ [LF]) ++ r := by simp
      rw [e, hrun_append, fresh_line_lf n cur hcur]
      by_cases e2 : cur = [CR]
      · rw [if_pos e2, if_pos e2, hrun_out _ _ rfl]
        subst e2
        simp [hopBit_cr]
      · rw [if_neg e2, if_neg e2]
        have := ih (n + hopBit cur) [] (by simp)
        simp only [List.nil_append] at this
        rw [this]; omega
    · have e : cur ++ c :: r = (cur ++ [c]) ++ r := by simp
      rw [e]
      apply ih
      intro hm
      rcases List.mem_append.mp hm with h | h
      · exact hcur h
      · simp at h; exact hc h.symm

/-- **the hop scanner of `blast()` computes the line-based hop count, for every byte stream** -/
theorem hopsOf_eq_hopSpec (bs : Bytes) : hopsOf bs = hopSpec bs := by
  have := hops_gen bs 0 [] (by simp)
  simpa [hopsOf, hrun, fresh] using this

/-- an empty line (CR LF right after a LF) ends the header, whatever came before -/
theorem empty_line_ends (h0 : HSt) (pre : Bytes) : (hrun h0 ((pre ++ [LF]) ++ [CR, LF])).inHeader = false := by
  rw [hrun_append, hrun_append]
  show (hrun (hstep (hrun h0 pre) LF) [CR, LF]).inHeader = false
  cases hin : (hrun h0 pre).inHeader with
  | false =>
    rw [hstep_out _ _ hin, hrun_out _ _ hin]; exact hin
  | true =>
    rw [hstep_lf _ hin]
    cases (!((hrun h0 pre).my && (hrun h0 pre).pos == 1)) with
    | false => rw [hrun_out _ _ rfl]
    | true => simp [hstep, CR, LF]

end Nq.Lemmas.HopCount
