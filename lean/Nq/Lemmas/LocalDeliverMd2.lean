/-
  Session 4: the crash relation of one maildir delivery at every call index, in terms of the trace itself:
  new/x exists  ⇔  a successful `link` is among the events so far; at most one successful `link` per run.
-/
import Nq.Lemmas.LocalDeliverMd

namespace Nq.Lemmas.LD.Md
open Nq Nq.LocalDeliver Nq.LocalDeliver.Md

theorem apply_newName (fs : FS) (e : Ev) : (apply fs e).newName = (fs.newName || decide (e = .link true)) := by
  cases e with
  | link ok => cases ok <;> simp [apply]
  | openExcl ok ex => cases ok <;> simp [apply]
  | fsync ok => cases ok <;> simp [apply]
  | unlinkTmp ok => cases ok <;> simp [apply]
  | _ => simp [apply]

/-- new/x is named exactly when a successful `link` has happened: only `link` sets the name, nothing removes it -/
theorem applyAll_newName (evs : List Ev) : ∀ (fs : FS),
    (applyAll fs evs).newName = (fs.newName || decide (Ev.link true ∈ evs)) := by
  induction evs with
  | nil => intro fs; simp [applyAll]
  | cons e es ih =>
    intro fs
    simp only [applyAll]
    rw [ih, apply_newName]
    by_cases h : e = .link true
    · subst h; simp
    · have h' : ¬ (Ev.link true = e) := fun x => h x.symm
      simp [h, h']

theorem applyAll_snoc (evs : List Ev) (e : Ev) : ∀ (fs : FS), applyAll fs (evs ++ [e]) = apply (applyAll fs evs) e := by
  induction evs with
  | nil => intro fs; rfl
  | cons x xs ih => intro fs; simp only [List.cons_append, applyAll]; exact ih _

theorem apply_tmpName_unlink (fs : FS) (e : Ev) (h : e ≠ .unlinkTmp true) (ht : fs.tmpName = true) :
    (apply fs e).tmpName = true := by
  cases e with
  | unlinkTmp ok => cases ok <;> simp_all [apply]
  | link ok => cases ok <;> simp [apply, ht]
  | openExcl ok ex => cases ok <;> simp [apply, ht]
  | fsync ok => cases ok <;> simp [apply, ht]
  | _ => simp [apply, ht]

/-- a successful `link` is accepted only while nothing is in new/ -/
theorem link_hidden (p : Params) (evs : List Ev) (s1 s2 : St) (h1 : acceptAll p {} evs = some s1)
    (h2 : accept p s1 (.link true) = some s2) : Ev.link true ∉ evs := by
  have hpc : s1.pc = .linking := by
    simp only [accept] at h2; split at h2
    · assumption
    · cases h2
  have hinv := run_inv p evs {} s1 {} (inv_init p) h1
  have hp := hinv.2
  simp [PcInv, hpc, Hidden] at hp
  have := applyAll_newName evs {}
  rw [hp.1] at this
  intro hm
  simp [hm] at this

/-- **At most one successful `link` in a run** -/
theorem link_once (p : Params) : ∀ (n : Nat) (evs : List Ev), evs.length = n → ∀ s, acceptAll p {} evs = some s →
    evs.count (Ev.link true) ≤ 1 := by
  intro n
  induction n with
  | zero => intro evs hl s _; have : evs = [] := List.length_eq_zero_iff.mp hl; subst this; simp
  | succ n ih =>
    intro evs hl s h
    rcases List.eq_nil_or_concat evs with he | ⟨init, e, he⟩
    · subst he; simp
    · rw [List.concat_eq_append] at he
      subst he
      rw [acceptAll_append] at h
      cases h0 : acceptAll p {} init with
      | none => simp [h0] at h
      | some s0 =>
        simp only [h0, Option.bind_some, acceptAll] at h
        cases ha : accept p s0 e with
        | none => simp [ha] at h
        | some s1 =>
          have hlen : init.length = n := by simp at hl; omega
          have hi := ih init hlen s0 h0
          rw [List.count_append]
          by_cases hel : e = .link true
          · subst hel
            have := link_hidden p init s0 s1 h0 ha
            have hc : init.count (Ev.link true) = 0 := List.count_eq_zero.mpr this
            simp [hc]
          · have : [e].count (Ev.link true) = 0 := by
              apply List.count_eq_zero.mpr; simp; exact fun x => hel x.symm
            omega

end Nq.Lemmas.LD.Md
