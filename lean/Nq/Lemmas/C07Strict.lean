/-
  "Accepted ⇒ strictly well framed": a message qmail-qmtpd reads to the end is a message in the sense of the
  independent strict grammar `Spec.C07.qmtpNext` (digits only in every length, every comma in place), its sender and
  recipients are the netstring payloads, and the envelope addresses are exactly the recipients whose failure byte is 0,
  in order.  Core Lean only.
-/
import Nq.Lemmas.C07Flags

namespace Nq.Spec.C07
open Nq

/-! ### the strict grammar: basic facts -/

/-- a length is a non-empty run `d` of bytes (digits and the colon) in front of the rest, and reading it does not
    depend on what follows -/
theorem nsLen_split : ∀ (p : Bytes) (acc n : Nat) (r : Bytes), nsLen acc p = some (n, r) →
    ∃ d, p = d ++ r ∧ d ≠ [] ∧ ∀ t, nsLen acc (d ++ t) = some (n, t)
  | [], _, _, _, h => by simp [nsLen] at h
  | c :: p, acc, n, r, h => by
    unfold nsLen at h
    by_cases h1 : c = 58
    · rw [if_pos h1] at h
      simp only [Option.some.injEq, Prod.mk.injEq] at h
      obtain ⟨rfl, rfl⟩ := h
      exact ⟨[c], rfl, by simp, fun t => by simp [nsLen, h1]⟩
    · rw [if_neg h1] at h
      by_cases h2 : 48 ≤ c ∧ c ≤ 57
      · rw [if_pos h2] at h
        obtain ⟨d, hd, _, hext⟩ := nsLen_split p _ n r h
        refine ⟨c :: d, by simp [hd], by simp, fun t => ?_⟩
        rw [List.cons_append, nsLen, if_neg h1, if_pos h2]
        exact hext t
      · rw [if_neg h2] at h; simp at h

theorem ns?_intro (p : Bytes) (n : Nat) (r a t : Bytes) (h : nsLen 0 p = some (n, r)) (hr : r = a ++ 44 :: t)
    (ha : a.length = n) : ns? p = some (a, t) := by
  unfold ns?
  rw [h]
  subst hr; subst ha
  have h1 : ¬ (a ++ 44 :: t).length < a.length + 1 := by simp
  have h2 : (a ++ 44 :: t).getD a.length 0 = 44 := by
    simp [List.getD_eq_getElem?_getD]
  simp only [h1, ↓reduceIte, h2]
  have e : a ++ 44 :: t = (a ++ [44]) ++ t := by simp
  rw [List.take_left' rfl, e, List.drop_left' (by simp)]

theorem ns?_elim (p a t : Bytes) (h : ns? p = some (a, t)) :
    ∃ n r, nsLen 0 p = some (n, r) ∧ r = a ++ 44 :: t ∧ a.length = n := by
  unfold ns? at h
  cases hn : nsLen 0 p with
  | none => simp [hn] at h
  | some v =>
    obtain ⟨n, r⟩ := v
    simp only [hn] at h
    by_cases h1 : r.length < n + 1
    · simp [h1] at h
    · simp only [h1, ↓reduceIte] at h
      by_cases h2 : r.getD n 0 = 44
      · simp only [h2, ↓reduceIte, Option.some.injEq, Prod.mk.injEq] at h
        obtain ⟨rfl, rfl⟩ := h
        refine ⟨n, r, rfl, ?_, by simp; omega⟩
        have hn' : n < r.length := by omega
        have hg : r[n] = 44 := by
          rw [List.getD_eq_getElem?_getD, List.getElem?_eq_getElem hn'] at h2
          simpa using h2
        conv => lhs; rw [← List.take_append_drop n r]
        rw [List.drop_eq_getElem_cons hn', hg]
      · rw [if_neg h2] at h; exact absurd h (by simp)

/-- a netstring consumes at least its colon and its comma -/
theorem ns?_shorter (p a t : Bytes) (h : ns? p = some (a, t)) : t.length + 2 ≤ p.length := by
  obtain ⟨n, r, hn, hr, _⟩ := ns?_elim p a t h
  obtain ⟨d, hd, hne, _⟩ := nsLen_split p 0 n r hn
  have : 1 ≤ d.length := by cases d with | nil => exact absurd rfl hne | cons _ _ => simp
  rw [hd, hr]; simp; omega

theorem nsAll_fuel : ∀ (f1 f2 : Nat) (p : Bytes), p.length < f1 → p.length < f2 → nsAll f1 p = nsAll f2 p
  | 0, _, _, h, _ => by omega
  | _ + 1, 0, _, _, h => by omega
  | f1 + 1, f2 + 1, [], _, _ => by simp [nsAll]
  | f1 + 1, f2 + 1, c :: p, h1, h2 => by
    simp only [nsAll]
    cases hn : ns? (c :: p) with
    | none => rfl
    | some v =>
      obtain ⟨a, r⟩ := v
      simp only
      have := ns?_shorter _ a r hn
      simp only [List.length_cons] at this h1 h2
      rw [nsAll_fuel f1 f2 r (by omega) (by omega)]

theorem nsList_nil : nsList [] = some [] := by simp [nsList, nsAll]

theorem nsList_cons (p a r : Bytes) (h : ns? p = some (a, r)) : nsList p = (nsList r).map (a :: ·) := by
  have hs := ns?_shorter p a r h
  unfold nsList
  cases p with
  | nil => simp at hs
  | cons c p =>
    simp only [nsAll, h]
    simp only [List.length_cons] at hs
    rw [nsAll_fuel (c :: p).length (r.length + 1) r (by simp; omega) (by omega)]

end Nq.Spec.C07

namespace Nq.Netstring
open Nq Nq.QmailC Nq.Received
open Nq.Spec.C07 (nsLen ns? nsList nsAll)

/-! ### the daemon's readers against the strict grammar -/

theorem digit_iff (c : Byte) : ¬ (c < 48 ∨ c > 57) ↔ (48 ≤ c ∧ c ≤ 57) := by
  simp only [not_or, UInt8.not_lt, gt_iff_lt]

/-- `getlen()` succeeded ⇒ the strict grammar reads the same length and leaves the same rest -/
theorem getlen_nsLen (max : Nat) : ∀ (p : Bytes) (acc n : Nat) (r : Bytes),
    Netstring.getlen max acc p = .ok n r → nsLen acc p = some (n, r)
  | [], _, _, _, h => by simp [Netstring.getlen] at h
  | c :: p, acc, n, r, h => by
    unfold Netstring.getlen at h
    unfold nsLen
    by_cases h1 : c = COLON
    · rw [if_pos h1] at h
      have h1' : c = 58 := h1
      rw [if_pos h1']
      simp only [R.ok.injEq] at h
      obtain ⟨rfl, rfl⟩ := h; rfl
    · rw [if_neg h1] at h
      have h1' : ¬ c = 58 := h1
      rw [if_neg h1']
      by_cases h2 : acc > max
      · rw [if_pos h2] at h; simp at h
      · rw [if_neg h2] at h
        by_cases h3 : c < 48 ∨ c > 57
        · rw [if_pos h3] at h; simp at h
        · rw [if_neg h3] at h
          rw [if_pos ((digit_iff c).mp h3), Nat.mul_comm]
          exact getlen_nsLen max p _ n r h

theorem getcomma_inv (p : Bytes) (u : Unit) (r : Bytes) (h : Netstring.getcomma p = .ok u r) : p = 44 :: r := by
  cases p with
  | nil => simp [Netstring.getcomma] at h
  | cons c p =>
    simp only [Netstring.getcomma] at h
    by_cases hc : c = COMMA
    · rw [if_pos hc] at h
      simp only [R.ok.injEq] at h
      rw [hc, h.2]; rfl
    · rw [if_neg hc] at h; simp at h

theorem getbytes_inv (n : Nat) (p a r : Bytes) (h : getbytes n p = .ok a r) : a = p.take n ∧ r = p.drop n ∧ n ≤ p.length := by
  unfold getbytes at h
  by_cases hl : p.length < n
  · rw [if_pos hl] at h; simp at h
  · rw [if_neg hl] at h
    simp only [R.ok.injEq] at h
    exact ⟨h.1.symm, h.2.symm, by omega⟩

/-- one whole netstring read by `getlen` + `n` bytes + `getcomma` is a netstring of the strict grammar -/
theorem ns?_of_reads (max : Nat) (p : Bytes) (n : Nat) (r a r' t : Bytes) (u : Unit)
    (h1 : Netstring.getlen max 0 p = .ok n r) (h2 : getbytes n r = .ok a r') (h3 : Netstring.getcomma r' = .ok u t) :
    ns? p = some (a, t) := by
  obtain ⟨ha, hr', hn⟩ := getbytes_inv n r a r' h2
  have hc := getcomma_inv r' u t h3
  apply Nq.Spec.C07.ns?_intro p n r a t (getlen_nsLen max p 0 n r h1)
  · rw [← hc, ha, hr', List.take_append_drop]
  · rw [ha]; simp; omega

namespace Qmtp

theorem take_len_add {α : Type} (l1 l2 : List α) (k : Nat) : (l1 ++ l2).take (l1.length + k) = l1 ++ l2.take k := by
  rw [List.take_append]; simp [List.take_of_length_le]

theorem drop_len_add {α : Type} (l1 l2 : List α) (k : Nat) : (l1 ++ l2).drop (l1.length + k) = l2.drop k := by
  simp [List.drop_append]

/-- the recipient length loop, with the digit check in place (`qmtpRcptDigitCheck = 1`, read off the source): it reads
    what the strict grammar reads, and `biglen` goes down by the number of bytes consumed -/
theorem rcptLen_nsLen (hd : Nq.Gen.C07.qmtpRcptDigitCheck = 1) (max : Nat) (hmax : 10 * max + 9 < 18446744073709551616) :
    ∀ (p : Bytes) (big acc n big1 : Nat) (r : Bytes), rcptLen max big acc p = .ok (n, big1) r →
      nsLen acc p = some (n, r) ∧ big1 + p.length = big + r.length
  | [], big, _, _, _, _, h => by cases big <;> simp [rcptLen] at h
  | c :: p, 0, _, _, _, _, h => by simp [rcptLen] at h
  | c :: p, big + 1, acc, n, big1, r, h => by
    unfold rcptLen at h
    unfold nsLen
    by_cases h1 : c = COLON
    · rw [if_pos h1] at h
      have h1' : c = 58 := h1
      rw [if_pos h1']
      simp only [R.ok.injEq, Prod.mk.injEq] at h
      obtain ⟨⟨rfl, rfl⟩, rfl⟩ := h
      exact ⟨rfl, by simp; omega⟩
    · rw [if_neg h1] at h
      have h1' : ¬ c = 58 := h1
      rw [if_neg h1']
      by_cases h2 : acc > max
      · rw [if_pos h2] at h; simp at h
      · rw [if_neg h2] at h
        by_cases h3 : c < 48 ∨ c > 57
        · rw [if_pos ⟨hd, h3⟩] at h; simp at h
        · have h3' : ¬ (Nq.Gen.C07.qmtpRcptDigitCheck = 1 ∧ (c < 48 ∨ c > 57)) := fun hh => h3 hh.2
          rw [if_neg h3'] at h
          have hdig := (digit_iff c).mp h3
          rw [if_pos hdig]
          have hn : 48 ≤ c.toNat ∧ c.toNat ≤ 57 := by
            have := hdig
            simp only [UInt8.le_iff_toNat_le] at this
            exact this
          have h128 : ¬ c ≥ 128 := by
            simp only [ge_iff_le, UInt8.le_iff_toNat_le]
            have : (128 : UInt8).toNat = 128 := rfl
            omega
          have hw : wrapLen acc c = acc * 10 + (c.toNat - 48) := by
            unfold wrapLen
            rw [if_neg h128]
            omega
          rw [hw] at h
          obtain ⟨ih1, ih2⟩ := rcptLen_nsLen hd max hmax p big _ n big1 r h
          exact ⟨ih1, by simp; omega⟩

/-- **the recipient list.**  If the `while (biglen > 0)` loop runs to the end, the `biglen` bytes it consumed are a
    sequence of netstrings of the strict grammar; there is one failure byte per recipient (`rcptFail` of its payload),
    and the addresses handed to `qmail_to` are exactly the payloads (RELAYCLIENT appended) whose failure byte is 0, in
    order — nothing else is called on qmail.c. -/
theorem rcptLoop_strict (cfg : Cfg) (hd : Nq.Gen.C07.qmtpRcptDigitCheck = 1) : ∀ (fuel big : Nat) (inp : Bytes),
    (rcptLoop cfg fuel big inp).stop = none →
    big ≤ inp.length ∧ (rcptLoop cfg fuel big inp).rest = inp.drop big ∧
    ∃ as, nsList (inp.take big) = some as ∧
      (rcptLoop cfg fuel big inp).failure = as.map (rcptFail cfg) ∧
      (rcptLoop cfg fuel big inp).rcpts = (as.filter (fun a => rcptFail cfg a = 0)).map (· ++ cfg.relay.getD []) ∧
      (rcptLoop cfg fuel big inp).ops = (rcptLoop cfg fuel big inp).rcpts.map QOp.to
  | 0, _, _, h => by simp [rcptLoop] at h
  | _ + 1, 0, inp, _ => by
    refine ⟨by omega, by simp [rcptLoop], [], ?_, by simp [rcptLoop], by simp [rcptLoop], by simp [rcptLoop]⟩
    simp [Nq.Spec.C07.nsList_nil]
  | fuel + 1, big + 1, inp, h => by
    simp only [rcptLoop] at h ⊢
    cases h1 : rcptLen Nq.Gen.C07.qmtpLenMax (big + 1) 0 inp with
    | stop e r => simp [h1] at h
    | ok v r1 =>
      obtain ⟨len, big1⟩ := v
      simp only [h1] at h ⊢
      by_cases hl : len ≥ big1
      · simp [hl] at h
      · simp only [hl, ↓reduceIte] at h ⊢
        cases h2 : getbytes len r1 with
        | stop e r => simp [h2] at h
        | ok a r2 =>
          simp only [h2] at h ⊢
          cases h3 : Netstring.getcomma r2 with
          | stop e r => simp [h3] at h
          | ok u r3 =>
            simp only [h3] at h ⊢
            rw [RL.pre_stop] at h
            obtain ⟨ihle, ihrest, as', ihns, ihf, ihr, iho⟩ := rcptLoop_strict cfg hd fuel (big1 - (len + 1)) r3 h
            obtain ⟨hns, hcnt⟩ := rcptLen_nsLen hd Nq.Gen.C07.qmtpLenMax (by decide) inp (big + 1) 0 len big1 r1 h1
            obtain ⟨d, hdp, _, hext⟩ := Nq.Spec.C07.nsLen_split inp 0 len r1 hns
            obtain ⟨ha, hr2, hlen⟩ := getbytes_inv len r1 a r2 h2
            have hc := getcomma_inv r2 u r3 h3
            have hal : a.length = len := by rw [ha]; simp; omega
            have hr1 : r1 = a ++ 44 :: r3 := by rw [← hc, ha, hr2, List.take_append_drop]
            -- the whole input and the count
            have hinp : inp = (d ++ (a ++ [44])) ++ r3 := by rw [hdp, hr1]; simp
            have hdl : d.length + r1.length = inp.length := by rw [hdp]; simp
            have hr1l : r1.length = len + 1 + r3.length := by rw [hr1]; simp; omega
            have hbig : big + 1 = (d ++ (a ++ [44])).length + (big1 - (len + 1)) := by simp; omega
            have htake : inp.take (big + 1) = d ++ (a ++ 44 :: r3.take (big1 - (len + 1))) := by
              rw [hbig]; conv => lhs; rw [hinp]
              rw [take_len_add]; simp
            have hdrop : inp.drop (big + 1) = r3.drop (big1 - (len + 1)) := by
              rw [hbig]; conv => lhs; rw [hinp]
              rw [drop_len_add]
            have hns1 : ns? (inp.take (big + 1)) = some (a, r3.take (big1 - (len + 1))) := by
              rw [htake]
              exact Nq.Spec.C07.ns?_intro _ len _ a _ (hext _) rfl hal
            refine ⟨by omega, ?_, a :: as', ?_, ?_, ?_, ?_⟩
            · show (rcptLoop cfg fuel (big1 - (len + 1)) r3).rest = _
              rw [ihrest, hdrop]
            · rw [Nq.Spec.C07.nsList_cons _ a _ hns1, ihns]; rfl
            · show rcptFail cfg a :: (rcptLoop cfg fuel (big1 - (len + 1)) r3).failure = _
              rw [ihf]; rfl
            · rw [RL.pre_rcpts, ihr]
              by_cases hf : rcptFail cfg a = 0
              · simp [hf]
              · simp [hf]
            · rw [RL.pre_ops, RL.pre_rcpts, iho]
              by_cases hf : rcptFail cfg a = 0
              · simp [hf]
              · simp [hf]

theorem dosBody_len : ∀ (len : Nat) (pend : Bool) (bto : Nat) (p r : Bytes), (dosBody len pend bto p).rest = some r →
    len ≤ p.length
  | 0, _, _, _, _, _ => by omega
  | _ + 1, _, _, [], r, h => by simp [dosBody] at h
  | len + 1, false, bto, c :: p, r, h => by
    rw [dosBody_false] at h
    split at h
    · have := dosBody_len len true bto p r h; simp; omega
    · rw [pre_rest] at h; have := dosBody_len len false _ p r h; simp; omega
  | len + 1, true, bto, c :: p, r, h => by
    rw [dosBody_true] at h
    split at h
    · rw [pre_rest] at h; have := dosBody_len len false _ p r h; simp; omega
    · split at h
      · rw [pre_rest] at h; have := dosBody_len len true _ p r h; simp; omega
      · rw [pre_rest] at h; have := dosBody_len len false _ p r h; simp; omega

/-- the body loop consumed exactly the `len - 1` framed bytes -/
theorem bodyOf_rest (cfg : Cfg) (len : Nat) (c : Byte) (r1 r2 : Bytes) (h : (bodyOf cfg len c r1).rest = some r2) :
    len - 1 ≤ r1.length ∧ r2 = r1.drop (len - 1) := by
  unfold bodyOf at h
  split at h
  · exact ⟨dosBody_len _ _ _ _ _ h, (dosBody_stored _ _ _ _ _ (by simp) h).2⟩
  · rw [pre_rest] at h
    exact ⟨unixBody_len _ _ _ h, (unixBody_stored _ _ _ h).2⟩

open Nq.Spec.C07 (qmtpNext undos) in
/-- **accepted ⇒ strictly well framed.**  A message qmail-qmtpd reads to the end (`stop = none`: the only case in which it
    calls `qmail_close` and answers) is, byte for byte, a message of the independent strict grammar `Spec.C07.qmtpNext`
    — three netstrings with digits-only lengths and their commas, the third a sequence of netstrings —, the rest being
    what the daemon left unread.  Its body is the decoded `stored`; `sraw` and `as` are the netstring payloads of the
    sender and of ALL recipients; `senderok`, the envelope sender, the failure bytes and the envelope recipients are
    functions of these payloads: the envelope holds exactly the recipients whose failure byte is 0, in order.
    (`hd`: the digit check of the recipient-length loop is in the source — the repair e90aa72; the translator reads it.) -/
theorem msg_strict (cfg : Cfg) (inp : Bytes) (hd : Nq.Gen.C07.qmtpRcptDigitCheck = 1) (h : (msg cfg inp).stop = none) :
    ∃ sraw as, qmtpNext inp = some (⟨(msg cfg inp).stored, sraw, as⟩, (msg cfg inp).rest) ∧
      (msg cfg inp).senderok = (decide (sraw.length < Nq.Gen.C07.qmtpAddrMax) && !sraw.contains 0) ∧
      (msg cfg inp).sender = cstr (if sraw.length ≥ Nq.Gen.C07.qmtpAddrMax then [] else sraw) ∧
      (msg cfg inp).failure = as.map (rcptFail cfg) ∧
      (msg cfg inp).rcpts = (as.filter (fun a => rcptFail cfg a = 0)).map (· ++ cfg.relay.getD []) := by
  obtain ⟨len, c, r1, r2, r3, slen, r4, sraw, r5, r6, biglen, r7, r8, h1, hl, hc, h2, h3, h4, h5, h6, h7, h8, h9, hm⟩ :=
    msg_full cfg inp h
  obtain ⟨len', c', r1', h1', _, _, hdec⟩ := msg_decoded cfg inp h
  rw [h1] at h1'
  simp only [R.ok.injEq, List.cons.injEq] at h1'
  obtain ⟨rfl, rfl, rfl⟩ := h1'
  obtain ⟨hle, hr2⟩ := bodyOf_rest cfg len c r1 r2 h2
  obtain ⟨hbl, hrest, as, hns, hfa, hrc, _⟩ := rcptLoop_strict cfg hd (r7.length + 1) biglen r7 h8
  obtain ⟨hsa, _, hsl⟩ := getbytes_inv slen r4 sraw r5 h5
  have hslen : sraw.length = slen := by rw [hsa]; simp; omega
  -- the three netstrings
  have n1 : ns? inp = some (c :: r1.take (len - 1), r3) := by
    apply Nq.Spec.C07.ns?_intro inp len (c :: r1) _ r3 (getlen_nsLen _ inp 0 len _ h1)
    · have hc3 := getcomma_inv r2 () r3 h3
      rw [← hc3, hr2]; simp
    · simp; omega
  have n2 : ns? r3 = some (sraw, r6) := ns?_of_reads _ r3 slen r4 sraw r5 r6 () h4 h5 h6
  have n3 : ns? r6 = some (r7.take biglen, r8) := by
    apply Nq.Spec.C07.ns?_intro r6 biglen r7 _ r8 (getlen_nsLen _ r6 0 biglen _ h7)
    · have hc9 := getcomma_inv _ () r8 h9
      rw [← hc9, hrest, List.take_append_drop]
    · simp; omega
  refine ⟨sraw, as, ?_, ?_, ?_, ?_, ?_⟩
  · unfold qmtpNext
    rw [n1]
    simp only
    have hk : ¬ (c ≠ 10 ∧ c ≠ 13) := by
      rcases hc with hc | hc <;> simp [hc, LF, CR]
    rw [if_neg hk, n2]
    simp only
    rw [n3]
    simp only
    rw [hns, hdec]
    have hrest8 : (msg cfg inp).rest = r8 := by rw [hm]
    rw [hrest8]
  · rw [hm]; simp only [← hslen]
    by_cases hh : sraw.length < Nq.Gen.C07.qmtpAddrMax
    · have hge : ¬ sraw.length ≥ Nq.Gen.C07.qmtpAddrMax := by omega
      simp [hh, hge]
    · have hge : sraw.length ≥ Nq.Gen.C07.qmtpAddrMax := by omega
      simp [hh, hge]
  · rw [hm]; simp only [← hslen]
  · rw [hm]; exact hfa
  · rw [hm]; exact hrc

end Qmtp
end Nq.Netstring
