/-
  What is on the wire *before* the encoder is done (refused message, dropped connection, failing read):
  prefixes of `rfull`, and the state-machine-free characterisations of `canon`.  Core Lean only.
-/
import Nq.SmtpOut
import Nq.Spec.Wire
import Nq.Lemmas.SmtpWire

namespace Nq.Lemmas
open Nq Nq.SmtpOut Nq.Wire

/-! ## `rrun` = `rpart` followed by the finish -/

theorem rrun_eq (s : RSt) (m : Bytes) : rrun s m = (rfinish (rstate s m)).map (fun f => rpart s m ++ f) := by
  induction m generalizing s with
  | nil => simp [rrun, rstate, rpart]
  | cons c m ih =>
    simp only [rrun, rstate, rpart]
    rw [ih]
    cases rfinish (rstate (rstep s c).1 m) <;> simp

theorem rfull_of_some (s : RSt) (m e : Bytes) (h : rrun s m = some e) : rfull s m = e := by
  rw [rrun_eq] at h
  unfold rfull
  cases hf : rfinish (rstate s m) with
  | none => rw [hf] at h; cases h
  | some f => rw [hf] at h; simp at h ⊢; exact h

theorem rfull_of_none (s : RSt) (m : Bytes) (h : rrun s m = none) : rfull s m = rpart s m ∧ rstate s m = .mid := by
  rw [rrun_eq] at h
  unfold rfull
  cases hs : rstate s m <;> rw [hs] at h <;> simp [rfinish] at h ⊢

theorem rstate_append (s : RSt) (a b : Bytes) : rstate s (a ++ b) = rstate (rstate s a) b := by
  induction a generalizing s with
  | nil => rfl
  | cons c a ih => simp only [List.cons_append, rstate]; exact ih _

theorem rpart_append (s : RSt) (a b : Bytes) : rpart s (a ++ b) = rpart s a ++ rpart (rstate s a) b := by
  induction a generalizing s with
  | nil => simp [rpart, rstate]
  | cons c a ih => simp only [List.cons_append, rpart, rstate]; rw [ih]; simp

/-- a refused message is one LF short of an accepted one, and what was emitted is the beginning of that
message's transmission -/
theorem rrun_complete (s : RSt) (m : Bytes) (h : rrun s m = none) :
    rrun s (m ++ [LF]) = some (rpart s m ++ [CR, LF, DOT, CR, LF]) := by
  obtain ⟨_, hs⟩ := rfull_of_none s m h
  rw [rrun_eq, rstate_append, rpart_append, hs]
  simp [rstate, rstep, rpart, rfinish]

/-! ## prefixes of a well-formed payload -/

theorem noBareLFGo_prefix (prev : Byte) (p t : Bytes) (h : noBareLFGo prev (p ++ t) = true) :
    noBareLFGo prev p = true := by
  induction p generalizing prev with
  | nil => simp [noBareLFGo]
  | cons c p ih =>
    simp only [List.cons_append, noBareLFGo, Bool.and_eq_true] at h ⊢
    exact ⟨h.1, ih c h.2⟩

theorem splitGo_append (cur p t : Bytes) :
    splitGo cur (p ++ t) = ((splitGo cur p).1 ++ (splitGo (splitGo cur p).2.reverse t).1,
                            (splitGo (splitGo cur p).2.reverse t).2) := by
  induction p generalizing cur with
  | nil => simp [splitGo]
  | cons c p ih =>
    simp only [List.cons_append, splitGo]
    by_cases hc : c = LF ∧ cur.head? = some CR
    · rw [if_pos hc, if_pos hc, ih]; simp [consLine]
    · rw [if_neg hc, if_neg hc, ih]

theorem splitGo_nil_nil (cur t : Bytes) (h : splitGo cur t = ([], [])) : t = [] ∧ cur = [] := by
  induction t generalizing cur with
  | nil => simp [splitGo] at h; exact ⟨rfl, h⟩
  | cons c t ih =>
    simp only [splitGo] at h
    by_cases hc : c = LF ∧ cur.head? = some CR
    · rw [if_pos hc] at h; simp [consLine] at h
    · rw [if_neg hc] at h
      have := (ih _ h).2
      simp at this

/-- in a payload whose only lone-dot line is the last one, a prefix that already shows a lone-dot line is
the whole payload -/
theorem lone_dot_only_at_end (w p t : Bytes) (ls : List Bytes) (hw : splitCRLF w = (ls ++ [[DOT]], []))
    (hls : [DOT] ∉ ls) (h : w = p ++ t) (hd : [DOT] ∈ (splitCRLF p).1) : t = [] := by
  unfold splitCRLF at hw hd
  rw [h, splitGo_append] at hw
  generalize (splitGo [] p).1 = A at hw hd
  generalize hB : splitGo (splitGo [] p).2.reverse t = B at hw
  obtain ⟨B1, B2⟩ := B
  simp only [Prod.mk.injEq] at hw
  obtain ⟨h1, h2⟩ := hw
  subst h2
  rcases List.append_eq_append_iff.mp h1 with ⟨a', e1, e2⟩ | ⟨c', e1, e2⟩
  · exact absurd (by rw [e1]; exact List.mem_append_left _ hd) hls
  · cases c' with
    | nil =>
      simp at e1 e2
      exact absurd (by rw [← e1]; exact hd) hls
    | cons x c'' =>
      have hB1 : B1 = [] := by
        have := congrArg List.length e2
        simp only [List.length_cons, List.length_nil, List.length_append] at this
        exact List.eq_nil_of_length_eq_zero (by omega)
      subst hB1
      exact (splitGo_nil_nil _ _ hB).1

/-- **Whatever part of `rfull .top m` has reached the wire** — the whole transmission, or the bytes flushed
before `perm_partialline()`, a failing read or a dropped connection — it contains no bare LF, and it shows a
lone-dot line (the peer's end-of-data) only if it is the complete transmission of an accepted message. -/
theorem prefix_no_terminator (m p t : Bytes) (h : rfull .top m = p ++ t) :
    noBareLF p = true ∧ ([DOT] ∈ (splitCRLF p).1 → rblast m = some p) := by
  have key : ∀ (m' e p' t' : Bytes), rblast m' = some e → e = p' ++ t' →
      noBareLF p' = true ∧ ([DOT] ∈ (splitCRLF p').1 → t' = []) := by
    intro m' e p' t' he hp
    refine ⟨?_, ?_⟩
    · have := wire_nolf m' .top 0 e he
      rw [hp] at this
      exact noBareLFGo_prefix 0 p' t' this
    · intro hd
      obtain ⟨ls, h1, h2⟩ := wire_lines m' .top [] e he (by simp [RInv])
      have hno : [DOT] ∉ ls := by
        intro hm
        have := (h2 _ hm).1
        simp [stuffedLine] at this
      exact lone_dot_only_at_end e p' t' ls h1 hno hp hd
  cases hr : rblast m with
  | some e =>
    rw [rfull_of_some .top m e hr] at h
    obtain ⟨k1, k2⟩ := key m e p t hr h
    refine ⟨k1, fun hd => ?_⟩
    have := k2 hd
    subst this
    simp at h
    rw [h]
  | none =>
    rw [(rfull_of_none .top m hr).1] at h
    have hc := rrun_complete .top m hr
    rw [h] at hc
    obtain ⟨k1, k2⟩ := key (m ++ [LF]) _ p (t ++ [CR, LF, DOT, CR, LF]) hc (by simp)
    refine ⟨k1, fun hd => ?_⟩
    have := k2 hd
    simp at this

/-! ## `canon` without the state machine -/

theorem crun_c (m : Bytes) : crun .c m = match m with
    | [] => [LF]
    | x :: m' => if x = LF then LF :: crun .n m' else LF :: x :: crun .n m' := by
  cases m with
  | nil => simp [crun, cfinish]
  | cons x m' => by_cases h : x = LF <;> simp [crun, cstep, h]

theorem canon_eq_canonSpec (m : Bytes) : canon m = canonSpec m := by
  unfold canon
  induction m using canonSpec.induct with
  | case1 => simp [crun, cfinish, canonSpec]
  | case2 => simp [crun, cstep, cfinish, canonSpec]
  | case3 c h => simp [crun, cstep, cfinish, canonSpec, h]
  | case4 m ih => simp [crun, cstep, canonSpec, ih, CR, LF]
  | case5 d m hd ih => simp [crun, cstep, canonSpec, ih, hd]
  | case6 c d m hc ih =>
    rw [canonSpec, if_neg hc, ← ih]
    simp [crun, cstep, hc]

/-- the quirk, explicitly: after a bare CR the next byte is literal data even if it is a CR -/
theorem canon_cr_cr (m : Bytes) : canon (CR :: CR :: m) = LF :: CR :: canon m := by
  rw [canon_eq_canonSpec, canon_eq_canonSpec]
  simp [canonSpec, CR, LF]

/-- away from CR CR the encoder's discipline **is** the documented one -/
theorem canonSpec_eq_canonDoc (m : Bytes) (h : noCRCR m = true) : canonSpec m = canonDoc m := by
  induction m using canonSpec.induct with
  | case1 => simp [canonSpec, canonDoc]
  | case2 => simp [canonSpec, canonDoc]
  | case3 c hc => simp [canonSpec, canonDoc]
  | case4 m ih =>
    have h' : noCRCR m = true := by
      cases m with
      | nil => rfl
      | cons x m' => simp [noCRCR, CR, LF] at h ⊢; exact h
    simp [canonSpec, canonDoc, ih h', CR, LF]
  | case5 d m hd ih =>
    have hdcr : d ≠ CR := by
      intro e; subst e; simp [noCRCR] at h
    have h' : noCRCR (d :: m) = true := by simp [noCRCR] at h; exact h.2
    have h'' : noCRCR m = true := by
      cases m with
      | nil => rfl
      | cons x m' => simp [noCRCR] at h' ⊢; exact h'.2
    rw [canonSpec, canonDoc, if_pos rfl, if_neg hd, if_pos rfl, if_neg hd, ih h'']
    cases m with
    | nil => simp [canonDoc, hdcr]
    | cons x m' => simp [canonDoc, hdcr]
  | case6 c d m hc ih =>
    have h' : noCRCR (d :: m) = true := by simp [noCRCR] at h; exact h.2
    rw [canonSpec, canonDoc, if_neg hc, if_neg hc, ih h']

end Nq.Lemmas
