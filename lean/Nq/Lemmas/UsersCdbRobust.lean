/- cdb_seek on ARBITRARY files (corrupted, truncated, hostile):
   * a hit is always backed by a slot, a record header and the key and data bytes that are really in the file
     (`cdbGet_sound`) — the bounds alone are `C20_cdb_seek_in_file` / `C20_cdb_get_slice` in Nq/Props/C20.lean;
   * answers are stable under extension of the file: whatever the reader answers without a read error on a prefix
     it answers on the whole file (`cdbGet_mono`), hence on a truncated database the answer is the right one or an
     error, never another record and never a false "absent";
   * nughde_get on top of such a reader yields the same record or exits QLX_CDB (`nughdeCdb_mono`).
   Core Lean only. -/
import Nq.Users

namespace Nq.Lemmas.Users
open Nq Nq.Users Nq.Gen.Lspawn

/-! ## monotonicity of the primitive reads -/

theorem take_drop_mono (f y : Bytes) (off n : Nat) (h : ((f.drop off).take n).length = n) :
    ((f ++ y).drop off).take n = (f.drop off).take n := by
  cases n with
  | zero => simp
  | succ n =>
    simp only [List.length_take, List.length_drop] at h
    rw [List.drop_append_of_le_length (by omega), List.take_append_of_le_length (by simp only [List.length_drop]; omega)]

theorem read8_le (f : Bytes) (o : Nat) (r : Nat × Nat) (h : read8 f o = some r) : o + 8 ≤ f.length := by
  unfold read8 at h
  split at h
  · rename_i a b c d a' b' c' d' rest heq
    have hl := congrArg List.length heq
    simp only [List.length_drop, List.length_cons] at hl
    omega
  · cases h

theorem read8_mono (f y : Bytes) (o : Nat) (r : Nat × Nat) (h : read8 f o = some r) : read8 (f ++ y) o = some r := by
  unfold read8 at h ⊢
  split at h
  · rename_i a b c d a' b' c' d' rest heq
    have hl := congrArg List.length heq
    simp only [List.length_drop, List.length_cons] at hl
    rw [List.drop_append_of_le_length (by omega), heq]
    exact h
  · cases h

theorem matchAt_mono (f y : Bytes) : ∀ (fuel off : Nat) (key : Bytes) (r : MatchRes), matchAt f fuel off key = r →
    r ≠ .err → matchAt (f ++ y) fuel off key = r
  | 0, _, _, r, h, _ => by simp only [matchAt] at h ⊢; exact h
  | fuel + 1, off, key, r, h, hr => by
    rw [matchAt] at h ⊢
    by_cases hk : key.isEmpty = true
    · rw [if_pos hk] at h ⊢; exact h
    · rw [if_neg hk] at h ⊢
      dsimp only at h ⊢
      by_cases hc : ((f.drop off).take (min 32 key.length)).length = min 32 key.length
      · rw [take_drop_mono f y off _ hc]
        rw [if_pos hc] at h ⊢
        by_cases he : ((f.drop off).take (min 32 key.length) == key.take (min 32 key.length)) = true
        · rw [if_pos he] at h ⊢
          exact matchAt_mono f y fuel _ _ r h hr
        · rw [if_neg he] at h ⊢; exact h
      · rw [if_neg hc] at h
        exact absurd h.symm hr

theorem probe_mono (f y key : Bytes) (h pos lenhash : Nat) : ∀ (fuel h2 : Nat) (r : SeekRes),
    probe f key h pos lenhash fuel h2 = r → r ≠ .err → probe (f ++ y) key h pos lenhash fuel h2 = r
  | 0, _, r, hp, _ => by simp only [probe] at hp ⊢; exact hp
  | fuel + 1, h2, r, hp, hne => by
    rw [probe] at hp ⊢
    cases hr : read8 f ((pos + 8 * h2) % 4294967296) with
    | none => rw [hr] at hp; exact absurd hp.symm hne
    | some r0 =>
      obtain ⟨sh, poskd⟩ := r0
      rw [hr] at hp
      rw [read8_mono f y _ _ hr]
      dsimp only at hp ⊢
      by_cases hz : poskd = 0
      · rw [if_pos hz] at hp ⊢; exact hp
      · rw [if_neg hz] at hp ⊢
        by_cases hs : sh = h
        · rw [if_pos hs] at hp ⊢
          cases hr2 : read8 f poskd with
          | none => rw [hr2] at hp; exact absurd hp.symm hne
          | some r2 =>
            obtain ⟨kl, dl⟩ := r2
            rw [hr2] at hp
            rw [read8_mono f y _ _ hr2]
            dsimp only at hp ⊢
            by_cases hk : kl = key.length
            · rw [if_pos hk] at hp ⊢
              cases hmm : matchAt f (key.length + 1) (poskd + 8) key with
              | err => rw [hmm] at hp; exact absurd hp.symm hne
              | yes =>
                rw [hmm] at hp
                rw [matchAt_mono f y _ _ _ _ hmm (by simp)]
                exact hp
              | no =>
                rw [hmm] at hp
                rw [matchAt_mono f y _ _ _ _ hmm (by simp)]
                dsimp only at hp ⊢
                exact probe_mono f y key h pos lenhash fuel _ r hp hne
            · rw [if_neg hk] at hp ⊢
              exact probe_mono f y key h pos lenhash fuel _ r hp hne
        · rw [if_neg hs] at hp ⊢
          exact probe_mono f y key h pos lenhash fuel _ r hp hne

theorem cdbSeek_mono (f y key : Bytes) (r : SeekRes) (hp : cdbSeek f key = r) (hne : r ≠ .err) :
    cdbSeek (f ++ y) key = r := by
  unfold cdbSeek at hp ⊢
  dsimp only at hp ⊢
  cases hr : read8 f (8 * ((hashKey key).toNat % 256)) with
  | none => rw [hr] at hp; exact absurd hp.symm hne
  | some r0 =>
    obtain ⟨pos, lenhash⟩ := r0
    rw [hr] at hp
    rw [read8_mono f y _ _ hr]
    dsimp only at hp ⊢
    by_cases hz : lenhash = 0
    · rw [if_pos hz] at hp ⊢; exact hp
    · rw [if_neg hz] at hp ⊢
      exact probe_mono f y key _ _ _ _ _ r hp hne

/-- whatever cdb_seek + cdb_bread answer without a read error on a file, they answer on every extension of it -/
theorem cdbGet_mono (f y key : Bytes) (hne : cdbGet f key ≠ .err) : cdbGet (f ++ y) key = cdbGet f key := by
  generalize hg : cdbGet f key = g at hne ⊢
  unfold cdbGet at hg ⊢
  cases hr : cdbSeek f key with
  | err => rw [hr] at hg; exact absurd hg.symm hne
  | notFound =>
    rw [hr] at hg
    rw [cdbSeek_mono f y key _ hr (by simp)]
    exact hg
  | found dpos dlen =>
    rw [hr] at hg
    rw [cdbSeek_mono f y key _ hr (by simp)]
    dsimp only at hg ⊢
    by_cases hl : ((f.drop dpos).take dlen).length = dlen
    · rw [take_drop_mono f y dpos dlen hl]
      exact hg
    · rw [if_neg hl] at hg; exact absurd hg.symm hne

/-- a truncated file: the answer is an error or the answer of the whole file -/
theorem cdbGet_prefix (f' y key : Bytes) : cdbGet f' key = .err ∨ cdbGet f' key = cdbGet (f' ++ y) key := by
  by_cases h : cdbGet f' key = .err
  · exact Or.inl h
  · exact Or.inr (cdbGet_mono f' y key h).symm

/-! ## a hit is a real record -/

theorem matchAt_yes (f : Bytes) : ∀ (fuel off : Nat) (key : Bytes), key.length < fuel → matchAt f fuel off key = .yes →
    (f.drop off).take key.length = key
  | 0, _, _, h, _ => by omega
  | fuel + 1, off, key, hf, h => by
    rw [matchAt] at h
    by_cases hk : key.isEmpty = true
    · have : key = [] := List.isEmpty_iff.mp hk
      subst this; simp
    · rw [if_neg hk] at h
      dsimp only at h
      have hne : key ≠ [] := fun e => hk (by rw [e]; rfl)
      have hpos : 0 < key.length := List.length_pos_iff.mpr hne
      by_cases hc : ((f.drop off).take (min 32 key.length)).length = min 32 key.length
      · rw [if_pos hc] at h
        by_cases he : ((f.drop off).take (min 32 key.length) == key.take (min 32 key.length)) = true
        · rw [if_pos he] at h
          have he' : (f.drop off).take (min 32 key.length) = key.take (min 32 key.length) := by simpa using he
          have ih := matchAt_yes f fuel _ _ (by simp only [List.length_drop]; omega) h
          rw [List.length_drop] at ih
          have hsplit : key.length = min 32 key.length + (key.length - min 32 key.length) := by omega
          calc (f.drop off).take key.length
              = (f.drop off).take (min 32 key.length + (key.length - min 32 key.length)) := by rw [← hsplit]
            _ = (f.drop off).take (min 32 key.length) ++
                  ((f.drop off).drop (min 32 key.length)).take (key.length - min 32 key.length) := List.take_add
            _ = key.take (min 32 key.length) ++ key.drop (min 32 key.length) := by rw [he', List.drop_drop, ih]
            _ = key := List.take_append_drop _ _
        · rw [if_neg he] at h; cases h
      · rw [if_neg hc] at h; cases h

/-- what stands behind a hit: a slot `(hash, pos)`, a record header `(klen, dlen)` at `pos`, the key at `pos+8` -/
theorem probe_sound (f key : Bytes) (h pos lenhash : Nat) : ∀ (fuel h2 dpos dlen : Nat),
    probe f key h pos lenhash fuel h2 = .found dpos dlen →
    ∃ o p, read8 f o = some (h, p) ∧ read8 f p = some (key.length, dlen) ∧
      (f.drop (p + 8)).take key.length = key ∧ dpos = p + 8 + key.length
  | 0, _, _, _, hr => by simp [probe] at hr
  | fuel + 1, h2, dpos, dlen, hr => by
    rw [probe] at hr
    cases hrd : read8 f ((pos + 8 * h2) % 4294967296) with
    | none => rw [hrd] at hr; cases hr
    | some r =>
      obtain ⟨sh, poskd⟩ := r
      rw [hrd] at hr
      dsimp only at hr
      by_cases hz : poskd = 0
      · rw [if_pos hz] at hr; cases hr
      · rw [if_neg hz] at hr
        by_cases hs : sh = h
        · rw [if_pos hs] at hr
          cases hr2 : read8 f poskd with
          | none => rw [hr2] at hr; cases hr
          | some r2 =>
            obtain ⟨kl, dl⟩ := r2
            rw [hr2] at hr
            dsimp only at hr
            by_cases hk : kl = key.length
            · rw [if_pos hk] at hr
              cases hmm : matchAt f (key.length + 1) (poskd + 8) key with
              | err => rw [hmm] at hr; cases hr
              | yes =>
                rw [hmm] at hr
                simp only [SeekRes.found.injEq] at hr
                refine ⟨(pos + 8 * h2) % 4294967296, poskd, ?_, ?_, matchAt_yes f _ _ _ (Nat.lt_succ_self _) hmm, hr.1.symm⟩
                · rw [hrd, hs]
                · rw [hr2, hk, hr.2]
              | no =>
                rw [hmm] at hr
                exact probe_sound f key h pos lenhash fuel _ _ _ hr
            · rw [if_neg hk] at hr
              exact probe_sound f key h pos lenhash fuel _ _ _ hr
        · rw [if_neg hs] at hr
          exact probe_sound f key h pos lenhash fuel _ _ _ hr

/-- on ANY file: if the lookup returns data `d` for key `k`, the file contains a slot holding `(hash k, p)`, at `p`
    a record header `(|k|, |d|)`, and at `p + 8` the bytes `k ++ d` — all inside the file -/
theorem cdbGet_sound (f k d : Bytes) (h : cdbGet f k = .found d) :
    ∃ o p, read8 f o = some ((hashKey k).toNat, p) ∧ read8 f p = some (k.length, d.length) ∧
      (f.drop (p + 8)).take (k.length + d.length) = k ++ d := by
  unfold cdbGet at h
  cases hs : cdbSeek f k with
  | err => rw [hs] at h; cases h
  | notFound => rw [hs] at h; cases h
  | found dpos dlen =>
    rw [hs] at h
    dsimp only at h
    by_cases hl : ((f.drop dpos).take dlen).length = dlen
    · rw [if_pos hl] at h
      simp only [Lk.found.injEq] at h
      unfold cdbSeek at hs
      dsimp only at hs
      cases hr : read8 f (8 * ((hashKey k).toNat % 256)) with
      | none => rw [hr] at hs; cases hs
      | some r =>
        obtain ⟨pos, lenhash⟩ := r
        rw [hr] at hs
        dsimp only at hs
        by_cases hz : lenhash = 0
        · rw [if_pos hz] at hs; cases hs
        · rw [if_neg hz] at hs
          obtain ⟨o, p, h1, h2, h3, h4⟩ := probe_sound f k _ _ _ _ _ _ _ hs
          have hdl : d.length = dlen := by rw [← h]; exact hl
          refine ⟨o, p, h1, by rw [h2, hdl], ?_⟩
          rw [List.take_add, h3, List.drop_drop, hdl, ← h4, h]
    · rw [if_neg hl] at h; cases h

/-! ## nughde_get over a reader that may fail -/

/-- `lk'` answers like `lk` or reports a read error -/
def Weaker (lk' lk : Bytes → Lk) : Prop := ∀ k, lk' k = .err ∨ lk' k = lk k

theorem wildLoop_mono (lk' lk : Bytes → Lk) (hw : Weaker lk' lk) (wild loc : Bytes) : ∀ n,
    wildLoop lk' wild loc n = .exit QLX_CDB ∨ wildLoop lk' wild loc n = wildLoop lk wild loc n
  | 0 => by
    simp only [wildLoop]
    rcases hw [BANG] with h | h
    · rw [h]; exact Or.inl rfl
    · rw [h]; exact Or.inr rfl
  | n + 1 => by
    simp only [wildLoop]
    split
    · rcases hw (BANG :: (lower loc).take (n + 1)) with h | h
      · rw [h]; exact Or.inl rfl
      · rw [h]
        cases lk (BANG :: (lower loc).take (n + 1)) with
        | err => exact Or.inr rfl
        | found d => exact Or.inr rfl
        | notFound => exact wildLoop_mono lk' lk hw wild loc n
    · exact wildLoop_mono lk' lk hw wild loc n

theorem nughdeLoop_mono (lk' lk : Bytes → Lk) (hw : Weaker lk' lk) (wild loc : Bytes) :
    nughdeLoop lk' wild loc = .exit QLX_CDB ∨ nughdeLoop lk' wild loc = nughdeLoop lk wild loc := by
  unfold nughdeLoop
  rcases hw (BANG :: lower loc ++ [NUL]) with h | h
  · rw [h]; exact Or.inl rfl
  · rw [h]
    cases lk (BANG :: lower loc ++ [NUL]) with
    | err => exact Or.inr rfl
    | found d => exact Or.inr rfl
    | notFound => exact wildLoop_mono lk' lk hw wild loc _

/-- nughde_get on a truncated users/cdb: the same record (or the same miss) as on the whole file, or exit QLX_CDB -/
theorem nughdeCdb_prefix (f' y loc : Bytes) :
    nughdeCdb (some f') loc = .exit QLX_CDB ∨ nughdeCdb (some f') loc = nughdeCdb (some (f' ++ y)) loc := by
  have hw : Weaker (cdbGet f') (cdbGet (f' ++ y)) := fun k => cdbGet_prefix f' y k
  unfold nughdeCdb
  dsimp only
  rcases hw [] with h | h
  · rw [h]; exact Or.inl rfl
  · rw [h]
    cases cdbGet (f' ++ y) [] with
    | err => exact Or.inr rfl
    | notFound => exact Or.inr rfl
    | found w => exact nughdeLoop_mono _ _ hw w loc

end Nq.Lemmas.Users
