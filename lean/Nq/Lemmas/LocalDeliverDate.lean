/-
  C12: the date `myctime` puts into the From_ line has exactly 24 characters (plus the newline), as mbox(5) says, for every
  instant from 1970 up to the end of the year 9999.  Uses (read-only) the calendar theorem of `Nq/Lemmas/Datetime.lean`
  (`tai_civil`: datetime_tai computes the Gregorian date) through the bridge `Nq/Lemmas/DatetimeC12.lean`
  (`LocalDeliver.datetimeTai` is field by field `Datetime.tai`).
-/
import Nq.LocalDeliver
import Nq.Lemmas.DatetimeC12

namespace Nq.Lemmas.LD.Date
open Nq Nq.LocalDeliver Nq.Datetime Nq.Lemmas.Datetime

theorem fmtDec_len1 (n : Nat) (h : n < 10) : (fmtDec n).length = 1 := by
  rw [fmtDec]; simp [h]

theorem fmtDec_len2 (n : Nat) (h1 : 10 ≤ n) (h2 : n < 100) : (fmtDec n).length = 2 := by
  rw [fmtDec]; have : ¬ n < 10 := by omega
  simp [this, fmtDec_len1 (n / 10) (by omega)]

theorem fmtDec_len3 (n : Nat) (h1 : 100 ≤ n) (h2 : n < 1000) : (fmtDec n).length = 3 := by
  rw [fmtDec]; have : ¬ n < 10 := by omega
  simp [this, fmtDec_len2 (n / 10) (by omega) (by omega)]

theorem fmtDec_len4 (n : Nat) (h1 : 1000 ≤ n) (h2 : n < 10000) : (fmtDec n).length = 4 := by
  rw [fmtDec]; have : ¬ n < 10 := by omega
  simp [this, fmtDec_len3 (n / 10) (by omega) (by omega)]

theorem fmt02_len (n : Nat) (h : n < 100) : (fmt02 n).length = 2 := by
  unfold fmt02; split
  · rfl
  · exact fmtDec_len2 n (by omega) h

theorem daytab_len (i : Nat) (h : i < 7) : (daytab.getD i []).length = 3 := by
  have : i = 0 ∨ i = 1 ∨ i = 2 ∨ i = 3 ∨ i = 4 ∨ i = 5 ∨ i = 6 := by omega
  rcases this with rfl | rfl | rfl | rfl | rfl | rfl | rfl <;> rfl

theorem montab_len (i : Nat) (h : i < 12) : (montab.getD i []).length = 3 := by
  have : i = 0 ∨ i = 1 ∨ i = 2 ∨ i = 3 ∨ i = 4 ∨ i = 5 ∨ i = 6 ∨ i = 7 ∨ i = 8 ∨ i = 9 ∨ i = 10 ∨ i = 11 := by omega
  rcases this with rfl | rfl | rfl | rfl | rfl | rfl | rfl | rfl | rfl | rfl | rfl | rfl <;> rfl

theorem dby10000 : daysBeforeYear 10000 = 2932897 := by decide

/-- ranges of the fields `myctime` formats, for 1970-01-01 00:00:00 ≤ t ≤ 9999-12-31 23:59:59 -/
theorem fields_range (t : Nat) (ht : t < 253402300800) :
    let dt := datetimeTai t
    0 ≤ dt.wday ∧ dt.wday < 7 ∧ 0 ≤ dt.mon ∧ dt.mon < 12 ∧ 1 ≤ dt.mday ∧ dt.mday ≤ 31 ∧
    0 ≤ dt.hour ∧ dt.hour < 24 ∧ 0 ≤ dt.min ∧ dt.min < 60 ∧ 0 ≤ dt.sec ∧ dt.sec < 60 ∧ 1970 ≤ dt.year ∧ dt.year < 10000 := by
  intro dt
  have he := Nq.Lemmas.DatetimeC12.localDeliver_datetimeTai_eq (t : Int)
  obtain ⟨hv, hd, hhms, _, hw⟩ := tai_civil (t : Int)
  have e1 : dt.wday = (tai t).wday := by show (datetimeTai t).wday = _; rw [he]
  have e2 : dt.mon = (tai t).mon := by show (datetimeTai t).mon = _; rw [he]
  have e3 : dt.mday = (tai t).mday := by show (datetimeTai t).mday = _; rw [he]
  have e4 : dt.hour = (tai t).hour := by show (datetimeTai t).hour = _; rw [he]
  have e5 : dt.min = (tai t).min := by show (datetimeTai t).min = _; rw [he]
  have e6 : dt.sec = (tai t).sec := by show (datetimeTai t).sec = _; rw [he]
  have e7 : dt.year = (tai t).year := by show (datetimeTai t).year = _; rw [he]
  rw [e1, e2, e3, e4, e5, e6, e7]
  obtain ⟨hb1, hb2⟩ := dfc_bounds _ _ _ hv
  rw [hd] at hb1 hb2
  have hday0 : (0 : Int) ≤ (t : Int) / 86400 := by omega
  have hdayhi : (t : Int) / 86400 < 2932897 := by omega
  have hy0 : 1970 ≤ (tai t).year := by
    by_cases hy : 1970 ≤ (tai t).year
    · exact hy
    · have := daysBeforeYear_mono ((tai t).year + 1) 1970 (by omega)
      rw [daysBeforeYear_1970] at this; omega
  have hy1 : (tai t).year < 10000 := by
    by_cases hy : (tai t).year < 10000
    · exact hy
    · have := daysBeforeYear_mono 10000 (tai t).year (by omega)
      rw [dby10000] at this; omega
  obtain ⟨m0, m1, d1, d2⟩ := hv
  have hL := leapI01 (tai t).year
  have hmd : (tai t).mday ≤ 31 := by
    rcases mon_cases (tai t).mon m0 m1 with e | e | e | e | e | e | e | e | e | e | e | e <;> rw [e] at d2 <;>
      simp only [ml0, ml1, ml2, ml3, ml4, ml5, ml6, ml7, ml8, ml9, ml10, ml11] at d2 <;> omega
  refine ⟨by omega, by omega, m0, m1, d1, hmd, hhms.1, hhms.2.1, hhms.2.2.1, hhms.2.2.2.1, hhms.2.2.2.2.1, hhms.2.2.2.2.2, hy0, hy1⟩

/-- **"It always contains exactly 24 characters"** (mbox(5)): the date of the From_ line, plus its newline -/
theorem myctime_length (t : Nat) (ht : t < 253402300800) : (myctime t).length = 25 := by
  obtain ⟨w0, w1, m0, m1, d0, d1, h0, h1, mi0, mi1, s0, s1, y0, y1⟩ := fields_range t ht
  unfold myctime
  simp only [List.length_append, List.length_cons, List.length_nil]
  rw [daytab_len _ (by omega), montab_len _ (by omega), fmt02_len _ (by omega), fmt02_len _ (by omega),
    fmt02_len _ (by omega), fmt02_len _ (by omega), fmtDec_len4 _ (by omega) (by omega)]

end Nq.Lemmas.LD.Date
