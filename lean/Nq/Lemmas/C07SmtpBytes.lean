/-
  Byte-level facts about the replies of the composed SMTP connection: which of them can contain a line beginning `250 ok `.
-/
import Nq.Lemmas.C07Smtp

namespace Nq.SmtpC07
open Nq Nq.SmtpSession

/-! ### bytes: which replies can look like an acknowledgement -/

/-- "250 ok " -/
def ackPrefix : Bytes := [50, 53, 48, 32, 111, 107, 32]

def startsAck (l : Bytes) : Bool := l.take 7 == ackPrefix

/-- some line of `b` (the pieces between LFs) begins with `250 ok ` -/
def hasAckLine (b : Bytes) : Bool := (splitOnB LF b).any startsAck

/-- the greeting (control/smtpgreeting, default control/me) is one line that does not begin with `ok ` -/
def GreetOK (g : Bytes) : Prop := LF ∉ g ∧ g.take 3 ≠ [111, 107, 32]

/-- the replies whose text does not depend on the configuration or on the queue program -/
def fixedReply : Reply → Bool
  | .helo | .ehlo | .quit | .accepted | .qqfail _ => false
  | _ => true

theorem fixed_no_ack (pol : SmtpSession.Cfg) (r : Reply) (h : fixedReply r = true) : hasAckLine (render pol r) = false := by
  cases r <;> simp [fixedReply] at h <;> simp only [render] <;> decide

theorem splitOnB_ne_nil (sep : Byte) : ∀ (b : Bytes), splitOnB sep b ≠ []
  | [] => by simp [splitOnB]
  | c :: r => by
    unfold splitOnB
    split
    · simp
    · split <;> simp

/-- a separator-free prefix only lengthens the first piece -/
theorem splitOnB_append_free (sep : Byte) : ∀ (a b : Bytes), sep ∉ a →
    splitOnB sep (a ++ b) = (a ++ (splitOnB sep b).headD []) :: (splitOnB sep b).tail
  | [], b, _ => by
    cases h : splitOnB sep b with
    | nil => exact absurd h (splitOnB_ne_nil sep b)
    | cons p ps => simp [h]
  | c :: a, b, h => by
    have hc : c ≠ sep := fun e => h (by simp [e])
    have ha : sep ∉ a := fun e => h (by simp [e])
    simp only [List.cons_append]
    rw [splitOnB, if_neg hc, splitOnB_append_free sep a b ha]

theorem greet_helo (g : Bytes) (h : GreetOK g) : hasAckLine (Gen.txt_helo_pre ++ g ++ Gen.txt_helo_tail) = false := by
  obtain ⟨hlf, hok⟩ := h
  have hfree : LF ∉ Gen.txt_helo_pre ++ g := by
    intro hm; rcases List.mem_append.mp hm with hm | hm
    · revert hm; decide
    · exact hlf hm
  unfold hasAckLine
  rw [splitOnB_append_free LF _ _ hfree]
  have : splitOnB LF Gen.txt_helo_tail = [[13], []] := by decide
  rw [this]
  simp only [List.headD_cons, List.tail_cons, List.any_cons, List.any_nil, Bool.or_false]
  have h2 : startsAck ([] : Bytes) = false := by decide
  rw [h2, Bool.or_false]
  unfold startsAck ackPrefix Gen.txt_helo_pre
  rcases g with _ | ⟨a, _ | ⟨b, _ | ⟨c, g⟩⟩⟩
  · decide
  · simp
  · simp
  · simp at hok ⊢
    intro h1 h2 h3
    exact hok h1 h2 h3

theorem greet_ehlo (g : Bytes) (h : GreetOK g) : hasAckLine (Gen.txt_ehlo_pre ++ g ++ Gen.txt_ehlo_tail) = false := by
  obtain ⟨hlf, _⟩ := h
  have hfree : LF ∉ Gen.txt_ehlo_pre ++ g := by
    intro hm; rcases List.mem_append.mp hm with hm | hm
    · revert hm; decide
    · exact hlf hm
  unfold hasAckLine
  rw [splitOnB_append_free LF _ _ hfree]
  have : splitOnB LF Gen.txt_ehlo_tail = [[13], [50, 53, 48, 45, 80, 73, 80, 69, 76, 73, 78, 73, 78, 71, 13], [50, 53, 48, 32, 56, 66, 73, 84, 77, 73, 77, 69, 13], []] := by decide
  rw [this]
  simp only [List.headD_cons, List.tail_cons, List.any_cons, List.any_nil, Bool.or_false]
  have h1 : startsAck (Gen.txt_ehlo_pre ++ g ++ [13]) = false := by
    unfold startsAck ackPrefix Gen.txt_ehlo_pre
    simp
  rw [h1]
  decide

theorem greet_quit (g : Bytes) (h : GreetOK g) : hasAckLine (Gen.txt_quit_pre ++ g ++ Gen.txt_quit_tail) = false := by
  obtain ⟨hlf, _⟩ := h
  have hfree : LF ∉ Gen.txt_quit_pre ++ g := by
    intro hm; rcases List.mem_append.mp hm with hm | hm
    · revert hm; decide
    · exact hlf hm
  unfold hasAckLine
  rw [splitOnB_append_free LF _ _ hfree]
  have : splitOnB LF Gen.txt_quit_tail = [[13], []] := by decide
  rw [this]
  simp only [List.headD_cons, List.tail_cons, List.any_cons, List.any_nil, Bool.or_false]
  have h1 : startsAck (Gen.txt_quit_pre ++ g ++ [13]) = false := by
    unfold startsAck ackPrefix Gen.txt_quit_pre
    simp
  rw [h1]
  decide

/-- no reply other than the acknowledgement itself and the relayed text of the queue program has a line beginning `250 ok ` -/
theorem render_no_ack (pol : SmtpSession.Cfg) (hg : GreetOK pol.greeting) (r : Reply) (h1 : r ≠ .accepted) (h2 : ∀ t, r ≠ .qqfail t) :
    hasAckLine (render pol r) = false := by
  cases r with
  | helo => exact greet_helo _ hg
  | ehlo => exact greet_ehlo _ hg
  | quit => exact greet_quit _ hg
  | accepted => exact absurd rfl h1
  | qqfail t => exact absurd rfl (h2 t)
  | _ => exact fixed_no_ack pol _ rfl

/-- a command line that starts no queue run gets exactly one reply, and it is neither the acknowledgement nor a relayed queue text -/
theorem plain_step_single (pol : SmtpSession.Cfg) (s : Sess) (v : Verb) (arg : Bytes) (h : ¬ (v = Verb.data ∧ dataGate s = true)) :
    ∃ r, (sstep pol s (plainCmd v arg)).2.replies = [r] ∧ r ≠ .accepted ∧ ∀ t, r ≠ .qqfail t := by
  cases v with
  | data =>
    have hg : dataGate s = false := by simpa using h
    unfold dataGate at hg
    by_cases h1 : s.seenmail = true
    · have he : s.rcptto.isEmpty = true := by simpa [h1] using hg
      exact ⟨.wantrcpt, by simp [plainCmd, sstep, h1, he], by simp, by simp⟩
    · exact ⟨.wantmail, by simp [plainCmd, sstep, h1], by simp, by simp⟩
  | mail =>
    cases ha : addrparse pol arg with
    | none => exact ⟨.syntax, by simp [plainCmd, sstep, ha], by simp, by simp⟩
    | some a => exact ⟨.mailok, by simp [plainCmd, sstep, ha], by simp, by simp⟩
  | rcpt =>
    by_cases h1 : s.seenmail = true
    · cases ha : addrparse pol arg with
      | none => exact ⟨.syntax, by simp [plainCmd, sstep, h1, ha], by simp, by simp⟩
      | some a =>
        by_cases hb : s.flagbarf = true
        · exact ⟨.bmf, by simp [plainCmd, sstep, h1, ha, hb], by simp, by simp⟩
        · cases hr : pol.relay with
          | some rc => exact ⟨.rcptok, by simp [plainCmd, sstep, h1, ha, hb, hr], by simp, by simp⟩
          | none =>
            by_cases hm : rcpthostsMatch pol a = true
            · exact ⟨.rcptok, by simp [plainCmd, sstep, h1, ha, hb, hr, hm], by simp, by simp⟩
            · exact ⟨.nogateway, by simp [plainCmd, sstep, h1, ha, hb, hr, hm], by simp, by simp⟩
    · exact ⟨.wantmail, by simp [plainCmd, sstep, h1], by simp, by simp⟩
  | quit => exact ⟨.quit, by simp [plainCmd, sstep], by simp, by simp⟩
  | helo => exact ⟨.helo, by simp [plainCmd, sstep], by simp, by simp⟩
  | ehlo => exact ⟨.ehlo, by simp [plainCmd, sstep], by simp, by simp⟩
  | rset => exact ⟨.flushed, by simp [plainCmd, sstep], by simp, by simp⟩
  | help => exact ⟨.help, by simp [plainCmd, sstep], by simp, by simp⟩
  | noop => exact ⟨.noop, by simp [plainCmd, sstep], by simp, by simp⟩
  | vrfy => exact ⟨.vrfy, by simp [plainCmd, sstep], by simp, by simp⟩
  | unimpl => exact ⟨.unimpl, by simp [plainCmd, sstep], by simp, by simp⟩

end Nq.SmtpC07
