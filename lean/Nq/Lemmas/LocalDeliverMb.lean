/-
  The inductive invariant of the system of concurrent mbox deliveries (`Nq.LocalDeliver.Mb.sysStep`):
  with `flock` as a mutex the file always is  box ++ (entries of the committed deliveries, in commit
  order) ++ (what the current lock holder has appended so far).
-/
import Nq.LocalDeliver

namespace Nq.Lemmas.LD.Mb
open Nq Nq.LocalDeliver Nq.LocalDeliver.Mb

/-- the old content followed by the entries of the committed deliveries -/
def base (entry : Nat → Bytes) (box : Bytes) (y : Sys) : Bytes := box ++ (y.order.map entry).flatten

/-- control points inside the critical section (lock held, descriptor open) -/
def InCrit : PC → Bool
  | .alarmOff | .seekE | .seekC | .copy | .closeOk | .rollback | .closeErr => true
  | _ => false

/-- control points of a delivery whose entry is completely in the file -/
def Committed : PC → Bool
  | .closeOk | .finish | .done 0 => true
  | _ => false

def PreLock : PC → Bool
  | .start | .alarmOn | .lock | .alarmOff | .seekE | .seekC => true
  | _ => false

/-- what the lock holder's control point says about the file -/
def HolderInv (s : St) (file b : Bytes) : Prop :=
  match s.pc with
  | .alarmOff => file = b ++ s.written ∧ s.locked = true
  | .seekE => file = b ++ s.written ∧ s.locked = true
  | .seekC => file = b ++ s.written ∧ s.off = b.length ∧ s.locked = true
  | .copy => file = b ++ s.written ∧ s.pos = b.length ∧ s.locked = true
  | .rollback => file = b ++ s.written ∧ s.pos = b.length ∧ s.locked = true
  | _ => file = b

structure SInv (entry : Nat → Bytes) (box : Bytes) (y : Sys) : Prop where
  excl : ∀ j, InCrit (y.st j).pc = true → y.holder = some j
  free : y.holder = none → y.file = base entry box y
  held : ∀ i, y.holder = some i → HolderInv (y.st i) y.file (base entry box y)
  ord : ∀ j, j ∈ y.order ↔ Committed (y.st j).pc = true
  nodup : y.order.Nodup
  pre : ∀ j, PreLock (y.st j).pc = true → (y.st j).written = []
  dy : ∀ j c, (y.st j).pc = .dying c → c ≠ 0

theorem inv_init (entry : Nat → Bytes) (box : Bytes) : SInv entry box { file := box } where
  excl := by intro j h; simp [InCrit] at h
  free := by intro _; simp [base]
  held := by intro i h; simp at h
  ord := by intro j; simp [Committed]
  nodup := by simp
  pre := by intro j _; rfl
  dy := by intro j c h; simp at h

@[simp] theorem upd_same (f : Nat → St) (i : Nat) (s : St) : upd f i s i = s := by simp [upd]
theorem upd_other (f : Nat → St) (i j : Nat) (s : St) (h : j ≠ i) : upd f i s j = f j := by simp [upd, h]

/-- a step of process `i` that touches neither the file, the lock nor the commit order -/
theorem step_local (entry : Nat → Bytes) (box : Bytes) (y : Sys) (i : Nat) (s' : St) (hinv : SInv entry box y)
    (hA : InCrit s'.pc = true → y.holder = some i)
    (hB : y.holder = some i → HolderInv s' y.file (base entry box y))
    (hC : Committed s'.pc = Committed (y.st i).pc)
    (hE : PreLock s'.pc = true → s'.written = [])
    (hD : ∀ c, s'.pc = .dying c → c ≠ 0) :
    SInv entry box { y with st := upd y.st i s' } where
  excl := by
    intro j h
    by_cases hj : j = i
    · subst hj; simp at h; exact hA h
    · simp [upd_other _ _ _ _ hj] at h; exact hinv.excl j h
  free := by intro h; exact hinv.free h
  held := by
    intro k hk
    by_cases hj : k = i
    · subst hj; simpa [base] using hB hk
    · simpa [upd_other _ _ _ _ hj, base] using hinv.held k hk
  ord := by
    intro j
    by_cases hj : j = i
    · subst hj; simp [hC]; exact hinv.ord j
    · simp [upd_other _ _ _ _ hj]; exact hinv.ord j
  nodup := hinv.nodup
  pre := by
    intro j h
    by_cases hj : j = i
    · subst hj; simp at h ⊢; exact hE h
    · simp [upd_other _ _ _ _ hj] at h ⊢; exact hinv.pre j h
  dy := by
    intro j c h
    by_cases hj : j = i
    · subst hj; simp at h; exact hD c h
    · simp [upd_other _ _ _ _ hj] at h; exact hinv.dy j c h

theorem release_self (h : Option Nat) (i : Nat) : release h i ≠ some i := by
  unfold release; split <;> simp_all

theorem release_other (h : Option Nat) (i k : Nat) (hk : k ≠ i) : release h i = some k ↔ h = some k := by
  unfold release; split
  · rename_i hh; simp [hh]; exact fun h' => hk h'.symm
  · rfl

theorem release_none (h : Option Nat) (i : Nat) : release h i = none ↔ (h = none ∨ h = some i) := by
  unfold release; split
  · rename_i hh; simp [hh]
  · rename_i hh; simp [hh]

/-- a step of process `i` (close / exit) that drops the lock if `i` holds it -/
theorem step_release (entry : Nat → Bytes) (box : Bytes) (y : Sys) (i : Nat) (s' : St) (hinv : SInv entry box y)
    (hA : InCrit s'.pc = false)
    (hB : y.holder = some i → y.file = base entry box y)
    (hC : Committed s'.pc = Committed (y.st i).pc)
    (hE : PreLock s'.pc = true → s'.written = [])
    (hD : ∀ c, s'.pc = .dying c → c ≠ 0) :
    SInv entry box { y with st := upd y.st i s', holder := release y.holder i } where
  excl := by
    intro j h
    by_cases hj : j = i
    · subst hj; simp [hA] at h
    · simp [upd_other _ _ _ _ hj] at h
      exact (release_other _ _ _ hj).2 (hinv.excl j h)
  free := by
    intro h
    rcases (release_none _ _).1 h with h1 | h1
    · exact hinv.free h1
    · exact hB h1
  held := by
    intro k hk
    by_cases hj : k = i
    · subst hj; exact absurd hk (release_self _ _)
    · have := hinv.held k ((release_other _ _ _ hj).1 hk)
      simpa [upd_other _ _ _ _ hj, base] using this
  ord := by
    intro j
    by_cases hj : j = i
    · subst hj; simp [hC]; exact hinv.ord j
    · simp [upd_other _ _ _ _ hj]; exact hinv.ord j
  nodup := hinv.nodup
  pre := by
    intro j h
    by_cases hj : j = i
    · subst hj; simp at h ⊢; exact hE h
    · simp [upd_other _ _ _ _ hj] at h ⊢; exact hinv.pre j h
  dy := by
    intro j c h
    by_cases hj : j = i
    · subst hj; simp at h; exact hD c h
    · simp [upd_other _ _ _ _ hj] at h; exact hinv.dy j c h

theorem failFrom_pc (s : St) : (failFrom s).pc = if s.locked then .rollback else .closeErr := by
  unfold failFrom; split <;> simp_all

theorem failFrom_fields (s : St) : (failFrom s).written = s.written ∧ (failFrom s).pos = s.pos ∧ (failFrom s).locked = s.locked := by
  unfold failFrom; split <;> simp

/-- the error exit from the copy loop keeps the holder invariant: with the lock it goes to `rollback` -/
theorem failFrom_local (entry : Nat → Bytes) (box : Bytes) (y : Sys) (i : Nat) (hinv : SInv entry box y)
    (hpc : (y.st i).pc = .copy) : SInv entry box { y with st := upd y.st i (failFrom (y.st i)) } := by
  have hh : y.holder = some i := hinv.excl i (by simp [hpc, InCrit])
  have hH := hinv.held i hh
  simp [HolderInv, hpc] at hH
  obtain ⟨hf, hp, hl⟩ := hH
  obtain ⟨fw, fp, fl⟩ := failFrom_fields (y.st i)
  have hpc' : (failFrom (y.st i)).pc = .rollback := by rw [failFrom_pc, hl]; rfl
  apply step_local entry box y i _ hinv
  · intro _; exact hh
  · intro _; simp [HolderInv, hpc', fw, fp, fl, hf, hp, hl]
  · simp [hpc', hpc, Committed]
  · simp [hpc', PreLock]
  · intro c hc; rw [hpc'] at hc; cases hc

/-- the parts of the invariant that do not mention the file, for a step of `i` that keeps lock and order -/
theorem others (entry : Nat → Bytes) (box : Bytes) (y : Sys) (i : Nat) (s' : St) (hinv : SInv entry box y)
    (hh : y.holder = some i)
    (hC : Committed s'.pc = Committed (y.st i).pc)
    (hE : PreLock s'.pc = false)
    (hD : ∀ c, s'.pc ≠ .dying c) :
    (∀ j, InCrit (upd y.st i s' j).pc = true → y.holder = some j) ∧
    (∀ j, j ∈ y.order ↔ Committed (upd y.st i s' j).pc = true) ∧
    (∀ j, PreLock (upd y.st i s' j).pc = true → (upd y.st i s' j).written = []) ∧
    (∀ j c, (upd y.st i s' j).pc = .dying c → c ≠ 0) := by
  refine ⟨?_, ?_, ?_, ?_⟩
  · intro j hj
    by_cases hji : j = i
    · subst hji; exact hh
    · rw [upd_other _ _ _ _ hji] at hj; exact hinv.excl j hj
  · intro j
    by_cases hji : j = i
    · subst hji; rw [upd_same, hC]; exact hinv.ord j
    · rw [upd_other _ _ _ _ hji]; exact hinv.ord j
  · intro j hj
    by_cases hji : j = i
    · subst hji; rw [upd_same, hE] at hj; cases hj
    · rw [upd_other _ _ _ _ hji] at hj ⊢; exact hinv.pre j hj
  · intro j c hj
    by_cases hji : j = i
    · subst hji; rw [upd_same] at hj; exact absurd hj (hD c)
    · rw [upd_other _ _ _ _ hji] at hj; exact hinv.dy j c hj

theorem step_inv (entry : Nat → Bytes) (box : Bytes) (y y' : Sys) (i : Nat) (e : Ev)
    (hinv : SInv entry box y) (hb : benign e = true) (hstep : sysStep entry y i e = some y') : SInv entry box y' := by
  unfold sysStep at hstep
  cases hacc : accept (entry i) (y.st i) e with
  | none => simp [hacc] at hstep
  | some s' =>
    simp only [hacc] at hstep
    cases e with
    | openAppend ok =>
      simp at hstep; subst hstep
      simp only [accept] at hacc
      split at hacc
      · rename_i h; cases hacc
        have hw := hinv.pre i (by simp [h, PreLock])
        apply step_local entry box y i _ hinv
        · cases ok <;> simp [InCrit]
        · intro hh; have := hinv.held i hh; cases ok <;> simpa [HolderInv, h] using this
        · cases ok <;> simp [Committed, h]
        · intro _; exact hw
        · intro c hc; cases ok <;> simp at hc; omega
      · cases hacc
    | alarm n =>
      simp at hstep; subst hstep
      simp only [accept] at hacc
      split at hacc
      · rename_i h; cases hacc
        have hw := hinv.pre i (by simp [h.1, PreLock])
        apply step_local entry box y i _ hinv
        · simp [InCrit]
        · intro hh; have := hinv.held i hh; simpa [HolderInv, h.1] using this
        · simp [Committed, h.1]
        · intro _; exact hw
        · intro c hc; simp at hc
      · split at hacc
        · rename_i h; cases hacc
          have hh : y.holder = some i := hinv.excl i (by simp [h.1, InCrit])
          apply step_local entry box y i _ hinv
          · intro _; exact hh
          · intro hh; have := hinv.held i hh; simpa [HolderInv, h.1] using this
          · simp [Committed, h.1]
          · intro _; exact hinv.pre i (by simp [h.1, PreLock])
          · intro c hc; simp at hc
        · cases hacc
    | flock ok =>
      cases ok with
      | false => simp [benign] at hb
      | true =>
        simp only [accept] at hacc
        split at hacc
        · rename_i h; cases hacc
          simp at hstep
          obtain ⟨hn, hy⟩ := hstep
          subst hy
          have hw := hinv.pre i (by simp [h, PreLock])
          have hf := hinv.free hn
          refine ⟨?_, ?_, ?_, ?_, hinv.nodup, ?_, ?_⟩
          · intro j hj
            by_cases hji : j = i
            · subst hji; rfl
            · simp [upd_other _ _ _ _ hji] at hj
              have := hinv.excl j hj; rw [hn] at this; cases this
          · intro hh; simp at hh
          · intro k hk
            simp at hk; subst hk
            show HolderInv _ y.file (base entry box y)
            simp only [upd_same, HolderInv]
            exact ⟨by rw [hw, List.append_nil]; exact hf, trivial⟩
          · intro j
            by_cases hji : j = i
            · subst hji; simp [Committed]; have := (hinv.ord j); simpa [h, Committed] using this
            · simp [upd_other _ _ _ _ hji]; exact hinv.ord j
          · intro j hj
            by_cases hji : j = i
            · subst hji; simp; exact hw
            · simp [upd_other _ _ _ _ hji] at hj ⊢; exact hinv.pre j hj
          · intro j c hj
            by_cases hji : j = i
            · subst hji; simp at hj
            · simp [upd_other _ _ _ _ hji] at hj; exact hinv.dy j c hj
        · cases hacc
    | seekEnd len =>
      simp only [accept] at hacc
      split at hacc
      · rename_i h; cases hacc
        simp at hstep
        obtain ⟨hl, hy⟩ := hstep
        subst hy
        have hh : y.holder = some i := hinv.excl i (by simp [h, InCrit])
        have hw := hinv.pre i (by simp [h, PreLock])
        have hH := hinv.held i hh
        simp [HolderInv, h, hw] at hH
        apply step_local entry box y i _ hinv
        · intro _; exact hh
        · intro _; simp [HolderInv, hw, hH.1, hH.2, hl]
        · simp [Committed, h]
        · intro _; exact hw
        · intro c hc; simp at hc
      · cases hacc
    | seekCur len =>
      simp at hstep; subst hstep
      simp only [accept] at hacc
      split at hacc
      · rename_i h; cases hacc
        have hh : y.holder = some i := hinv.excl i (by simp [h.1, InCrit])
        have hH := hinv.held i hh
        simp [HolderInv, h.1] at hH
        apply step_local entry box y i _ hinv
        · intro _; exact hh
        · intro _; simp [HolderInv, hH.1, hH.2.2, h.2, hH.2.1]
        · simp [Committed, h.1]
        · simp [PreLock]
        · intro c hc; simp at hc
      · cases hacc
    | read n =>
      simp at hstep; subst hstep
      simp only [accept] at hacc
      split at hacc
      · rename_i h; cases hacc
        have hh : y.holder = some i := hinv.excl i (by simp [h.1, InCrit])
        apply step_local entry box y i _ hinv
        · intro _; exact hh
        · intro hh; have := hinv.held i hh; simpa [HolderInv, h.1] using this
        · simp [Committed, h.1]
        · simp [PreLock, h.1]
        · intro c hc; simp [h.1] at hc
      · cases hacc
    | readErr intr =>
      simp at hstep; subst hstep
      simp only [accept] at hacc
      split at hacc
      · rename_i h
        cases intr with
        | true =>
          simp at hacc; subst hacc
          have : upd y.st i (y.st i) = y.st := by funext j; simp [upd]; intro hj; rw [hj]
          simpa [this] using hinv
        | false => simp at hacc; subst hacc; exact failFrom_local entry box y i hinv h.1
      · cases hacc
    | write bs =>
      simp at hstep; subst hstep
      simp only [accept] at hacc
      split at hacc
      · rename_i h; cases hacc
        have hh : y.holder = some i := hinv.excl i (by simp [h.1, InCrit])
        have hH := hinv.held i hh
        simp [HolderInv, h.1] at hH
        obtain ⟨hf, hp, hl⟩ := hH
        obtain ⟨o1, o2, o3, o4⟩ := others entry box y i { y.st i with written := (y.st i).written ++ bs } hinv hh
          (by simp) (by simp [h.1, PreLock]) (by intro c; simp [h.1])
        refine ⟨o1, ?_, ?_, o2, hinv.nodup, o3, o4⟩
        · intro hn; simp [hh] at hn
        · intro k hk
          have hki : k = i := by simp [hh] at hk; exact hk.symm
          subst hki
          show HolderInv _ (y.file ++ bs) (base entry box y)
          simp only [upd_same, HolderInv, h.1]
          exact ⟨by rw [hf, List.append_assoc], hp, hl⟩
      · cases hacc
    | writeErr intr =>
      simp at hstep; subst hstep
      simp only [accept] at hacc
      split at hacc
      · rename_i h
        cases intr with
        | true =>
          simp at hacc; subst hacc
          have : upd y.st i (y.st i) = y.st := by funext j; simp [upd]; intro hj; rw [hj]
          simpa [this] using hinv
        | false => simp at hacc; subst hacc; exact failFrom_local entry box y i hinv h
      · cases hacc
    | fsync ok =>
      simp only [accept] at hacc
      split at hacc
      · rename_i h
        cases ok with
        | false =>
          simp at hacc hstep; subst hacc; subst hstep
          exact failFrom_local entry box y i hinv h.1
        | true =>
          simp at hacc hstep; subst hacc; subst hstep
          have hh : y.holder = some i := hinv.excl i (by simp [h.1, InCrit])
          have hH := hinv.held i hh
          simp [HolderInv, h.1] at hH
          obtain ⟨hf, hp, hl⟩ := hH
          have hni : i ∉ y.order := by
            intro hm; have := (hinv.ord i).1 hm; simp [h.1, Committed] at this
          refine ⟨?_, ?_, ?_, ?_, ?_, ?_, ?_⟩
          · intro j hj
            by_cases hji : j = i
            · subst hji; exact hh
            · simp [upd_other _ _ _ _ hji] at hj; exact hinv.excl j hj
          · intro hn; simp [hh] at hn
          · intro k hk
            have hki : k = i := by simp [hh] at hk; exact hk.symm
            subst hki
            show HolderInv _ y.file (box ++ ((y.order ++ [k]).map entry).flatten)
            simp only [upd_same, HolderInv]
            rw [hf, h.2.2]; simp [base, List.append_assoc]
          · intro j
            by_cases hji : j = i
            · subst hji; simp [Committed]
            · simp [upd_other _ _ _ _ hji, hji]; exact hinv.ord j
          · show (y.order ++ [i]).Nodup
            simp [List.nodup_append, hinv.nodup]
            intro a ha hai; subst hai; exact hni ha
          · intro j hj
            by_cases hji : j = i
            · subst hji; simp [PreLock] at hj
            · simp [upd_other _ _ _ _ hji] at hj ⊢; exact hinv.pre j hj
          · intro j c hj
            by_cases hji : j = i
            · subst hji; simp at hj
            · simp [upd_other _ _ _ _ hji] at hj; exact hinv.dy j c hj
      · cases hacc
    | ftrunc len ok =>
      cases ok with
      | false => simp [benign] at hb
      | true =>
        simp at hstep; subst hstep
        simp only [accept] at hacc
        split at hacc
        · rename_i h; cases hacc
          have hh : y.holder = some i := hinv.excl i (by simp [h.1, InCrit])
          have hH := hinv.held i hh
          simp [HolderInv, h.1] at hH
          obtain ⟨hf, hp, hl⟩ := hH
          obtain ⟨o1, o2, o3, o4⟩ := others entry box y i { y.st i with pc := .closeErr } hinv hh
            (by simp [h.1, Committed]) (by simp [PreLock]) (by intro c; simp)
          refine ⟨o1, ?_, ?_, o2, hinv.nodup, o3, o4⟩
          · intro hn; simp [hh] at hn
          · intro k hk
            have hki : k = i := by simp [hh] at hk; exact hk.symm
            subst hki
            show HolderInv _ (y.file.take len) (base entry box y)
            simp only [upd_same, HolderInv]
            rw [h.2, hp, hf]; simp
        · cases hacc
    | close =>
      simp at hstep; subst hstep
      simp only [accept] at hacc
      split at hacc
      · rename_i h; cases hacc
        apply step_release entry box y i _ hinv
        · simp [InCrit]
        · intro hh; have := hinv.held i hh; simpa [HolderInv, h] using this
        · simp [Committed, h]
        · simp [PreLock]
        · intro c hc; simp at hc
      · split at hacc
        · rename_i h; cases hacc
          apply step_release entry box y i _ hinv
          · simp [InCrit]
          · intro hh; have := hinv.held i hh; simpa [HolderInv, h] using this
          · simp [Committed, h]
          · simp [PreLock]
          · intro c hc; simp at hc; omega
        · cases hacc
    | sigAlarm =>
      simp at hstep; subst hstep
      simp only [accept] at hacc
      split at hacc
      · rename_i h; cases hacc
        have hw : (y.st i).written = [] := by
          rcases h with h | h
          · exact hinv.pre i (by simp [h, PreLock])
          · exact hinv.pre i (by simp [h, PreLock])
        apply step_local entry box y i _ hinv
        · simp [InCrit]
        · intro hh; have := hinv.held i hh
          rcases h with h | h
          · simpa [HolderInv, h] using this
          · simp [HolderInv, h, hw] at this; simpa [HolderInv] using this.1
        · rcases h with h | h <;> simp [Committed, h]
        · simp [PreLock]
        · intro c hc; simp at hc; omega
      · cases hacc
    | exit code =>
      simp at hstep; subst hstep
      simp only [accept] at hacc
      split at hacc
      · rename_i h
        split at hacc
        · rename_i hc; cases hacc
          apply step_release entry box y i _ hinv
          · simp [InCrit]
          · intro hh; have := hinv.held i hh; simpa [HolderInv, h] using this
          · cases code with
            | zero => exact absurd rfl hc
            | succ k => simp [Committed, h]
          · simp [PreLock]
          · intro c hc; simp at hc
        · cases hacc
      · rename_i h
        split at hacc
        · rename_i hc; cases hacc; subst hc
          apply step_release entry box y i _ hinv
          · simp [InCrit]
          · intro hh; have := hinv.held i hh; simpa [HolderInv, h] using this
          · simp [Committed, h]
          · simp [PreLock]
          · intro c hc; simp at hc
        · cases hacc
      · rename_i c h
        split at hacc
        · rename_i hc; cases hacc; subst hc
          have hc0 : code ≠ 0 := hinv.dy i code h
          apply step_release entry box y i _ hinv
          · simp [InCrit]
          · intro hh; have := hinv.held i hh; simpa [HolderInv, h] using this
          · cases code with
            | zero => exact absurd rfl hc0
            | succ k => simp [Committed, h]
          · simp [PreLock]
          · intro c hc; simp at hc
        · cases hacc
      · cases hacc

theorem run_inv (entry : Nat → Bytes) (box : Bytes) (tr : List (Nat × Ev)) : ∀ (y y' : Sys), SInv entry box y →
    (∀ x ∈ tr, benign x.2 = true) → sysRun entry y tr = some y' → SInv entry box y' := by
  induction tr with
  | nil => intro y y' hinv _ h; simp [sysRun] at h; subst h; exact hinv
  | cons x xs ih =>
    intro y y' hinv hb h
    obtain ⟨i, e⟩ := x
    simp only [sysRun] at h
    cases hs : sysStep entry y i e with
    | none => simp [hs] at h
    | some y1 =>
      simp only [hs] at h
      exact ih y1 y' (step_inv entry box y y1 i e hinv (hb (i, e) (by simp)) hs)
        (fun x hx => hb x (List.mem_cons_of_mem _ hx)) h


/-! ### who can hold the lock; untouched processes -/

/-- not inside a delivery: not started, or exited -/
def Idle : PC → Bool
  | .start | .done _ => true
  | _ => false

theorem accept_not_idle (entry : Bytes) (s s' : St) (e : Ev) (h : accept entry s e = some s')
    (hne : ∀ c, e ≠ .exit c) : Idle s'.pc = false := by
  cases e with
  | exit c => exact absurd rfl (hne c)
  | openAppend ok =>
    simp only [accept] at h; split at h
    · cases h; cases ok <;> simp [Idle]
    · cases h
  | alarm n =>
    simp only [accept] at h; split at h
    · cases h; simp [Idle]
    · split at h
      · cases h; simp [Idle]
      · cases h
  | flock ok =>
    simp only [accept] at h; split at h
    · cases h; simp [Idle]
    · cases h
  | seekEnd len =>
    simp only [accept] at h; split at h
    · cases h; simp [Idle]
    · cases h
  | seekCur len =>
    simp only [accept] at h; split at h
    · cases h; simp [Idle]
    · cases h
  | read n =>
    simp only [accept] at h; split at h
    · rename_i hp; cases h; simp [Idle, hp.1]
    · cases h
  | readErr intr =>
    simp only [accept] at h; split at h
    · rename_i hp; cases intr <;> simp at h <;> subst h
      · rw [failFrom_pc]; split <;> simp [Idle]
      · simp [Idle, hp.1]
    · cases h
  | write bs =>
    simp only [accept] at h; split at h
    · rename_i hp; cases h; simp [Idle, hp.1]
    · cases h
  | writeErr intr =>
    simp only [accept] at h; split at h
    · rename_i hp; cases intr <;> simp at h <;> subst h
      · rw [failFrom_pc]; split <;> simp [Idle]
      · simp [Idle, hp]
    · cases h
  | fsync ok =>
    simp only [accept] at h; split at h
    · cases ok <;> simp at h <;> subst h
      · rw [failFrom_pc]; split <;> simp [Idle]
      · simp [Idle]
    · cases h
  | ftrunc len ok =>
    simp only [accept] at h; split at h
    · cases h; simp [Idle]
    · cases h
  | close =>
    simp only [accept] at h; split at h
    · cases h; simp [Idle]
    · split at h
      · cases h; simp [Idle]
      · cases h
  | sigAlarm =>
    simp only [accept] at h; split at h
    · cases h; simp [Idle]
    · cases h

/-- the shape of a step: only process `i` changes state; the lock moves as the OS says -/
theorem sysStep_shape (entry : Nat → Bytes) (y y' : Sys) (i : Nat) (e : Ev) (h : sysStep entry y i e = some y') :
    ∃ s', accept (entry i) (y.st i) e = some s' ∧ y'.st = upd y.st i s' ∧
      y'.holder = (match e with
        | .flock true => some i
        | .close => release y.holder i
        | .exit _ => release y.holder i
        | _ => y.holder) := by
  unfold sysStep at h
  cases hacc : accept (entry i) (y.st i) e with
  | none => simp [hacc] at h
  | some s' =>
    refine ⟨s', rfl, ?_⟩
    simp only [hacc] at h
    cases e with
    | flock ok =>
      cases ok with
      | true => simp at h; obtain ⟨_, rfl⟩ := h; exact ⟨rfl, rfl⟩
      | false => simp at h; subst h; exact ⟨rfl, rfl⟩
    | seekEnd len => simp at h; obtain ⟨_, rfl⟩ := h; exact ⟨rfl, rfl⟩
    | ftrunc len ok => cases ok <;> (simp at h; subst h; exact ⟨rfl, rfl⟩)
    | fsync ok => cases ok <;> (simp at h; subst h; exact ⟨rfl, rfl⟩)
    | _ => simp at h; subst h; exact ⟨rfl, rfl⟩

/-- the lock holder is inside a delivery -/
def HInv (y : Sys) : Prop := ∀ i, y.holder = some i → Idle (y.st i).pc = false

theorem hinv_step (entry : Nat → Bytes) (y y' : Sys) (i : Nat) (e : Ev) (hinv : HInv y)
    (h : sysStep entry y i e = some y') : HInv y' := by
  obtain ⟨s', hacc, hst, hho⟩ := sysStep_shape entry y y' i e h
  intro k hk
  rw [hst]
  by_cases hki : k = i
  · subst hki
    rw [upd_same]
    cases e with
    | exit c => simp only at hho; rw [hho] at hk; exact absurd hk (release_self _ _)
    | _ => exact accept_not_idle (entry k) (y.st k) s' _ hacc (by intro c hc; cases hc)
  · rw [upd_other _ _ _ _ hki]
    apply hinv k
    cases e with
    | flock ok =>
      cases ok with
      | true => simp only at hho; rw [hho] at hk; cases hk; exact absurd rfl hki
      | false => simp only at hho; rw [← hho]; exact hk
    | close => simp only at hho; rw [hho] at hk; exact (release_other _ _ _ hki).1 hk
    | exit c => simp only at hho; rw [hho] at hk; exact (release_other _ _ _ hki).1 hk
    | _ => simp only at hho; rw [← hho]; exact hk

theorem hinv_run (entry : Nat → Bytes) (tr : List (Nat × Ev)) : ∀ (y y' : Sys), HInv y → sysRun entry y tr = some y' → HInv y' := by
  induction tr with
  | nil => intro y y' hinv h; simp [sysRun] at h; subst h; exact hinv
  | cons x xs ih =>
    intro y y' hinv h
    obtain ⟨i, e⟩ := x
    simp only [sysRun] at h
    cases hs : sysStep entry y i e with
    | none => simp [hs] at h
    | some y1 => simp only [hs] at h; exact ih y1 y' (hinv_step entry y y1 i e hinv hs) h

theorem holder_active (entry : Nat → Bytes) (box : Bytes) (tr : List (Nat × Ev)) (y : Sys)
    (h : sysRun entry { file := box } tr = some y) (i : Nat) (hh : y.holder = some i) : Idle (y.st i).pc = false :=
  hinv_run entry tr _ y (by intro i hi; simp at hi) h i hh

theorem untouched_run (entry : Nat → Bytes) (tr : List (Nat × Ev)) : ∀ (y y' : Sys), sysRun entry y tr = some y' →
    ∀ j, (∀ x ∈ tr, x.1 ≠ j) → y'.st j = y.st j := by
  induction tr with
  | nil => intro y y' h j _; simp [sysRun] at h; subst h; rfl
  | cons x xs ih =>
    intro y y' h j hj
    obtain ⟨i, e⟩ := x
    simp only [sysRun] at h
    cases hs : sysStep entry y i e with
    | none => simp [hs] at h
    | some y1 =>
      simp only [hs] at h
      obtain ⟨s', _, hst, _⟩ := sysStep_shape entry y y1 i e hs
      rw [ih y1 y' h j (fun x hx => hj x (List.mem_cons_of_mem _ hx)), hst]
      exact upd_other _ _ _ _ (fun hji => hj (i, e) (by simp) hji.symm)

/-- in a run of process 0 alone every other process is still at its start -/
theorem only_zero (entry : Nat → Bytes) (box : Bytes) (tr : List (Nat × Ev)) (y : Sys)
    (h : sysRun entry { file := box } tr = some y) (honly : ∀ x ∈ tr, x.1 = 0) (j : Nat) (hj : j ≠ 0) : y.st j = {} := by
  have := untouched_run entry tr _ y h j (fun x hx hxj => hj (by rw [← hxj, honly x hx]))
  simpa using this


/-! ### exit codes and the meaning of exit 0 (per process, no hypothesis on the other processes) -/

/-- per-process invariant of the acceptor: failures inside `mailfile()` die with 111; `synced` (set only by an accepted
successful fsync, which requires the complete entry to have been written) holds exactly at the committed control points -/
def PInv (entry : Bytes) (s : St) : Prop :=
  (∀ c, s.pc = .dying c → c = 111) ∧
  (∀ c, s.pc = .done c → s.opened = true → c = 0 ∨ c = 111) ∧
  (s.pc = .start → s.opened = false) ∧
  (s.synced = true ↔ Committed s.pc = true) ∧
  (s.synced = true → s.written = entry)

theorem pinv_init (entry : Bytes) : PInv entry {} := by simp [PInv, Committed]

theorem failFrom_pinv (entry : Bytes) (s : St) (h : PInv entry s) (hpc : s.pc = .copy) : PInv entry (failFrom s) := by
  obtain ⟨_, _, _, h4, h5⟩ := h
  have hs : s.synced = false := by
    cases hsy : s.synced with
    | false => rfl
    | true => have := h4.1 hsy; simp [hpc, Committed] at this
  unfold failFrom; split <;> simp [PInv, Committed, hs]

theorem pinv_step (entry : Bytes) (s s' : St) (e : Ev) (h : PInv entry s) (hacc : accept entry s e = some s') : PInv entry s' := by
  obtain ⟨h1, h2, h3, h4, h5⟩ := h
  have nosync : ∀ {pc : PC}, s.pc = pc → Committed pc = false → s.synced = false := by
    intro pc hp hc
    cases hsy : s.synced with
    | false => rfl
    | true => have := h4.1 hsy; rw [hp, hc] at this; cases this
  cases e with
  | openAppend ok =>
    simp only [accept] at hacc; split at hacc
    · rename_i hp; cases hacc
      have hs := nosync hp (by simp [Committed])
      cases ok <;> simp [PInv, Committed, hs]
    · cases hacc
  | alarm n =>
    simp only [accept] at hacc; split at hacc
    · rename_i hp; cases hacc
      have hs := nosync hp.1 (by simp [Committed])
      simp [PInv, Committed, hs]
    · split at hacc
      · rename_i hp; cases hacc
        have hs := nosync hp.1 (by simp [Committed])
        simp [PInv, Committed, hs]
      · cases hacc
  | flock ok =>
    simp only [accept] at hacc; split at hacc
    · rename_i hp; cases hacc
      have hs := nosync hp (by simp [Committed])
      simp [PInv, Committed, hs]
    · cases hacc
  | seekEnd len =>
    simp only [accept] at hacc; split at hacc
    · rename_i hp; cases hacc
      have hs := nosync hp (by simp [Committed])
      simp [PInv, Committed, hs]
    · cases hacc
  | seekCur len =>
    simp only [accept] at hacc; split at hacc
    · rename_i hp; cases hacc
      have hs := nosync hp.1 (by simp [Committed])
      simp [PInv, Committed, hs]
    · cases hacc
  | read n =>
    simp only [accept] at hacc; split at hacc
    · rename_i hp; cases hacc
      have hs := nosync hp.1 (by simp [Committed])
      simp [PInv, Committed, hs, hp.1]
    · cases hacc
  | readErr intr =>
    simp only [accept] at hacc; split at hacc
    · rename_i hp
      cases intr with
      | true => simp at hacc; subst hacc; exact ⟨h1, h2, h3, h4, h5⟩
      | false => simp at hacc; subst hacc; exact failFrom_pinv entry s ⟨h1, h2, h3, h4, h5⟩ hp.1
    · cases hacc
  | write bs =>
    simp only [accept] at hacc; split at hacc
    · rename_i hp; cases hacc
      have hs := nosync hp.1 (by simp [Committed])
      simp [PInv, Committed, hs, hp.1]
    · cases hacc
  | writeErr intr =>
    simp only [accept] at hacc; split at hacc
    · rename_i hp
      cases intr with
      | true => simp at hacc; subst hacc; exact ⟨h1, h2, h3, h4, h5⟩
      | false => simp at hacc; subst hacc; exact failFrom_pinv entry s ⟨h1, h2, h3, h4, h5⟩ hp
    · cases hacc
  | fsync ok =>
    simp only [accept] at hacc; split at hacc
    · rename_i hp
      cases ok with
      | true => simp at hacc; subst hacc; simp [PInv, Committed, hp.2.2]
      | false => simp at hacc; subst hacc; exact failFrom_pinv entry s ⟨h1, h2, h3, h4, h5⟩ hp.1
    · cases hacc
  | ftrunc len ok =>
    simp only [accept] at hacc; split at hacc
    · rename_i hp; cases hacc
      have hs := nosync hp.1 (by simp [Committed])
      simp [PInv, Committed, hs]
    · cases hacc
  | close =>
    simp only [accept] at hacc; split at hacc
    · rename_i hp; cases hacc
      have hs : s.synced = true := h4.2 (by simp [hp, Committed])
      simp [PInv, Committed, hs]; exact h5 hs
    · split at hacc
      · rename_i hp; cases hacc
        have hs := nosync hp (by simp [Committed])
        simp [PInv, Committed, hs]
      · cases hacc
  | sigAlarm =>
    simp only [accept] at hacc; split at hacc
    · rename_i hp; cases hacc
      have hs : s.synced = false := by
        rcases hp with hp | hp
        · exact nosync hp (by simp [Committed])
        · exact nosync hp (by simp [Committed])
      simp [PInv, Committed, hs]
    · cases hacc
  | exit code =>
    simp only [accept] at hacc; split at hacc
    · rename_i hp
      split at hacc
      · rename_i hc; cases hacc
        have hs := nosync hp (by simp [Committed])
        have ho := h3 hp
        cases code with
        | zero => exact absurd rfl hc
        | succ k => simp [PInv, Committed, hs, ho]
      · cases hacc
    · rename_i hp
      split at hacc
      · rename_i hc; cases hacc; subst hc
        have hs : s.synced = true := h4.2 (by simp [hp, Committed])
        simp [PInv, Committed, hs]; exact h5 hs
      · cases hacc
    · rename_i c hp
      split at hacc
      · rename_i hc; cases hacc; subst hc
        have hc111 := h1 code hp
        subst hc111
        have hs := nosync hp (by simp [Committed])
        simp [PInv, Committed, hs]
      · cases hacc
    · cases hacc

theorem pinv_run (entry : Nat → Bytes) (tr : List (Nat × Ev)) : ∀ (y y' : Sys), (∀ j, PInv (entry j) (y.st j)) →
    sysRun entry y tr = some y' → ∀ j, PInv (entry j) (y'.st j) := by
  induction tr with
  | nil => intro y y' hinv h; simp [sysRun] at h; subst h; exact hinv
  | cons x xs ih =>
    intro y y' hinv h
    obtain ⟨i, e⟩ := x
    simp only [sysRun] at h
    cases hs : sysStep entry y i e with
    | none => simp [hs] at h
    | some y1 =>
      simp only [hs] at h
      obtain ⟨s', hacc, hst, _⟩ := sysStep_shape entry y y1 i e hs
      apply ih y1 y' _ h
      intro j
      rw [hst]
      by_cases hji : j = i
      · subst hji; rw [upd_same]; exact pinv_step (entry j) (y.st j) s' e (hinv j) hacc
      · rw [upd_other _ _ _ _ hji]; exact hinv j

/-! ### a failing read / write / fsync is final: the delivery can only end with 111

The acceptor takes ANY chunking of the entry into `write`s, so this covers every buffered writer (substdio's 1024-byte
`outbuf` in particular) at every entry length, including the lengths at which a put finds the buffer exactly full. -/

/-- the error events of the copy loop that are not retried: `read`/`write` failing with anything but EINTR, failing `fsync` -/
def hardError : Ev → Bool
  | .readErr false => true
  | .writeErr false => true
  | .fsync false => true
  | _ => false

/-- control points of the error path `writeerrs:` … `_exit(111)` -/
def Failed : PC → Bool
  | .rollback => true
  | .closeErr => true
  | .dying c => c == 111
  | .done c => c == 111
  | _ => false

theorem hard_fails (entry : Bytes) (s s' : St) (e : Ev) (h : accept entry s e = some s') (he : hardError e = true) :
    Failed s'.pc = true := by
  have hf : Failed (failFrom s).pc = true := by rw [failFrom_pc]; split <;> rfl
  cases e with
  | readErr intr =>
    cases intr with
    | true => simp [hardError] at he
    | false => simp only [accept] at h; split at h
               · simp at h; subst h; exact hf
               · cases h
  | writeErr intr =>
    cases intr with
    | true => simp [hardError] at he
    | false => simp only [accept] at h; split at h
               · simp at h; subst h; exact hf
               · cases h
  | fsync ok =>
    cases ok with
    | true => simp [hardError] at he
    | false => simp only [accept] at h; split at h
               · simp at h; subst h; exact hf
               · cases h
  | _ => simp [hardError] at he

theorem failed_step (entry : Bytes) (s s' : St) (e : Ev) (h : accept entry s e = some s') (hf : Failed s.pc = true) :
    Failed s'.pc = true := by
  cases hpc : s.pc <;> simp [Failed, hpc] at hf <;>
    (cases e <;> simp [accept, hpc] at h <;> (try (subst h; simp [Failed])) <;>
      (try (obtain ⟨h1, h2⟩ := h; subst h2; simp [Failed, h1, hf])))

theorem failed_run (entry : Nat → Bytes) (i : Nat) (tr : List (Nat × Ev)) : ∀ (y y' : Sys), Failed (y.st i).pc = true →
    sysRun entry y tr = some y' → Failed (y'.st i).pc = true := by
  induction tr with
  | nil => intro y y' hf h; simp [sysRun] at h; subst h; exact hf
  | cons x xs ih =>
    intro y y' hf h
    obtain ⟨j, e⟩ := x
    simp only [sysRun] at h
    cases hs : sysStep entry y j e with
    | none => simp [hs] at h
    | some y1 =>
      simp only [hs] at h
      obtain ⟨s', hacc, hst, _⟩ := sysStep_shape entry y y1 j e hs
      apply ih y1 y' _ h
      rw [hst]
      by_cases hji : i = j
      · subst hji; rw [upd_same]; exact failed_step (entry i) (y.st i) s' e hacc hf
      · rw [upd_other _ _ _ _ hji]; exact hf

theorem sysRun_append (entry : Nat → Bytes) (tr1 tr2 : List (Nat × Ev)) : ∀ (y y' : Sys),
    sysRun entry y (tr1 ++ tr2) = some y' → ∃ y1, sysRun entry y tr1 = some y1 ∧ sysRun entry y1 tr2 = some y' := by
  induction tr1 with
  | nil => intro y y' h; exact ⟨y, rfl, h⟩
  | cons x xs ih =>
    intro y y' h
    obtain ⟨j, e⟩ := x
    simp only [List.cons_append, sysRun] at h ⊢
    cases hs : sysStep entry y j e with
    | none => simp [hs] at h
    | some y1 => simp only [hs] at h ⊢; exact ih y1 y' h

/-- in any interleaving: once process `i` has seen a hard error, it is on the error path for good -/
theorem error_run (entry : Nat → Bytes) (tr1 tr2 : List (Nat × Ev)) (i : Nat) (e : Ev) (y0 y : Sys)
    (he : hardError e = true) (h : sysRun entry y0 (tr1 ++ (i, e) :: tr2) = some y) : Failed (y.st i).pc = true := by
  obtain ⟨y1, _, h2⟩ := sysRun_append entry tr1 _ y0 y h
  simp only [sysRun] at h2
  cases hs : sysStep entry y1 i e with
  | none => simp [hs] at h2
  | some y2 =>
    simp only [hs] at h2
    obtain ⟨s', hacc, hst, _⟩ := sysStep_shape entry y1 y2 i e hs
    apply failed_run entry i tr2 y2 y _ h2
    rw [hst, upd_same]
    exact hard_fails (entry i) (y1.st i) s' e hacc he

theorem failed_not_committed (pc : PC) (h : Failed pc = true) : Committed pc = false := by
  cases pc <;> simp [Failed] at h <;> (try subst h) <;> simp [Committed]

theorem failed_done (pc : PC) (h : Failed pc = true) (c : Nat) (hc : pc = .done c) : c = 111 := by
  subst hc; simpa [Failed] using h

end Nq.Lemmas.LD.Mb
