/-
  Lemmas relating the code's view of the priority queues (`SelPrep.dueTimes`: the roots `prioq_min` returns)
  to everything that is queued (`SelPrep.queuedDue`, Nq/Spec/SelQueued.lean), under the premise `HeapRoots`
  that every recorded root is a minimum of its queue.
-/
import Nq.Lemmas.SelPrep
import Nq.Spec.SelQueued

namespace Nq.SelPrep

theorem rootIsMin_iff (o : Option Int) (l : List Int) : rootIsMin o l = true ↔ RootIsMin o l := by
  cases o with
  | none =>
    unfold rootIsMin RootIsMin
    rw [List.isEmpty_iff]
    constructor
    · intro h; exact Or.inl ⟨rfl, h⟩
    · rintro (⟨_, h⟩ | ⟨m, hm, _⟩)
      · exact h
      · cases hm
  | some m =>
    simp only [rootIsMin, RootIsMin, Bool.and_eq_true, List.contains_iff_mem, List.all_eq_true, decide_eq_true_eq]
    constructor
    · rintro ⟨h1, h2⟩; exact Or.inr ⟨m, rfl, h1, h2⟩
    · rintro (⟨h, _⟩ | ⟨m', hm, h1, h2⟩)
      · cases h
      · cases hm; exact ⟨h1, h2⟩

theorem rootsOk_iff : ∀ (cs : List Chan) (ls : List (List Int)), rootsOk cs ls = true ↔ RootsOk cs ls
  | [], [] => by simp [rootsOk, RootsOk]
  | [], _ :: _ => by simp [rootsOk, RootsOk]
  | _ :: _, [] => by simp [rootsOk, RootsOk]
  | c :: cs, l :: ls => by
    simp only [rootsOk, RootsOk, Bool.and_eq_true, rootIsMin_iff, rootsOk_iff cs ls]

theorem heapRoots_iff (s : Snap) (q : Queued) : heapRoots s q = true ↔ HeapRoots s q := by
  simp only [heapRoots, HeapRoots, Bool.and_eq_true, rootIsMin_iff, rootsOk_iff, and_assoc]

/-- a root that is a minimum is itself queued -/
theorem root_mem {o : Option Int} {l : List Int} (h : RootIsMin o l) {m : Int} (hm : o = some m) : m ∈ l := by
  rcases h with ⟨h, _⟩ | ⟨m', h', hmem, _⟩
  · rw [h] at hm; cases hm
  · rw [h'] at hm; cases hm; exact hmem

/-- every queued entry is at or after the root -/
theorem root_le {o : Option Int} {l : List Int} (h : RootIsMin o l) {t : Int} (ht : t ∈ l) :
    ∃ m, o = some m ∧ m ≤ t := by
  rcases h with ⟨_, h⟩ | ⟨m, hm, _, hle⟩
  · rw [h] at ht; cases ht
  · exact ⟨m, hm, hle t ht⟩

/-- the roots of the channels without an open pass are queued entries -/
theorem chanRoots_sub : ∀ (cs : List Chan) (ls : List (List Int)), RootsOk cs ls → ∀ m,
    m ∈ cs.filterMap (fun c => if c.passOpen then none else c.pqMin) → m ∈ chanQueued cs ls
  | [], _, _, m, hm => by simp at hm
  | _ :: _, [], h, _, _ => by simp [RootsOk] at h
  | c :: cs, l :: ls, h, m, hm => by
    obtain ⟨h1, h2⟩ := h
    simp only [chanQueued, List.mem_append]
    rw [List.filterMap_cons] at hm
    cases hp : c.passOpen with
    | true =>
      simp only [hp, if_true] at hm
      exact Or.inr (chanRoots_sub cs ls h2 m hm)
    | false =>
      simp only [hp, Bool.false_eq_true, if_false] at hm ⊢
      cases hq : c.pqMin with
      | none => rw [hq] at hm; exact Or.inr (chanRoots_sub cs ls h2 m hm)
      | some x =>
        rw [hq] at hm
        rcases List.mem_cons.1 hm with rfl | hm'
        · exact Or.inl (root_mem h1 hq)
        · exact Or.inr (chanRoots_sub cs ls h2 m hm')

/-- every queued entry of a channel without an open pass is at or after that channel's root -/
theorem chanQueued_ge : ∀ (cs : List Chan) (ls : List (List Int)), RootsOk cs ls → ∀ t, t ∈ chanQueued cs ls →
    ∃ m, m ∈ cs.filterMap (fun c => if c.passOpen then none else c.pqMin) ∧ m ≤ t
  | [], _, _, t, ht => by simp [chanQueued] at ht
  | _ :: _, [], _, t, ht => by simp [chanQueued] at ht
  | c :: cs, l :: ls, h, t, ht => by
    obtain ⟨h1, h2⟩ := h
    simp only [chanQueued, List.mem_append] at ht
    rcases ht with ht | ht
    · cases hp : c.passOpen with
      | true => simp [hp] at ht
      | false =>
        simp only [hp, Bool.false_eq_true, if_false] at ht
        obtain ⟨m, hm, hle⟩ := root_le h1 ht
        refine ⟨m, ?_, hle⟩
        rw [List.filterMap_cons]
        simp only [hp, Bool.false_eq_true, if_false, hm]
        exact List.mem_cons_self
    · obtain ⟨m, hm, hle⟩ := chanQueued_ge cs ls h2 t ht
      refine ⟨m, ?_, hle⟩
      rw [List.filterMap_cons]
      split
      · exact hm
      · exact List.mem_cons_of_mem _ hm

/-- every due time the code computes with is a queued entry (or one of the two timers) -/
theorem dueTimes_sub_queued (s : Snap) (q : Queued) (h : HeapRoots s q) (m : Int) (hm : m ∈ dueTimes s) :
    m ∈ queuedDue s q := by
  obtain ⟨hc, hf, hd⟩ := h
  unfold dueTimes at hm
  unfold queuedDue
  cases he : s.exitasap with
  | true => simpa [he] using hm
  | false =>
    simp only [he, Bool.false_eq_true, if_false, List.mem_append, List.mem_singleton, mem_optList] at hm ⊢
    rcases hm with (((hm | hm) | hm) | hm) | hm
    · cases hj : jobAvail s with
      | false => simp [hj] at hm
      | true =>
        simp only [hj, if_true] at hm ⊢
        exact Or.inl (Or.inl (Or.inl (Or.inl (chanRoots_sub _ _ hc m hm))))
    · exact Or.inl (Or.inl (Or.inl (Or.inr (root_mem hf hm))))
    · exact Or.inl (Or.inl (Or.inr (root_mem hd hm)))
    · exact Or.inl (Or.inr hm)
    · exact Or.inr hm

/-- every queued entry the daemon can act on is at or after one of the due times the code computes with -/
theorem queued_ge_due (s : Snap) (q : Queued) (h : HeapRoots s q) (t : Int) (ht : t ∈ queuedDue s q) :
    ∃ m, m ∈ dueTimes s ∧ m ≤ t := by
  obtain ⟨hc, hf, hd⟩ := h
  unfold queuedDue at ht
  unfold dueTimes
  cases he : s.exitasap with
  | true =>
    simp only [he, if_true, List.nil_append, List.mem_singleton] at ht ⊢
    exact ⟨t, ht, Int.le_refl t⟩
  | false =>
    simp only [he, Bool.false_eq_true, if_false, List.mem_append, List.mem_singleton, mem_optList] at ht ⊢
    rcases ht with (((ht | ht) | ht) | ht) | ht
    · cases hj : jobAvail s with
      | false => simp [hj] at ht
      | true =>
        simp only [hj, if_true] at ht ⊢
        obtain ⟨m, hm, hle⟩ := chanQueued_ge _ _ hc t ht
        exact ⟨m, Or.inl (Or.inl (Or.inl (Or.inl hm))), hle⟩
    · obtain ⟨m, hm, hle⟩ := root_le hf ht
      exact ⟨m, Or.inl (Or.inl (Or.inl (Or.inr hm))), hle⟩
    · obtain ⟨m, hm, hle⟩ := root_le hd ht
      exact ⟨m, Or.inl (Or.inl (Or.inr hm)), hle⟩
    · exact ⟨t, Or.inl (Or.inr ht), Int.le_refl t⟩
    · exact ⟨t, Or.inr ht, Int.le_refl t⟩

end Nq.SelPrep
