/- The BYTE-level constant database: `cdbSeek`/`cdbGet` (cdb_seek.c: header pointer, slot walk with wrap-around,
   record header, chunked key comparison — all on 4-byte little-endian words read from the file) run on the bytes
   `cdbMake` writes (cdbmss.c / cdbmake_add.c: 2048-byte header, records from offset 2048, 256 tables of slots)
   returns the data of the first pair with that key, for every list whose file is smaller than 2^32 bytes.
   Core Lean only. -/
import Nq.Users
import Nq.Lemmas.UsersCdb

namespace Nq.Lemmas.Users
open Nq Nq.Users

/-! ## words -/

theorem pack_length (n : Nat) : (pack n).length = 4 := rfl

theorem le32_pack (n : Nat) :
    le32 (n % 256).toUInt8 (n / 256 % 256).toUInt8 (n / 65536 % 256).toUInt8 (n / 16777216 % 256).toUInt8 = n % 4294967296 := by
  simp only [le32, Nat.toUInt8, UInt8.toNat_ofNat']
  omega

/-! ## "the bytes `bs` are in the file at offset `p`" -/

def At (f : Bytes) (p : Nat) (bs : Bytes) : Prop := ∃ pre post, f = pre ++ (bs ++ post) ∧ pre.length = p

theorem At.here (bs post : Bytes) : At (bs ++ post) 0 bs := ⟨[], post, rfl, rfl⟩

theorem At.append_left {f : Bytes} {p : Nat} {bs : Bytes} (x : Bytes) (h : At f p bs) : At (x ++ f) (x.length + p) bs := by
  obtain ⟨pre, post, hf, hp⟩ := h
  exact ⟨x ++ pre, post, by rw [hf, List.append_assoc], by simp [hp]⟩

theorem At.append_right {f : Bytes} {p : Nat} {bs : Bytes} (y : Bytes) (h : At f p bs) : At (f ++ y) p bs := by
  obtain ⟨pre, post, hf, hp⟩ := h
  exact ⟨pre, post ++ y, by rw [hf]; simp [List.append_assoc], hp⟩

theorem At.sub_left {f : Bytes} {p : Nat} {a b : Bytes} (h : At f p (a ++ b)) : At f p a := by
  obtain ⟨pre, post, hf, hp⟩ := h
  exact ⟨pre, b ++ post, by rw [hf]; simp [List.append_assoc], hp⟩

theorem At.sub_right {f : Bytes} {p : Nat} {a b : Bytes} (h : At f p (a ++ b)) : At f (p + a.length) b := by
  obtain ⟨pre, post, hf, hp⟩ := h
  exact ⟨pre ++ a, post, by rw [hf]; simp [List.append_assoc], by simp [hp]⟩

theorem At.drop {f : Bytes} {p : Nat} {bs : Bytes} (h : At f p bs) : ∃ post, f.drop p = bs ++ post := by
  obtain ⟨pre, post, hf, hp⟩ := h
  exact ⟨post, by rw [hf, List.drop_left' hp]⟩

theorem At.le {f : Bytes} {p : Nat} {bs : Bytes} (h : At f p bs) : p + bs.length ≤ f.length := by
  obtain ⟨pre, post, hf, hp⟩ := h
  rw [hf]; simp; omega

theorem At.take {f : Bytes} {p : Nat} {bs : Bytes} (h : At f p bs) : (f.drop p).take bs.length = bs := by
  obtain ⟨post, hd⟩ := h.drop
  rw [hd, List.take_left' rfl]

/-- a pair of words in the file is what `lseek` + `cdb_bread(8)` + two `cdb_unpack` return -/
theorem read8_at {f : Bytes} {p a b : Nat} (h : At f p (pack a ++ pack b)) :
    read8 f p = some (a % 4294967296, b % 4294967296) := by
  obtain ⟨post, hd⟩ := h.drop
  unfold read8
  rw [hd]
  simp only [pack, List.cons_append, List.nil_append, le32_pack]

/-! ## layout of the file `cdbMake` writes -/

theorem recBytes_length (e : Ent) : (recBytes e).length = 8 + e.key.length + e.data.length := by
  simp [recBytes, pack_length]; omega

/-- every record is in the record area at its remembered position -/
theorem mkEnts_at : ∀ (es : List (Bytes × Bytes)) (pos : Nat) (e : Ent), e ∈ mkEnts es pos →
    pos ≤ e.pos ∧ At ((mkEnts es pos).flatMap recBytes) (e.pos - pos) (recBytes e)
  | [], _, e, he => by simp [mkEnts] at he
  | (k, d) :: r, pos, e, he => by
    simp only [mkEnts, List.mem_cons] at he
    simp only [mkEnts, List.flatMap_cons]
    rcases he with rfl | he
    · simp only [Nat.le_refl, Nat.sub_self, true_and]
      exact At.here _ _
    · obtain ⟨h1, h2⟩ := mkEnts_at r _ e he
      refine ⟨by omega, ?_⟩
      have := At.append_left (recBytes ⟨hashKey k, pos, k, d⟩) h2
      rw [recBytes_length] at this
      simp only at this
      have heq : 8 + k.length + d.length + (e.pos - (pos + 8 + k.length + d.length)) = e.pos - pos := by omega
      rw [heq] at this
      exact this

theorem slotBytes_length (s : Option Ent) : (slotBytes s).length = 8 := by
  cases s <;> rfl

theorem flatMap_slotBytes_length : ∀ t : Tbl, (t.flatMap slotBytes).length = 8 * t.length
  | [] => rfl
  | s :: t => by
    simp only [List.flatMap_cons, List.length_append, slotBytes_length, flatMap_slotBytes_length t, List.length_cons]
    omega

theorem finishFrom_succ (ents : List Ent) (n b pos : Nat) :
    finishFrom ents (n + 1) b pos =
      (pack pos ++ pack (tableOf ents b).length ++ (finishFrom ents n (b + 1) (pos + 8 * (tableOf ents b).length)).1,
       (tableOf ents b).flatMap slotBytes ++ (finishFrom ents n (b + 1) (pos + 8 * (tableOf ents b).length)).2) := rfl

theorem finishFrom_hd_length (ents : List Ent) : ∀ (n b pos : Nat), (finishFrom ents n b pos).1.length = 8 * n
  | 0, _, _ => rfl
  | n + 1, b, pos => by
    rw [finishFrom_succ]
    simp only [List.length_append, pack_length, finishFrom_hd_length ents n]
    omega

/-- header entry `j` points at table `b + j`, which is in the table area at that position -/
theorem finishFrom_at (ents : List Ent) : ∀ (n b pos j : Nat), j < n →
    ∃ p, pos ≤ p ∧
      At (finishFrom ents n b pos).1 (8 * j) (pack p ++ pack (tableOf ents (b + j)).length) ∧
      At (finishFrom ents n b pos).2 (p - pos) ((tableOf ents (b + j)).flatMap slotBytes)
  | 0, _, _, _, h => by omega
  | n + 1, b, pos, 0, _ => by
    refine ⟨pos, Nat.le_refl _, ?_, ?_⟩
    · rw [finishFrom_succ]; exact At.here _ _
    · rw [finishFrom_succ, Nat.sub_self]; exact At.here _ _
  | n + 1, b, pos, j + 1, h => by
    obtain ⟨p, hp, h1, h2⟩ := finishFrom_at ents n (b + 1) (pos + 8 * (tableOf ents b).length) j (by omega)
    refine ⟨p, by omega, ?_, ?_⟩
    · rw [finishFrom_succ]
      have := At.append_left (pack pos ++ pack (tableOf ents b).length) h1
      simp only [List.length_append, pack_length] at this
      have e1 : 4 + 4 + 8 * j = 8 * (j + 1) := by omega
      have e2 : b + 1 + j = b + (j + 1) := by omega
      rw [e1, e2] at this
      exact this
    · rw [finishFrom_succ]
      have := At.append_left ((tableOf ents b).flatMap slotBytes) h2
      rw [flatMap_slotBytes_length] at this
      have e1 : 8 * (tableOf ents b).length + (p - (pos + 8 * (tableOf ents b).length)) = p - pos := by omega
      have e2 : b + 1 + j = b + (j + 1) := by omega
      rw [e1, e2] at this
      exact this

theorem cdbMake_eq (es : List (Bytes × Bytes)) :
    cdbMake es =
      (finishFrom (mkEnts es 2048) 256 0 (2048 + ((mkEnts es 2048).flatMap recBytes).length)).1 ++
      (mkEnts es 2048).flatMap recBytes ++
      (finishFrom (mkEnts es 2048) 256 0 (2048 + ((mkEnts es 2048).flatMap recBytes).length)).2 := by
  unfold cdbMake
  dsimp only

/-- the header entry of bucket `j`, the table it points to, in the whole file -/
theorem cdbMake_table_at (es : List (Bytes × Bytes)) (j : Nat) (hj : j < 256) :
    ∃ p, At (cdbMake es) (8 * j) (pack p ++ pack (tableOf (mkEnts es 2048) j).length) ∧
         At (cdbMake es) p ((tableOf (mkEnts es 2048) j).flatMap slotBytes) := by
  obtain ⟨p, hp, h1, h2⟩ := finishFrom_at (mkEnts es 2048) 256 0
    (2048 + ((mkEnts es 2048).flatMap recBytes).length) j hj
  rw [Nat.zero_add] at h1 h2
  refine ⟨p, ?_, ?_⟩
  · rw [cdbMake_eq, List.append_assoc]
    exact At.append_right _ h1
  · rw [cdbMake_eq]
    have := At.append_left ((finishFrom (mkEnts es 2048) 256 0 (2048 + ((mkEnts es 2048).flatMap recBytes).length)).1 ++
      (mkEnts es 2048).flatMap recBytes) h2
    rw [List.length_append, finishFrom_hd_length] at this
    have e : 8 * 256 + ((mkEnts es 2048).flatMap recBytes).length +
        (p - (2048 + ((mkEnts es 2048).flatMap recBytes).length)) = p := by omega
    rw [e] at this
    exact this

/-- every record, in the whole file -/
theorem cdbMake_rec_at (es : List (Bytes × Bytes)) (e : Ent) (he : e ∈ mkEnts es 2048) :
    2048 ≤ e.pos ∧ At (cdbMake es) e.pos (recBytes e) := by
  obtain ⟨h1, h2⟩ := mkEnts_at es 2048 e he
  refine ⟨h1, ?_⟩
  rw [cdbMake_eq]
  apply At.append_right
  have := At.append_left (finishFrom (mkEnts es 2048) 256 0 (2048 + ((mkEnts es 2048).flatMap recBytes).length)).1 h2
  rw [finishFrom_hd_length] at this
  have e' : 8 * 256 + (e.pos - 2048) = e.pos := by omega
  rw [e'] at this
  exact this

end Nq.Lemmas.Users
