/- The BYTE-level constant database: `cdbSeek`/`cdbGet` (cdb_seek.c: header pointer, slot walk with wrap-around,
   record header, chunked key comparison — all on 4-byte little-endian words read from the file) run on the bytes
   `cdbMake` writes (cdbmss.c / cdbmake_add.c: 2048-byte header, records from offset 2048, 256 tables of slots)
   returns the data of the first pair with that key, for every list whose file is smaller than 2^32 bytes.
   Core Lean only. -/
import Nq.Users
import Nq.Lemmas.UsersCdb

namespace Nq.Lemmas.Users
open Nq Nq.Users

/-! ## words -/

theorem pack_length (n : Nat) : (pack n).length = 4 := rfl

theorem le32_pack (n : Nat) :
    le32 (n % 256).toUInt8 (n / 256 % 256).toUInt8 (n / 65536 % 256).toUInt8 (n / 16777216 % 256).toUInt8 = n % 4294967296 := by
  simp only [le32, Nat.toUInt8, UInt8.toNat_ofNat']
  omega

/-! ## "the bytes `bs` are in the file at offset `p`" -/

def At (f : Bytes) (p : Nat) (bs : Bytes) : Prop := ∃ pre post, f = pre ++ (bs ++ post) ∧ pre.length = p

theorem At.here (bs post : Bytes) : At (bs ++ post) 0 bs := ⟨[], post, rfl, rfl⟩

theorem At.append_left {f : Bytes} {p : Nat} {bs : Bytes} (x : Bytes) (h : At f p bs) : At (x ++ f) (x.length + p) bs := by
  obtain ⟨pre, post, hf, hp⟩ := h
  exact ⟨x ++ pre, post, by rw [hf, List.append_assoc], by simp [hp]⟩

theorem At.append_right {f : Bytes} {p : Nat} {bs : Bytes} (y : Bytes) (h : At f p bs) : At (f ++ y) p bs := by
  obtain ⟨pre, post, hf, hp⟩ := h
  exact ⟨pre, post ++ y, by rw [hf]; simp [List.append_assoc], hp⟩

theorem At.sub_left {f : Bytes} {p : Nat} {a b : Bytes} (h : At f p (a ++ b)) : At f p a := by
  obtain ⟨pre, post, hf, hp⟩ := h
  exact ⟨pre, b ++ post, by rw [hf]; simp [List.append_assoc], hp⟩

theorem At.sub_right {f : Bytes} {p : Nat} {a b : Bytes} (h : At f p (a ++ b)) : At f (p + a.length) b := by
  obtain ⟨pre, post, hf, hp⟩ := h
  exact ⟨pre ++ a, post, by rw [hf]; simp [List.append_assoc], by simp [hp]⟩

theorem At.drop {f : Bytes} {p : Nat} {bs : Bytes} (h : At f p bs) : ∃ post, f.drop p = bs ++ post := by
  obtain ⟨pre, post, hf, hp⟩ := h
  exact ⟨post, by rw [hf, List.drop_left' hp]⟩

theorem At.le {f : Bytes} {p : Nat} {bs : Bytes} (h : At f p bs) : p + bs.length ≤ f.length := by
  obtain ⟨pre, post, hf, hp⟩ := h
  rw [hf]; simp; omega

theorem At.take {f : Bytes} {p : Nat} {bs : Bytes} (h : At f p bs) : (f.drop p).take bs.length = bs := by
  obtain ⟨post, hd⟩ := h.drop
  rw [hd, List.take_left' rfl]

/-- a pair of words in the file is what `lseek` + `cdb_bread(8)` + two `cdb_unpack` return -/
theorem read8_at {f : Bytes} {p a b : Nat} (h : At f p (pack a ++ pack b)) :
    read8 f p = some (a % 4294967296, b % 4294967296) := by
  obtain ⟨post, hd⟩ := h.drop
  unfold read8
  rw [hd]
  simp only [pack, List.cons_append, List.nil_append, le32_pack]

/-! ## layout of the file `cdbMake` writes -/

theorem recBytes_length (e : Ent) : (recBytes e).length = 8 + e.key.length + e.data.length := by
  simp [recBytes, pack_length]; omega

/-- every record is in the record area at its remembered position -/
theorem mkEnts_at : ∀ (es : List (Bytes × Bytes)) (pos : Nat) (e : Ent), e ∈ mkEnts es pos →
    pos ≤ e.pos ∧ At ((mkEnts es pos).flatMap recBytes) (e.pos - pos) (recBytes e)
  | [], _, e, he => by simp [mkEnts] at he
  | (k, d) :: r, pos, e, he => by
    simp only [mkEnts, List.mem_cons] at he
    simp only [mkEnts, List.flatMap_cons]
    rcases he with rfl | he
    · simp only [Nat.le_refl, Nat.sub_self, true_and]
      exact At.here _ _
    · obtain ⟨h1, h2⟩ := mkEnts_at r _ e he
      refine ⟨by omega, ?_⟩
      have := At.append_left (recBytes ⟨hashKey k, pos, k, d⟩) h2
      rw [recBytes_length] at this
      simp only at this
      have heq : 8 + k.length + d.length + (e.pos - (pos + 8 + k.length + d.length)) = e.pos - pos := by omega
      rw [heq] at this
      exact this

theorem slotBytes_length (s : Option Ent) : (slotBytes s).length = 8 := by
  cases s <;> rfl

theorem flatMap_slotBytes_length : ∀ t : Tbl, (t.flatMap slotBytes).length = 8 * t.length
  | [] => rfl
  | s :: t => by
    simp only [List.flatMap_cons, List.length_append, slotBytes_length, flatMap_slotBytes_length t, List.length_cons]
    omega

theorem finishFrom_succ (ents : List Ent) (n b pos : Nat) :
    finishFrom ents (n + 1) b pos =
      (pack pos ++ pack (tableOf ents b).length ++ (finishFrom ents n (b + 1) (pos + 8 * (tableOf ents b).length)).1,
       (tableOf ents b).flatMap slotBytes ++ (finishFrom ents n (b + 1) (pos + 8 * (tableOf ents b).length)).2) := rfl

theorem finishFrom_hd_length (ents : List Ent) : ∀ (n b pos : Nat), (finishFrom ents n b pos).1.length = 8 * n
  | 0, _, _ => rfl
  | n + 1, b, pos => by
    rw [finishFrom_succ]
    simp only [List.length_append, pack_length, finishFrom_hd_length ents n]
    omega

/-- header entry `j` points at table `b + j`, which is in the table area at that position -/
theorem finishFrom_at (ents : List Ent) : ∀ (n b pos j : Nat), j < n →
    ∃ p, pos ≤ p ∧
      At (finishFrom ents n b pos).1 (8 * j) (pack p ++ pack (tableOf ents (b + j)).length) ∧
      At (finishFrom ents n b pos).2 (p - pos) ((tableOf ents (b + j)).flatMap slotBytes)
  | 0, _, _, _, h => by omega
  | n + 1, b, pos, 0, _ => by
    refine ⟨pos, Nat.le_refl _, ?_, ?_⟩
    · rw [finishFrom_succ]; exact At.here _ _
    · rw [finishFrom_succ, Nat.sub_self]; exact At.here _ _
  | n + 1, b, pos, j + 1, h => by
    obtain ⟨p, hp, h1, h2⟩ := finishFrom_at ents n (b + 1) (pos + 8 * (tableOf ents b).length) j (by omega)
    refine ⟨p, by omega, ?_, ?_⟩
    · rw [finishFrom_succ]
      have := At.append_left (pack pos ++ pack (tableOf ents b).length) h1
      simp only [List.length_append, pack_length] at this
      have e1 : 4 + 4 + 8 * j = 8 * (j + 1) := by omega
      have e2 : b + 1 + j = b + (j + 1) := by omega
      rw [e1, e2] at this
      exact this
    · rw [finishFrom_succ]
      have := At.append_left ((tableOf ents b).flatMap slotBytes) h2
      rw [flatMap_slotBytes_length] at this
      have e1 : 8 * (tableOf ents b).length + (p - (pos + 8 * (tableOf ents b).length)) = p - pos := by omega
      have e2 : b + 1 + j = b + (j + 1) := by omega
      rw [e1, e2] at this
      exact this

theorem cdbMake_eq (es : List (Bytes × Bytes)) :
    cdbMake es =
      (finishFrom (mkEnts es 2048) 256 0 (2048 + ((mkEnts es 2048).flatMap recBytes).length)).1 ++
      (mkEnts es 2048).flatMap recBytes ++
      (finishFrom (mkEnts es 2048) 256 0 (2048 + ((mkEnts es 2048).flatMap recBytes).length)).2 := by
  unfold cdbMake
  dsimp only

/-- the header entry of bucket `j`, the table it points to, in the whole file -/
theorem cdbMake_table_at (es : List (Bytes × Bytes)) (j : Nat) (hj : j < 256) :
    ∃ p, At (cdbMake es) (8 * j) (pack p ++ pack (tableOf (mkEnts es 2048) j).length) ∧
         At (cdbMake es) p ((tableOf (mkEnts es 2048) j).flatMap slotBytes) := by
  obtain ⟨p, hp, h1, h2⟩ := finishFrom_at (mkEnts es 2048) 256 0
    (2048 + ((mkEnts es 2048).flatMap recBytes).length) j hj
  rw [Nat.zero_add] at h1 h2
  refine ⟨p, ?_, ?_⟩
  · rw [cdbMake_eq, List.append_assoc]
    exact At.append_right _ h1
  · rw [cdbMake_eq]
    have := At.append_left ((finishFrom (mkEnts es 2048) 256 0 (2048 + ((mkEnts es 2048).flatMap recBytes).length)).1 ++
      (mkEnts es 2048).flatMap recBytes) h2
    rw [List.length_append, finishFrom_hd_length] at this
    have e : 8 * 256 + ((mkEnts es 2048).flatMap recBytes).length +
        (p - (2048 + ((mkEnts es 2048).flatMap recBytes).length)) = p := by omega
    rw [e] at this
    exact this

/-- every record, in the whole file -/
theorem cdbMake_rec_at (es : List (Bytes × Bytes)) (e : Ent) (he : e ∈ mkEnts es 2048) :
    2048 ≤ e.pos ∧ At (cdbMake es) e.pos (recBytes e) := by
  obtain ⟨h1, h2⟩ := mkEnts_at es 2048 e he
  refine ⟨h1, ?_⟩
  rw [cdbMake_eq]
  apply At.append_right
  have := At.append_left (finishFrom (mkEnts es 2048) 256 0 (2048 + ((mkEnts es 2048).flatMap recBytes).length)).1 h2
  rw [finishFrom_hd_length] at this
  have e' : 8 * 256 + (e.pos - 2048) = e.pos := by omega
  rw [e'] at this
  exact this

/-! ## the reader on a table that is laid out in the file -/

/-- `scan` returning the record instead of its data -/
def scanE (k : Bytes) (h : UInt32) : Tbl → Option Ent
  | [] => none
  | none :: _ => none
  | some e :: r => if e.h = h ∧ e.key = k then some e else scanE k h r

theorem scan_eq_scanE (k : Bytes) (h : UInt32) : ∀ t : Tbl, scan k h t = (scanE k h t).map (·.data)
  | [] => rfl
  | none :: _ => rfl
  | some e :: r => by
    simp only [scan, scanE]
    split
    · rfl
    · exact scan_eq_scanE k h r

theorem scanE_some (k : Bytes) (h : UInt32) (e : Ent) : ∀ t : Tbl, scanE k h t = some e → e.key = k ∧ some e ∈ t
  | [], hs => by simp [scanE] at hs
  | none :: _, hs => by simp [scanE] at hs
  | some x :: r, hs => by
    simp only [scanE] at hs
    split at hs
    · rename_i hc
      simp only [Option.some.injEq] at hs
      subst hs
      exact ⟨hc.2, by simp⟩
    · obtain ⟨h1, h2⟩ := scanE_some k h e r hs
      exact ⟨h1, by simp [h2]⟩

/-- table `t` is serialised in `f` at offset `p`, every record it points to is in `f` at its position, and all
    offsets fit in 32 bits -/
structure TblAt (f : Bytes) (p : Nat) (t : Tbl) : Prop where
  slots : At f p (t.flatMap slotBytes)
  recs : ∀ e, some e ∈ t → 2048 ≤ e.pos ∧ At f e.pos (recBytes e)
  small : f.length < 4294967296

theorem slot_at {f : Bytes} {p : Nat} {t : Tbl} (h : At f p (t.flatMap slotBytes)) (i : Nat) (hi : i < t.length) :
    At f (p + 8 * i) (slotBytes t[i]) := by
  have ht : t.flatMap slotBytes =
      (t.take i).flatMap slotBytes ++ (slotBytes t[i] ++ (t.drop (i + 1)).flatMap slotBytes) := by
    calc t.flatMap slotBytes = (t.take i ++ t.drop i).flatMap slotBytes := by rw [List.take_append_drop]
      _ = _ := by rw [List.drop_eq_getElem_cons hi, List.flatMap_append, List.flatMap_cons]
  rw [ht] at h
  have := h.sub_right.sub_left
  rw [flatMap_slotBytes_length, List.length_take, Nat.min_eq_left (Nat.le_of_lt hi)] at this
  exact this

theorem slot_read_none {f : Bytes} {p : Nat} {t : Tbl} (hT : TblAt f p t) (i : Nat) (hi : i < t.length)
    (hx : t[i] = none) : read8 f ((p + 8 * i) % 4294967296) = some (0, 0) := by
  have hat := slot_at hT.slots i hi
  have hle := hat.le
  rw [slotBytes_length] at hle
  have hs := hT.small
  rw [Nat.mod_eq_of_lt (by omega)]
  rw [hx] at hat
  exact read8_at hat

theorem rec_read {f : Bytes} {p : Nat} {t : Tbl} (hT : TblAt f p t) (e : Ent) (he : some e ∈ t) :
    read8 f e.pos = some (e.key.length, e.data.length) ∧ At f (e.pos + 8) e.key ∧
    At f (e.pos + 8 + e.key.length) e.data ∧ e.pos ≠ 0 ∧ e.pos < 4294967296 := by
  obtain ⟨h1, h2⟩ := hT.recs e he
  have hle := h2.le
  rw [recBytes_length] at hle
  have hs := hT.small
  unfold recBytes at h2
  refine ⟨?_, ?_, ?_, by omega, by omega⟩
  · rw [read8_at h2.sub_left.sub_left, Nat.mod_eq_of_lt (by omega), Nat.mod_eq_of_lt (by omega)]
  · have := h2.sub_left.sub_right
    simpa [pack_length] using this
  · have := h2.sub_right
    simp only [List.length_append, pack_length] at this
    have e' : e.pos + (4 + 4 + e.key.length) = e.pos + 8 + e.key.length := by omega
    rw [e'] at this
    exact this

theorem slot_read_some {f : Bytes} {p : Nat} {t : Tbl} (hT : TblAt f p t) (i : Nat) (hi : i < t.length) (e : Ent)
    (hx : t[i] = some e) : read8 f ((p + 8 * i) % 4294967296) = some (e.h.toNat, e.pos) := by
  have hat := slot_at hT.slots i hi
  have hle := hat.le
  rw [slotBytes_length] at hle
  have hs := hT.small
  rw [Nat.mod_eq_of_lt (by omega)]
  rw [hx] at hat
  have hmem : some e ∈ t := by rw [← hx]; exact List.getElem_mem hi
  obtain ⟨_, _, _, _, hp⟩ := rec_read hT e hmem
  have hh : e.h.toNat < 4294967296 := e.h.toNat_lt
  rw [read8_at hat, Nat.mod_eq_of_lt hh, Nat.mod_eq_of_lt hp]

/-- `match()`: comparing the key with the `key.length` bytes of the file at `off`, in chunks of 32 -/
theorem matchAt_spec (f : Bytes) : ∀ (fuel off : Nat) (key key' : Bytes), At f off key' → key'.length = key.length →
    key.length < fuel → matchAt f fuel off key = if key' = key then .yes else .no
  | 0, _, _, _, _, _, h => by omega
  | fuel + 1, off, key, key', hat, hlen, hfuel => by
    rw [matchAt]
    by_cases hk : key.isEmpty = true
    · have hk' : key = [] := List.isEmpty_iff.mp hk
      subst hk'
      have : key' = [] := List.length_eq_zero_iff.mp (by simpa using hlen)
      simp [this]
    · rw [if_neg hk]
      have hne : key ≠ [] := fun e => hk (by rw [e]; rfl)
      have hpos : 0 < key.length := List.length_pos_iff.mpr hne
      obtain ⟨post, hd⟩ := hat.drop
      have hn : min 32 key.length ≤ key'.length := by omega
      have hc : (f.drop off).take (min 32 key.length) = key'.take (min 32 key.length) := by
        rw [hd, List.take_append_of_le_length hn]
      simp only [hc]
      have hcl : (key'.take (min 32 key.length)).length = min 32 key.length := by
        rw [List.length_take]; omega
      rw [if_pos hcl]
      have hat2 : At f (off + min 32 key.length) (key'.drop (min 32 key.length)) := by
        have h2 := hat
        rw [← List.take_append_drop (min 32 key.length) key'] at h2
        have := h2.sub_right
        rw [hcl] at this
        exact this
      by_cases he : key'.take (min 32 key.length) = key.take (min 32 key.length)
      · have : (key'.take (min 32 key.length) == key.take (min 32 key.length)) = true := by simp [he]
        rw [if_pos this]
        rw [matchAt_spec f fuel _ (key.drop (min 32 key.length)) (key'.drop (min 32 key.length)) hat2
          (by simp [hlen]) (by simp only [List.length_drop]; omega)]
        by_cases hkk : key' = key
        · simp [hkk]
        · have : key'.drop (min 32 key.length) ≠ key.drop (min 32 key.length) := by
            intro hdrop
            apply hkk
            calc key' = key'.take (min 32 key.length) ++ key'.drop (min 32 key.length) := (List.take_append_drop _ _).symm
              _ = key.take (min 32 key.length) ++ key.drop (min 32 key.length) := by rw [he, hdrop]
              _ = key := List.take_append_drop _ _
          simp [hkk, this]
      · have : (key'.take (min 32 key.length) == key.take (min 32 key.length)) = false := by simp [he]
        rw [this]
        have hkk : key' ≠ key := fun e => he (by rw [e])
        simp [hkk]

/-! ## probe order -/

theorem rot_next {α} (t : List α) (s : Nat) (hs : s < t.length) :
    rot t s = t[s] :: (t.drop (s + 1) ++ t.take s) ∧
    rot t (if s + 1 = t.length then 0 else s + 1) = (t.drop (s + 1) ++ t.take s) ++ [t[s]] := by
  constructor
  · unfold rot
    rw [List.drop_eq_getElem_cons hs]; rfl
  · by_cases h : s + 1 = t.length
    · rw [if_pos h]
      unfold rot
      rw [List.drop_of_length_le (Nat.le_of_eq h.symm), List.nil_append, ← List.take_succ_eq_append_getElem hs,
        List.take_of_length_le (Nat.le_of_eq h.symm)]
      simp
    · rw [if_neg h]
      unfold rot
      rw [List.take_succ_eq_append_getElem hs, List.append_assoc]

/-- cdb_seek's slot walk on the bytes = `scanE` on the structured table, in probe order -/
theorem probe_scan (f k : Bytes) (h : UInt32) (p : Nat) (t : Tbl) (hT : TblAt f p t) :
    ∀ (fuel h2 : Nat), h2 < t.length → fuel ≤ t.length →
      probe f k h.toNat p t.length fuel h2 =
        match scanE k h ((rot t h2).take fuel) with
        | some e => .found (e.pos + 8 + k.length) e.data.length
        | none => .notFound
  | 0, _, _, _ => by simp [probe, scanE]
  | fuel + 1, h2, hh2, hfuel => by
    obtain ⟨hr1, hr2⟩ := rot_next t h2 hh2
    have ih := probe_scan f k h p t hT fuel (if h2 + 1 = t.length then 0 else h2 + 1)
      (by split <;> omega) (by omega)
    rw [hr2] at ih
    have hrl : (t.drop (h2 + 1) ++ t.take h2).length = t.length - 1 := by
      simp only [List.length_append, List.length_drop, List.length_take]; omega
    rw [List.take_append_of_le_length (by omega)] at ih
    rw [hr1, List.take_succ_cons]
    rw [probe]
    cases hx : t[h2] with
    | none =>
      rw [slot_read_none hT h2 hh2 hx]
      simp [scanE]
    | some e =>
      rw [slot_read_some hT h2 hh2 e hx]
      have hmem : some e ∈ t := by rw [← hx]; exact List.getElem_mem hh2
      obtain ⟨hrd, hkey, _, hp0, _⟩ := rec_read hT e hmem
      simp only [hp0, if_false]
      by_cases hh : e.h = h
      · have : e.h.toNat = h.toNat := by rw [hh]
        rw [if_pos this, hrd]
        simp only []
        by_cases hkl : e.key.length = k.length
        · rw [if_pos hkl, matchAt_spec f _ _ k e.key hkey hkl (Nat.lt_succ_self _)]
          by_cases hk : e.key = k
          · simp [scanE, hh, hk]
          · simp only [hk, if_false, scanE, and_false]
            exact ih
        · rw [if_neg hkl]
          have hk : e.key ≠ k := fun e' => hkl (by rw [e'])
          simp only [scanE, hk, and_false, if_false]
          exact ih
      · have : e.h.toNat ≠ h.toNat := fun e' => hh (UInt32.toNat_inj.mp e')
        rw [if_neg this]
        simp only [scanE, hh, false_and, if_false]
        exact ih

/-! ## the whole file -/

theorem buildTable_mem (l : List Ent) (hh : ∀ e ∈ l, e.h = hashKey e.key) (x : Ent) (hx : some x ∈ buildTable l) :
    x ∈ l := by
  have := inv_foldl [] (2 * l.length) l [] _ (inv_init [] (2 * l.length)) (by simp; omega) hh
  simp only [List.nil_append] at this
  exact this.hmem x hx

/-- in a file below 4 GiB every one of the 256 tables is laid out as `TblAt` requires -/
theorem cdbMake_tblAt (es : List (Bytes × Bytes)) (hsz : (cdbMake es).length < 4294967296) (j : Nat) (hj : j < 256) :
    ∃ p, At (cdbMake es) (8 * j) (pack p ++ pack (tableOf (mkEnts es 2048) j).length) ∧
         TblAt (cdbMake es) p (tableOf (mkEnts es 2048) j) := by
  obtain ⟨p, h1, h2⟩ := cdbMake_table_at es j hj
  refine ⟨p, h1, h2, ?_, hsz⟩
  intro e he
  apply cdbMake_rec_at
  have hh := mkEnts_hash es 2048
  have := buildTable_mem _ (fun e he => hh e (List.mem_filter.mp he).1) e he
  exact (List.mem_filter.mp this).1

/-- the structured lookup, returning the record -/
def findEntE (ents : List Ent) (k : Bytes) : Option Ent :=
  let h := hashKey k
  let t := tableOf ents (bucket h)
  if t.length = 0 then none else scanE k h (rot t (home h t.length))

theorem findEnts_eq_findEntE (ents : List Ent) (k : Bytes) : findEnts ents k = (findEntE ents k).map (·.data) := by
  unfold findEnts findEntE
  dsimp only
  split
  · rfl
  · exact scan_eq_scanE _ _ _

/-- cdb_seek on the bytes written by cdbmake = the structured lookup -/
theorem cdbSeek_cdbMake (es : List (Bytes × Bytes)) (k : Bytes) (hsz : (cdbMake es).length < 4294967296) :
    cdbSeek (cdbMake es) k =
      match findEntE (mkEnts es 2048) k with
      | some e => .found (e.pos + 8 + k.length) e.data.length
      | none => .notFound := by
  obtain ⟨p, hhd, hT⟩ := cdbMake_tblAt es hsz (bucket (hashKey k)) (Nat.mod_lt _ (by omega))
  have hle := hT.slots.le
  rw [flatMap_slotBytes_length] at hle
  unfold cdbSeek findEntE
  dsimp only
  have hb : (hashKey k).toNat % 256 = bucket (hashKey k) := rfl
  rw [hb, read8_at hhd, Nat.mod_eq_of_lt (by omega), Nat.mod_eq_of_lt (by omega)]
  dsimp only
  by_cases h0 : (tableOf (mkEnts es 2048) (bucket (hashKey k))).length = 0
  · rw [if_pos h0, if_pos h0]
  · rw [if_neg h0, if_neg h0]
    have hhome : (hashKey k).toNat / 256 % (tableOf (mkEnts es 2048) (bucket (hashKey k))).length =
        home (hashKey k) (tableOf (mkEnts es 2048) (bucket (hashKey k))).length := rfl
    rw [hhome, probe_scan (cdbMake es) k (hashKey k) p _ hT _ _ (home_lt _ (Nat.pos_of_ne_zero h0)) (Nat.le_refl _),
      List.take_of_length_le (Nat.le_of_eq (length_rot _ _))]

/-- cdb_seek + cdb_bread of the data on the bytes written by cdbmake = the structured lookup -/
theorem cdbGet_cdbMake (es : List (Bytes × Bytes)) (k : Bytes) (hsz : (cdbMake es).length < 4294967296) :
    cdbGet (cdbMake es) k =
      match findStruct es k with
      | some d => .found d
      | none => .notFound := by
  unfold cdbGet findStruct
  rw [cdbSeek_cdbMake es k hsz, findEnts_eq_findEntE]
  cases hfe : findEntE (mkEnts es 2048) k with
  | none => rfl
  | some e =>
    dsimp only [Option.map]
    obtain ⟨p, _, hT⟩ := cdbMake_tblAt es hsz (bucket (hashKey k)) (Nat.mod_lt _ (by omega))
    have hs : e.key = k ∧ some e ∈ tableOf (mkEnts es 2048) (bucket (hashKey k)) := by
      unfold findEntE at hfe
      dsimp only at hfe
      split at hfe
      · cases hfe
      · obtain ⟨h1, h2⟩ := scanE_some _ _ _ _ hfe
        exact ⟨h1, mem_rot h2⟩
    obtain ⟨_, _, hdat, _, _⟩ := rec_read hT e hs.2
    rw [hs.1] at hdat
    rw [hdat.take, if_pos rfl]

end Nq.Lemmas.Users
