/-
  C17 lemmas: what `token822_unparse` writes — for ANY line length, i.e. whatever the `NSUW` macro does
  with its tentative folds — is read back by `token822_parse` as the same token list.
-/
import Nq.Lemmas.C17Lex

namespace Nq.Lemmas.C17
set_option maxRecDepth 20000
open Nq Nq.Token822 Nq.Spec.Lex822

/-! ### `token822_unparse` writes each token as one of its legal renderings -/

def atomEscFacts (c : Byte) : Bool := !atomByte c || !Gen.unparseEsc.contains c

/-- no atom byte gets a backslash -/
theorem atomEscFacts_all : ∀ c, atomEscFacts c = true := forall_byte atomEscFacts (by decide)

theorem uesc_atom (s : Bytes) (h : s.all atomByte = true) : uesc s = s := by
  induction s with
  | nil => rfl
  | cons c s ih =>
    simp only [List.all_cons, Bool.and_eq_true] at h
    have := atomEscFacts_all c
    simp only [atomEscFacts, h.1, Bool.not_true, Bool.false_or, Bool.not_eq_true'] at this
    have hm : c ∉ Gen.unparseEsc := by simpa using this
    simp [uesc, uescByte, hm, ih h.2]

theorem uesc_encQP (s : Bytes) : uesc s = encQP (s.map (fun c => (c, Gen.unparseEsc.contains c))) := by
  induction s with
  | nil => rfl
  | cons c s ih =>
    by_cases h : c ∈ Gen.unparseEsc
    · simp [uesc, uescByte, h, encQP, ih]
    · simp [uesc, uescByte, h, encQP, ih]

theorem uesc_encC (s : Bytes) : uesc s = encC (s.map (fun c => CEl.ch c (Gen.unparseEsc.contains c))) := by
  induction s with
  | nil => rfl
  | cons c s ih =>
    by_cases h : c ∈ Gen.unparseEsc
    · simp [uesc, uescByte, h, encC, ih]
    · simp [uesc, uescByte, h, encC, ih]

theorem contentC_map (s : Bytes) (f : Byte → Bool) : contentC (s.map (fun c => CEl.ch c (f c))) = s := by
  induction s with
  | nil => rfl
  | cons c s ih => simp [contentC, ih]

theorem balC_map (s : Bytes) (f : Byte → Bool) (l : Nat) : balC l (s.map (fun c => CEl.ch c (f c))) = some l := by
  induction s with
  | nil => rfl
  | cons c s ih => simp [balC, ih]

theorem tokText_canon (t : Tok) (h : cleanTok t = true) : tokText t = (canon t).text := by
  cases t with
  | atom s =>
    simp only [cleanTok, Bool.and_eq_true] at h
    simp [tokText, canon, CTok.text, uesc_atom s h.2]
  | quote s => simp [tokText, canon, CTok.text, uesc_encQP]
  | literal s => simp [tokText, canon, CTok.text, uesc_encQP]
  | comment s => simp [tokText, canon, CTok.text, uesc_encC]
  | _ => rfl

theorem canon_tok (t : Tok) : (canon t).tok = t := by
  obtain ⟨h1, h2, h3, h4, h5, h6, h7⟩ := special_canon
  cases t <;> simp [canon, CTok.tok, contentC_map, h1, h2, h3, h4, h5, h6, h7, Function.comp_def]

theorem canon_ok (t : Tok) (h : cleanTok t = true) : (canon t).ok = true := by
  obtain ⟨h1, h2, h3, h4, h5, h6, h7⟩ := special_canon
  obtain ⟨e1, e2, e3, e4, e5⟩ := unparseEsc_delims
  have m1 : DQ ∈ Gen.unparseEsc := by simpa using e1
  have m2 : BSL ∈ Gen.unparseEsc := by simpa using e2
  have m3 : RBRK ∈ Gen.unparseEsc := by simpa using e3
  have m4 : LPAR ∈ Gen.unparseEsc := by simpa using e4
  have m5 : RPAR ∈ Gen.unparseEsc := by simpa using e5
  cases t with
  | atom s => simpa [canon, CTok.ok, cleanTok] using h
  | quote s =>
    simp only [canon, CTok.ok, List.all_map, List.all_eq_true]
    intro c _
    by_cases hc : c ∈ Gen.unparseEsc
    · simp [hc]
    · have n1 : c ≠ DQ := fun e => hc (e ▸ m1)
      have n2 : c ≠ BSL := fun e => hc (e ▸ m2)
      simp [n1, n2]
  | literal s =>
    simp only [canon, CTok.ok, List.all_map, List.all_eq_true]
    intro c _
    by_cases hc : c ∈ Gen.unparseEsc
    · simp [hc]
    · have n1 : c ≠ RBRK := fun e => hc (e ▸ m3)
      have n2 : c ≠ BSL := fun e => hc (e ▸ m2)
      simp [n1, n2]
  | comment s =>
    simp only [canon, CTok.ok, Bool.and_eq_true, beq_iff_eq, balC_map, and_true, List.all_map, List.all_eq_true]
    intro c _
    by_cases hc : c ∈ Gen.unparseEsc
    · simp [plainOkC, hc]
    · have n1 : c ≠ LPAR := fun e => hc (e ▸ m4)
      have n2 : c ≠ RPAR := fun e => hc (e ▸ m5)
      have n3 : c ≠ BSL := fun e => hc (e ▸ m2)
      simp [plainOkC, hc, n1, n2, n3]
  | _ => simp [canon, CTok.ok, h1, h2, h3, h4, h5, h6, h7]

theorem canon_isAtom (t : Tok) : (canon t).isAtom = true → ∃ s, t = .atom s := by
  cases t <;> simp [canon, CTok.isAtom]

/-! ### the invariant of the second pass -/

/-- lexical meaning of the bytes written so far: reading them from top level leaves the tokenizer at a
token boundary having produced `ts` (the last token possibly still pending, then it is an atom and
`lasttype` says so) -/
def ULex (u : USt) (ts : List Tok) : Prop :=
  ∃ st, Boundary st ∧ (plex .top u.out).1 = st ∧ (plex .top u.out).2 ++ flushSt st = ts ∧
    (st ≠ .top → ∃ s, u.last = some (.atom s))

/-- the tentative fold: `linee` points at a `LF SP` that was written right after a complete token at top
level (so deleting it changes nothing for the tokenizer) -/
def FoldInv (u : USt) : Prop :=
  ∀ e, u.linee = some e → ∃ A B, u.out = A ++ LF :: SP :: B ∧ A.length = e ∧ (plex .top A).1 = .top

theorem plex_top_lfsp (B : Bytes) : plex .top (LF :: SP :: B) = plex .top B := by
  rw [plex_cons]
  have h1 : pstep .top LF = (.top, []) := by simp [pstep, stepTop_ws (c := LF) (by decide)]
  rw [h1, plex_cons]
  have h2 : pstep .top SP = (.top, []) := by simp [pstep, stepTop_ws (c := SP) (by decide)]
  rw [h2]
  simp

/-- deleting a fold written at top level does not change what the tokenizer sees -/
theorem plex_fold_delete (A B : Bytes) (hA : (plex .top A).1 = .top) :
    plex .top (A ++ LF :: SP :: B) = plex .top (A ++ B) := by
  rw [plex_append, plex_append, hA, plex_top_lfsp]

/-- the text part of `ustep` (before the comma's `NSUW`) -/
def utext (u : USt) (t : Tok) : USt :=
  { u with out := (if needspace u.last t then u.out ++ [SP] else u.out) ++ tokText t, last := some t }

theorem ustep_eq (n : Nat) (u : USt) (t : Tok) :
    ustep n u t = if t = .comma then nsuw n (utext u t) else utext u t := by
  simp [ustep, utext]

theorem utext_inv (u : USt) (ts : List Tok) (t : Tok) (hc : cleanTok t = true)
    (hl : ULex u ts) (hf : FoldInv u) :
    ULex (utext u t) (ts ++ [t]) ∧ FoldInv (utext u t) ∧ (t = .comma → (plex .top (utext u t).out).1 = .top) := by
  obtain ⟨st, hb, hst, hem, hlast⟩ := hl
  -- the separator and the text, as one item
  let ws : Bytes := if needspace u.last t then [SP] else []
  have hout : (utext u t).out = u.out ++ (ws ++ (canon t).text) := by
    simp only [utext, ws, tokText_canon t hc]
    split <;> simp
  have hws : ws.all isWs = true := by
    simp only [ws]; split <;> simp [isWs, SP]
  have hcond : ¬ (st ≠ .top ∧ (canon t).isAtom = true ∧ ws = []) := by
    rintro ⟨h1, h2, h3⟩
    obtain ⟨s, hs⟩ := hlast h1
    obtain ⟨s', hs'⟩ := canon_isAtom t h2
    simp [ws, hs, hs', needspace, isWord] at h3
  have hitem := plex_item hb ws (canon t) hws (canon_ok t hc) hcond
  have hplex : plex .top (utext u t).out = (endSt (canon t), (plex .top u.out).2 ++ (flushSt st ++ emitted (canon t))) := by
    rw [hout, plex_append, hst, hitem]
  refine ⟨⟨endSt (canon t), endSt_boundary _, by rw [hplex], ?_, ?_⟩, ?_, ?_⟩
  · rw [hplex]
    simp only [List.append_assoc]
    rw [emitted_flush (canon t) (canon_ok t hc), canon_tok, ← List.append_assoc, hem]
  · intro hne
    have : (canon t).isAtom = true := by
      cases hk : canon t <;> simp_all [endSt, CTok.isAtom]
    obtain ⟨s, hs⟩ := canon_isAtom t this
    exact ⟨s, by simp [utext, hs]⟩
  · intro e he
    obtain ⟨A, B, h1, h2, h3⟩ := hf e (by simpa [utext] using he)
    exact ⟨A, B ++ (ws ++ (canon t).text), by rw [hout, h1]; simp, h2, h3⟩
  · intro htc
    rw [hplex]
    subst htc
    simp [canon, endSt]

/-- the `NSUW` macro: it appends `LF SP` to something the tokenizer reads exactly like the old output -/
theorem nsuw_out (n : Nat) (u : USt) (hf : FoldInv u) :
    ∃ o, (nsuw n u).out = o ++ [LF, SP] ∧ plex .top o = plex .top u.out ∧ (nsuw n u).last = u.last ∧
      (nsuw n u).linee = some o.length := by
  unfold nsuw
  cases hle : u.linee with
  | none => exact ⟨u.out, by simp, rfl, by simp, by simp⟩
  | some e =>
    obtain ⟨A, B, h1, h2, h3⟩ := hf e hle
    simp only []
    split
    · refine ⟨A ++ B, ?_, ?_, by simp, ?_⟩
      · have ht : u.out.take e = A := by rw [h1, ← h2]; simp
        have hd : u.out.drop (e + 2) = B := by
          rw [h1, ← h2]
          have : A ++ LF :: SP :: B = (A ++ [LF, SP]) ++ B := by simp
          rw [this]
          have hl : A.length + 2 = (A ++ [LF, SP]).length := by simp
          rw [hl, List.drop_left]
        simp [ht, hd]
      · rw [h1, plex_fold_delete A B h3]
      · simp only [h1, List.length_append, List.length_cons]
        congr 1
    · exact ⟨u.out, by simp, rfl, by simp, by simp⟩

theorem nsuw_inv (n : Nat) (u : USt) (ts : List Tok) (hl : ULex u ts) (hf : FoldInv u)
    (htop : (plex .top u.out).1 = .top) :
    ULex (nsuw n u) ts ∧ FoldInv (nsuw n u) := by
  obtain ⟨o, h1, h2, h3, h4⟩ := nsuw_out n u hf
  obtain ⟨st, hb, hst, hem, hlast⟩ := hl
  have hst' : st = .top := by rw [← hst, htop]
  subst hst'
  have hpl : plex .top (nsuw n u).out = plex .top u.out := by
    have e : o ++ [LF, SP] = o ++ LF :: SP :: [] := rfl
    rw [h1, e, plex_fold_delete o [] (by rw [h2, htop]), List.append_nil, h2]
  refine ⟨⟨.top, Or.inl rfl, by rw [hpl, htop], by rw [hpl]; exact hem, fun h => absurd rfl h⟩, ?_⟩
  intro e he
  rw [h4] at he
  simp only [Option.some.injEq] at he
  exact ⟨o, [], by rw [h1], he, by rw [h2, htop]⟩

theorem ustep_inv (n : Nat) (u : USt) (ts : List Tok) (t : Tok) (hc : cleanTok t = true)
    (hl : ULex u ts) (hf : FoldInv u) :
    ULex (ustep n u t) (ts ++ [t]) ∧ FoldInv (ustep n u t) := by
  obtain ⟨h1, h2, h3⟩ := utext_inv u ts t hc hl hf
  rw [ustep_eq]
  split
  · rename_i htc
    exact nsuw_inv n _ _ h1 h2 (h3 htc)
  · exact ⟨h1, h2⟩

theorem ufold_inv (n : Nat) (ts : List Tok) (hc : ts.all cleanTok = true) :
    ∀ (u : USt) (pre : List Tok), ULex u pre → FoldInv u →
      ULex (ts.foldl (ustep n) u) (pre ++ ts) ∧ FoldInv (ts.foldl (ustep n) u) := by
  induction ts with
  | nil => intro u pre h1 h2; simpa using ⟨h1, h2⟩
  | cons t ts ih =>
    intro u pre h1 h2
    simp only [List.all_cons, Bool.and_eq_true] at hc
    obtain ⟨s1, s2⟩ := ustep_inv n u pre t hc.1 h1 h2
    have := ih hc.2 (ustep n u t) (pre ++ [t]) s1 s2
    simpa using this

/-- **`token822_parse ∘ token822_unparse` is the identity on clean token lists, for every line length** -/
theorem parse_unparse (n : Nat) (ts : List Tok) (hc : ts.all cleanTok = true) :
    parse (unparse n ts) = some ts := by
  have h0 : ULex {} [] := ⟨.top, Or.inl rfl, rfl, rfl, fun h => absurd rfl h⟩
  have f0 : FoldInv {} := by intro e he; simp at he
  obtain ⟨hl, hf⟩ := ufold_inv n ts hc {} [] h0 f0
  simp only [List.nil_append] at hl
  have key : ∀ u, ULex u ts → FoldInv u → prun .top (nsuw n u).out.dropLast = some ts := by
    intro u hl hf
    obtain ⟨o, h1, h2, _, _⟩ := nsuw_out n u hf
    obtain ⟨st, hb, hst, hem, _⟩ := hl
    have e : (o ++ [LF, SP]).dropLast = o ++ [LF] := by
      have : o ++ [LF, SP] = (o ++ [LF]) ++ [SP] := by simp
      rw [this, List.dropLast_concat]
    rw [h1, e, prun_plex, h2, hst, prun_trailing hb [LF] (by decide)]
    simp [hem]
  exact key _ hl hf

end Nq.Lemmas.C17
