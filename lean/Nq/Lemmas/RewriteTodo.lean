/-
  Lemmas for C10, part 5: the record loop of `todo_do` — one output record per input `T` record,
  in order, each in exactly one channel file.
-/
import Nq.Lemmas.RewriteSpec

namespace Nq.Lemmas.RewriteTodo
open Nq Nq.Rewrite Nq.Route

/-- records → file contents (each record followed by NUL) -/
def encode (recs : List Bytes) : Bytes := recs.flatMap (fun r => r ++ [NUL])

/-- the records of one channel file: those routed to `ch`, in order -/
def chanRecs (ch : Chan) (rs : List Routed) : List Routed := rs.filter (fun r => r.chan == ch)

def chanFile (ch : Chan) (rs : List Routed) : Bytes := (chanRecs ch rs).flatMap Routed.line

/-- `m` is an order-preserving merge of `l` and `r` -/
inductive Interleave {α : Type} : List α → List α → List α → Prop
  | nil : Interleave [] [] []
  | left (a : α) {l r m : List α} : Interleave l r m → Interleave (a :: l) r (a :: m)
  | right (a : α) {l r m : List α} : Interleave l r m → Interleave l (a :: r) (a :: m)

theorem interleave_filter {α : Type} (p : α → Bool) (l : List α) :
    Interleave (l.filter p) (l.filter (fun a => !p a)) l := by
  induction l with
  | nil => exact .nil
  | cons a r ih =>
    by_cases h : p a = true
    · simp only [List.filter_cons, h, if_true, Bool.not_true]
      exact .left a ih
    · simp only [Bool.not_eq_true] at h
      simp only [List.filter_cons, h, Bool.not_false, if_true]
      exact .right a ih

theorem chan_not_loc (r : Routed) : (!(r.chan == Chan.loc)) = (r.chan == Chan.rem) := by
  cases r.chan <;> rfl

theorem chunksGo_record (r rest acc : Bytes) (h : NUL ∉ r) :
    chunksGo (r ++ NUL :: rest) acc = (acc.reverse ++ r) :: chunksGo rest [] := by
  induction r generalizing acc with
  | nil => simp [chunksGo]
  | cons x t ih =>
    simp only [List.mem_cons, not_or] at h
    have hx : ¬ x = NUL := fun e => h.1 e.symm
    simp only [List.cons_append, chunksGo, hx, if_false]
    rw [ih _ h.2]
    simp

theorem chunksGo_tail (t acc : Bytes) (h : NUL ∉ t) : chunksGo t acc = [] := by
  induction t generalizing acc with
  | nil => rfl
  | cons x r ih =>
    simp only [List.mem_cons, not_or] at h
    have hx : ¬ x = NUL := fun e => h.1 e.symm
    simp only [chunksGo, hx, if_false]
    exact ih _ h.2

/-- a file of NUL-terminated NUL-free records, followed by an unterminated tail, splits back into
exactly those records: nothing dropped, duplicated or merged -/
theorem chunks_encode (recs : List Bytes) (tail : Bytes) (h : ∀ r ∈ recs, NUL ∉ r) (ht : NUL ∉ tail) :
    chunks (encode recs ++ tail) = recs := by
  unfold chunks
  induction recs with
  | nil => simpa [encode] using chunksGo_tail tail [] ht
  | cons r rs ih =>
    have hr := h r (by simp)
    have : encode (r :: rs) ++ tail = r ++ NUL :: (encode rs ++ tail) := by simp [encode]
    rw [this, chunksGo_record r _ [] hr, ih (fun x hx => h x (by simp [hx]))]
    simp

theorem todoFold_append (L : Lookups) (env : Bytes) (a b : List Bytes) (o : TodoOut) :
    todoFold L env (a ++ b) o = match todoFold L env a o with
      | some o' => todoFold L env b o'
      | none => none := by
  induction a generalizing o with
  | nil => rfl
  | cons r rs ih =>
    simp only [List.cons_append, todoFold]
    cases todoStep L env o r with
    | some o' => exact ih o'
    | none => rfl

/-- header records: `u…`, `p…`, `F…` -/
def isHdr (r : Bytes) : Bool :=
  match r with
  | t :: _ => t == 117 || t == 112 || t == 70
  | [] => false

def infoOf (hdr : List Bytes) : Bytes :=
  (hdr.filter (fun r => r.head? == some 70)).flatMap (fun r => r ++ [NUL])

theorem todoFold_hdr (L : Lookups) (env : Bytes) (hdr : List Bytes) (h : ∀ r ∈ hdr, isHdr r = true) (o : TodoOut) :
    todoFold L env hdr o = some { o with info := o.info ++ infoOf hdr } := by
  induction hdr generalizing o with
  | nil => simp [todoFold, infoOf]
  | cons r rs ih =>
    have hr := h r (by simp)
    cases r with
    | nil => simp [isHdr] at hr
    | cons t b =>
      simp only [isHdr, Bool.or_eq_true, beq_iff_eq] at hr
      simp only [todoFold, todoStep]
      by_cases h1 : t = 117 ∨ t = 112
      · rw [if_pos h1]
        simp only
        rw [ih (fun x hx => h x (by simp [hx]))]
        have : ¬ t = 70 := by rcases h1 with h1 | h1 <;> (rw [h1]; decide)
        simp [infoOf, List.filter_cons, this]
      · have h2 : t = 70 := by
          rcases hr with (hr | hr) | hr
          · exact absurd (Or.inl hr) h1
          · exact absurd (Or.inr hr) h1
          · exact hr
        rw [if_neg h1, if_pos h2]
        simp only
        rw [ih (fun x hx => h x (by simp [hx]))]
        simp [infoOf, List.filter_cons, h2, List.append_assoc]

theorem todoFold_T (L : Lookups) (env : Bytes) (rs : List Bytes) (o : TodoOut) :
    todoFold L env (rs.map (fun r => TEE :: r)) o =
      some { o with loc := o.loc ++ chanFile .loc (rs.map (rewriteWith L env)),
                    rem := o.rem ++ chanFile .rem (rs.map (rewriteWith L env)) } := by
  induction rs generalizing o with
  | nil => simp [todoFold, chanFile, chanRecs]
  | cons r rs ih =>
    simp only [List.map_cons, todoFold, todoStep]
    have h1 : ¬ (TEE = 117 ∨ TEE = 112) := by decide
    have h2 : ¬ TEE = 70 := by decide
    rw [if_neg h1, if_neg h2, if_pos trivial]
    cases hc : (rewriteWith L env r).chan with
    | loc =>
      simp only
      rw [ih]
      simp [chanFile, chanRecs, List.filter_cons, hc, List.append_assoc, (by decide : (Chan.loc == Chan.loc) = true), (by decide : (Chan.loc == Chan.rem) = false)]
    | rem =>
      simp only
      rw [ih]
      simp [chanFile, chanRecs, List.filter_cons, hc, List.append_assoc, (by decide : (Chan.rem == Chan.rem) = true), (by decide : (Chan.rem == Chan.loc) = false)]

end Nq.Lemmas.RewriteTodo
