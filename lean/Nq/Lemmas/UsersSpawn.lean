/- Lemmas about the delivery child of qmail-lspawn (`spawnChild`): the trace predicates of the spec. -/
import Nq.Users
import Nq.Spec.Users

namespace Nq.Lemmas.Users
open Nq Nq.Users Nq.Spec.Users Nq.Gen.Lspawn

/-- the model's argv layout is the one written down from qmail-local(8) in the spec -/
theorem specArgv_eq (env : Env) (id : Ident) (loc dom sender : Bytes) :
    specArgv env id loc dom sender = argvOf env id loc dom sender := rfl

/-- events none of which is a top-level execv of qmail-local -/
def Quiet (l : List Ev) : Prop := ∀ e ∈ l, isExecLocal e = false

theorem guardedAny_quiet (l : List Ev) : ∀ (pre rest : List Ev), Quiet l →
    guardedAny pre (l ++ rest) = guardedAny (l.reverse ++ pre) rest := by
  induction l with
  | nil => intro pre rest _; simp
  | cons e l ih =>
    intro pre rest h
    have he : isExecLocal e = false := h e (by simp)
    have hl : Quiet l := fun x hx => h x (by simp [hx])
    simp only [List.cons_append, guardedAny, he, Bool.false_eq_true, if_false, Bool.true_and]
    rw [ih (e :: pre) rest hl]
    simp

theorem traceOk_quiet (env : Env) (id : Ident) (loc dom sender : Bytes) (l : List Ev) :
    ∀ (pre rest : List Ev), Quiet l →
    traceOk env id loc dom sender pre (l ++ rest) = traceOk env id loc dom sender (l.reverse ++ pre) rest := by
  induction l with
  | nil => intro pre rest _; simp
  | cons e l ih =>
    intro pre rest h
    have he : isExecLocal e = false := h e (by simp)
    have hl : Quiet l := fun x hx => h x (by simp [hx])
    cases e with
    | execv p a =>
      have hp : (p == localPath) = false := by simpa [isExecLocal] using he
      rw [List.cons_append, traceOk, ih _ rest hl]; simp [hp, execOk]
    | _ => rw [List.cons_append, traceOk, ih _ rest hl]; simp [execOk]

theorem getpwChild_quiet (env : Env) (flt : Fault) (loc : Bytes) : Quiet (getpwChild env flt loc).1 := by
  unfold getpwChild
  intro e he
  split at he
  · simp at he; subst he; rfl
  · split at he
    · simp at he; rcases he with rfl | rfl <;> rfl
    · split at he
      · simp at he; rcases he with rfl | rfl | rfl <;> rfl
      · split at he <;> (simp at he; rcases he with rfl | rfl | rfl | rfl <;> rfl)

theorem nughdeGet_quiet (env : Env) (flt : Fault) (loc : Bytes) : Quiet (nughdeGet env flt loc).1 := by
  unfold nughdeGet
  split
  · intro e he; simp at he
  · split
    · intro e he; simp at he
    · intro e he; simp at he
    · split
      · intro e he; simp at he
      · have hq := getpwChild_quiet env flt loc
        split <;> rename_i h <;> (rw [h] at hq; exact hq)

/-- the tail of spawn(): whatever precedes, qmail-local is executed only right after the four guarded calls -/
theorem dropAndExec_guarded (env : Env) (flt : Fault) (id : Ident) (loc dom sender : Bytes) (pre : List Ev) :
    guardedAny pre (dropAndExec env flt id loc dom sender).1 = true := by
  unfold dropAndExec
  split
  · simp [guardedAny, isExecLocal]
  · split
    · simp [guardedAny, isExecLocal]
    · split
      · simp [guardedAny, isExecLocal]
      · by_cases hu : id.uid = 0
        · simp [hu, guardedAny, isExecLocal]
        · simp only [hu, if_false]
          split
          · simp [guardedAny, isExecLocal, hu]
          · split <;> simp [guardedAny, isExecLocal, hu]

theorem dropAndExec_traceOk (env : Env) (flt : Fault) (id : Ident) (loc dom sender : Bytes) (pre : List Ev) :
    traceOk env id loc dom sender pre (dropAndExec env flt id loc dom sender).1 = true := by
  unfold dropAndExec
  split
  · simp [traceOk, execOk]
  · split
    · simp [traceOk, execOk]
    · split
      · simp [traceOk, execOk]
      · by_cases hu : id.uid = 0
        · simp [hu, traceOk, execOk]
        · simp only [hu, if_false]
          split
          · simp [traceOk, execOk, execGuarded, hu, specArgv_eq]
          · split <;> simp [traceOk, execOk, execGuarded, hu, specArgv_eq]

theorem guardedAny_of_quiet (l pre : List Ev) (h : Quiet l) : guardedAny pre l = true := by
  have := guardedAny_quiet l pre [] h
  simpa [guardedAny] using this

theorem traceOk_of_quiet (env : Env) (id : Ident) (loc dom sender : Bytes) (l pre : List Ev) (h : Quiet l) :
    traceOk env id loc dom sender pre l = true := by
  have := traceOk_quiet env id loc dom sender l pre [] h
  simpa [traceOk] using this

theorem noExec_of_quiet (l : List Ev) (h : Quiet l) : noExec l = true := by
  unfold noExec
  simp only [Bool.not_eq_true', List.any_eq_false]
  intro e he; simp [h e he]

theorem quiet_cons {e : Ev} {l : List Ev} (he : isExecLocal e = false) (h : Quiet l) : Quiet (e :: l) := by
  intro x hx
  rcases List.mem_cons.mp hx with rfl | hx
  · exact he
  · exact h x hx

theorem quiet_append {a b : List Ev} (ha : Quiet a) (hb : Quiet b) : Quiet (a ++ b) := by
  intro x hx
  rcases List.mem_append.mp hx with hx | hx
  · exact ha x hx
  · exact hb x hx

theorem quiet_fds : Quiet [Ev.fdmove 0, Ev.fdmove 1, Ev.fdcopy 2] := by
  intro x hx; simp at hx; rcases hx with rfl | rfl | rfl <;> rfl

/-- when the assigned uid is 0 the tail of spawn() never reaches execv -/
theorem dropAndExec_root (env : Env) (flt : Fault) (id : Ident) (loc dom sender : Bytes) (hu : id.uid = 0) :
    Quiet (dropAndExec env flt id loc dom sender).1 ∧ (dropAndExec env flt id loc dom sender).2 ≠ .exec ∧
    (flt = .none → (dropAndExec env flt id loc dom sender).2 = .exit QLX_ROOT) := by
  unfold dropAndExec
  split
  · refine ⟨?_, by simp, ?_⟩
    · intro x hx; simp at hx; subst hx; rfl
    · intro h; simp_all
  · split
    · refine ⟨?_, by simp, ?_⟩
      · intro x hx; simp at hx; rcases hx with rfl | rfl <;> rfl
      · intro h; simp_all
    · split
      · refine ⟨?_, by simp, ?_⟩
        · intro x hx; simp at hx; rcases hx with rfl | rfl | rfl <;> rfl
        · intro h; simp_all
      · simp only [hu, if_true]
        refine ⟨?_, by simp, fun _ => by simp⟩
        intro x hx; simp at hx; rcases hx with rfl | rfl | rfl | rfl <;> rfl

/-- without a fault and with a non-zero uid the tail of spawn() is exactly the five calls, ending in execv -/
theorem dropAndExec_run (env : Env) (id : Ident) (loc dom sender : Bytes) (hu : id.uid ≠ 0) :
    dropAndExec env .none id loc dom sender =
      ([.setgroups 1 id.gid true, .setgid id.gid true, .setuid id.uid true, .getuid id.uid,
        .execv localPath (argvOf env id loc dom sender)], .exec) := by
  simp [dropAndExec, hu]

end Nq.Lemmas.Users
