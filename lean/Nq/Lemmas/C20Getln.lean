/-
  Lemmas for C20 (getln2 / getln / byte_chr): `cont`/`clen` lie inside the substdio buffer, every copy into the
  line buffer lies inside what stralloc_readyplus just guaranteed.
-/
import Nq.Getln
import Nq.Lemmas.C20Substdio
import Nq.Lemmas.C20Stralloc

namespace Nq.Getln
open Nq Nq.Substdio Nq.Stralloc Nq.Lemmas.C20

theorem byteChr_le (b : Bytes) (c : Byte) : byteChr b c ≤ b.length := by
  induction b with
  | nil => simp [byteChr]
  | cons x r ih => simp only [byteChr]; split <;> simp <;> omega

theorem byteChrReads_lt {b : Bytes} {c : Byte} {j : Nat} (h : j ∈ byteChrReads b c) : j < b.length := by
  unfold byteChrReads at h
  have := List.mem_range.1 h
  omega

theorem get_buffered (s : ISt) (len : Nat) (h : s.p > 0) :
    Substdio.get s len = ((getthis s len).1, .got (getthis s len).2) := by
  unfold Substdio.get
  rw [if_pos h]

/-- what the loop keeps and what it promises -/
structure Good (S : Nat) (o : GOut) : Prop where
  iwf : IWF o.st.ss
  size : o.st.ss.size = S
  wf : WF 1 o.st.sa
  rd : ∀ j ∈ o.rd, j < S
  sast : ∀ e ∈ o.sast, e.1 + e.2.1 ≤ e.2.2
  cont : o.ret = true → o.cont + o.clen ≤ S

theorem loop_good (grant : Nat → Bool) (sep : Byte) (S : Nat) (hS : S < Stralloc.U32) (fuel : Nat) :
    ∀ (g : GSt) (rd : List Nat) (sast : List (Nat × Nat × Nat)),
      IWF g.ss → g.ss.size = S → WF 1 g.sa → g.sa.nonnull = true →
      (∀ j ∈ rd, j < S) → (∀ e ∈ sast, e.1 + e.2.1 ≤ e.2.2) →
      Good S (loop grant sep fuel g rd sast) := by
  induction fuel with
  | zero =>
    intro g rd sast h1 h2 h3 _ h5 h6
    exact ⟨h1, h2, h3, h5, h6, by intro h; cases h⟩
  | succ fuel ih =>
    intro g rd sast h1 h2 h3 h4 h5 h6
    obtain ⟨⟨f1, f2, _⟩, _, f4⟩ := feed_spec g.ss h1
    unfold loop
    generalize hf : feed g.ss = fr at f1 f2 f4
    obtain ⟨s1, rr⟩ := fr
    simp only at f1 f2 f4
    cases rr with
    | err => exact ⟨f1, by rw [f2, h2], h3, h5, h6, by intro h; cases h⟩
    | eof => exact ⟨f1, by rw [f2, h2], h3, h5, h6, by intro _; simp⟩
    | got b =>
      obtain ⟨fb, fne⟩ := f4
      have hsz : s1.size = S := by rw [f2, h2]
      have hbl : b.length = s1.p := by rw [fb]; exact f1.2
      have hnp : s1.n + s1.p = S := by rw [← hsz]; exact f1.1
      have hpos : s1.p > 0 := by
        rw [← hbl]; cases b with
        | nil => exact absurd rfl fne
        | cons _ _ => simp
      have hrd : ∀ j ∈ rd ++ (byteChrReads b sep).map (s1.n + ·), j < S := by
        intro j hj
        rcases List.mem_append.1 hj with hj | hj
        · exact h5 j hj
        · obtain ⟨k, hk, rfl⟩ := List.mem_map.1 hj
          have := byteChrReads_lt hk; omega
      simp only
      by_cases hi : byteChr b sep < b.length
      · rw [if_pos hi]
        refine ⟨?_, ?_, h3, hrd, h6, ?_⟩
        · simp only [seek, IWF]
          refine ⟨by omega, ?_⟩
          simp only [List.length_drop]; have := f1.2; omega
        · simp only [seek]; exact hsz
        · intro _; simp only; omega
      · rw [if_neg hi]
        by_cases hr : (readyplus 1 30 grant g.sa b.length).ret = true
        · rw [if_pos hr]
          have rp := rpi_ok 1 30 grant g.sa b.length g.sa.len h3 (by omega) hr
          obtain ⟨r1, r2, _, _, r5, _⟩ := rp
          obtain ⟨r5a, r5b, r5c⟩ := r5 h4
          change WF 1 (readyplus 1 30 grant g.sa b.length).x at r1
          change (readyplus 1 30 grant g.sa b.length).x.nonnull = true at r2
          change b.length + g.sa.len ≤ (readyplus 1 30 grant g.sa b.length).x.a at r5a
          change (readyplus 1 30 grant g.sa b.length).x.len = g.sa.len at r5c
          generalize readyplus 1 30 grant g.sa b.length = r at r1 r2 r5a r5c hr ⊢
          rw [get_buffered s1 b.length hpos]
          obtain ⟨⟨g1, g2, _⟩, g3, _, _, _⟩ := getthis_spec s1 b.length f1
          simp only
          have hlen : r.x.len + (getthis s1 b.length).2.length ≤ r.x.a := by omega
          have ha := r1.2.1
          apply ih
          · exact g1
          · simp only; rw [g2, hsz]
          · refine ⟨?_, ha, ?_⟩
            · simp only; exact Nat.mod_lt _ (by decide)
            · intro _; simp only
              rw [Nat.mod_eq_of_lt (by omega)]
              exact ⟨hlen, (r1.2.2 r2).2⟩
          · exact r2
          · exact hrd
          · intro e he
            rcases List.mem_append.1 he with he | he
            · exact h6 e he
            · simp at he; subst he; simp only; exact hlen
        · rw [if_neg hr]
          have hr' : (readyplusInternal 1 30 grant g.sa b.length g.sa.len).ret = false := by
            simpa [readyplus] using hr
          have := rpi_fail 1 30 grant g.sa b.length g.sa.len h3 hr'
          exact ⟨f1, hsz, this.1, hrd, h6, by intro h; cases h⟩

end Nq.Getln
