/-
  Lemmas about the "marks due" layer (`Nq.DaemonOwed`): which reports put a record on the list, and
  that the base monitor's report reader adds a record to `delivered` only together with `mayMark`.
-/
import Nq.DaemonOwed

namespace Nq.Lemmas.DO
open Nq Nq.Daemon

theorem msg_setDline (s : St) (c : Ch) (v : Bytes × Nat) (m : Nat) : (s.setDline c v).msg m = s.msg m := by
  cases c <;> rfl

theorem mayMark_setDline (s : St) (c : Ch) (v : Bytes × Nat) : (s.setDline c v).mayMark = s.mayMark := by
  cases c <;> rfl

/-- a report adds a record to `delivered` only together with the permission (`mayMark`) to mark it;
permissions are not withdrawn while reports are read -/
theorem handleReport_delivered (cfg : Cfg) (s : St) (c : Ch) (rep : Bytes) :
    (∀ x ∈ s.mayMark, x ∈ (handleReport cfg s c rep).mayMark) ∧
    (∀ m c' i, (c', i) ∈ ((handleReport cfg s c rep).msg m).delivered →
      (c', i) ∈ (s.msg m).delivered ∨ (m, c', i) ∈ (handleReport cfg s c rep).mayMark) := by
  simp only [handleReport]
  split
  · exact ⟨fun _ h => h, fun _ _ _ h => Or.inl h⟩
  · rename_i sl _
    split
    · exact ⟨fun _ h => h, fun _ _ _ h => Or.inl h⟩
    · split
      · -- K
        refine ⟨fun x h => List.mem_cons_of_mem _ h, ?_⟩
        intro m c' i h
        have h : (c', i) ∈ (St.msg (St.upd { s with slots := s.slots.filter (fun x => !(x.c == c && x.delnum == (rep.headD 0).toNat)) } sl.m
            fun ms => { ms with fin := (c, sl.idx) :: ms.fin, delivered := (c, sl.idx) :: ms.delivered }) m).delivered := h
        have hmsg : ∀ k, St.msg { s with slots := s.slots.filter (fun x => !(x.c == c && x.delnum == (rep.headD 0).toNat)) } k = s.msg k :=
          fun _ => rfl
        rw [St.msg_upd] at h
        by_cases hm : m = sl.m
        · subst hm
          simp only [if_true] at h
          rcases List.mem_cons.1 h with he | hin
          · right
            cases he
            exact List.mem_cons_self
          · left; rw [hmsg] at hin; exact hin
        · simp only [hm, if_false] at h
          left; rw [hmsg] at h; exact h
      · split
        · exact ⟨fun _ h => h, fun _ _ _ h => Or.inl h⟩
        · split
          · exact ⟨fun _ h => h, fun _ _ _ h => Or.inl h⟩
          · exact ⟨fun _ h => h, fun _ _ _ h => Or.inl h⟩

theorem feedReports_delivered (cfg : Cfg) (c : Ch) : ∀ (bs : Bytes) (s : St),
    (∀ x ∈ s.mayMark, x ∈ (feedReports cfg s c bs).mayMark) ∧
    (∀ m c' i, (c', i) ∈ ((feedReports cfg s c bs).msg m).delivered →
      (c', i) ∈ (s.msg m).delivered ∨ (m, c', i) ∈ (feedReports cfg s c bs).mayMark)
  | [], s => by
    simp only [feedReports]
    exact ⟨fun _ h => h, fun _ _ _ h => Or.inl h⟩
  | b :: bs, s => by
    simp only [feedReports]
    split
    · rename_i rep _
      have ih := feedReports_delivered cfg c bs (handleReport cfg (s.setDline c (reportByte (s.dline c).1 (s.dline c).2 b).1) c rep)
      have hr := handleReport_delivered cfg (s.setDline c (reportByte (s.dline c).1 (s.dline c).2 b).1) c rep
      refine ⟨fun x hx => ih.1 x (hr.1 x (by rw [mayMark_setDline]; exact hx)), ?_⟩
      intro m c' i h
      rcases ih.2 m c' i h with h1 | h1
      · rcases hr.2 m c' i h1 with h2 | h2
        · left; rw [msg_setDline] at h2; exact h2
        · right; exact ih.1 _ h2
      · right; exact h1
    · have ih := feedReports_delivered cfg c bs (s.setDline c (reportByte (s.dline c).1 (s.dline c).2 b).1)
      refine ⟨fun x hx => ih.1 x (by rw [mayMark_setDline]; exact hx), ?_⟩
      intro m c' i h
      rcases ih.2 m c' i h with h1 | h1
      · left; rw [msg_setDline] at h1; exact h1
      · right; exact h1

theorem mem_dropRec {owed : List (Nat × Ch × Nat)} {x y : Nat × Ch × Nat} (h : x ∈ owed) (hne : x ≠ y) : x ∈ dropRec owed y := by
  unfold dropRec
  exact List.mem_filter.2 ⟨h, by simpa using hne⟩

theorem mem_dropChan {owed : List (Nat × Ch × Nat)} {x : Nat × Ch × Nat} {m : Nat} {c : Ch} (h : x ∈ owed)
    (hne : ¬ (x.1 = m ∧ x.2.1 = c)) : x ∈ dropChan owed m c := by
  unfold dropChan
  refine List.mem_filter.2 ⟨h, ?_⟩
  simp only [Bool.not_eq_true', Bool.and_eq_false_iff, beq_eq_false_iff_ne, ne_eq]
  by_cases h1 : x.1 = m
  · right; exact fun h2 => hne ⟨h1, h2⟩
  · left; exact h1

theorem mem_dropMsg {owed : List (Nat × Ch × Nat)} {x : Nat × Ch × Nat} {m : Nat} (h : x ∈ owed)
    (hne : x.1 ≠ m) : x ∈ dropMsg owed m := by
  unfold dropMsg
  exact List.mem_filter.2 ⟨h, by simpa using hne⟩

end Nq.Lemmas.DO
