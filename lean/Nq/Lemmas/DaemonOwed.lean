/-
  Lemmas about the "marks due" layer (`Nq.DaemonOwed`): which reports put a record on the list, and
  that the base monitor's report reader adds a record to `delivered` only together with `mayMark`.
-/
import Nq.DaemonOwed
import Nq.Lemmas.DaemonInv
import Nq.Lemmas.DaemonSlots

namespace Nq.Lemmas.DO
open Nq Nq.Daemon Nq.Lemmas.DI Nq.Lemmas.DS

theorem msg_setDline (s : St) (c : Ch) (v : Bytes × Nat) (m : Nat) : (s.setDline c v).msg m = s.msg m := by
  cases c <;> rfl

theorem mayMark_setDline (s : St) (c : Ch) (v : Bytes × Nat) : (s.setDline c v).mayMark = s.mayMark := by
  cases c <;> rfl

/-- a report adds a record to `delivered` only together with the permission (`mayMark`) to mark it;
permissions are not withdrawn while reports are read -/
theorem handleReport_delivered (cfg : Cfg) (s : St) (c : Ch) (rep : Bytes) :
    (∀ x ∈ s.mayMark, x ∈ (handleReport cfg s c rep).mayMark) ∧
    (∀ m c' i, (c', i) ∈ ((handleReport cfg s c rep).msg m).delivered →
      (c', i) ∈ (s.msg m).delivered ∨ (m, c', i) ∈ (handleReport cfg s c rep).mayMark) := by
  simp only [handleReport]
  split
  · exact ⟨fun _ h => h, fun _ _ _ h => Or.inl h⟩
  · rename_i sl _
    split
    · exact ⟨fun _ h => h, fun _ _ _ h => Or.inl h⟩
    · split
      · -- K
        refine ⟨fun x h => List.mem_cons_of_mem _ h, ?_⟩
        intro m c' i h
        have h : (c', i) ∈ (St.msg (St.upd { s with slots := s.slots.filter (fun x => !(x.c == c && x.delnum == (rep.headD 0).toNat)) } sl.m
            fun ms => { ms with fin := (c, sl.idx) :: ms.fin, delivered := (c, sl.idx) :: ms.delivered }) m).delivered := h
        have hmsg : ∀ k, St.msg { s with slots := s.slots.filter (fun x => !(x.c == c && x.delnum == (rep.headD 0).toNat)) } k = s.msg k :=
          fun _ => rfl
        rw [St.msg_upd] at h
        by_cases hm : m = sl.m
        · subst hm
          simp only [if_true] at h
          rcases List.mem_cons.1 h with he | hin
          · right
            cases he
            exact List.mem_cons_self
          · left; rw [hmsg] at hin; exact hin
        · simp only [hm, if_false] at h
          left; rw [hmsg] at h; exact h
      · split
        · exact ⟨fun _ h => h, fun _ _ _ h => Or.inl h⟩
        · split
          · exact ⟨fun _ h => h, fun _ _ _ h => Or.inl h⟩
          · exact ⟨fun _ h => h, fun _ _ _ h => Or.inl h⟩

theorem feedReports_delivered (cfg : Cfg) (c : Ch) : ∀ (bs : Bytes) (s : St),
    (∀ x ∈ s.mayMark, x ∈ (feedReports cfg s c bs).mayMark) ∧
    (∀ m c' i, (c', i) ∈ ((feedReports cfg s c bs).msg m).delivered →
      (c', i) ∈ (s.msg m).delivered ∨ (m, c', i) ∈ (feedReports cfg s c bs).mayMark)
  | [], s => by
    simp only [feedReports]
    exact ⟨fun _ h => h, fun _ _ _ h => Or.inl h⟩
  | b :: bs, s => by
    simp only [feedReports]
    split
    · rename_i rep _
      have ih := feedReports_delivered cfg c bs (handleReport cfg (s.setDline c (reportByte (s.dline c).1 (s.dline c).2 b).1) c rep)
      have hr := handleReport_delivered cfg (s.setDline c (reportByte (s.dline c).1 (s.dline c).2 b).1) c rep
      refine ⟨fun x hx => ih.1 x (hr.1 x (by rw [mayMark_setDline]; exact hx)), ?_⟩
      intro m c' i h
      rcases ih.2 m c' i h with h1 | h1
      · rcases hr.2 m c' i h1 with h2 | h2
        · left; rw [msg_setDline] at h2; exact h2
        · right; exact ih.1 _ h2
      · right; exact h1
    · have ih := feedReports_delivered cfg c bs (s.setDline c (reportByte (s.dline c).1 (s.dline c).2 b).1)
      refine ⟨fun x hx => ih.1 x (by rw [mayMark_setDline]; exact hx), ?_⟩
      intro m c' i h
      rcases ih.2 m c' i h with h1 | h1
      · left; rw [msg_setDline] at h1; exact h1
      · right; exact h1

theorem mem_dropRec {owed : List (Nat × Ch × Nat)} {x y : Nat × Ch × Nat} (h : x ∈ owed) (hne : x ≠ y) : x ∈ dropRec owed y := by
  unfold dropRec
  exact List.mem_filter.2 ⟨h, by simpa using hne⟩

theorem mem_dropChan {owed : List (Nat × Ch × Nat)} {x : Nat × Ch × Nat} {m : Nat} {c : Ch} (h : x ∈ owed)
    (hne : ¬ (x.1 = m ∧ x.2.1 = c)) : x ∈ dropChan owed m c := by
  unfold dropChan
  refine List.mem_filter.2 ⟨h, ?_⟩
  simp only [Bool.not_eq_true', Bool.and_eq_false_iff, beq_eq_false_iff_ne, ne_eq]
  by_cases h1 : x.1 = m
  · right; exact fun h2 => hne ⟨h1, h2⟩
  · left; exact h1

theorem mem_dropMsg {owed : List (Nat × Ch × Nat)} {x : Nat × Ch × Nat} {m : Nat} (h : x ∈ owed)
    (hne : x.1 ≠ m) : x ∈ dropMsg owed m := by
  unfold dropMsg
  exact List.mem_filter.2 ⟨h, by simpa using hne⟩

/-! ### which events can change a channel file; completion marks stay -/

/-- events that can change the content or the existence of channel file `c` of message `m` -/
def touchesChan (m : Nat) (c : Ch) : Ev → Bool
  | .unlinkChan m' c' => m' == m && c' == c
  | .creatChan m' c' => m' == m && c' == c
  | .writeChan m' c' _ => m' == m && c' == c
  | .markD m' c' _ => m' == m && c' == c
  | .crashMarks m' c' _ => m' == m && c' == c
  | .crashTodoFiles m' => m' == m
  | .newmsg m' _ _ => m' == m
  | _ => false

theorem handleReport_chan (cfg : Cfg) (s : St) (c : Ch) (rep : Bytes) (m : Nat) (c' : Ch) :
    ((handleReport cfg s c rep).msg m).chan c' = (s.msg m).chan c' := by
  simp only [handleReport]
  repeat' split
  all_goals first
    | rfl
    | (simp only [St.msg, St.upd, tabGet_set]; split <;> first | rfl | (subst_vars; cases c' <;> rfl))

theorem feedReports_chan (cfg : Cfg) (c : Ch) (m : Nat) (c' : Ch) : ∀ (bs : Bytes) (s : St),
    ((feedReports cfg s c bs).msg m).chan c' = (s.msg m).chan c'
  | [], s => rfl
  | b :: bs, s => by
    simp only [feedReports]
    split
    · rw [feedReports_chan cfg c m c' bs, handleReport_chan, msg_setDline]
    · rw [feedReports_chan cfg c m c' bs, msg_setDline]

theorem chan_frame_core (cfg : Cfg) (s s' : St) (e : Ev) (h : acceptCore cfg s e = some s') (m : Nat) (c : Ch)
    (ht : touchesChan m c e = false) : (s'.msg m).chan c = (s.msg m).chan c := by
  cases e
  case rbytes c' bs =>
    simp only [acceptCore] at h
    split at h
    · cases h
    · cases h; rw [feedReports_chan]; rfl
  all_goals (simp only [acceptCore] at h; repeat' split at h)
  all_goals first
    | (cases h; done)
    | (cases h; rfl)
    | (cases h; simp only [St.msg, St.upd, tabGet_set]; split <;> first | rfl | (subst_vars; cases c <;> rfl))
    | (cases h; simp only [St.msg, St.upd, tabGet_set]; split
       · rename_i he; subst he; simp [touchesChan] at ht
       · rfl)
    | (cases h; simp only [St.msg, St.upd, tabGet_set]; split
       · rename_i he; subst he; simp [touchesChan] at ht
         simp only [chan_setChan, chan_setChanSynced]
         rw [if_neg (fun hh => ht hh.symm)]
       · rfl)
    | (cases h; simp only [St.msg, St.upd, tabGet_set]; split
       · rename_i he; subst he; exact chan_setChanSynced _ _ _ _
       · rfl)

/-- frame lemma: an accepted event that does not touch channel file `c` of message `m` leaves it as it is -/
theorem chan_frame (cfg : Cfg) (s s' : St) (e : Ev) (h : accept cfg s e = some s') (m : Nat) (c : Ch)
    (ht : touchesChan m c e = false) : (s'.msg m).chan c = (s.msg m).chan c := by
  rw [chan_frame_core cfg (s.before e) s' e h m c ht, St.before_msg]

theorem getD_append_left' {α : Type} (l l' : List α) (d : α) (n : Nat) (h : n < l.length) : (l ++ l').getD n d = l.getD n d := by
  simp [List.getD, List.getElem?_append_left h]

theorem getD_setDone_mono : ∀ (rs : List Rec) (i j : Nat), (rs.getD j ⟨false, []⟩).done = true →
    ((setDone rs i).getD j ⟨false, []⟩).done = true
  | [], _, _, h => by simp at h
  | r :: rs, 0, 0, _ => by simp [setDone]
  | r :: rs, 0, j + 1, h => by simpa [setDone] using h
  | r :: rs, i + 1, 0, h => by simpa [setDone] using h
  | r :: rs, i + 1, j + 1, h => by
    have := getD_setDone_mono rs i j (by simpa using h)
    simpa [setDone] using this

theorem getD_setDone_self : ∀ (rs : List Rec) (i : Nat), i < rs.length → ((setDone rs i).getD i ⟨false, []⟩).done = true
  | [], _, h => by simp at h
  | r :: rs, 0, _ => by simp [setDone]
  | r :: rs, i + 1, h => by
    have := getD_setDone_self rs i (by simpa using h)
    simpa [setDone] using this

theorem recIndex_lt : ∀ (rs : List Rec) (pos idx : Nat), recIndex rs pos = some idx → idx < rs.length
  | [], _, _, h => by simp [recIndex] at h
  | r :: rs, pos, idx, h => by
    simp only [recIndex] at h
    split at h
    · cases h; simp
    · split at h
      · cases h
      · cases hr : recIndex rs (pos - r.size) with
        | none => simp [hr] at h
        | some k =>
          simp [hr] at h
          have := recIndex_lt rs _ k hr
          subst h; simp; omega

theorem markedDone_of_chan (s s' : St) (x : Nat × Ch × Nat) (h : (s'.msg x.1).chan x.2.1 = (s.msg x.1).chan x.2.1) :
    markedDone s' x = markedDone s x := by
  simp only [markedDone, h]

theorem getD_zip_done : ∀ (rs : List Rec) (marks : List Bool) (i : Nat), marks.length = rs.length → i < rs.length →
    (((List.map (fun (x : Rec × Bool) => match x with | (r, d) => ({ r with done := d } : Rec)) (rs.zip marks)).getD i ⟨false, []⟩).done) = marks.getD i false
  | [], _, _, _, h => by simp at h
  | r :: rs, [], _, h, _ => by simp at h
  | r :: rs, d :: ds, 0, _, _ => by simp
  | r :: rs, d :: ds, i + 1, hl, hi => by
    have := getD_zip_done rs ds i (by simpa using hl) (by simpa using hi)
    simpa using this

theorem markedDone_step_core (cfg : Cfg) (s s' : St) (e : Ev) (h : acceptCore cfg s e = some s') (x : Nat × Ch × Nat)
    (hm : markedDone s x = true) :
    markedDone s' x = true ∨ (∃ marks, e = .crashMarks x.1 x.2.1 marks ∧ marks.getD x.2.2 false = false) ∨
      e = .unlinkChan x.1 x.2.1 ∨ e = .crashTodoFiles x.1 := by
  by_cases ht : touchesChan x.1 x.2.1 e = false
  · left; rw [markedDone_of_chan s s' x (chan_frame_core cfg s s' e h x.1 x.2.1 ht)]; exact hm
  · have ht : touchesChan x.1 x.2.1 e = true := by simpa using ht
    obtain ⟨m, c, i⟩ := x
    simp only at hm ht ⊢
    cases e with
    | unlinkChan m' c' =>
      simp [touchesChan] at ht; right; right; left; rw [ht.1, ht.2]
    | crashMarks m' c' marks =>
      simp [touchesChan] at ht; obtain ⟨h1, h2⟩ := ht; subst h1; subst h2
      cases hk : marks.getD i false with
      | false => right; left; exact ⟨marks, rfl, hk⟩
      | true =>
        -- the record's own byte was kept
        left
        simp only [acceptCore] at h
        split at h
        · cases h
        · rename_i rs hrs
          split at h
          · rename_i hg
            cases h
            simp only [markedDone] at hm ⊢
            rw [hrs] at hm
            simp only [Bool.and_eq_true, decide_eq_true_eq] at hm
            simp only [St.msg, St.upd, tabGet_set, if_true, chan_setChan]
            simp only [Bool.and_eq_true, decide_eq_true_eq, List.length_map, List.length_zip, hg.2.2.2.1, Nat.min_self]
            refine ⟨hm.1, ?_⟩
            have := getD_zip_done rs marks i hg.2.2.2.1 hm.1
            rw [hk] at this; exact this
          · cases h
    | crashTodoFiles m' =>
      simp [touchesChan] at ht; right; right; right; rw [ht]
    | newmsg m' sd rc =>
      simp [touchesChan] at ht; subst ht
      simp only [acceptCore] at h
      split at h
      · rename_i hg
        exfalso
        simp only [markedDone] at hm
        cases c
        · have h6 := hg.2.2.2.2.2.1
          cases hl : (s.msg m').loc with
          | none => simp [MsgSt.chan, hl] at hm
          | some rs => simp [hl] at h6
        · have h7 := hg.2.2.2.2.2.2.1
          cases hl : (s.msg m').rem with
          | none => simp [MsgSt.chan, hl] at hm
          | some rs => simp [hl] at h7
      · cases h
    | creatChan m' c' =>
      simp [touchesChan] at ht; obtain ⟨h1, h2⟩ := ht; subst h1; subst h2
      simp only [acceptCore] at h
      split at h
      · rename_i hg
        exfalso
        simp only [markedDone] at hm
        cases hl : (s.msg m').chan c' with
        | none => simp [hl] at hm
        | some rs => have := hg.2.2; simp [hl] at this
      · cases h
    | writeChan m' c' bs =>
      simp [touchesChan] at ht; obtain ⟨h1, h2⟩ := ht; subst h1; subst h2
      simp only [acceptCore] at h
      split at h
      · rename_i cur rs hcur _
        split at h
        · cases h
          left
          simp only [markedDone] at hm ⊢
          rw [hcur] at hm
          simp only [Bool.and_eq_true, decide_eq_true_eq] at hm
          simp only [St.msg, St.upd, tabGet_set, if_true, chan_setChanSynced, chan_setChan]
          simp only [Bool.and_eq_true, decide_eq_true_eq, List.length_append]
          refine ⟨by omega, ?_⟩
          rw [getD_append_left' _ _ _ _ hm.1]; exact hm.2
        · cases h
      · cases h
    | markD m' c' pos =>
      simp [touchesChan] at ht; obtain ⟨h1, h2⟩ := ht; subst h1; subst h2
      simp only [acceptCore] at h
      split at h
      · cases h
      · split at h
        · cases h
        · rename_i rs hrs
          split at h
          · cases h
          · rename_i idx _
            split at h
            · cases h
              left
              simp only [markedDone] at hm ⊢
              rw [hrs] at hm
              simp only [Bool.and_eq_true, decide_eq_true_eq] at hm
              simp only [St.msg, St.upd, tabGet_set, if_true, chan_setChan]
              simp only [Bool.and_eq_true, decide_eq_true_eq, length_setDone]
              exact ⟨hm.1, getD_setDone_mono rs idx i hm.2⟩
            · cases h
    | _ => simp [touchesChan] at ht

/-- **A completion mark on disk stays** under every accepted event except a machine crash that reverts THIS mark
(`crashMarks` with the record's own byte back to `T`), the removal of the file (`unlinkChan`) and a machine crash that garbles the
files of a message still being preprocessed (`crashTodoFiles`) -/
theorem markedDone_step (cfg : Cfg) (s s' : St) (e : Ev) (h : accept cfg s e = some s') (x : Nat × Ch × Nat)
    (hm : markedDone s x = true) :
    markedDone s' x = true ∨ (∃ marks, e = .crashMarks x.1 x.2.1 marks ∧ marks.getD x.2.2 false = false) ∨
      e = .unlinkChan x.1 x.2.1 ∨ e = .crashTodoFiles x.1 :=
  markedDone_step_core cfg (s.before e) s' e h x
    (by rw [markedDone_of_chan s (s.before e) x (by rw [St.before_msg])]; exact hm)

/-! ### at most once: no further `K` for a finished record without an attempt outstanding -/

theorem layer_refines (cfg : Cfg) (s s' : St2) (e : Ev) (h : accept2 cfg s (.ev e) = some s') :
    accept cfg s.base e = some s'.base := by
  simp only [accept2] at h
  split at h
  · cases h
  · split at h
    · rename_i b hb; cases h; exact hb
    · cases h

theorem inFl_sublist (s s' : St) (x : Nat × Ch × Nat) (h : s'.slots.Sublist s.slots) (hf : inFl s x = false) : inFl s' x = false := by
  cases hh : inFl s' x with
  | false => rfl
  | true =>
    simp only [inFl, inFlight] at hh hf
    obtain ⟨y, hy, hp⟩ := List.any_eq_true.1 hh
    have : (s.slots.any fun y => y.m == x.1 && y.c == x.2.1 && y.idx == x.2.2) = true := List.any_eq_true.2 ⟨y, h.subset hy, hp⟩
    rw [this] at hf; cases hf

theorem handleReport_dcount (cfg : Cfg) (s : St) (c : Ch) (rep : Bytes) (x : Nat × Ch × Nat) (hf : inFl s x = false) :
    dcount (handleReport cfg s c rep) x = dcount s x := by
  simp only [handleReport]
  split
  · rfl
  · rename_i sl hsl
    by_cases h0 : (rep.headD 0).toNat ≥ cfg.conc c
    · rw [if_pos h0]
    · rw [if_neg h0]
      by_cases hK : rep.getD 1 0 = 75
      · rw [if_pos hK]
        simp only [dcount, St.msg, St.upd, tabGet_set]
        split
        · rename_i he
          have hne : ((c, sl.idx) == (x.2.1, x.2.2)) = false := by
            cases hb : ((c, sl.idx) == (x.2.1, x.2.2)) with
            | false => rfl
            | true =>
              exfalso
              have hb' : (c, sl.idx) = (x.2.1, x.2.2) := by simpa using hb
              have h1 : c = x.2.1 := (Prod.mk.inj hb').1
              have h2 : sl.idx = x.2.2 := (Prod.mk.inj hb').2
              have hmem := List.mem_of_find?_eq_some hsl
              have hp := List.find?_some hsl
              simp only [Bool.and_eq_true, beq_iff_eq] at hp
              have : (s.slots.any fun y => y.m == x.1 && y.c == x.2.1 && y.idx == x.2.2) = true :=
                List.any_eq_true.2 ⟨sl, hmem, by simp [he, hp.1, h1.symm, h2]⟩
              simp only [inFl, inFlight] at hf
              rw [this] at hf; cases hf
          simp only [List.count_cons, hne]
          rw [he]; simp
        · rfl
      · rw [if_neg hK]
        repeat' split
        all_goals rfl

theorem feedReports_dcount (cfg : Cfg) (c : Ch) (x : Nat × Ch × Nat) : ∀ (bs : Bytes) (s : St), inFl s x = false →
    dcount (feedReports cfg s c bs) x = dcount s x ∧ inFl (feedReports cfg s c bs) x = false
  | [], s, hf => ⟨rfl, hf⟩
  | b :: bs, s, hf => by
    simp only [feedReports]
    have hf1 : inFl (s.setDline c (reportByte (s.dline c).1 (s.dline c).2 b).1) x = false :=
      inFl_sublist s _ x (by rw [setDline_slots]; exact List.Sublist.refl _) hf
    have hd1 : dcount (s.setDline c (reportByte (s.dline c).1 (s.dline c).2 b).1) x = dcount s x := by
      simp only [dcount, msg_setDline]
    split
    · rename_i rep _
      have hf2 := inFl_sublist _ _ x (handleReport_slots cfg (s.setDline c (reportByte (s.dline c).1 (s.dline c).2 b).1) c rep) hf1
      have ih := feedReports_dcount cfg c x bs _ hf2
      exact ⟨by rw [ih.1, handleReport_dcount cfg _ c rep x hf1, hd1], ih.2⟩
    · have ih := feedReports_dcount cfg c x bs _ hf1
      exact ⟨by rw [ih.1, hd1], ih.2⟩

/-- events that can change the `delivered` history of message `m` -/
def touchesDelivered (m : Nat) : Ev → Bool
  | .rbytes _ _ => true
  | .cUnlinkTodo m' => m' == m
  | .newmsg m' _ _ => m' == m
  | _ => false

theorem delivered_setChan (ms : MsgSt) (c : Ch) (v : Option (List Rec)) : (ms.setChan c v).delivered = ms.delivered := by
  cases c <;> rfl
theorem delivered_setChanSynced (ms : MsgSt) (c : Ch) (v : Bool) : (ms.setChanSynced c v).delivered = ms.delivered := by
  cases c <;> rfl

theorem delivered_frame_core (cfg : Cfg) (s s' : St) (e : Ev) (h : acceptCore cfg s e = some s') (m : Nat)
    (ht : touchesDelivered m e = false) : (s'.msg m).delivered = (s.msg m).delivered := by
  cases e
  case rbytes c' bs => simp [touchesDelivered] at ht
  all_goals (simp only [acceptCore] at h; repeat' split at h)
  all_goals first
    | (cases h; done)
    | (cases h; rfl)
    | (cases h; simp only [St.msg, St.upd, tabGet_set]; split <;> first | rfl | (subst_vars; rfl))
    | (cases h; simp only [St.msg, St.upd, tabGet_set]; split
       · rename_i he; subst he; simp [touchesDelivered] at ht
       · rfl)
    | (cases h; simp only [St.msg, St.upd, tabGet_set]; split
       · simp only [delivered_setChan, delivered_setChanSynced]; subst_vars; rfl
       · rfl)

theorem delivered_frame (cfg : Cfg) (s s' : St) (e : Ev) (h : accept cfg s e = some s') (m : Nat)
    (ht : touchesDelivered m e = false) : (s'.msg m).delivered = (s.msg m).delivered := by
  rw [delivered_frame_core cfg (s.before e) s' e h m ht, St.before_msg]

theorem inFl_of_slots (s s' : St) (x : Nat × Ch × Nat) (h : s'.slots = s.slots) : inFl s' x = inFl s x := by
  simp only [inFl, inFlight, h]

theorem once_step (cfg : Cfg) (s s' : St2) (e : Ev2) (h : accept2 cfg s e = some s') (x : Nat × Ch × Nat)
    (hf : inFl s.base x = false) (hnc : cmdFor s x e = false) (hne : excuse s x e = false) :
    inFl s'.base x = false ∧ dcount s'.base x = dcount s.base x := by
  cases e with
  | markFail m c pos =>
    simp only [accept2] at h
    split at h
    · split at h
      · cases h; exact ⟨hf, rfl⟩
      · cases h
    · cases h
  | cleanRestart =>
    simp only [accept2, accept_restart] at h
    split at h
    · cases h; exact ⟨by simp [inFl, inFlight, St.calm], rfl⟩
    · cases h
  | ev e0 =>
    obtain ⟨sb, so⟩ := s'
    have hb : accept cfg s.base e0 = some sb := layer_refines cfg s _ e0 h
    show inFl sb x = false ∧ dcount sb x = dcount s.base x
    by_cases h1 : ∃ c d m p r, e0 = .cmd c d m p r
    · obtain ⟨c, d, m, p, r, rfl⟩ := h1
      have hd : dcount sb x = dcount s.base x := by
        simp only [dcount]; rw [delivered_frame cfg s.base sb _ hb x.1 (by simp [touchesDelivered])]
      refine ⟨?_, hd⟩
      change acceptCore cfg s.base.calm _ = _ at hb
      simp only [acceptCore] at hb
      split at hb
      · cases hb
      · split at hb
        · cases hb
        · rename_i rs hch
          split at hb
          · cases hb
          · rename_i idx hidx
            split at hb
            · cases hb
              have hch : (s.base.msg m).chan c = some rs := hch
              have hr : recAt s.base m c p = some idx := by simp [recAt, hch, hidx]
              simp only [cmdFor, hr] at hnc
              simp only [inFl, inFlight, List.any_cons, St.calm_slots] at hf ⊢
              rw [hf, Bool.or_false]
              cases hq : (m == x.1 && c == x.2.1 && idx == x.2.2) with
              | false => rfl
              | true =>
                simp only [Bool.and_eq_true, beq_iff_eq] at hq
                rw [hq.1.1, hq.1.2, hq.2] at hnc
                simp at hnc
            · cases hb
    · by_cases h2 : ∃ c bs, e0 = .rbytes c bs
      · obtain ⟨c, bs, rfl⟩ := h2
        change acceptCore cfg s.base.calm _ = _ at hb
        simp only [acceptCore] at hb
        split at hb
        · cases hb
        · cases hb
          have := feedReports_dcount cfg c x bs { s.base.calm with mayMark := [], notes := [] } hf
          exact ⟨this.2, this.1⟩
      · by_cases h3 : e0 = .restart
        · subst h3
          simp only [accept_restart] at hb
          cases hb
          exact ⟨by simp [inFl, inFlight], rfl⟩
        · have hs := slots_unchanged cfg s.base sb e0 hb (fun c d m p r he => h1 ⟨c, d, m, p, r, he⟩) (fun c bs he => h2 ⟨c, bs, he⟩) h3
          refine ⟨by rw [inFl_of_slots _ _ x hs]; exact hf, ?_⟩
          simp only [dcount]
          rw [delivered_frame cfg s.base sb e0 hb x.1 ?_]
          cases e0 with
          | rbytes c bs => exact absurd ⟨c, bs, rfl⟩ h2
          | cUnlinkTodo m => simpa [touchesDelivered, excuse] using hne
          | newmsg m sd rc => simpa [touchesDelivered, excuse] using hne
          | _ => rfl

theorem nodup_map_inj {α β : Type} (f : α → β) : ∀ (l : List α), (l.map f).Nodup → ∀ a ∈ l, ∀ b ∈ l, f a = f b → a = b
  | [], _, a, ha, _, _, _ => by simp at ha
  | x :: xs, hn, a, ha, b, hb, hab => by
    simp only [List.map_cons, List.nodup_cons] at hn
    rcases List.mem_cons.1 ha with rfl | ha'
    · rcases List.mem_cons.1 hb with rfl | hb'
      · rfl
      · exact absurd (List.mem_map.2 ⟨b, hb', hab.symm⟩) hn.1
    · rcases List.mem_cons.1 hb with rfl | hb'
      · exact absurd (List.mem_map.2 ⟨a, ha', hab⟩) hn.1
      · exact nodup_map_inj f xs hn.2 a ha' b hb' hab

/-- a report that adds a `K` for record `x` frees the (only) slot of `x` -/
theorem handleReport_newK (cfg : Cfg) (s : St) (c : Ch) (rep : Bytes) (x : Nat × Ch × Nat)
    (hu : (s.slots.map fun y => (y.m, y.c, y.idx)).Nodup)
    (hgt : dcount (handleReport cfg s c rep) x > dcount s x) : inFl (handleReport cfg s c rep) x = false := by
  simp only [handleReport] at hgt ⊢
  split at hgt
  · omega
  · rename_i sl hsl
    by_cases h0 : (rep.headD 0).toNat ≥ cfg.conc c
    · rw [if_pos h0] at hgt; omega
    · rw [if_neg h0] at hgt ⊢
      by_cases hK : rep.getD 1 0 = 75
      · rw [if_pos hK] at hgt ⊢
        have hmem := List.mem_of_find?_eq_some hsl
        have hp := List.find?_some hsl
        -- which record got the K
        have hx : x.1 = sl.m ∧ (c, sl.idx) = (x.2.1, x.2.2) := by
          simp only [dcount, St.msg, St.upd, tabGet_set] at hgt
          split at hgt
          · rename_i he
            refine ⟨he, ?_⟩
            cases hb : ((c, sl.idx) == (x.2.1, x.2.2)) with
            | true => simpa using hb
            | false =>
              exfalso
              simp only [List.count_cons, hb] at hgt
              rw [he] at hgt; simp at hgt
          · exact absurd hgt (Nat.lt_irrefl _)
        cases hh : inFl _ x with
        | false => rfl
        | true =>
          exfalso
          simp only [inFl, inFlight] at hh
          obtain ⟨y, hy, hyp⟩ := List.any_eq_true.1 hh
          have hy' := List.mem_filter.1 hy
          simp only [Bool.and_eq_true, beq_iff_eq] at hyp
          have h1 : c = x.2.1 := (Prod.mk.inj hx.2).1
          have h2 : sl.idx = x.2.2 := (Prod.mk.inj hx.2).2
          simp only [Bool.and_eq_true, beq_iff_eq] at hp
          have heq : y = sl := nodup_map_inj (fun y : Slot => (y.m, y.c, y.idx)) s.slots hu y hy'.1 sl hmem
            (by simp [hyp.1.1, hyp.1.2, hyp.2, hx.1, hp.1, h1, h2])
          have := hy'.2
          rw [heq] at this
          simp [hp.1, hp.2] at this
      · rw [if_neg hK] at hgt
        exfalso
        revert hgt
        repeat' split
        all_goals (intro hgt; exact absurd hgt (Nat.lt_irrefl _))

theorem feedReports_newK (cfg : Cfg) (c : Ch) (x : Nat × Ch × Nat) (n : Nat) : ∀ (bs : Bytes) (s : St),
    (s.slots.map fun y => (y.m, y.c, y.idx)).Nodup → (dcount s x > n → inFl s x = false) →
    dcount (feedReports cfg s c bs) x > n → inFl (feedReports cfg s c bs) x = false
  | [], s, _, h0, hgt => h0 hgt
  | b :: bs, s, hu, h0, hgt => by
    simp only [feedReports] at hgt ⊢
    have hu1 : ((s.setDline c (reportByte (s.dline c).1 (s.dline c).2 b).1).slots.map fun y => (y.m, y.c, y.idx)).Nodup := by
      rw [setDline_slots]; exact hu
    have hd1 : dcount (s.setDline c (reportByte (s.dline c).1 (s.dline c).2 b).1) x = dcount s x := by
      simp only [dcount, msg_setDline]
    have h1 : dcount (s.setDline c (reportByte (s.dline c).1 (s.dline c).2 b).1) x > n →
        inFl (s.setDline c (reportByte (s.dline c).1 (s.dline c).2 b).1) x = false := by
      intro hh; rw [hd1] at hh
      exact inFl_sublist s _ x (by rw [setDline_slots]; exact List.Sublist.refl _) (h0 hh)
    split at hgt
    · rename_i rep hrep
      have hsub := handleReport_slots cfg (s.setDline c (reportByte (s.dline c).1 (s.dline c).2 b).1) c rep
      refine feedReports_newK cfg c x n bs _ ((hsub.map _).nodup hu1) ?_ hgt
      intro hh
      by_cases hstep : dcount (handleReport cfg (s.setDline c (reportByte (s.dline c).1 (s.dline c).2 b).1) c rep) x >
          dcount (s.setDline c (reportByte (s.dline c).1 (s.dline c).2 b).1) x
      · exact handleReport_newK cfg _ c rep x hu1 hstep
      · exact inFl_sublist _ _ x hsub (h1 (by omega))
    · rename_i hrep
      exact feedReports_newK cfg c x n bs _ hu1 h1 hgt

end Nq.Lemmas.DO
